#!/bin/bash
# tools/seedrun.sh <seed-src-dir (with patch.diff, DEMO_PATH.txt, demo file)> <dest-id e.g. C01-1> <check ids...>
# Confirms a seeded defect in a scratch copy of /repo (demo passes without, fails with the change, the
# touched packages' own tests still pass) and runs the given checks against the mutated copy.
set -u
SRC="$1"; DEST="$2"; shift 2
export GOFLAGS=-mod=mod GOPROXY=off GOSUMDB=off GOTOOLCHAIN=local
W=/tmp/seedrun-$DEST
rm -rf "$W"; rsync -a --exclude .git /repo/ "$W/"
DEMO_REL="$(tr -d '\n' < "$SRC/DEMO_PATH.txt")"
DEMO_FILE="$(ls "$SRC"/*_test.go | head -1)"
PKG="./$(dirname "$DEMO_REL")/"
OUT=/verif/seeded/$DEST; mkdir -p "$OUT"
cp "$SRC/patch.diff" "$OUT/patch.diff"; cp "$DEMO_FILE" "$OUT/$(basename "$DEMO_REL")"; cp "$SRC/DEMO_PATH.txt" "$OUT/"; if [ ! -f "$SRC/author_meta.json" ]; then cp "$SRC/meta.json" "$OUT/author_meta.json" 2>/dev/null; fi
RUNPAT="$(grep -o 'func Test[A-Za-z0-9_]*' "$DEMO_FILE" | sed 's/func //' | paste -sd'|')"
cp "$DEMO_FILE" "$W/$DEMO_REL"
( cd "$W" && go test -vet=off -count=1 -run "^($RUNPAT)\$" "$PKG" ) > "$OUT/demo_without_change.log" 2>&1; r0=$?
if ! ( cd "$W" && patch -p1 --no-backup-if-mismatch < "$SRC/patch.diff" ) > "$OUT/apply.log" 2>&1; then echo "PATCH DOES NOT APPLY"; cat "$OUT/apply.log"; exit 3; fi
( cd "$W" && go build ./... ) > "$OUT/build.log" 2>&1; rb=$?
( cd "$W" && go test -vet=off -count=1 -run "^($RUNPAT)\$" "$PKG" ) > "$OUT/demo_with_change.log" 2>&1; r1=$?
rm -f "$W/$DEMO_REL"
TOUCHED="$(grep '^+++ b/' "$SRC/patch.diff" | sed 's#+++ b/##' | xargs -n1 dirname | sort -u | sed 's#^#./#; s#$#/#' | paste -sd' ')"
( cd "$W" && go test -vet=off -count=1 $TOUCHED ) > "$OUT/existing_tests_with_change.log" 2>&1; rt=$?
echo "demo without change rc=$r0 (want 0); build rc=$rb (want 0); demo with change rc=$r1 (want !=0); existing tests rc=$rt (want 0)"
RES=""
for id in "$@"; do
  VERIF_EVIDENCE_DIR=/tmp/seedrun-evidence VERIF_REPLAY_DIR=/tmp/seedrun-replays VERIF_REPO="$W" /verif/check "$id" quick > "$OUT/check_$id.log" 2>&1; rc=$?
  keys="$(grep -o 'violation key=[^ ]*' "$OUT/check_$id.log" | sed 's/violation key=//' | paste -sd',')"
  echo "check $id rc=$rc keys=$keys"
  RES="$RES{\"check\":\"$id\",\"exit\":$rc,\"keys\":\"$keys\"},"
done
cat > "$OUT/run.json" <<EOT
{"demo_without_change_rc": $r0, "build_rc": $rb, "demo_with_change_rc": $r1, "existing_tests_with_change_rc": $rt, "checks": [${RES%,}],
 "how": "scratch copy of /repo (rsync) + patch -p1; checks run with VERIF_REPO=<copy> ./check <id> quick (equivalent to git -C /repo apply; /repo itself is never modified while other work reads it)"}
EOT
h="$(echo "$W" | md5sum | cut -c1-8)"
rm -rf "$W" /verif/harness/bin/*-alt-$h /verif/harness/.alt-$h.* 2>/dev/null
