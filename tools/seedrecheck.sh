#!/bin/bash
# tools/seedrecheck.sh [id-n ...]  - re-run the property's quick check against every stored seeded
# defect (scratch copy of /repo + patch) and print one line per seed; used after checks changed.
set -u
export GOFLAGS=-mod=mod GOPROXY=off GOSUMDB=off GOTOOLCHAIN=local
cd /verif
LIST="${*:-$(ls seeded)}"
miss=0
for d in $LIST; do
  id="${d%%-*}"
  W=/tmp/seedrecheck-$d
  rm -rf "$W"; rsync -a --exclude .git /repo/ "$W/"
  if ! ( cd "$W" && patch -p1 --no-backup-if-mismatch < /verif/seeded/$d/patch.diff ) >/dev/null 2>&1; then echo "$d PATCH-FAILS"; rm -rf "$W"; continue; fi
  VERIF_EVIDENCE_DIR=/tmp/seedrun-evidence VERIF_REPLAY_DIR=/tmp/seedrun-replays VERIF_REPO="$W" ./check "$id" quick > /tmp/seedrecheck-$d.log 2>&1; rc=$?
  keys="$(grep -o 'violation key=[^ ]*' /tmp/seedrecheck-$d.log | sed 's/violation key=//' | sort -u | head -4 | paste -sd',')"
  if [ $rc -eq 1 ]; then echo "$d caught $keys"; else echo "$d MISSED rc=$rc"; miss=$((miss+1)); fi
  printf '{"check":"%s","tier":"quick","exit":%d,"keys":"%s"}\n' "$id" "$rc" "$keys" > /verif/seeded/$d/recheck.json
  h="$(echo "$W" | md5sum | cut -c1-8)"
  rm -rf "$W" /tmp/seedrecheck-$d.log /verif/harness/bin/*-alt-$h /verif/harness/.alt-$h.* 2>/dev/null
done
echo "missed=$miss"
