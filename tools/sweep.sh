#!/bin/bash
# tools/sweep.sh <tier> <seeds...> : runs every registered check at the given seeds, prints one line per run
tier="$1"; shift
cd "$(dirname "$0")/.."
for s in "$@"; do
  for id in $(jq -r '.checks[].property_id' MANIFEST.json); do
    start=$(date +%s)
    out=$(VERIF_SEED=$s VERIF_EVIDENCE_DIR=/tmp/sweep-evidence ./check $id $tier 2>&1); rc=$?
    echo "seed=$s $id rc=$rc $(( $(date +%s)-start ))s $(echo "$out" | grep -E '^SUMMARY' | sed 's/SUMMARY //' | cut -c1-150)"
    if [ $rc -ne 0 ]; then echo "$out" | grep -E "violation key|INCONCLUSIVE" | cut -c1-300; fi
  done
done
