#!/usr/bin/env python3
"""Regenerates /verif/MANIFEST.json from the table below. A property whose check is not
listed in READY stays under not_applicable with the reason given."""
import json, os, sys

ROOT = os.path.dirname(os.path.dirname(os.path.abspath(__file__)))
ids = [json.loads(l)["id"] for l in open(os.path.join(ROOT, "properties.jsonl"))]

SIM = "sim (simulated API server: real k8s managedfields/json-patch libraries, documented apiserver rules pinned by sim self-tests)"

CHECKS = {
 "C01": dict(cat="fault_enumeration",
   text="Real XR reconciler (production wiring, both composers) over the simulated API server: for fixed scenario shapes every API-call index of every reconcile x 6 fault outcomes (incl. crash after the write took effect), then fault-free retries to quiescence; invariants checked by a post-write hook on every intermediate store state. Held on the executions produced, not a proof. Scenario shapes include desired names changing apiVersion between phases and P&T Compositions that lose and regain named templates (new revision followed by the XR).",
   note="Trusted: " + SIM + "; scripted functions served over real gRPC; single XR; in provider scenarios composed resources carry a finalizer released one step after deletion.",
   technique="runtime monitoring: post-write invariant hook + fault enumeration over API-call indices", ref="3/C01"),
 "C02": dict(cat="exploration",
   text="For every write site named by the property (definition/offered CRDs, package-manager revision, active-revision establisher, RBAC provider roles / binding / XRD roles, XR composer with a function-chosen name, XR connection secret, composed resources re-parented after composition - both composers) a probe run records what the real controller creates; then an object of that kind and name is planted under a foreign controller reference (or uncontrolled) in a fresh world and the controller runs again. Oracle: foreign object byte-identical (same resourceVersion), no effective write in the log, conflict surfaced (error, Warning event or Synced=False). Planted variants: foreign controller, look-alike foreign controller, foreign controller with the legitimate owner demoted to a plain owner, bare unrelated object, uncontrolled; each followed by a phase in which the legitimate owner is deleted; P&T named (patched metadata.name) and anonymous templates.",
   note="Trusted: " + SIM + " incl. the two-controller 422 the SSA composer relies on; the probe run defines the set of objects per site; claim connection secret placements are covered by C09.",
   technique="runtime monitoring: probe-and-plant differential runs with store diff and write-log oracle", ref="3/C02"),
 "C03": dict(cat="exploration",
   text="Real XR reconciler (production wiring) over the simulated API server: generated 1-4 step pipelines of scripted gRPC functions (errors, fatal results, requirements that never stabilise) after an initial composition and a perturbed observed state; oracle over the write log: failing pipelines write nothing on composed kinds and leave resourceRefs untouched, successful ones delete exactly observed-minus-desired (reference fold of the scripted steps); P&T template loss/rename likewise. Held on the generated cases.",
   note="Trusted: " + SIM + "; the reference fold of scripted step add/del sets; requirement rounds scripted per reconcile.",
   technique="runtime monitoring: write-log oracle (set equation deleted == observed minus desired) over generated pipelines", ref="3/C03"),
 "C12": dict(cat="fault_enumeration",
   text="Real Composition revision controller over sim driven through edit histories (reverts, label/annotation-only edits, stripped owner references, delete-and-restore, foreign revisions): for 17 fixed histories plus seeded random ones, every API-call index of every reconcile x 6 fault outcomes, retries, then the rest of the history; a post-write hook judges spec immutability, number monotonicity and uniqueness per content on every store state; exactly-one / highest-number after every completed fault-free reconcile; the real APIRevisionFetcher for Manual/Automatic(+selector) XRs against the revisions actually produced. A further XR has its update policy and revision selector edited by the user between steps; its reference must follow (to a lower-numbered revision too).",
   note="Trusted: " + SIM + "; content identity is the generator's content index; the XR side calls Fetch directly, not the whole XR reconciler.",
   technique="runtime monitoring: post-write invariant hook + fault enumeration over edit histories", ref="3/C12"),
 "C13": dict(cat="exploration",
   text="Real ControllerEngine, StoppableSource, InformerTrackingCache and watch GarbageCollector with fakes only at the edges: (a) thousands of short concurrent histories from 16-64 goroutines under the Go race detector, call/return recorded at the caller, checked for linearizability per controller with porcupine (timeouts resolved only towards 'held' by an exact sweep for the boolean model) and for registration invariants at quiescence, deadlock watchdog with goroutine-dump classification; (b) deterministic forced windows inside StartWatches through a parking ActiveInformers(); (c) the collector over generated XR/watch sets; (d) re-establishment after informer removal. Race reports touching crossplane frames are violations. (e) informer faults during Stop: a controller reported as not running has a cancelled context and no live handler, and a retried Stop gets there.",
   note="Trusted: the fake informers' registration tracking; schedules under stress are not reproducible (replays regenerate the operations, not the interleaving); a clean race-detector run covers only the interleavings produced.",
   technique="runtime monitoring: Go race detector + porcupine linearizability checking of recorded histories + quiescence invariants + forced interleaving windows", ref="3/C13"),
 "C14": dict(cat="fault_enumeration",
   text="Real package manager reconciler + real PackageRevisioner over sim and a fake registry, driven through edit histories (source changes incl. rollbacks, history limit incl. 0 and lowering, activation policy, pull policies, digest changes behind a tag, revision health changes) for Provider/Configuration/Function: every API-call index x 6 fault outcomes on base histories (sampled positions on random ones), retries to quiescence; a post-write hook checks <=1 Active revision on every state produced by a Crossplane write and judges every Delete (never the current revision, only the oldest, only above the limit, never with limit 0); after each completed reconcile the current digest's revision exists, has the highest number and is Active unless Manual. Some histories run with the revision controller's finalizer on revisions, so user-deleted revisions linger in Terminating state.",
   note="Trusted: " + SIM + "; the fake Fetcher; revisions are bound to the digest the registry answered at creation; user-produced double-Active states are not judged.",
   technique="runtime monitoring: post-write invariant hook + fault enumeration over package edit histories", ref="3/C14"),
 "C15": dict(cat="exploration",
   text="Real revision reconciler with the real parser, per-type linters, ImageBackend, FsPackageCache (over a fault-injecting filesystem), signature reconciler (scripted validator) and xpkg builder; fake registry serving in-memory images in 11 layouts; recording establisher. Generated package streams (allowed / disallowed kinds, 0/1/2 meta objects, wrong meta kind, Crossplane constraints met / unmet / malformed +- ignore flag), cache cold / warm / truncated / corrupt / store failing at byte N / source failing at byte N / two revisions sharing a cache from two goroutines, signature gate; oracles: established set == the image's package stream whether from registry or cache and after failed cache writes; invalid packages never reach the establisher; build -> parse round trip. Signature reconciles also run with one failing API call (plain API errors and discovery-layer errors: kind not served, 503, 404).",
   note="Trusted: golden/allowed_kinds.json (transcribed from contributing/specifications/xpkg.md), the harness's image builder and canonical object comparison; the running Crossplane version is injected by setting version.New()'s private field.",
   technique="runtime monitoring: established-set equality oracle over generated images with cache and stream fault injection", ref="3/C15"),
 "C16": dict(cat="exploration",
   text="Real APIEstablisher (driven the way the revision reconciler drives it) and the full real revision reconciler over sim: generated object sets against pre-existing objects (absent, uncontrolled, controlled by the previous revision, by another package, by a foreign owner, admission-rejected), upgrade and rollback sequences of active and inactive revisions in every step order with the GC actor after every step, and an API error at every call index of Establish / ReleaseObjects followed by a clean retry; a post-write hook and post-call oracles check all-or-nothing for un-takeable objects, creates only by active revisions, controller only via control=true, ownership kept after release, package as non-controlling owner, no package object collected by the GC during an upgrade. Also: a third party deletes one of the revision's objects right before call k of an Establish, for every k; upgrade, rollback and roll-forward phases.",
   note="Trusted: " + SIM + " incl. dry-run and the GC actor; refusals are predicted from the store state before the call; partial writes caused by an injected API error mid-establish are not judged by the all-or-nothing clause.",
   technique="runtime monitoring: post-write ownership invariants + write-log (dry-run vs real) oracle + fault enumeration", ref="3/C16"),
 "C17": dict(cat="exploration",
   text="Real MapDag/MapUpgradingDag (Init/Sort/TraceNode) on ALL digraphs over <=3 (quick) / <=4 (thorough) ids incl. self-loops and implied nodes plus random larger graphs, compared with an independent reference digraph; real resolver reconciler (3 modes: plain, upgrades, upgrades+downgrades) over sim with a fake tag fetcher against a reference version selector; real PackageDependencyManager.Resolve against a reference closure. Exhaustive for the small digraph space, sampled beyond. Package metadata may list the same dependency more than once with different constraints.",
   note="Trusted: Masterminds/semver Constraints.Check/Compare as the primitive; reference digraph (Kahn), sim. Panicking reconciles (semver.MustParse on digests) are judged like error returns.",
   technique="runtime monitoring: exhaustive small-graph enumeration + generated inputs against reference implementations", ref="3/C17"),
 "C18": dict(cat="exploration",
   text="Real ClusterRoleBackedValidator/Expand checked against an independent Kubernetes RuleAllows evaluator on the complete universe of concrete requests per (allow-list, request) pair (complete grid of single-token rules + generated pairs); real roles/definition/binding reconcilers over sim: any rejected request => no role write; system role rules bounded by owned/family CRDs + golden baseline + accepted requests; XRD roles name exactly the XRD's resources. Held on the generated inputs; exhaustive only for the single-token rule grid. Part 5: two revisions reconciled by one reconciler with A parked before every API call / inside the validator while B completes; the roles must equal those of the sequential run on a copy of the cluster.",
   note="Trusted: the concrete-request evaluator (pinned by c18/oracle_test.go), golden/rbac_baseline.json, the independent image-reference parser; literal '*' resourceNames are not generated (documented quirk).",
   technique="runtime monitoring: differential check against a reference RBAC evaluator with per-pair exhaustive small-model enumeration", ref="3/C18"),
 "C04": dict(cat="exploration",
   text="Generated pipelines of deterministic function programs behind real gRPC servers (one per function revision, some v1beta1-only) driven by the real FunctionComposer -> FetchingFunctionRunner -> PackagedFunctionRunner chain inside the real XR reconciler; a reference interpreter (contract from the statement + the same programs + the store snapshot at pipeline start) predicts every RunFunctionRequest of later reconciles, compared with proto.Equal; also routing to the active revision after flips/endpoint moves, applied set = last output, results/conditions surfaced in order, connection closed after uninstall. Also: a fatal result in the last step must not degrade conditions asserted in that reconcile; a function uninstalled, collected and installed again must be reached; concurrent stress of PackagedFunctionRunner (race detector in the thorough tier).",
   note="Trusted: the reference interpreter (threading, requirement rounds, observed-state construction written from the statement); " + SIM + "; the first reconcile of an XR is not judged.",
   technique="runtime monitoring: recorded gRPC requests against a reference interpreter of generated programs", ref="3/C04"),
 "C05": dict(cat="exploration",
   text="Full product (1..3 resources) of per-resource outcomes x explicit XR readiness x function conditions (incl. forged system types) x fatal variants through the real XR reconciler in Pipeline mode, full product of {ready, unready, invalid apply, render failure} in P&T mode, and claim reconciles (both syncers, fresh and stale XR reads) over scripted XR Ready sequences; stored status.conditions checked against one-directional implications from the statement. Exhaustive for the stated small sizes, sampled for claim sequences. P&T readiness is driven by lists of 1-3 checks of all seven types with a known verdict.",
   note="Trusted: " + SIM + "; scripted admission returns 422 for one kind; functions are scripted gRPC servers.",
   technique="runtime monitoring: enumerated outcome product against implication oracles on stored conditions", ref="3/C05"),
 "C06": dict(cat="fault_enumeration",
   text="Production-wired claim reconciler (captured from the real offered reconciler; CSA and SSA syncers) over sim: every API-call index of every claim reconcile x 6 fault outcomes + retries; claim reads served from a cache lagging 1..12 writes; seeded interleavings and an enumerated grid of bounded-preemption plans at API-call granularity with the XR reconciler, a same-named claim in another namespace and user deletion; a cache serving exactly one stale claim read; statically referenced foreign-bound XRs. Invariants (<=1 XR per claim, XR created only under the name already stored on the claim, no write to a foreign-bound XR) checked by a post-write hook on every store state. Also: a recorded XR name is never replaced (O4), the XR cache alone lagging, and every call index x 6 outcomes on the refused reconcile of a claim referencing an XR bound to another claim.",
   note="Trusted: " + SIM + " incl. resourceVersion conflicts and the lagging-reader view; never two concurrent reconciles of one claim; random-suffix name collisions out of scope.",
   technique="runtime monitoring: post-write invariant hook + fault enumeration + scheduled interleavings", ref="3/C06"),
 "C07": dict(cat="exploration",
   text="Production-wired claim reconciler (both syncers) syncs thousands of generated claims and XR pre-states twice (first sync, re-sync after a user edit and an XR status change) over sim; the stored XR and claim are compared field by field with a partition written from the property statement (claim->XR, never claim->XR, preserved on XR, XR->claim, never XR->claim). CSA merge-back of XR spec fields into the claim is recorded as known findings; everything else must be silent.",
   note="Trusted: the partition table in c07/main.go (written from the statement), sim SSA via k8s managedfields; the XRD preserves unknown fields so no pruning model is needed; removal of fields deleted on the other side is not required (superset semantics for nested maps).",
   technique="runtime monitoring: generated object pairs against a reference field partition", ref="3/C07"),
 "C08": dict(cat="exploration",
   text="Real definition and offered reconcilers with a capturing engine (the XR and claim reconcilers are the production-wired ones and reconcile only while the engine says their controller runs), interleaved at API-call granularity by a seeded scheduler with user deletions (claim, XR, XRD with foreground/background propagation), the Kubernetes garbage collector and CRD cleanup as explicit actors, a third party stripping finalizers and an injected API error, plus ~3000 enumerated bounded-preemption plans (victim controller preempted twice by intruders); part B: the real revision reconciler's deletion branch with the real PackageDependencyManager over a Lock (every call index x 6 outcomes, concurrent deletions); precedence monitors on every event of the single ordered trace (claim finalizer after XR delete, CRD delete after instances gone and controller stopped, Stop after instances gone, XRD finalizers after CRD gone, nothing terminating left with a stopped controller, revision finalizer removed only when the Lock no longer lists it). Part C: XRD teardown against the REAL ControllerEngine over fake informers whose handler removal fails transiently (Stop marks are ground truth: context cancelled and no handler left). Part D: the real usage reconciler on a composed Usage with user deletions (fore/background), a provider finalizer, a lingering dependent and single GC steps; the Usage finalizer is removed only after the using resource is gone.",
   note="Trusted: " + SIM + " incl. the modelled CRD cleanup finalizer and GC foreground/background semantics; a stopped controller reconciles nothing; schedules are seeded random walks, not exhaustive.",
   technique="runtime monitoring: online precedence monitors over a scheduled multi-controller trace", ref="3/C08"),
 "C09": dict(cat="exploration",
   text="Generated connection-detail maps, XRD key filters, extraction configs and pre-existing secrets (absent, uncontrolled typed/untyped, owner-controlled, foreign-controlled, controller tampered before the claim copies) run through the real XR reconciler (both composers) and the production-wired claim reconciler (both syncers) over sim; oracle over the stored Secrets and every write addressed to a Secret (filter, provenance against a reference extraction, only-if-requested, exact copy only from a secret controlled by the bound XR, no rewrite of identical data). Provenance cases: XR details derived from composed resources' connection secrets while a referenced resource is re-parented or recreated by another owner behind a lagging cache; that owner's values never reach the XR or claim secret.",
   note="Trusted: " + SIM + "; the reference extraction (from the ConnectionDetail API docs); 'identical data never rewritten' is judged on requests only when the stored data equals exactly what would be published.",
   technique="runtime monitoring: store/write-log oracle over generated secrets and ownership placements", ref="3/C09"),
 "C10": dict(cat="exploration",
   text="Real P&T Apply/Resolve/Render entry points and the real PTComposer (over sim) run on hundreds of thousands of generated JSON values, patches, wildcard paths and transform chains in child processes (so that a Go fatal error becomes a witness instead of killing the monitor); oracles: no panic / fatal error, source object unchanged, two evaluations agree, optional-missing is a no-op, required-missing errors, unrendered templates are never written while the others are, and transform results agree with an independent reference implementation of the documented meaning.",
   note="Trusted: the reference transforms in c10/ref.go (written from the API documentation); behaviours the docs leave open (merge options, lenient number syntaxes, int64 overflow) are exercised for totality/purity only.",
   technique="runtime monitoring: generated inputs against a reference oracle, crash-isolating child processes", ref="3/C10"),
 "C11": dict(cat="exploration",
   text="Real xcrd.ForCompositeResource/ForCompositeResourceClaim, XRD Validate/ValidateUpdate and the real XRD admission webhook (over sim) run on thousands of generated XRDs and (old,new) pairs; outputs compared with an independent oracle and golden machinery schemas. Held on the generated inputs. Controller stream: one long-lived pair of real definition/offered reconcilers over a history of one XRD name (created, edited in place, deleted, created again); the stored CRDs go through the same oracle.",
   note="Trusted: golden/machinery_*.json (reviewed dump of the machinery schema); the generator's schema grammar; sim accepts any CRD body on dry-run so webhook denials come only from Crossplane's validation.",
   technique="runtime monitoring: generated inputs against a reference oracle + golden machinery schema", ref="3/C11"),
 "C19": dict(cat="exploration",
   text="The real usage webhook handler (registered through the fake manager, invoked over its HTTP interface with AdmissionReview requests built from the rules and objectSelector parsed from cluster/webhookconfigurations/usage.yaml) and the real usage reconciler over sim: 16 fixed scenarios with a fault at every call of every usage reconcile (x6 outcomes) and of every webhook invocation (x4), exhaustive two-party preemption enumeration (every split of A and B at API-call granularity) for 11 races, and seeded random schedules with users creating/deleting Usages and resources (every propagation policy, a second served version), the GC actor and faults; oracles on every store state and every DELETE attempt (refused iff a Ready non-deleting Usage names it, attempt recorded, label before Ready, label removed only by the last Usage, owner reference to the using resource and release after the user is gone). All fixed scenarios are repeated with the used/using kind in the core API group (apiVersion without a slash).",
   note="Trusted: " + SIM + "; the admission wiring built from usage.yaml; usage controller reads are modelled as fresh; replayDeletion (background goroutine with a sleep) is excluded.",
   technique="runtime monitoring: admission-response and store oracles over enumerated preemptions, fault enumeration and scheduled interleavings", ref="3/C19"),
 "C20": dict(cat="fault_enumeration",
   text="The init step list of cmd/crossplane/core/init.go rebuilt from the exported constructors over sim and the repository's CRD / webhook yaml: 10 initial stores (empty, partially / fully initialised, secrets with keys missing, stale CA bundles, user-edited defaults, packages pre-installed under custom names in every reference form), runs 1..3, and an API error (500, timeout, applied-but-504) at every call index of a run (sampled in quick) followed by a clean rerun, plus two initialisers racing (enumerated preemption plans, failed ones restarted); oracles: run n == run 1, key material never regenerated, issued certificates verify against the stored CA and cover the service DNS names, <=1 package per image repository, defaults untouched, every webhook-conversion CRD and webhook configuration carries the current CA bundle.",
   note="Trusted: " + SIM + "; the harness's own image-reference parser and x509 verification; one synthetic webhook-conversion CRD is added to exercise CA injection.",
   technique="runtime monitoring: state-equality and x509 oracles over repeated and aborted init runs (fault enumeration over API-call indices)", ref="3/C20"),
}

READY = [k for k in CHECKS if os.path.isdir(os.path.join(ROOT, "harness", k.lower()))]
REASONS = {}

m = {
 "version": 1,
 "setup_cmd": "./check --setup",
 "hooks": {
  "guard": "verif",
  "enable": "go build -tags verif (harness module /verif/harness replaces github.com/crossplane/crossplane by /repo); no hook commits in /repo are needed: all observation points are existing seams",
  "baseline_off_cmd": json.load(open("/root/.vp/BASELINE.json"))["cmd"] if os.path.exists("/root/.vp/BASELINE.json") else "cd /repo && go test -mod=mod -json -vet=off -count=1 -timeout 25m ./...",
  "source_commits": [],
  "add_only": True,
 },
 "engines": [
  {"name": "sim", "path": "harness/sim", "serves_properties": READY, "kind_free_text": "simulated Kubernetes API server with write log, post-write hooks, fault injector, actor scheduler"},
 ],
 "checks": [],
 "not_applicable": [],
 "notes": "Runtime monitoring of the real code (rebuilt from /repo on every run) against independent oracles; see DESIGN.md. Verdicts: exit 0 held on what was observed, 1 VIOLATION, 2 INCONCLUSIVE.",
}
for i in ids:
    if i in READY:
        c = CHECKS[i]
        m["checks"].append({
            "property_id": i,
            "quick_cmd": f"./check {i} quick",
            "thorough_cmd": f"./check {i} thorough",
            "evidence_file": f"evidence/{i}.json",
            "replay_cmd_template": f"./check {i} --replay {{path}}",
            "engine": "sim",
            "level_claimed": {"category": c["cat"], "text": c["text"], "design_ref": c["ref"]},
            "level_note": c["note"],
            "technique": c["technique"],
        })
    else:
        m["not_applicable"].append({"property_id": i, "reason": REASONS.get(i, "check not built yet (bring-up in progress); runtime monitoring applies, see DESIGN.md section 3")})
json.dump(m, open(os.path.join(ROOT, "MANIFEST.json"), "w"), indent=1)
print("checks:", [c["property_id"] for c in m["checks"]])
