#!/usr/bin/env python3
"""Builds seeded/<id>/meta.json from the author's meta and the confirmation run."""
import json,sys,os,glob
for d in sorted(glob.glob('/verif/seeded/*/')):
    a={}
    try: a=json.load(open(d+'author_meta.json'))
    except Exception: pass
    try: r=json.load(open(d+'run.json'))
    except Exception: continue
    caught=[c for c in r['checks'] if c['exit']==1]
    m={
     "property": a.get("property", os.path.basename(d.rstrip('/')).split('-')[0]),
     "title": a.get("title",""),
     "breaks": a.get("breaks",""),
     "needs_to_manifest": a.get("needs_to_manifest",""),
     "touched_files": a.get("touched_files",[]),
     "origin": "written by a fresh sub-agent that saw only the property text and a scratch worktree of /repo (nothing from /verif)",
     "confirmed_by_me": {
        "demo_passes_without_change": r["demo_without_change_rc"]==0,
        "builds_with_change": r["build_rc"]==0,
        "demo_fails_with_change": r["demo_with_change_rc"]!=0,
        "existing_tests_of_touched_packages_pass_with_change": r["existing_tests_with_change_rc"]==0,
        "how": r["how"],
     },
     "checks_run": r["checks"],
     "caught": bool(caught),
     "caught_by_keys": ",".join(c["keys"] for c in caught),
    }
    if os.path.exists(d+'note.txt'):
        m["note"]=open(d+'note.txt').read().strip()
    json.dump(m,open(d+'meta.json','w'),indent=1)
    print(os.path.basename(d.rstrip('/')), 'caught' if caught else 'MISSED', m["caught_by_keys"][:100])
