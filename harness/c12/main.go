//go:build verif

// C12: composition revisions form a faithful, monotonic history.
// The real revision controller (composition.NewReconciler) runs over the simulated API server
// while a "user" edits one Composition through histories over 2-4 distinct contents (reverts,
// label-only and annotation-only edits, backup/restore that strips owner references, a
// revision controlled by a foreign owner). For every reconcile of the fault-free run EVERY
// API-call index is hit with each of the six fault outcomes, the controller is then retried
// fault-free and the rest of the history is played. A post-write hook judges O2/O3 and the
// "at most one revision per content" half of O1 on every store state; O1 "exactly one" and O4
// are judged after every completed fault-free reconcile; the real APIRevisionFetcher is run
// for Manual / Automatic (+selector) XRs against the revisions the controller produced (O5).
package main

import (
	"context"
	"fmt"
	"runtime"
	"sort"
	"strings"
	"sync"

	"k8s.io/apimachinery/pkg/apis/meta/v1/unstructured"
	kruntime "k8s.io/apimachinery/pkg/runtime"
	"k8s.io/apimachinery/pkg/runtime/schema"
	"k8s.io/apimachinery/pkg/types"
	"k8s.io/client-go/util/workqueue"
	"sigs.k8s.io/controller-runtime/pkg/client"
	"sigs.k8s.io/controller-runtime/pkg/event"
	"sigs.k8s.io/controller-runtime/pkg/reconcile"

	"github.com/crossplane/crossplane-runtime/pkg/logging"
	"github.com/crossplane/crossplane-runtime/pkg/resource"
	ucomposite "github.com/crossplane/crossplane-runtime/pkg/resource/unstructured/composite"

	v1 "github.com/crossplane/crossplane/apis/apiextensions/v1"
	"github.com/crossplane/crossplane/internal/controller/apiextensions/composite"
	"github.com/crossplane/crossplane/internal/controller/apiextensions/composition"
	"github.com/crossplane/crossplane/internal/controller/apiextensions/definition"
	"github.com/crossplane/crossplane/verifh/kit"
	"github.com/crossplane/crossplane/verifh/sim"
	"github.com/crossplane/crossplane/verifh/xrk"
)

const maxQuiesce = 6

var ctx = context.Background()

// xrSpec describes one XR used on the consumer side.
type xrSpec struct {
	Name     string
	Policy   string
	Selector map[string]string
}

var xrs = []xrSpec{
	{Name: xrManual, Policy: "Manual"},
	{Name: "xr-auto", Policy: "Automatic"},
	{Name: "xr-auto-stable", Policy: "Automatic", Selector: map[string]string{"channel": "stable"}},
	{Name: "xr-auto-beta", Policy: "Automatic", Selector: map[string]string{"channel": "beta"}},
	// no update policy set (no XRD default either): follows the latest revision like Automatic; the
	// fetcher honours a revision selector only under an explicit Automatic policy
	{Name: "xr-unset-with-selector", Policy: "", Selector: map[string]string{"channel": "stable"}},
}

// pending is one violation found in a history; the first witness per key and history is kept
// and handed to the kit in history order once all workers are done, so that the reported
// witness does not depend on goroutine scheduling.
type pending struct {
	key, caseName, what string
	witness             any
}

type collector struct {
	first map[string]*pending
	order []string
	hits  map[string]int
}

func newCollector() *collector {
	return &collector{first: map[string]*pending{}, hits: map[string]int{}}
}

// exec is one execution: a world, its monitor and the actors' clients.
type exec struct {
	c     *kit.Ctx
	coll  *collector
	h     *history
	w     *sim.World
	m     *monitor
	rc    *sim.Client
	rec   *composition.Reconciler
	user  *sim.Client
	trace []string

	reconciles int
	errors     int
	requeues   int
	xc         *sim.Client
	ft         *composite.APIRevisionFetcher
	switchN    int // position in the rotation of user edits of xr-switch
	seenRevs   map[string]bool
}

// xr-switch is an XR whose update policy and revision selector the user edits between the
// steps of the history: the reference must follow the edited spec (to a lower-numbered
// revision too, if that is the highest one the new selector admits).
const xrSwitch = "xr-switch"

var switchCombos = []xrSpec{
	{Policy: "Automatic"},
	{Policy: "Automatic", Selector: map[string]string{"channel": "stable"}},
	{Policy: "Automatic", Selector: map[string]string{"channel": "beta"}},
	{Policy: "Automatic"},
	{Policy: "Manual"},
	{Policy: "Automatic", Selector: map[string]string{"channel": "beta"}},
	{Policy: "Manual", Selector: map[string]string{"channel": "stable"}},
	{Policy: "Automatic", Selector: map[string]string{"channel": "stable"}},
}

func newExec(c *kit.Ctx, coll *collector, h *history, w *sim.World, m *monitor) *exec {
	e := &exec{c: c, coll: coll, h: h, w: w, m: m}
	w.AddHook(m.hook)
	e.rc = w.Client(ctrlActor)
	e.rc.CacheReads = true // the revision controller reads through the manager's informer cache
	e.user = w.Client("user")
	e.rec = composition.NewReconciler(xrk.NewManager(w, e.rc))
	return e
}

func (e *exec) fork() *exec {
	n := newExec(e.c, e.coll, e.h, e.w.Clone(), e.m.clone())
	n.trace = append(n.trace, e.trace...)
	n.switchN = e.switchN
	n.seenRevs = map[string]bool{}
	for k := range e.seenRevs {
		n.seenRevs[k] = true
	}
	return n
}

func (e *exec) logf(f string, a ...any) { e.trace = append(e.trace, fmt.Sprintf(f, a...)) }

func buildWorld(h *history, seed uint64) *sim.World {
	w := sim.NewWorld(xrk.Scheme(), seed)
	// a second Composition with a revision of its own: must be left alone
	w.MustSeed("user", map[string]any{"apiVersion": "apiextensions.crossplane.io/v1", "kind": "Composition",
		"metadata": map[string]any{"name": otherCompName, "labels": map[string]any{"channel": "stable"}}, "spec": specPool()[1]})
	other := w.GetObj(sim.Key{Group: compKey.Group, Kind: compKey.Kind, Name: otherCompName})
	w.MustSeed("user", map[string]any{"apiVersion": "apiextensions.crossplane.io/v1", "kind": "CompositionRevision",
		"metadata": map[string]any{"name": otherCompName + "-1234567", "labels": map[string]any{labelCompName: otherCompName, "channel": "stable"},
			"ownerReferences": []any{map[string]any{"apiVersion": "apiextensions.crossplane.io/v1", "kind": "Composition", "name": otherCompName,
				"uid": sim.Str(other, "metadata", "uid"), "controller": true, "blockOwnerDeletion": true}}},
		"spec": with(specPool()[1], "revision", int64(50))})
	for _, x := range append(append([]xrSpec{}, xrs...), xrSpec{Name: xrSwitch, Policy: "Automatic"}) {
		spec := map[string]any{"compositionRef": map[string]any{"name": compName}, "compositionUpdatePolicy": x.Policy}
		if x.Policy == "" {
			delete(spec, "compositionUpdatePolicy")
		}
		if x.Selector != nil {
			ml := map[string]any{}
			for k, v := range x.Selector {
				ml[k] = v
			}
			spec["compositionRevisionSelector"] = map[string]any{"matchLabels": ml}
		}
		w.MustSeed("user", map[string]any{"apiVersion": xrGroup + "/v1", "kind": xrKind, "metadata": map[string]any{"name": x.Name}, "spec": spec})
	}
	return w
}

func must(err error, what string) {
	if err != nil {
		panic(fmt.Sprintf("harness: %s: %v", what, err))
	}
}

func compObject(ct content) map[string]any {
	md := map[string]any{"name": compName}
	if len(ct.Labels) > 0 {
		ls := map[string]any{}
		for k, v := range ct.Labels {
			ls[k] = v
		}
		md["labels"] = ls
	}
	if len(ct.Annotations) > 0 {
		as := map[string]any{}
		for k, v := range ct.Annotations {
			as[k] = v
		}
		md["annotations"] = as
	}
	return map[string]any{"apiVersion": "apiextensions.crossplane.io/v1", "kind": "Composition", "metadata": md, "spec": ct.Spec}
}

func (e *exec) ownRevisions() []map[string]any {
	var out []map[string]any
	for _, o := range e.w.ListObjs(revGK) {
		if labelsOf(o)[labelCompName] == compName {
			out = append(out, o)
		}
	}
	return out
}

// apply performs the user action of a step.
func (e *exec) apply(si int) {
	s := e.h.Steps[si]
	switch s.Op {
	case "edit":
		want := compObject(e.h.Contents[s.Content])
		cur := e.w.GetObj(compKey)
		if cur == nil {
			must(e.user.Create(ctx, &unstructured.Unstructured{Object: want}), "create composition")
		} else {
			md := cur["metadata"].(map[string]any)
			delete(md, "labels")
			delete(md, "annotations")
			wmd := want["metadata"].(map[string]any)
			for _, f := range []string{"labels", "annotations"} {
				if v, ok := wmd[f]; ok {
					md[f] = v
				}
			}
			cur["spec"] = want["spec"]
			must(e.user.Update(ctx, &unstructured.Unstructured{Object: cur}), "edit composition")
		}
		e.logf("step %d: user sets content #%d", si, s.Content)
	case "strip":
		for _, o := range e.ownRevisions() {
			if controllerUID(o) != "" && controllerUID(o) != sim.Str(e.w.GetObj(compKey), "metadata", "uid") {
				continue // not ours
			}
			unstructured.RemoveNestedField(o, "metadata", "ownerReferences")
			must(e.user.Update(ctx, &unstructured.Unstructured{Object: o}), "strip owner references")
		}
		e.m.stripped = true
		e.logf("step %d: all owner references of the revisions stripped", si)
	case "restore":
		comp := e.w.GetObj(compKey)
		revs := e.ownRevisions()
		for _, o := range revs {
			must(e.user.Delete(ctx, &unstructured.Unstructured{Object: o}), "delete revision")
		}
		must(e.user.Delete(ctx, &unstructured.Unstructured{Object: comp}), "delete composition")
		keep := func(o map[string]any) map[string]any {
			md := map[string]any{"name": sim.Str(o, "metadata", "name")}
			for _, f := range []string{"labels", "annotations"} {
				if v, ok, _ := unstructured.NestedMap(o, "metadata", f); ok {
					md[f] = v
				}
			}
			return map[string]any{"apiVersion": o["apiVersion"], "kind": o["kind"], "metadata": md, "spec": o["spec"]}
		}
		must(e.user.Create(ctx, &unstructured.Unstructured{Object: keep(comp)}), "restore composition")
		for _, o := range revs {
			must(e.user.Create(ctx, &unstructured.Unstructured{Object: keep(o)}), "restore revision")
		}
		e.m.stripped = true
		e.logf("step %d: backup/restore: Composition re-created with a new uid, %d revisions re-created without owner references", si, len(revs))
	case "foreign-add":
		must(e.user.Create(ctx, &unstructured.Unstructured{Object: map[string]any{
			"apiVersion": "apiextensions.crossplane.io/v1", "kind": "CompositionRevision",
			"metadata": map[string]any{"name": foreignRevName,
				"labels": map[string]any{labelCompName: compName, labelCompHash: "f00f00f00f00f00f00f00f00f00f00f00f00f00f00f00f00f00f00f00f00f00f", "channel": "stable"},
				"ownerReferences": []any{map[string]any{"apiVersion": "apiextensions.crossplane.io/v1", "kind": "Composition", "name": compName,
					"uid": "uid-of-a-composition-in-another-cluster", "controller": true, "blockOwnerDeletion": true}}},
			"spec": with(specPool()[6], "revision", int64(99)),
		}}), "create foreign revision")
		e.m.foreign = true
		e.logf("step %d: a revision labelled for %q but controlled by a foreign uid (rev=99) appears", si, compName)
	case "unlabel-old":
		// e.g. revisions written by a release that used another label key: every revision but the
		// highest-numbered one loses its composition-hash label (the name label stays)
		var top map[string]any
		for _, o := range e.ownRevisions() {
			if top == nil || revNum(o) > revNum(top) {
				top = o
			}
		}
		n := 0
		for _, o := range e.ownRevisions() {
			if top != nil && sim.Str(o, "metadata", "name") == sim.Str(top, "metadata", "name") {
				continue
			}
			unstructured.RemoveNestedField(o, "metadata", "labels", labelCompHash)
			must(e.user.Update(ctx, &unstructured.Unstructured{Object: o}), "remove the hash label")
			n++
		}
		e.logf("step %d: %d older revisions lose their composition-hash label", si, n)
	case "foreign-remove":
		if o := e.w.GetObj(sim.Key{Group: revGK.Group, Kind: revGK.Kind, Name: foreignRevName}); o != nil {
			must(e.user.Delete(ctx, &unstructured.Unstructured{Object: o}), "delete foreign revision")
		}
		e.logf("step %d: the foreign revision is garbage collected", si)
	case "delete-highest":
		var top map[string]any
		for _, o := range e.ownRevisions() {
			if !sim.Terminating(o) && (top == nil || revNum(o) > revNum(top)) {
				top = o
			}
		}
		if top != nil {
			u := &unstructured.Unstructured{Object: top}
			u.SetFinalizers(append(u.GetFinalizers(), "example.org/hold"))
			must(e.user.Update(ctx, u), "put a finalizer on the highest revision")
			must(e.user.Delete(ctx, u), "delete the highest revision")
			e.logf("step %d: the highest-numbered revision %s (rev=%d) is deleted but held by a finalizer", si, u.GetName(), revNum(top))
		}
	case "release":
		for _, o := range e.ownRevisions() {
			if sim.Terminating(o) {
				u := &unstructured.Unstructured{Object: o}
				u.SetFinalizers(nil)
				must(e.user.Update(ctx, u), "release a terminating revision")
			}
		}
		e.logf("step %d: terminating revisions are released", si)
	default:
		panic("unknown op " + s.Op)
	}
}

type recResult struct {
	res      reconcile.Result
	err      error
	crashed  bool
	panicked error
	changed  int
	calls    int
	hit      bool // an injected fault was reached
	afterWr  bool // ... at or after an effective write of this reconcile
}

func (r recResult) completed() bool {
	return !r.crashed && r.panicked == nil && r.err == nil && !r.res.Requeue && r.res.RequeueAfter == 0
}

// reconcile runs the real revision controller once.
func (e *exec) reconcile() recResult {
	var r recResult
	e.rc.ResetCalls()
	from := e.w.LogLen()
	r.panicked = kit.Try(func() {
		r.crashed = sim.RunActor(func() {
			r.res, r.err = e.rec.Reconcile(ctx, reconcile.Request{NamespacedName: types.NamespacedName{Name: compName}})
		})
	})
	if r.crashed || r.panicked != nil {
		e.rec = composition.NewReconciler(xrk.NewManager(e.w, e.rc)) // process restart
	}
	r.calls = e.rc.Calls()
	for _, ev := range e.w.Log(from) {
		if ev.Actor != ctrlActor {
			continue
		}
		if ev.Injected != "" {
			r.hit = true
			if r.changed > 0 || ev.Changed {
				r.afterWr = true
			}
		}
		if ev.Changed {
			r.changed++
		}
	}
	e.reconciles++
	if r.err != nil {
		e.errors++
	}
	if r.res.Requeue {
		e.requeues++
	}
	if r.panicked != nil {
		e.m.add("panic-in-reconcile", r.panicked.Error())
	}
	return r
}

// settle reconciles fault-free until a reconcile makes no effective write (bound maxQuiesce),
// judging O1/O4 after every completed one. before, if set, is called ahead of each reconcile
// (the fault-free run takes its snapshots there) and after with its result.
func (e *exec) settle(label string, before func(), after func(recResult)) {
	var last recResult
	quiet := false
	for i := 0; i < maxQuiesce; i++ {
		if before != nil {
			before()
		}
		last = e.reconcile()
		if after != nil {
			after(last)
		}
		e.logf("%s: reconcile %d: calls=%d writes=%d err=%v requeue=%v", label, i, last.calls, last.changed, errStr(last.err), last.res.Requeue)
		if last.completed() {
			e.m.afterCompleted(e.w, last.changed == 0, fmt.Sprintf("%s reconcile %d", label, i))
		}
		if last.changed == 0 {
			quiet = true
			break
		}
	}
	if !quiet {
		e.c.Count("no_quiescence_within_bound", 1)
	}
	if !last.completed() {
		if foreignLive(e.w) {
			e.c.Count("settled_failing_because_foreign_revision", 1)
		} else {
			e.m.add("fault-free-reconcile-keeps-failing", fmt.Sprintf("%s: without any fault and with every revision adoptable, the last of up to %d reconciles still returned err=%v requeue=%v", label, maxQuiesce, errStr(last.err), last.res.Requeue))
		}
	}
}

func errStr(err error) string {
	if err == nil {
		return "<nil>"
	}
	s := err.Error()
	if len(s) > 160 {
		s = s[:160] + "..."
	}
	return s
}

// ---- XR side ---------------------------------------------------------------------------------

func xrKey(name string) sim.Key { return sim.Key{Group: xrGroup, Kind: xrKind, Name: name} }

func xrRef(w *sim.World, name string) string {
	return sim.Str(w.GetObj(xrKey(name)), "spec", "compositionRevisionRef", "name")
}

// expectedLatest computes, from the store alone, the names of the highest-numbered revisions
// controlled by the Composition whose labels contain sel.
func expectedLatest(w *sim.World, sel map[string]string) (names []string, max int64, candidates int) {
	uid := sim.Str(w.GetObj(compKey), "metadata", "uid")
	if uid == "" {
		return nil, 0, 0
	}
	for _, o := range w.ListObjs(revGK) {
		if controllerUID(o) != uid {
			continue
		}
		ok := true
		ls := labelsOf(o)
		for k, v := range sel {
			if ls[k] != v {
				ok = false
			}
		}
		if !ok {
			continue
		}
		candidates++
		n := revNum(o)
		switch {
		case n > max:
			max, names = n, []string{sim.Str(o, "metadata", "name")}
		case n == max:
			names = append(names, sim.Str(o, "metadata", "name"))
		}
	}
	return names, max, candidates
}

func contains(ss []string, s string) bool {
	for _, x := range ss {
		if x == s {
			return true
		}
	}
	return false
}

// fetch runs the real APIRevisionFetcher for one XR. With out != OK the call with index k of
// the XR controller's client is faulted.
func (e *exec) fetch(x xrSpec, k int, out sim.Outcome, label string) (calls int) {
	w := e.w
	// one fetcher per execution, as there is one per XR controller: whatever it remembers from one
	// fetch to the next (and for one XR when serving another) is part of what is being observed. A
	// fork (fault case) starts with a fresh one - a restarted controller.
	if e.xc == nil {
		e.xc = w.Client("xr")
		e.ft = composite.NewAPIRevisionFetcher(resource.ClientApplicator{Client: e.xc, Applicator: resource.NewAPIPatchingApplicator(e.xc)})
	}
	xc, f := e.xc, e.ft
	xc.ResetCalls()
	xc.ClearFaults()
	if out != sim.OK {
		xc.Fault(k, out)
	}
	xr := ucomposite.New(ucomposite.WithGroupVersionKind(v1GVK()))
	xr.SetUnstructuredContent(w.GetObj(xrKey(x.Name)))
	before := xrRef(w, x.Name)
	effSel := x.Selector
	if x.Policy == "" {
		effSel = nil
	}
	want, max, cands := expectedLatest(w, effSel)
	var rev *v1.CompositionRevision
	var err error
	var crashed bool
	perr := kit.Try(func() {
		crashed = sim.RunActor(func() { rev, err = f.Fetch(ctx, xr) })
	})
	e.m.checks++
	e.c.Count("xr_fetches", 1)
	after := xrRef(w, x.Name)
	if perr != nil {
		e.m.add("panic-in-fetch", perr.Error())
		return xc.Calls()
	}
	what := func(s string) string {
		return fmt.Sprintf("%s: XR %s (policy %s selector %v) ref before=%q after=%q fetch err=%v; highest controlled matching revisions %v (rev=%d, %d candidates): %s",
			label, x.Name, x.Policy, x.Selector, before, after, errStr(err), want, max, cands, s)
	}
	manualPinned := x.Policy == "Manual" && before != ""
	switch {
	case manualPinned:
		// the hook flags a moved reference; the fetcher must also hand back the pinned revision
		if out == sim.OK && err == nil && rev != nil && rev.GetName() != before {
			e.m.add("O5-manual-fetch-returned-other-revision", what("fetcher returned "+rev.GetName()))
		}
		if after != before {
			e.m.add("O5-manual-reference-moved", what("a Manual XR's revision reference was changed by the fetch"))
		}
	case x.Policy == "Manual":
		// first selection of a Manual XR: the property only says that it keeps what it has
		if err == nil && out == sim.OK {
			e.c.Count("xr_manual_first_selection", 1)
		}
	case out != sim.OK || crashed:
		// under a fault the reference may stay or move to the expected revision, nothing else
		if after != before && !contains(want, after) {
			e.m.add("O5-automatic-not-highest-controlled-matching", what("moved under a fault to a revision that is not the expected one"))
		}
	case cands == 0:
		e.c.Count("xr_automatic_no_candidate", 1)
		if after != before {
			e.m.add("O5-automatic-not-highest-controlled-matching", what("no revision is controlled by the Composition and matches, yet the reference moved"))
		}
	case err != nil:
		e.m.add("O5-automatic-fetch-failed-with-candidates", what("fault-free fetch failed although candidates exist"))
	default:
		if !contains(want, after) || rev == nil || rev.GetName() != after {
			got := "<nil>"
			if rev != nil {
				got = rev.GetName()
			}
			e.m.add("O5-automatic-not-highest-controlled-matching", what("fetcher returned "+got))
		}
		if after != before {
			e.c.Count("xr_automatic_moved", 1)
		}
	}
	return xc.Calls()
}

// xrPoint runs every XR's fetch on the current store. With enumerate, every call index of
// each fetch is first faulted with the six outcomes on a copy of the world.
func (e *exec) xrPoint(label string, enumerate bool) {
	e.enqueuePoint(label)
	for _, x := range xrs {
		if enumerate {
			probe := e.fork()
			calls := probe.fetch(x, 0, sim.OK, label+" probe")
			for k := 0; k < calls; k++ {
				// besides the enumerated outcomes a read may answer 404 (an informer cache that has not
				// caught up, a revision restored a moment later)
				for _, out := range append(append([]sim.Outcome{}, sim.EnumFaults...), sim.Missing) {
					f := e.fork()
					f.fetch(x, k, out, fmt.Sprintf("%s fault %s@%d", label, out, k))
					f.fetch(x, 0, sim.OK, fmt.Sprintf("%s retry after %s@%d", label, out, k))
					e.c.Count("xr_fault_executions", 1)
					e.c.Count("invariant_evaluations", int64(f.m.checks))
					// carry violations found in the fork over to the reporting execution
					for _, v := range f.m.viol {
						dup := false
						for _, have := range e.m.viol {
							dup = dup || have.key == v.key
						}
						if !dup {
							e.m.viol = append(e.m.viol, v)
						}
					}
				}
			}
		}
		e.fetch(x, 0, sim.OK, label)
	}
	// the user edits xr-switch's policy / selector, then its controller fetches
	e.switchN++
	combo := switchCombos[e.switchN%len(switchCombos)]
	combo.Name = xrSwitch
	if o := e.w.GetObj(xrKey(xrSwitch)); o != nil {
		u := &unstructured.Unstructured{Object: o}
		_ = unstructured.SetNestedField(u.Object, combo.Policy, "spec", "compositionUpdatePolicy")
		unstructured.RemoveNestedField(u.Object, "spec", "compositionRevisionSelector")
		if combo.Selector != nil {
			ml := map[string]any{}
			for k, v := range combo.Selector {
				ml[k] = v
			}
			_ = unstructured.SetNestedMap(u.Object, map[string]any{"matchLabels": ml}, "spec", "compositionRevisionSelector")
		}
		must(e.user.Update(ctx, u), "user edit of xr-switch")
		e.c.Count("xr_switch_edits", 1)
		e.fetch(combo, 0, sim.OK, label+" after the user set policy/selector of xr-switch")
		e.fetch(combo, 0, sim.OK, label+" second fetch of xr-switch")
	}
}

// enqueuePoint delivers the create event of every revision that appeared since the last XR point
// to the REAL handler the XR controller watches revisions with, and holds it against the real
// fetcher: an XR whose fetch (on a copy of the cluster) would move its reference now must have
// been enqueued for at least one of those events - otherwise it never learns of the revision.
func (e *exec) enqueuePoint(label string) {
	if e.seenRevs == nil {
		e.seenRevs = map[string]bool{}
	}
	var fresh []map[string]any
	for _, o := range e.w.ListObjs(revGK) {
		n := sim.Str(o, "metadata", "name")
		if !e.seenRevs[n] {
			e.seenRevs[n] = true
			fresh = append(fresh, o)
		}
	}
	if len(fresh) == 0 {
		return
	}
	q := workqueue.NewTypedRateLimitingQueue(workqueue.DefaultTypedControllerRateLimiter[reconcile.Request]())
	defer q.ShutDown()
	h := definition.EnqueueForCompositionRevision(resource.CompositeKind(v1GVK()), e.w.Client("xr-watch"), logging.NewNopLogger())
	for _, o := range fresh {
		rev := &v1.CompositionRevision{}
		if err := kruntime.DefaultUnstructuredConverter.FromUnstructured(o, rev); err != nil {
			panic(err)
		}
		h.Create(ctx, event.TypedCreateEvent[client.Object]{Object: rev}, q)
	}
	enq := map[string]bool{}
	for q.Len() > 0 {
		it, _ := q.Get()
		enq[it.Name] = true
		q.Done(it)
	}
	e.c.Count("xr_enqueue_points", 1)
	for _, x := range xrs {
		if x.Policy == "Manual" {
			continue
		}
		f := e.fork()
		before := xrRef(f.w, x.Name)
		xc := f.w.Client("xr")
		ft := composite.NewAPIRevisionFetcher(resource.ClientApplicator{Client: xc, Applicator: resource.NewAPIPatchingApplicator(xc)})
		xr := ucomposite.New(ucomposite.WithGroupVersionKind(v1GVK()))
		xr.SetUnstructuredContent(f.w.GetObj(xrKey(x.Name)))
		_ = kit.Try(func() { _, _ = ft.Fetch(ctx, xr) })
		after := xrRef(f.w, x.Name)
		if after != before && !enq[x.Name] {
			e.m.add("O5-xr-not-enqueued-for-new-revision", fmt.Sprintf("%s: revisions %d appeared; a fetch would move XR %s (policy %q selector %v) from %q to %q, but the revision watch handler did not enqueue it (enqueued: %v)",
				label, len(fresh), x.Name, x.Policy, x.Selector, before, after, enq))
		}
	}
}

// ---- history execution -----------------------------------------------------------------------

type snapshot struct {
	e     *exec // frozen copy taken before the reconcile
	step  int
	calls int
}

func (e *exec) report(caseName string, extra map[string]any) {
	if len(e.m.viol) > 0 {
		e.c.Count("executions_with_an_alarm", 1)
	}
	for _, v := range e.m.viol {
		e.coll.hits[v.key]++
		if e.coll.first[v.key] != nil {
			continue
		}
		wit := map[string]any{"history": e.h, "steps": e.trace}
		for k, x := range extra {
			wit[k] = x
		}
		var evs []string
		for _, ev := range e.w.Log(0) {
			if ev.Actor == ctrlActor || ev.IsWrite() {
				evs = append(evs, ev.Short())
			}
		}
		if len(evs) > 150 {
			evs = evs[len(evs)-150:]
		}
		wit["events_of_this_execution"] = evs
		e.coll.first[v.key] = &pending{v.key, caseName, v.what, wit}
		e.coll.order = append(e.coll.order, v.key)
	}
}

func (e *exec) account() {
	e.c.Count("reconciles", int64(e.reconciles))
	e.c.Count("reconcile_errors", int64(e.errors))
	e.c.Count("reconcile_requeues", int64(e.requeues))
	e.c.Count("invariant_evaluations", int64(e.m.checks))
}

func runHistory(c *kit.Ctx, coll *collector, h history, idx int) {
	hfp := kit.Hash(kit.JSON(h))
	revert := h.hasRevert()
	// the fetcher's own calls are fault-enumerated for the fixed histories and every third random one
	xrFaults := (idx < len(baseHistories()) || idx%3 == 0) && !h.NoFaults
	root := newExec(c, coll, &h, buildWorld(&h, uint64(c.Seed)*100000+uint64(idx)), newMonitor(&h))

	// fault-free run, snapshotting before every reconcile
	var snaps []snapshot
	ffName := h.Name + "/fault-free"
	runFF := c.Want(ffName) || c.Only == h.Name || strings.HasPrefix(c.Only, h.Name+"/")
	if !runFF {
		return
	}
	seenContent := map[int]bool{}
	last := -1
	for si, s := range h.Steps {
		root.apply(si)
		if s.Op == "edit" {
			if seenContent[s.Content] && s.Content != last {
				c.Count("reverts_seen", 1)
			}
			seenContent[s.Content] = true
			last = s.Content
		}
		if s.NoReconcile {
			continue
		}
		root.settle(fmt.Sprintf("step %d", si),
			func() { snaps = append(snaps, snapshot{e: root.fork(), step: si}) },
			func(r recResult) { snaps[len(snaps)-1].calls = r.calls })
		root.xrPoint(fmt.Sprintf("after step %d", si), c.Want(ffName) && xrFaults)
	}
	if c.Want(ffName) {
		c.Eval("ff|"+hfp, revert)
		c.Count("fault_free_runs", 1)
		c.Count("revisions_created", int64(root.m.created))
		c.Count("renumberings", int64(root.m.renumbers))
		root.account()
		root.report(ffName, map[string]any{"mode": "fault-free"})
		if c.WantSample() && revert {
			var revs []string
			for _, o := range root.ownRevisions() {
				revs = append(revs, fmt.Sprintf("%s rev=%d", sim.Str(o, "metadata", "name"), revNum(o)))
			}
			c.Sample(map[string]any{"case": ffName, "history": h, "steps": root.trace, "final_revisions": revs})
		}
	}

	if h.NoFaults {
		return
	}
	// fault enumeration: every reconcile x every call index x six outcomes
	for sni, sn := range snaps {
		for k := 0; k < sn.calls; k++ {
			for _, out := range sim.EnumFaults {
				caseName := fmt.Sprintf("%s/r%d/k%d/%s", h.Name, sni, k, out)
				if !c.Want(caseName) {
					continue
				}
				e := sn.e.fork()
				base := e.m.checks
				e.rc.Fault(k, out)
				r := e.reconcile()
				e.rc.ClearFaults()
				e.logf("step %d: FAULT %s at call %d: crashed=%v writes=%d err=%v requeue=%v", sn.step, out, k, r.crashed, r.changed, errStr(r.err), r.res.Requeue)
				e.settle(fmt.Sprintf("step %d retry", sn.step), nil, nil)
				for si := sn.step + 1; si < len(h.Steps); si++ {
					e.apply(si)
					if !h.Steps[si].NoReconcile {
						e.settle(fmt.Sprintf("step %d", si), nil, nil)
					}
				}
				e.xrPoint("end of history", false)

				crash := out == sim.CrashBefore || out == sim.CrashAfter
				if crash {
					c.Count("crash_positions_total", 1)
					if r.crashed {
						c.Count("crash_positions_covered", 1)
					}
				}
				c.Count("executions", 1)
				if r.hit {
					c.Count("faults_hit_"+out.String(), 1)
				} else {
					c.Count("faults_not_reached", 1)
				}
				if r.afterWr {
					c.Count("faults_at_or_after_a_write", 1)
				}
				c.Eval(fmt.Sprintf("%s|r%d|k%d|%s", hfp, sni, k, out), r.hit && (revert || r.afterWr))
				e.m.checks -= base
				e.account()
				c.Count("revisions_created", int64(e.m.created))
				c.Count("renumberings", int64(e.m.renumbers))
				e.report(caseName, map[string]any{"snapshot": sni, "step": sn.step, "call": k, "outcome": out.String()})
			}
		}
	}
}

func v1GVK() schema.GroupVersionKind {
	return schema.GroupVersionKind{Group: xrGroup, Version: "v1", Kind: xrKind}
}

func main() {
	c := kit.New("C12", "fault_enumeration")
	c.Rule = "a user edits one Composition through a history over 2-4 distinct contents (content = labels + annotations + spec; fixed shapes: A-B-A, A-B-C-A, repeated reverts, label-only, annotation-only, every spec part, Resources mode, edit without reconcile, owner references stripped in place / by delete-and-recreate (new Composition uid) before a reconcile, before an edit to new content, before a revert, a revision controlled by a foreign uid with the same composition-name label appearing mid-history / first / staying; plus seeded random histories), each step followed by reconciles of the real revision controller until one makes no effective write (bound 6). For every reconcile of the fault-free run EVERY API-call index x 6 outcomes (conflict, 500, timeout, crash-before, crash-after, applied-but-504), then fault-free retries and the rest of the history. Revisions are tied to contents by the content the Composition had in the store when the controller created them (harness fingerprint, not the hash label). Post-write hook: O2 spec-minus-revision immutable by name, O3 number never decreases, O1 at most one revision per content and faithful at creation, Manual XR's reference never moves, other Composition's revisions untouched. After each completed (nil error, no requeue) fault-free reconcile: O1 exactly one revision equal to the current content, O4 it is controlled and strictly highest among controlled ones. XR side: the real APIRevisionFetcher for a Manual, an Automatic and two Automatic+selector XRs after every step (with every call of the fetch faulted x 6 in the fault-free run of the fixed and every third random history) and at the end of every faulted execution (O5; ties in the highest number accept any of the tied). distinct = (history, reconcile, call index, outcome); non-trivial = the fault was reached and the history contains a revert or the fault fell at/after an effective write of its reconcile. Violation keys carry the history class (plain | owner-refs-stripped | foreign-revision). Not flagged: failing reconciles while a foreign-controlled revision exists (the controller refuses to adopt it), metadata-only edits of revisions, non-quiescence (counted), first selection of a Manual XR."
	c.Rule += " XR xr-switch: the user edits its update policy and revision selector before every XR point (rotation over Automatic / Automatic+selector / Manual); the reference must follow the edited spec, also to a lower-numbered revision."
	c.Rule += " " + "Histories with a finalizer-held deleted highest revision and its release; the real revision-created event handler is held against the real fetcher (every XR that would move must have been enqueued)."
	c.Rule += " " + "One long-lived fetcher per execution; cache-reader List semantics for the revision controller; a 125-build history."
	c.Rule += " " + "Histories in which older revisions lose their composition-hash label before further edits."
	c.Rule += " " + "The whole XR reconciler over Manual / Automatic XRs that carry a revision reference but get their Composition through the XRD's default or enforced reference or their selector."
	c.Assumptions = []string{
		"sim implements the apiserver rules listed in DESIGN.md 2.2; user actions and reconciles do not overlap in time (the revision controller is a single worker per Composition)",
		"revisions are never deleted except by the harness's restore / garbage collection of the foreign revision",
		"a revision's content is the content the Composition had when the controller created the revision",
	}
	c.Floor = 300

	if err := selfCheckSpecs(); err != nil {
		c.Inconclusive("harness self-check failed: " + err.Error())
		c.Finish()
	}

	hs := append(baseHistories(), longHistory())
	nRand := c.N(40, 400)
	for i := 0; i < nRand; i++ {
		hs = append(hs, randomHistory(c, i))
	}
	workers := runtime.NumCPU()
	if workers > 16 {
		workers = 16
	}
	if workers < 2 {
		workers = 2
	}
	colls := make([]*collector, len(hs))
	panics := make([]error, len(hs))
	var wg sync.WaitGroup
	ch := make(chan int)
	for wk := 0; wk < workers; wk++ {
		wg.Add(1)
		go func() {
			defer wg.Done()
			for i := range ch {
				h := hs[i]
				if c.Only != "" && c.Only != h.Name && !strings.HasPrefix(c.Only, h.Name+"/") {
					continue
				}
				colls[i] = newCollector()
				panics[i] = kit.Try(func() { runHistory(c, colls[i], h, i) })
				c.Count("histories", 1)
				if h.hasRevert() {
					c.Count("histories_with_revert", 1)
				}
				for _, op := range []string{"strip", "restore", "foreign-add"} {
					if h.has(op) {
						c.Count("histories_with_"+op, 1)
					}
				}
			}
		}()
	}
	for i := range hs {
		ch <- i
	}
	close(ch)
	wg.Wait()
	if err := kit.Try(func() { runSelectedComposition(c) }); err != nil {
		c.Violate("harness-panic", "selected-composition", err.Error(), nil)
	}
	for i, coll := range colls {
		if panics[i] != nil {
			c.Violate("harness-panic", hs[i].Name, panics[i].Error(), map[string]any{"history": hs[i]})
		}
		if coll == nil {
			continue
		}
		for _, k := range coll.order {
			p := coll.first[k]
			for n := 0; n < coll.hits[k]; n++ { // keeps the kit's per-key hit counters meaningful
				c.Violate(p.key, p.caseName, p.what, p.witness)
			}
		}
	}
	c.Exhaustive(false)
	var names []string
	for _, h := range hs[:len(baseHistories())] {
		names = append(names, h.Name)
	}
	sort.Strings(names)
	c.Extra("base_histories", names)
	c.Extra("random_histories", nRand)
	if t := c.Counter("crash_positions_total"); t > 0 {
		c.Extra("crash_positions", fmt.Sprintf("%d/%d", c.Counter("crash_positions_covered"), t))
	}
	c.Finish()
}
