//go:build verif

package main

import (
	"encoding/json"
	"fmt"
	kjson "k8s.io/apimachinery/pkg/util/json"
	"sort"

	"github.com/crossplane/crossplane/verifh/kit"

	v1 "github.com/crossplane/crossplane/apis/apiextensions/v1"
)

// content is one "content" a Composition can have: everything a user can edit that makes the
// Composition a different thing to compose with (labels are copied onto revisions and drive
// the XR's revision selector, annotations travel with the object, spec is the template).
type content struct {
	Labels      map[string]string `json:"labels,omitempty"`
	Annotations map[string]string `json:"annotations,omitempty"`
	Spec        map[string]any    `json:"spec"`
}

// fp is the harness's own canonical fingerprint of a content (encoding/json sorts map keys).
func (c content) fp() string {
	return kit.JSON(map[string]any{"l": nonNil(c.Labels), "a": nonNil(c.Annotations), "s": c.Spec})
}

func nonNil(m map[string]string) map[string]string {
	if m == nil {
		return map[string]string{}
	}
	return m
}

func pipeline(steps ...map[string]any) map[string]any {
	ps := make([]any, len(steps))
	for i, s := range steps {
		ps[i] = s
	}
	return map[string]any{
		"compositeTypeRef": map[string]any{"apiVersion": "ex.org/v1", "kind": "XThing"},
		"mode":             "Pipeline",
		"pipeline":         ps,
	}
}

func stepOf(name, fn string, input map[string]any) map[string]any {
	s := map[string]any{"step": name, "functionRef": map[string]any{"name": fn}}
	if input != nil {
		s["input"] = input
	}
	return s
}

func with(spec map[string]any, k string, v any) map[string]any {
	out := map[string]any{}
	for kk, vv := range spec {
		out[kk] = vv
	}
	out[k] = v
	return out
}

// specPool: specs that differ from one another in every part of CompositionSpec (pipeline
// length, step input, credentials, connection-secret namespace, store config, Resources mode
// with patch sets), so that a hash that forgets a part is noticed.
func specPool() []map[string]any {
	s0 := pipeline(stepOf("step-a", "fn-a", nil))
	return []map[string]any{
		s0,
		pipeline(stepOf("step-a", "fn-a", nil), stepOf("step-b", "fn-b", nil)),
		pipeline(stepOf("step-a", "fn-a", map[string]any{"apiVersion": "in.ex.org/v1", "kind": "Input", "v": int64(1)})),
		pipeline(stepOf("step-a", "fn-a", map[string]any{"apiVersion": "in.ex.org/v1", "kind": "Input", "v": int64(2)})),
		with(s0, "writeConnectionSecretsToNamespace", "xp-system"),
		with(s0, "publishConnectionDetailsWithStoreConfigRef", map[string]any{"name": "vault"}),
		pipeline(stepOf("step-a", "fn-b", nil)),
		{
			"compositeTypeRef": map[string]any{"apiVersion": "ex.org/v1", "kind": "XThing"},
			"mode":             "Resources",
			"patchSets": []any{map[string]any{"name": "ps", "patches": []any{
				map[string]any{"type": "FromCompositeFieldPath", "fromFieldPath": "spec.size", "toFieldPath": "spec.forProvider.size"}}}},
			"resources": []any{map[string]any{"name": "a", "base": map[string]any{"apiVersion": "nop.ex.org/v1", "kind": "Nop", "spec": map[string]any{"forProvider": map[string]any{"v": "1"}}}}},
		},
		{
			"compositeTypeRef": map[string]any{"apiVersion": "ex.org/v1", "kind": "XThing"},
			"mode":             "Resources",
			"resources": []any{map[string]any{"name": "a", "base": map[string]any{"apiVersion": "nop.ex.org/v1", "kind": "Nop", "spec": map[string]any{"forProvider": map[string]any{"v": "1"}}},
				"patches": []any{map[string]any{"type": "PatchSet", "patchSetName": "ps"}}}},
		},
		with(pipeline(stepOf("step-a", "fn-a", nil)), "compositeTypeRef", map[string]any{"apiVersion": "ex.org/v2", "kind": "XThing"}),
		// [10]-[12]: 64-bit integers no float64 holds exactly, in a function input and in a base
		pipeline(stepOf("step-a", "fn-a", map[string]any{"apiVersion": "in.ex.org/v1", "kind": "Input", "quotaBytes": int64(9223372036854775807)})),
		pipeline(stepOf("step-a", "fn-a", map[string]any{"apiVersion": "in.ex.org/v1", "kind": "Input", "quotaBytes": int64(9223372036854775806)})),
		{
			"compositeTypeRef": map[string]any{"apiVersion": "ex.org/v1", "kind": "XThing"},
			"mode":             "Resources",
			"resources":        []any{map[string]any{"name": "a", "base": map[string]any{"apiVersion": "nop.ex.org/v1", "kind": "Nop", "spec": map[string]any{"forProvider": map[string]any{"id": int64(9007199254740993)}}}}},
		},
	}
}

var labelPool = []map[string]string{
	nil,
	{"channel": "stable"},
	{"channel": "beta"},
	{"channel": "stable", "tier": "gold"},
}

var annPool = []map[string]string{
	nil,
	{"ex.org/note": "x"},
	{"ex.org/note": "y"},
}

// selfCheckSpecs makes sure every pool spec is in the canonical wire form of the typed API
// (decode into v1.CompositionSpec and encode again is the identity), so that "the revision's
// spec equals the Composition's spec" can be judged by plain JSON equality.
func selfCheckSpecs() error {
	for i, s := range specPool() {
		b, _ := json.Marshal(s)
		var t v1.CompositionSpec
		if err := json.Unmarshal(b, &t); err != nil {
			return fmt.Errorf("spec %d: %w", i, err)
		}
		b2, _ := json.Marshal(t)
		var back map[string]any
		_ = kjson.Unmarshal(b2, &back) // int-preserving, as the API machinery decodes
		if kit.JSON(back) != kit.JSON(s) {
			return fmt.Errorf("spec %d is not canonical: %s vs %s", i, kit.JSON(back), kit.JSON(s))
		}
	}
	return nil
}

// step is one user action of a history, followed (unless NoReconcile) by reconciles of the
// revision controller until one makes no effective write.
type step struct {
	Op          string `json:"op"` // edit | strip | restore | foreign-add | foreign-remove | delete-highest | release
	Content     int    `json:"content,omitempty"`
	NoReconcile bool   `json:"noReconcile,omitempty"`
}

type history struct {
	Name     string    `json:"name"`
	Contents []content `json:"contents"`
	Steps    []step    `json:"steps"`
	// NoFaults: run fault-free only (very long histories)
	NoFaults bool `json:"noFaults,omitempty"`
}

// longHistory is a Composition that lives long: a pipeline stamps a build annotation on it 125
// times (each stamp is new content, hence a new revision; revisions are never collected), then it
// is reverted to two earlier builds.
func longHistory() history {
	sp := specPool()
	h := history{Name: "long-lived-125-builds", NoFaults: true}
	for i := 0; i < 125; i++ {
		h.Contents = append(h.Contents, content{Labels: labelPool[1], Annotations: map[string]string{"ex.org/build": fmt.Sprintf("%03d", i)}, Spec: sp[0]})
		h.Steps = append(h.Steps, ed(i))
	}
	h.Steps = append(h.Steps, ed(0), ed(60), ed(124))
	return h
}

func (h *history) hasRevert() bool {
	seen := map[int]bool{}
	last := -1
	for _, s := range h.Steps {
		if s.Op != "edit" {
			continue
		}
		if seen[s.Content] && s.Content != last {
			return true
		}
		seen[s.Content] = true
		last = s.Content
	}
	return false
}

func (h *history) has(op string) bool {
	for _, s := range h.Steps {
		if s.Op == op {
			return true
		}
	}
	return false
}

func ed(i int) step { return step{Op: "edit", Content: i} }

// baseHistories are the fixed shapes for which every fault position is enumerated.
func baseHistories() []history {
	sp := specPool()
	st, beta := labelPool[1], labelPool[2]
	A := content{Labels: st, Spec: sp[0]}
	B := content{Labels: st, Spec: sp[1]}
	C := content{Labels: st, Spec: sp[2]}
	D := content{Labels: st, Spec: sp[4]}
	Abeta := content{Labels: beta, Spec: sp[0]}
	Aann := content{Labels: st, Annotations: annPool[1], Spec: sp[0]}
	Anol := content{Spec: sp[0]}
	strip, restore := step{Op: "strip"}, step{Op: "restore"}
	fadd, frm := step{Op: "foreign-add"}, step{Op: "foreign-remove"}
	return []history{
		{Name: "a-b-a", Contents: []content{A, B}, Steps: []step{ed(0), ed(1), ed(0)}},
		{Name: "a-b-c-a", Contents: []content{A, B, C}, Steps: []step{ed(0), ed(1), ed(2), ed(0)}},
		{Name: "a-b-a-b-c-b", Contents: []content{A, B, C}, Steps: []step{ed(0), ed(1), ed(0), ed(1), ed(2), ed(1)}},
		{Name: "label-only", Contents: []content{A, Abeta, Anol}, Steps: []step{ed(0), ed(1), ed(0), ed(2), ed(1)}},
		{Name: "annotation-only", Contents: []content{A, Aann, content{Labels: st, Annotations: annPool[2], Spec: sp[0]}}, Steps: []step{ed(0), ed(1), ed(2), ed(0)}},
		{Name: "spec-parts", Contents: []content{A, D, content{Labels: st, Spec: sp[5]}, content{Labels: st, Spec: sp[3]}, C}, Steps: []step{ed(0), ed(1), ed(2), ed(3), ed(4), ed(0)}},
		{Name: "resources-mode", Contents: []content{content{Labels: st, Spec: sp[7]}, A, content{Labels: st, Spec: sp[8]}}, Steps: []step{ed(0), ed(1), ed(2), ed(0)}},
		{Name: "edit-without-reconcile", Contents: []content{A, B, C}, Steps: []step{ed(0), {Op: "edit", Content: 1, NoReconcile: true}, ed(2), ed(1), ed(0)}},
		{Name: "strip-ab", Contents: []content{A, B}, Steps: []step{ed(0), ed(1), strip, ed(0)}},
		{Name: "strip-abc-revert", Contents: []content{A, B, C}, Steps: []step{ed(0), ed(1), ed(2), strip, ed(1)}},
		{Name: "strip-then-new-content", Contents: []content{A, B, C, D}, Steps: []step{ed(0), ed(1), ed(2), {Op: "strip", NoReconcile: true}, ed(3), ed(0)}},
		{Name: "strip-then-revert", Contents: []content{A, B, C}, Steps: []step{ed(0), ed(1), ed(2), {Op: "strip", NoReconcile: true}, ed(0), ed(2)}},
		{Name: "restore-ab", Contents: []content{A, B}, Steps: []step{ed(0), ed(1), restore, ed(0)}},
		{Name: "restore-abc", Contents: []content{A, Abeta, C}, Steps: []step{ed(0), ed(1), ed(2), restore, ed(1), ed(2)}},
		// older revisions lose their hash label; the Composition then moves to new contents and back
		// to contents whose revisions still carry the label (a revert to a content whose revision has
		// lost the label cannot succeed on the unchanged tree - the name is taken - and is not asked for)
		{Name: "unlabel-old-then-edit", Contents: []content{A, B, C, D}, Steps: []step{ed(0), ed(1), {Op: "unlabel-old"}, ed(2), ed(3), ed(2)}},
		{Name: "unlabel-old-revert", Contents: []content{A, B, C, D}, Steps: []step{ed(0), ed(1), ed(2), {Op: "unlabel-old", NoReconcile: true}, ed(3), ed(2), ed(3)}},
		{Name: "big-integers", Contents: []content{{Labels: st, Spec: sp[10]}, {Labels: st, Spec: sp[11]}, {Labels: st, Spec: sp[12]}}, Steps: []step{ed(0), ed(1), ed(0), ed(2), ed(1)}},
		{Name: "foreign-mid", Contents: []content{A, B, C}, Steps: []step{ed(0), ed(1), fadd, ed(2), frm, ed(0)}},
		{Name: "foreign-first", Contents: []content{A, B}, Steps: []step{{Op: "foreign-add", NoReconcile: true}, ed(0), frm, ed(1), ed(0)}},
		{Name: "foreign-stays", Contents: []content{A, Abeta}, Steps: []step{ed(0), ed(1), ed(0), fadd, ed(1)}},
		// the highest-numbered revision is deleted but lingers (a finalizer holds it) while the
		// Composition is edited to new content and reverted
		{Name: "highest-terminating", Contents: []content{A, B, C, D}, Steps: []step{ed(0), ed(1), ed(2), {Op: "delete-highest"}, ed(3), ed(0), ed(1), {Op: "release"}, ed(2)}},
		{Name: "highest-terminating-revert", Contents: []content{A, B, C}, Steps: []step{ed(0), ed(1), {Op: "delete-highest", NoReconcile: true}, ed(0), ed(2), {Op: "release"}, ed(1)}},
	}
}

// randomHistory draws 2-4 distinct contents and a 3-8 step history over them.
func randomHistory(c *kit.Ctx, i int) history {
	r := c.Rng("history", i)
	sp := specPool()
	nc := 2 + r.IntN(3)
	var cs []content
	seen := map[string]bool{}
	for len(cs) < nc {
		var ct content
		if len(cs) > 0 && r.IntN(2) == 0 {
			// metadata-only variation of an earlier content
			base := cs[r.IntN(len(cs))]
			ct = content{Labels: base.Labels, Annotations: base.Annotations, Spec: base.Spec}
			if r.IntN(2) == 0 {
				ct.Labels = labelPool[r.IntN(len(labelPool))]
			} else {
				ct.Annotations = annPool[r.IntN(len(annPool))]
			}
		} else {
			ct = content{Labels: labelPool[r.IntN(len(labelPool))], Annotations: annPool[r.IntN(len(annPool))], Spec: sp[r.IntN(len(sp))]}
		}
		if seen[ct.fp()] {
			continue
		}
		seen[ct.fp()] = true
		cs = append(cs, ct)
	}
	n := 3 + r.IntN(6)
	var steps []step
	cur := -1
	used := []int{}
	specialUsed, foreignLive := false, false
	special := r.IntN(3) // 0: none, 1: strip/restore, 2: foreign
	for len(steps) < n {
		roll := r.IntN(100)
		switch {
		case special == 1 && !specialUsed && len(used) >= 2 && roll < 35:
			op := "strip"
			if r.IntN(3) == 0 {
				op = "restore"
			}
			steps = append(steps, step{Op: op, NoReconcile: r.IntN(5) < 2})
			specialUsed = true
		case special == 2 && !specialUsed && !foreignLive && roll < 25:
			steps = append(steps, step{Op: "foreign-add", NoReconcile: r.IntN(2) == 0})
			foreignLive, specialUsed = true, true
		case foreignLive && roll < 40:
			steps = append(steps, step{Op: "foreign-remove"})
			foreignLive = false
		default:
			next := r.IntN(nc)
			if len(used) >= 2 && r.IntN(100) < 45 {
				next = used[r.IntN(len(used))] // bias towards reverts
			}
			if next == cur {
				next = (next + 1) % nc
			}
			steps = append(steps, step{Op: "edit", Content: next, NoReconcile: r.IntN(10) == 0})
			cur = next
			found := false
			for _, u := range used {
				found = found || u == next
			}
			if !found {
				used = append(used, next)
				sort.Ints(used)
			}
		}
	}
	// the last step always reconciles
	steps[len(steps)-1].NoReconcile = false
	return history{Name: fmt.Sprintf("rand-%d", i), Contents: cs, Steps: steps}
}
