// The whole XR reconciler over XRs whose Composition is not named by the user but selected
// during the reconcile (C12).
//go:build verif

package main

import (
	"fmt"
	"sort"

	"k8s.io/apimachinery/pkg/apis/meta/v1/unstructured"
	"k8s.io/apimachinery/pkg/runtime/schema"

	"github.com/crossplane/crossplane/verifh/kit"
	"github.com/crossplane/crossplane/verifh/sim"
	"github.com/crossplane/crossplane/verifh/xrk"
)

// runSelectedComposition: the REAL XR reconciler (production wiring: selector chain, revision
// selector, revision fetcher) reconciles XRs that carry a revision reference but no compositionRef;
// the Composition is filled in during the reconcile by the XRD's default reference, its enforced
// reference or the XR's composition selector. A Manual XR keeps the revision it references
// (and composes from it); an Automatic one moves to the highest revision.
func runSelectedComposition(c *kit.Ctx) {
	for vi, via := range []string{"xrd-default", "xrd-enforced", "xr-selector"} {
		for _, policy := range []string{"Manual", "Automatic"} {
			for _, pinned := range []int{1, 2} {
				name := fmt.Sprintf("selected-composition/%s/%s/pinned-rev%d", via, policy, pinned)
				if !c.Want(name) {
					continue
				}
				w := sim.NewWorld(xrk.Scheme(), uint64(c.Seed)*311+uint64(vi))
				xrd := xrk.XRDObject(xrk.XRDOpts{Group: "ex.org", Kind: "XThing", Plural: "xthings"})
				switch via {
				case "xrd-default":
					_ = unstructured.SetNestedField(xrd, "comp", "spec", "defaultCompositionRef", "name")
				case "xrd-enforced":
					_ = unstructured.SetNestedField(xrd, "comp", "spec", "enforcedCompositionRef", "name")
				}
				w.MustSeed("user", xrd)
				tmpl := func(v string) []map[string]any {
					return []map[string]any{{"name": "a", "base": map[string]any{"apiVersion": "nop.ex.org/v1", "kind": "NopA", "spec": map[string]any{"forProvider": map[string]any{"v": v}}},
						"readinessChecks": []any{map[string]any{"type": "None"}}}}
				}
				comp := xrk.ResourcesComposition("comp", "ex.org/v1", "XThing", tmpl("content-1"))
				_ = unstructured.SetNestedStringMap(comp, map[string]string{"channel": "stable"}, "metadata", "labels")
				w.MustSeed("user", comp)
				must(xrk.ReconcileComposition(w, "comp"), "reconcile composition")
				for n := 2; n <= 3; n++ {
					cu := &unstructured.Unstructured{Object: w.GetObj(sim.Key{Group: "apiextensions.crossplane.io", Kind: "Composition", Name: "comp"})}
					var rs []any
					for _, t := range tmpl(fmt.Sprintf("content-%d", n)) {
						rs = append(rs, t)
					}
					_ = unstructured.SetNestedSlice(cu.Object, rs, "spec", "resources")
					must(w.Client("user").Update(ctx, cu), "edit composition")
					must(xrk.ReconcileComposition(w, "comp"), "reconcile composition")
				}
				revByNum := map[int64]string{}
				var highest int64
				for _, o := range w.ListObjs(schema.GroupKind{Group: "apiextensions.crossplane.io", Kind: "CompositionRevision"}) {
					n, _, _ := unstructured.NestedInt64(o, "spec", "revision")
					revByNum[n] = sim.Str(o, "metadata", "name")
					if n > highest {
						highest = n
					}
				}
				if len(revByNum) != 3 {
					c.Violate("harness:selected-composition-revisions", name, fmt.Sprintf("expected 3 revisions, have %v", revByNum), nil)
					continue
				}
				spec := map[string]any{"compositionUpdatePolicy": policy, "compositionRevisionRef": map[string]any{"name": revByNum[int64(pinned)]}}
				if via == "xr-selector" {
					spec["compositionSelector"] = map[string]any{"matchLabels": map[string]any{"channel": "stable"}}
				}
				w.MustSeed("user", xrk.XRObject("ex.org/v1", "XThing", "xr1", "", spec))
				env := xrk.NewXREnv(w, xrk.XRDTyped(xrd))
				from := w.LogLen()
				want := revByNum[int64(pinned)]
				if policy == "Automatic" {
					want = revByNum[highest]
				}
				var trace []string
				for k := 0; k < 3; k++ {
					_, err, _ := env.Reconcile("xr1")
					xr := w.GetObj(sim.Key{Group: "ex.org", Kind: "XThing", Name: "xr1"})
					got := sim.Str(xr, "spec", "compositionRevisionRef", "name")
					trace = append(trace, fmt.Sprintf("reconcile %d: err=%v compositionRef=%q revisionRef=%q", k+1, err, sim.Str(xr, "spec", "compositionRef", "name"), got))
					if got != want {
						key := "O5-manual-reference-moved:composition-selected-during-reconcile"
						if policy == "Automatic" {
							key = "O5-automatic-not-highest:composition-selected-during-reconcile"
						}
						c.Violate(key, name, fmt.Sprintf("reconcile %d: a %s XR that referenced revision %s (number %d of 3) and got its Composition through %s now references %q, want %q", k+1, policy, revByNum[int64(pinned)], pinned, via, got, want),
							map[string]any{"via": via, "policy": policy, "revisions": revByNum, "steps": trace, "trace": shortEvents(w, from, 60)})
						break
					}
				}
				// what was composed comes from the revision the XR uses
				var vals []string
				for _, o := range w.ListObjs(schema.GroupKind{Group: "nop.ex.org", Kind: "NopA"}) {
					vals = append(vals, sim.Str(o, "spec", "forProvider", "v"))
				}
				sort.Strings(vals)
				wantNum := int64(pinned)
				if policy == "Automatic" {
					wantNum = highest
				}
				if len(vals) > 0 && (len(vals) != 1 || vals[0] != fmt.Sprintf("content-%d", wantNum)) {
					c.Violate("O5-composed-from-another-revision:composition-selected-during-reconcile", name, fmt.Sprintf("the XR uses revision number %d but its composed resources carry %v", wantNum, vals), map[string]any{"steps": trace})
				}
				env.CloseConns()
				c.Eval(name, len(vals) > 0)
				c.Count("selected_composition_cases", 1)
			}
		}
	}
}

func shortEvents(w *sim.World, from, max int) []string {
	var out []string
	for _, e := range w.Log(from) {
		out = append(out, e.Short())
		if len(out) >= max {
			break
		}
	}
	return out
}
