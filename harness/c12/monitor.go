//go:build verif

package main

import (
	"fmt"
	"sort"

	"k8s.io/apimachinery/pkg/apis/meta/v1/unstructured"
	"k8s.io/apimachinery/pkg/runtime/schema"

	"github.com/crossplane/crossplane/verifh/kit"
	"github.com/crossplane/crossplane/verifh/sim"
)

const (
	compName       = "comp"
	otherCompName  = "other"
	labelCompName  = "crossplane.io/composition-name"
	labelCompHash  = "crossplane.io/composition-hash"
	foreignRevName = "comp-restored-from-elsewhere"
	ctrlActor      = "composition"
	xrGroup        = "ex.org"
	xrKind         = "XThing"
	xrManual       = "xr-manual"
)

var (
	compKey = sim.Key{Group: "apiextensions.crossplane.io", Kind: "Composition", Name: compName}
	compGK  = schema.GroupKind{Group: "apiextensions.crossplane.io", Kind: "Composition"}
	revGK   = schema.GroupKind{Group: "apiextensions.crossplane.io", Kind: "CompositionRevision"}
	xrGK    = schema.GroupKind{Group: xrGroup, Kind: xrKind}
)

// revInfo is what the monitor remembers about one revision name over the whole history.
type revInfo struct {
	Content int    // index of the content the Composition had when the controller created it
	Spec    string // canonical JSON of spec minus revision, as created
	Num     int64  // last number seen
	Foreign bool   // not created by the controller under observation
	Live    bool
	Labels  string // canonical JSON of metadata.labels, as last written by a user or at creation
}

type violation struct {
	key, what string
}

// monitor is the per-execution oracle state. It is touched from the world's hook (under the
// store lock) and from the single goroutine that owns the execution.
type monitor struct {
	contents []content
	fps      map[string]int
	revs     map[string]*revInfo

	stripped, foreign bool // class of the history so far

	viol   []violation
	checks int

	created   int // revisions created by the controller
	renumbers int // number increases of an existing revision
}

func newMonitor(h *history) *monitor {
	m := &monitor{contents: h.Contents, fps: map[string]int{}, revs: map[string]*revInfo{}}
	for i, c := range h.Contents {
		m.fps[c.fp()] = i
	}
	return m
}

func (m *monitor) clone() *monitor {
	n := &monitor{contents: m.contents, fps: m.fps, revs: map[string]*revInfo{}, stripped: m.stripped, foreign: m.foreign}
	for k, v := range m.revs {
		cp := *v
		n.revs[k] = &cp
	}
	n.viol = append(n.viol, m.viol...)
	return n
}

// class names the kind of history the execution has been through so far; it is part of every
// violation key so that a defect specific to restored (owner-less) revisions is not confused
// with one in plain histories.
func (m *monitor) class() string {
	switch {
	case m.stripped && m.foreign:
		return "owner-refs-stripped+foreign-revision"
	case m.stripped:
		return "owner-refs-stripped"
	case m.foreign:
		return "foreign-revision"
	}
	return "plain"
}

func (m *monitor) add(key, what string) {
	key += ":" + m.class()
	for _, v := range m.viol {
		if v.key == key {
			return
		}
	}
	m.viol = append(m.viol, violation{key, what})
}

// contentOf maps a stored Composition to the index of the generated content it carries.
func (m *monitor) contentOf(comp map[string]any) int {
	if comp == nil {
		return -1
	}
	ls, _, _ := unstructured.NestedStringMap(comp, "metadata", "labels")
	as, _, _ := unstructured.NestedStringMap(comp, "metadata", "annotations")
	sp, _ := comp["spec"].(map[string]any)
	i, ok := m.fps[content{Labels: ls, Annotations: as, Spec: sp}.fp()]
	if !ok {
		return -1
	}
	return i
}

func revNum(o map[string]any) int64 {
	if n, ok, _ := unstructured.NestedInt64(o, "spec", "revision"); ok {
		return n
	}
	if f, ok, _ := unstructured.NestedFloat64(o, "spec", "revision"); ok {
		return int64(f)
	}
	return 0
}

func specMinusRevision(o map[string]any) string {
	sp, _ := o["spec"].(map[string]any)
	cp := map[string]any{}
	for k, v := range sp {
		if k != "revision" {
			cp[k] = v
		}
	}
	return kit.JSON(cp)
}

func labelsOf(o map[string]any) map[string]string {
	ls, _, _ := unstructured.NestedStringMap(o, "metadata", "labels")
	return ls
}

func controllerUID(o map[string]any) string {
	if c := sim.ControllerOf(o); c != nil {
		return sim.Str(c, "uid")
	}
	return ""
}

// hook judges every effective write: O2 (spec minus revision immutable, by name, over the
// whole history), O3 (numbers never decrease), O1's "at most one revision per content" and
// "faithful at creation", the Manual XR's pinned reference, and that revisions of another
// Composition are left alone.
func (m *monitor) hook(v *sim.View, ev *sim.Event) {
	if !ev.Changed {
		return
	}
	switch ev.Key.GK() {
	case revGK:
		m.checks++
		m.onRevisionWrite(v, ev)
	case xrGK:
		if ev.Key.Name != xrManual || ev.Before == nil || ev.After == nil {
			return
		}
		m.checks++
		b := sim.Str(ev.Before, "spec", "compositionRevisionRef", "name")
		a := sim.Str(ev.After, "spec", "compositionRevisionRef", "name")
		if b != "" && a != b {
			m.add("O5-manual-ref-changed", fmt.Sprintf("%s: XR with Manual policy moved from revision %q to %q", ev.Short(), b, a))
		}
	}
}

func (m *monitor) onRevisionWrite(v *sim.View, ev *sim.Event) {
	obj := ev.After
	if obj == nil {
		obj = ev.Before
	}
	name := ev.Key.Name
	if labelsOf(obj)[labelCompName] != compName {
		if ev.Actor == ctrlActor {
			m.add("bystander-revision-written", fmt.Sprintf("%s: reconciling %q wrote a revision labelled for Composition %q", ev.Short(), compName, labelsOf(obj)[labelCompName]))
		}
		return
	}
	ri := m.revs[name]
	switch {
	case ev.Removed:
		if ri != nil {
			ri.Live = false
		}
		return
	case ev.Before == nil: // created
		if ev.Actor != ctrlActor {
			// user action (restore of a known revision, or a revision from elsewhere)
			if ri == nil {
				m.revs[name] = &revInfo{Content: -1, Spec: specMinusRevision(obj), Num: revNum(obj), Foreign: true, Live: true}
				return
			}
			ri.Live = true
			ri.Num = revNum(obj)
			return
		}
		m.created++
		comp := v.Get(compKey)
		ci := m.contentOf(comp)
		sm := specMinusRevision(obj)
		if ri != nil {
			// a name seen before was created again: it is still the same revision to the user
			if sm != ri.Spec {
				m.add("O2-revision-spec-edited", fmt.Sprintf("%s: revision %s re-created with a different spec: was %s now %s", ev.Short(), name, ri.Spec, sm))
			}
			if revNum(obj) < ri.Num {
				m.add("O3-revision-number-decreased", fmt.Sprintf("%s: revision %s re-created with number %d < %d", ev.Short(), name, revNum(obj), ri.Num))
			}
			ri.Live, ri.Num = true, revNum(obj)
		} else {
			ri = &revInfo{Content: ci, Spec: sm, Num: revNum(obj), Live: true}
			m.revs[name] = ri
		}
		if comp != nil {
			cs, _ := comp["spec"].(map[string]any)
			if want := kit.JSON(cs); want != sm {
				m.add("O1-revision-spec-differs-from-content", fmt.Sprintf("%s: revision %s created with spec (minus revision) %s while the Composition's spec is %s", ev.Short(), name, sm, want))
			}
		}
		if revNum(obj) < 1 {
			m.add("O3-revision-number-not-positive", fmt.Sprintf("%s: revision %s created with number %d", ev.Short(), name, revNum(obj)))
		}
	default: // updated
		if ri == nil {
			ri = &revInfo{Content: -1, Spec: specMinusRevision(ev.Before), Num: revNum(ev.Before), Foreign: true, Live: true}
			m.revs[name] = ri
		}
		if sm := specMinusRevision(obj); sm != ri.Spec {
			m.add("O2-revision-spec-edited", fmt.Sprintf("%s: spec (minus revision) of %s changed after creation: was %s now %s", ev.Short(), name, ri.Spec, sm))
		}
		// A revision's labels are a copy of the Composition's labels at the time of the content it
		// captures (revision selectors of XRs match on them): the controller never rewrites them.
		if ev.Before != nil {
			lb, la := kit.JSON(labelsOf(ev.Before)), kit.JSON(labelsOf(obj))
			if ev.Actor == ctrlActor && lb != la {
				m.add("O2-revision-labels-edited", fmt.Sprintf("%s: labels of %s changed after creation: were %s now %s", ev.Short(), name, lb, la))
			}
		}
		n := revNum(obj)
		if n < ri.Num {
			m.add("O3-revision-number-decreased", fmt.Sprintf("%s: revision number of %s went from %d down to %d", ev.Short(), name, ri.Num, n))
		}
		if n > ri.Num && ev.Actor == ctrlActor {
			m.renumbers++
		}
		ri.Num = n
	}
	// O1, at every instant: at most one live revision per content
	per := map[int][]string{}
	for _, o := range v.List(revGK) {
		if labelsOf(o)[labelCompName] != compName {
			continue
		}
		n := sim.Str(o, "metadata", "name")
		if r := m.revs[n]; r != nil && !r.Foreign && r.Content >= 0 {
			per[r.Content] = append(per[r.Content], n)
		}
	}
	for ci, ns := range per {
		if len(ns) > 1 {
			sort.Strings(ns)
			m.add("O1-two-revisions-for-one-content", fmt.Sprintf("%s: content #%d is captured by %d revisions: %v", ev.Short(), ci, len(ns), ns))
		}
	}
}

// afterCompleted judges the store after a fault-free reconcile that returned no error and did
// not ask to be requeued: O1 "exactly one, equal to the current content" and O4 "the current
// content's revision has the strictly highest number among those controlled by the
// Composition". quiescent says that this reconcile made no effective write any more, i.e. the
// state is what the controller leaves behind for good.
func (m *monitor) afterCompleted(w *sim.World, quiescent bool, label string) {
	m.checks++
	comp := w.GetObj(compKey)
	if comp == nil {
		return
	}
	cur := m.contentOf(comp)
	uid := sim.Str(comp, "metadata", "uid")
	var match []map[string]any
	var all []map[string]any
	for _, o := range w.ListObjs(revGK) {
		if labelsOf(o)[labelCompName] != compName {
			continue
		}
		all = append(all, o)
		if r := m.revs[sim.Str(o, "metadata", "name")]; r != nil && !r.Foreign && r.Content == cur {
			match = append(match, o)
		}
	}
	desc := func() string {
		var s []string
		for _, o := range all {
			c := "-"
			if r := m.revs[sim.Str(o, "metadata", "name")]; r != nil {
				c = fmt.Sprint(r.Content)
			}
			s = append(s, fmt.Sprintf("%s{content#%s rev=%d controlled=%v}", sim.Str(o, "metadata", "name"), c, revNum(o), controllerUID(o) == uid))
		}
		return fmt.Sprint(s)
	}
	if len(match) == 0 {
		m.add("O1-no-revision-for-current-content", fmt.Sprintf("%s: reconcile completed but no revision captures the Composition's current content #%d; revisions %s", label, cur, desc()))
		return
	}
	if len(match) > 1 {
		m.add("O1-two-revisions-for-one-content", fmt.Sprintf("%s: current content #%d captured by %d revisions: %s", label, cur, len(match), desc()))
		return
	}
	r := match[0]
	cs, _ := comp["spec"].(map[string]any)
	if sm := specMinusRevision(r); sm != kit.JSON(cs) {
		m.add("O1-revision-spec-differs-from-content", fmt.Sprintf("%s: revision %s has spec %s, Composition has %s", label, sim.Str(r, "metadata", "name"), sm, kit.JSON(cs)))
	}
	bad := controllerUID(r) != uid
	for _, o := range all {
		if sim.Str(o, "metadata", "name") == sim.Str(r, "metadata", "name") || controllerUID(o) != uid {
			continue
		}
		if revNum(o) >= revNum(r) {
			bad = true
		}
	}
	if bad {
		key := "O4-current-not-highest"
		if quiescent {
			key = "O4-current-not-highest-at-quiescence"
		}
		m.add(key, fmt.Sprintf("%s: after a completed fault-free reconcile (quiescent=%v) the revision %s of the current content #%d (rev=%d, controlled=%v) is not the strictly highest among the Composition's revisions: %s",
			label, quiescent, sim.Str(r, "metadata", "name"), cur, revNum(r), controllerUID(r) == uid, desc()))
	}
}

// foreignLive reports whether a revision labelled for the Composition is controlled by
// another owner (then the controller is expected to refuse to adopt it and to fail).
func foreignLive(w *sim.World) bool {
	comp := w.GetObj(compKey)
	uid := sim.Str(comp, "metadata", "uid")
	for _, o := range w.ListObjs(revGK) {
		if labelsOf(o)[labelCompName] != compName {
			continue
		}
		if c := controllerUID(o); c != "" && c != uid {
			return true
		}
	}
	return false
}
