//go:build verif

// C08: teardown happens in dependency order; nothing is orphaned with a dead controller.
// The real definition and offered (XRD) reconcilers run with a capturing engine, so the XR
// and claim reconcilers are the production-wired ones and only reconcile while the engine says
// their controller is running. User deletions (claim, XR, XRD), all four reconcilers, the
// Kubernetes garbage collector, a third party stripping finalizers and injected API errors
// are interleaved at API-call granularity by the actor scheduler. Precedence monitors run on
// every event of the single ordered trace (API writes and engine Start/Stop marks).
package main

import (
	"context"
	"fmt"
	"math/rand/v2"
	"os"
	"strings"
	"sync"

	metav1 "k8s.io/apimachinery/pkg/apis/meta/v1"
	"k8s.io/apimachinery/pkg/apis/meta/v1/unstructured"
	"k8s.io/apimachinery/pkg/runtime"
	"k8s.io/apimachinery/pkg/runtime/schema"
	"k8s.io/apimachinery/pkg/types"
	"sigs.k8s.io/controller-runtime/pkg/client"
	"sigs.k8s.io/controller-runtime/pkg/reconcile"

	xpcontroller "github.com/crossplane/crossplane-runtime/pkg/controller"
	"github.com/crossplane/crossplane-runtime/pkg/logging"

	pkgmetav1 "github.com/crossplane/crossplane/apis/pkg/meta/v1"
	pkgv1 "github.com/crossplane/crossplane/apis/pkg/v1"
	"github.com/crossplane/crossplane/internal/controller/apiextensions/definition"
	"github.com/crossplane/crossplane/internal/controller/apiextensions/offered"
	usagectrl "github.com/crossplane/crossplane/internal/controller/apiextensions/usage"
	"github.com/crossplane/crossplane/internal/controller/pkg/revision"
	"github.com/crossplane/crossplane/internal/dag"
	usagehook "github.com/crossplane/crossplane/internal/usage"
	"github.com/crossplane/crossplane/internal/xfn"
	"github.com/crossplane/crossplane/verifh/kit"
	"github.com/crossplane/crossplane/verifh/sim"
	"github.com/crossplane/crossplane/verifh/xrk"
)

const (
	xrdName      = "xthings.ex.org"
	finClaim     = "finalizer.apiextensions.crossplane.io"
	finXR        = "composite.apiextensions.crossplane.io"
	finDefined   = "defined.apiextensions.crossplane.io"
	finOffered   = "offered.apiextensions.crossplane.io"
	ctlComposite = "composite/" + xrdName
	ctlClaim     = "claim/" + xrdName
)

var (
	ctx     = context.Background()
	xrGK    = schema.GroupKind{Group: "ex.org", Kind: "XThing"}
	claimGK = schema.GroupKind{Group: "ex.org", Kind: "Thing"}
	xrdKey  = sim.Key{Group: "apiextensions.crossplane.io", Kind: "CompositeResourceDefinition", Name: xrdName}
	xrCRD   = sim.Key{Group: "apiextensions.k8s.io", Kind: "CustomResourceDefinition", Name: "xthings.ex.org"}
	clCRD   = sim.Key{Group: "apiextensions.k8s.io", Kind: "CustomResourceDefinition", Name: "things.ex.org"}
)

func hasFin(o map[string]any, f string) bool {
	fs, _, _ := unstructured.NestedStringSlice(o, "metadata", "finalizers")
	for _, x := range fs {
		if x == f {
			return true
		}
	}
	return false
}

type monitor struct {
	running           map[string]bool
	stoppedSinceStart map[string]bool
	xrDeletesByClaim  map[string]bool
	keys, whats       []string
	checks            int
	order             []string // coarse record of ordering-relevant events for the evidence
	// sequence number of the last List by an XRD controller that found no instance of a kind,
	// and of the creation of every instance: tells a check-then-act race (an instance created
	// after the emptiness check) from a plain ordering error
	lastEmpty map[schema.GroupKind]int
	created   map[sim.Key]int
}

// cause classifies why instances exist at a point where none should.
func (m *monitor) cause(v *sim.View, gk schema.GroupKind) string {
	le, checked := m.lastEmpty[gk]
	if !checked {
		return "no-emptiness-check"
	}
	for _, o := range v.List(gk) {
		if m.created[sim.KeyOf(o)] <= le {
			return "existed-at-emptiness-check"
		}
	}
	return "created-after-emptiness-check"
}

func newMonitor() *monitor {
	return &monitor{running: map[string]bool{}, stoppedSinceStart: map[string]bool{}, xrDeletesByClaim: map[string]bool{}, lastEmpty: map[schema.GroupKind]int{}, created: map[sim.Key]int{}}
}

func (m *monitor) add(key, what string) {
	for _, k := range m.keys {
		if k == key {
			return
		}
	}
	m.keys = append(m.keys, key)
	m.whats = append(m.whats, what)
}

func controlledBy(o map[string]any, uid string) bool {
	c := sim.ControllerOf(o)
	return c != nil && sim.Str(c, "uid") == uid
}

func (m *monitor) hook(v *sim.View, ev *sim.Event) {
	m.checks++
	if (ev.Actor == "definition" || ev.Actor == "offered") && ev.Verb == "list" && ev.Err == "" && ev.Note == "items=0" {
		m.lastEmpty[ev.Key.GK()] = ev.Seq
	}
	if ev.Changed && ev.Before == nil && ev.After != nil && (ev.Key.GK() == xrGK || ev.Key.GK() == claimGK) {
		m.created[ev.Key] = ev.Seq
	}
	xrd := v.Get(xrdKey)
	terminating := xrd != nil && sim.Terminating(xrd)
	if ev.Verb == "mark" && ev.Actor == "engine" {
		f := strings.Fields(ev.Note)
		if len(f) == 2 {
			switch f[0] {
			case "Start":
				m.running[f[1]] = true
				m.stoppedSinceStart[f[1]] = false
			case "Stop":
				// the controller is stopped only after the instances it serves are gone
				if terminating && m.running[f[1]] {
					gk := xrGK
					if f[1] == ctlClaim {
						gk = claimGK
					}
					if n := len(v.List(gk)); n > 0 {
						m.add("controller-stopped-while-instances-exist:"+strings.SplitN(f[1], "/", 2)[0]+":"+m.cause(v, gk), fmt.Sprintf("%s: engine.Stop(%s) while %d %s instance(s) still exist", ev.Short(), f[1], n, gk.Kind))
					}
				}
				m.running[f[1]] = false
				m.stoppedSinceStart[f[1]] = true
				m.order = append(m.order, "stop:"+f[1])
			}
		}
		return
	}
	if !ev.Changed {
		// remember XR deletes the claim controller issued (also when the XR was already terminating)
		if ev.Actor == "claim" && ev.Verb == "delete" && ev.Key.GK() == xrGK && ev.Err == "" {
			m.xrDeletesByClaim[ev.Key.Name] = true
		}
		return
	}
	if ev.Actor == "claim" && ev.Verb == "delete" && ev.Key.GK() == xrGK {
		m.xrDeletesByClaim[ev.Key.Name] = true
	}
	// claim finalizer removed by the claim controller => its XR was deleted first (and is gone
	// under the Foreground policy)
	if ev.Key.GK() == claimGK && ev.Actor == "claim" && ev.Before != nil && hasFin(ev.Before, finClaim) && (ev.After == nil || !hasFin(ev.After, finClaim)) {
		ref := sim.Str(ev.Before, "spec", "resourceRef", "name")
		m.order = append(m.order, "claim-finalizer-removed:"+ev.Key.Name)
		// "its XR": the one the claim references and every other XR whose claim reference names it
		names := []string{}
		if ref != "" {
			names = append(names, ref)
		}
		for _, o := range v.List(xrGK) {
			if n := sim.Str(o, "metadata", "name"); n != ref {
				names = append(names, n)
			}
		}
		for _, xn := range names {
			xr := v.Get(sim.Key{Group: "ex.org", Kind: "XThing", Name: xn})
			bound := false
			if xr != nil {
				cr, _, _ := unstructured.NestedMap(xr, "spec", "claimRef")
				bound = sim.Str(cr, "name") == ev.Key.Name && sim.Str(cr, "namespace") == ev.Key.Namespace
			}
			if xr != nil && bound {
				suffix := ""
				if xn != ref {
					suffix = ":xr-not-referenced-by-claim"
				}
				if !sim.Terminating(xr) && !m.xrDeletesByClaim[xn] {
					m.add("claim-finalized-before-xr-deleted"+suffix, fmt.Sprintf("%s: claim finalizer removed while its XR %s (claim reference %s/%s; the claim references %q) exists and no delete was issued for it", ev.Short(), xn, ev.Key.Namespace, ev.Key.Name, ref))
				}
				if sim.Str(ev.Before, "spec", "compositeDeletePolicy") == "Foreground" {
					m.add("claim-finalized-before-xr-gone:foreground"+suffix, fmt.Sprintf("%s: Foreground policy but XR %s still exists when the claim finalizer is removed", ev.Short(), xn))
				}
			}
		}
	}
	// a CRD is deleted only after every instance is gone and its controller was stopped
	// (a "deletion" is any Crossplane write that makes the CRD leave the store, or a delete request)
	if ev.Key.Kind == "CustomResourceDefinition" && (ev.Verb == "delete" || ev.Removed) && (ev.Actor == "definition" || ev.Actor == "offered") && ev.Before != nil {
		kind := sim.Str(ev.Before, "spec", "names", "kind")
		gk := schema.GroupKind{Group: sim.Str(ev.Before, "spec", "group"), Kind: kind}
		ctl := ctlComposite
		if gk == claimGK {
			ctl = ctlClaim
		}
		m.order = append(m.order, "crd-deleted:"+kind)
		if n := len(v.List(gk)); n > 0 {
			m.add("crd-deleted-while-instances-exist:"+kind+":"+m.cause(v, gk), fmt.Sprintf("%s: %d %s instance(s) still exist", ev.Short(), n, kind))
		}
		if m.running[ctl] {
			m.add("crd-deleted-before-controller-stopped:"+kind, fmt.Sprintf("%s: controller %s is still running", ev.Short(), ctl))
		}
	}
	// the XRD's finalizers are removed only after the CRD is gone or was never ours
	if ev.Key == xrdKey && ev.Before != nil {
		for fin, crdKey := range map[string]sim.Key{finDefined: xrCRD, finOffered: clCRD} {
			if hasFin(ev.Before, fin) && (ev.After == nil || !hasFin(ev.After, fin)) && (ev.Actor == "definition" || ev.Actor == "offered" || ev.Actor == "pkgrev") {
				m.order = append(m.order, "xrd-finalizer-removed:"+fin)
				if crd := v.Get(crdKey); crd != nil && controlledBy(crd, sim.Str(ev.Before, "metadata", "uid")) {
					key := "xrd-finalized-before-crd-gone:" + fin
					if ev.Actor == "pkgrev" {
						key += ":by-package-establisher" // another Crossplane controller took the finalizer away
					}
					m.add(key, fmt.Sprintf("%s: finalizer %s removed while CRD %s still exists and is controlled by the XRD", ev.Short(), fin, crdKey.Name))
				}
			}
		}
	}
}

func nop(kind, val string) map[string]any {
	return map[string]any{"apiVersion": "nop.ex.org/v1", "kind": kind, "spec": map[string]any{"forProvider": map[string]any{"v": val}}}
}

// capEngine is an engine the XRD controllers can drive and the harness can query for the
// reconciler a controller was started with.
type capEngine interface {
	definition.ControllerEngine
	Reconciler(name string) reconcile.Reconciler
}

type env struct {
	w        *sim.World
	defEng   capEngine
	offEng   capEngine
	defR     *definition.Reconciler
	offR     *offered.Reconciler
	xrC, clC *sim.Client
	// clLag, when set, makes the claim controller's reads lag (its informer cache is behind)
	clLag func(gk schema.GroupKind) (int64, bool)
}

func newEnv(seed uint64, ssa bool) *env { return newEnvWith(seed, ssa, false) }

// newEnvWith builds the world; with realEngine the XRD controllers drive the REAL controller
// engine over fake informers instead of the recording engine.
func newEnvWith(seed uint64, ssa, realEngine bool) *env {
	w := sim.NewWorld(xrk.Scheme(), seed)
	w.MustSeed("user", xrk.XRDObject(xrk.XRDOpts{Group: "ex.org", Kind: "XThing", Plural: "xthings", ClaimKind: "Thing", ClaimPlural: "things"}))
	w.MustSeed("user", xrk.ResourcesComposition("comp", "ex.org/v1", "XThing", []map[string]any{{"name": "a", "base": nop("NopA", "1"), "readinessChecks": []any{map[string]any{"type": "None"}}}}))
	if err := xrk.ReconcileComposition(w, "comp"); err != nil {
		panic(err)
	}
	e := &env{w: w, xrC: w.Client("xr")}
	e.clC = w.LaggingClient("claim", func(gk schema.GroupKind) (int64, bool) {
		if e.clLag != nil {
			return e.clLag(gk)
		}
		return 0, false
	})
	e.defEng = xrk.NewCapturingEngine(w, e.xrC)
	e.offEng = xrk.NewCapturingEngine(w, e.clC)
	if realEngine {
		e.defEng = xrk.NewRealEngine(w, e.xrC)
		e.offEng = xrk.NewRealEngine(w, e.clC)
	}
	od := xrk.Options(ssa)
	od.FunctionRunner = xfn.NewPackagedFunctionRunner(e.xrC)
	e.defR = definition.NewReconciler(definition.NewClientApplicator(w.Client("definition")), definition.WithControllerEngine(e.defEng), definition.WithOptions(od))
	e.offR = offered.NewReconciler(offered.NewClientApplicator(w.Client("offered")), offered.WithControllerEngine(e.offEng), offered.WithOptions(xrk.Options(ssa)))
	return e
}

var xrdReq = reconcile.Request{NamespacedName: types.NamespacedName{Name: xrdName}}

func (e *env) reconcileXRs() {
	r := e.defEng.Reconciler(ctlComposite)
	if r == nil || !e.defEng.IsRunning(ctlComposite) {
		return
	}
	for _, xr := range e.w.ListObjs(xrGK) {
		// a stopped controller starts no new reconcile (its work queue is shut down); one that is
		// in flight when the controller stops runs to its end
		if !e.defEng.IsRunning(ctlComposite) {
			return
		}
		e.xrC.ResetCalls()
		_, _ = r.Reconcile(ctx, reconcile.Request{NamespacedName: types.NamespacedName{Name: sim.Str(xr, "metadata", "name")}})
	}
}

func (e *env) reconcileClaims() {
	r := e.offEng.Reconciler(ctlClaim)
	if r == nil || !e.offEng.IsRunning(ctlClaim) {
		return
	}
	for _, cm := range e.w.ListObjs(claimGK) {
		if !e.offEng.IsRunning(ctlClaim) {
			return
		}
		e.clC.ResetCalls()
		_, _ = r.Reconcile(ctx, reconcile.Request{NamespacedName: types.NamespacedName{Namespace: sim.Str(cm, "metadata", "namespace"), Name: sim.Str(cm, "metadata", "name")}})
	}
}

func (e *env) settle(rounds int) {
	for i := 0; i < rounds; i++ {
		_, _ = e.defR.Reconcile(ctx, xrdReq)
		_, _ = e.offR.Reconcile(ctx, xrdReq)
		xrk.EstablishCRDs(e.w)
		e.reconcileClaims()
		e.reconcileXRs()
		e.w.GCRun(50)
	}
}

type scenario struct {
	SSA        bool     `json:"ssa"`
	Policies   []string `json:"claimDeletePolicies"`
	DirectXR   bool     `json:"directXR"`
	UnboundNew bool     `json:"unboundClaimAtStart"`
	UserOps    []string `json:"userOps"`
	ThirdParty string   `json:"thirdParty"`
	FaultActor string   `json:"faultActor"`
	FaultCall  int      `json:"faultCall"`
}

func genScenario(r *rand.Rand, i int) scenario {
	s := scenario{SSA: i%2 == 1, DirectXR: r.IntN(3) == 0, UnboundNew: r.IntN(3) == 0}
	for k := 0; k < 1+r.IntN(2); k++ {
		s.Policies = append(s.Policies, []string{"Background", "Foreground", ""}[r.IntN(3)])
	}
	ops := [][]string{{"delete-claim"}, {"delete-xrd"}, {"delete-claim", "delete-xrd"}, {"delete-xrd", "delete-claim"}, {"delete-xr"}, {"delete-xr", "delete-xrd"}, {"delete-claim", "delete-xr", "delete-xrd"}}
	s.UserOps = ops[r.IntN(len(ops))]
	s.ThirdParty = []string{"", "", "strip-xr", "strip-claim"}[r.IntN(4)]
	s.FaultActor = []string{"", "", "claim", "xr", "definition", "offered"}[r.IntN(6)]
	s.FaultCall = r.IntN(12)
	return s
}

func run(c *kit.Ctx, i int, name string, mu *sync.Mutex, schedules map[string]bool) {
	r := c.Rng("sched", i)
	sc := genScenario(r, i)
	e := newEnv(uint64(c.Seed)*191+uint64(i), sc.SSA)
	w := e.w
	for k, pol := range sc.Policies {
		spec := map[string]any{"compositionRef": map[string]any{"name": "comp"}}
		if pol != "" {
			spec["compositeDeletePolicy"] = pol
		}
		w.MustSeed("user", xrk.ClaimObject("ex.org/v1", "Thing", "ns1", fmt.Sprintf("c%d", k), spec))
	}
	if sc.DirectXR {
		w.MustSeed("user", xrk.XRObject("ex.org/v1", "XThing", "direct-xr", "comp", nil))
	}
	e.settle(4)
	if sc.UnboundNew {
		w.MustSeed("user", xrk.ClaimObject("ex.org/v1", "Thing", "ns2", "late", map[string]any{"compositionRef": map[string]any{"name": "comp"}}))
	}
	m := newMonitor()
	m.running[ctlComposite] = e.defEng.IsRunning(ctlComposite)
	m.running[ctlClaim] = e.offEng.IsRunning(ctlClaim)
	w.AddHook(m.hook)
	from := w.LogLen()

	switch sc.FaultActor {
	case "claim":
		e.clC.FaultFn = onceAt(sc.FaultCall)
	case "xr":
		e.xrC.FaultFn = onceAt(sc.FaultCall)
	}
	s := w.NewScheduler()
	loops := 5
	user := w.Client("user")
	s.Go("user", func() {
		for _, op := range sc.UserOps {
			switch op {
			case "delete-claim":
				for _, cm := range w.ListObjs(claimGK) {
					_ = user.Delete(ctx, &unstructured.Unstructured{Object: cm})
					break
				}
			case "delete-xr":
				for _, xr := range w.ListObjs(xrGK) {
					_ = user.Delete(ctx, &unstructured.Unstructured{Object: xr})
					break
				}
			case "delete-xrd":
				pol := metav1.DeletePropagationForeground
				if r.IntN(2) == 0 {
					pol = metav1.DeletePropagationBackground
				}
				_ = user.Delete(ctx, &unstructured.Unstructured{Object: w.GetObj(xrdKey)}, client.PropagationPolicy(pol))
			}
		}
	})
	defC, offC := w.Client("definition"), w.Client("offered")
	_ = defC
	_ = offC
	s.Go("definition", func() {
		for k := 0; k < loops; k++ {
			_, _ = e.defR.Reconcile(ctx, xrdReq)
		}
	})
	s.Go("offered", func() {
		for k := 0; k < loops; k++ {
			_, _ = e.offR.Reconcile(ctx, xrdReq)
		}
	})
	s.Go("claim", func() {
		for k := 0; k < loops; k++ {
			e.reconcileClaims()
		}
	})
	s.Go("xr", func() {
		for k := 0; k < loops; k++ {
			e.reconcileXRs()
		}
	})
	gcC := w.Client("gcdriver")
	s.Go("gcdriver", func() {
		for k := 0; k < loops*2; k++ {
			// one parked step per GC action so that the collector interleaves with the controllers
			_ = gcC.Get(ctx, types.NamespacedName{Name: "tick"}, &unstructured.Unstructured{Object: map[string]any{"apiVersion": "v1", "kind": "ConfigMap"}})
			if p := w.GCPending(); len(p) > 0 {
				_ = w.GCDo(p[0])
			}
		}
	})
	if sc.ThirdParty != "" {
		tp := w.Client("thirdparty")
		s.Go("thirdparty", func() {
			gk := xrGK
			if sc.ThirdParty == "strip-claim" {
				gk = claimGK
			}
			for _, o := range w.ListObjs(gk) {
				u := &unstructured.Unstructured{Object: o}
				u.SetFinalizers(nil)
				_ = tp.Update(ctx, u)
				break
			}
		})
	}
	sched := s.Run(func(en, _ []string) int { return r.IntN(len(en)) }, 20000)
	w.SetScheduler(nil)
	e.clC.FaultFn, e.xrC.FaultFn = nil, nil
	// let everything finish sequentially
	e.settle(6)

	// end of run: no object is left with a Crossplane finalizer whose controller is stopped
	w.Read(func(v *sim.View) {
		for _, o := range v.List(xrGK) {
			if hasFin(o, finXR) && sim.Terminating(o) && !e.defEng.IsRunning(ctlComposite) {
				m.add("xr-orphaned-with-dead-controller", fmt.Sprintf("XR %s is terminating with finalizer %s but its controller is stopped", sim.Str(o, "metadata", "name"), finXR))
			}
		}
		for _, o := range v.List(claimGK) {
			if hasFin(o, finClaim) && sim.Terminating(o) && !e.offEng.IsRunning(ctlClaim) {
				m.add("claim-orphaned-with-dead-controller", fmt.Sprintf("claim %s is terminating with finalizer %s but its controller is stopped", sim.Str(o, "metadata", "name"), finClaim))
			}
		}
	})

	actors := map[string]bool{}
	for _, ev := range w.Log(from) {
		if ev.Changed {
			actors[ev.Actor] = true
		}
	}
	recon := 0
	for _, a := range []string{"claim", "xr", "definition", "offered"} {
		if actors[a] {
			recon++
		}
	}
	mu.Lock()
	defer mu.Unlock()
	schedules[strings.Join(sched, "")] = true
	c.Eval(fmt.Sprintf("%s|%s", kit.JSON(sc), strings.Join(sched, ",")), recon >= 2)
	c.Count("schedules", 1)
	c.Count("schedule_steps", int64(len(sched)))
	c.Count("monitor_evaluations", int64(m.checks))
	for _, o := range m.order {
		c.Count("observed_"+strings.SplitN(o, ":", 2)[0], 1)
	}
	for k, key := range m.keys {
		var evs []string
		for _, e2 := range w.Log(from) {
			if e2.IsWrite() || e2.Verb == "mark" {
				evs = append(evs, e2.Short())
			}
			if len(evs) > 150 {
				break
			}
		}
		c.Violate(key, name, m.whats[k], map[string]any{"scenario": sc, "schedule": strings.Join(sched, " "), "order": m.order, "trace": evs})
	}
	if c.WantSample() && len(m.order) >= 4 {
		c.Sample(map[string]any{"scenario": sc, "order_observed": m.order, "schedule_len": len(sched)})
	}
}

// ---- bounded-preemption enumeration: deterministic two-intruder races against one victim ----

// runPreempt enumerates plans "victim runs k1 calls, intruder 1 runs to completion, victim runs
// k2 more calls, intruder 2 runs to completion, victim finishes, everybody else finishes" over a
// grid of (k1, k2), for every victim among the XRD controllers and the claim controller and every
// ordered pair of intruders. Unlike the seeded random walks this reaches a given check-then-act
// window by construction.
func runPreempt(c *kit.Ctx) {
	actors := []string{"definition", "offered", "claim", "xr", "gcdriver"}
	victims := []string{"definition", "offered", "claim"}
	setups := []string{"xrd-deleted-background", "xrd-deleted-foreground", "claim-and-xrd-deleted"}
	k1max, k1step, k2max, k2step := 36, 3, 12, 6
	if c.Thorough() {
		k1max, k1step, k2max, k2step = 48, 1, 18, 3
	}
	type job struct {
		setup, victim, i1, i2 string
		k1, k2                int
	}
	var jobs []job
	for _, su := range setups {
		for _, v := range victims {
			for _, i1 := range actors {
				for _, i2 := range actors {
					if i1 == v || i2 == v || i1 == i2 {
						continue
					}
					if !c.Thorough() && i1 != "claim" && i1 != "xr" && i2 != "claim" && i2 != "xr" {
						continue
					}
					for k1 := 0; k1 <= k1max; k1 += k1step {
						for k2 := 0; k2 <= k2max; k2 += k2step {
							jobs = append(jobs, job{su, v, i1, i2, k1, k2})
						}
					}
				}
			}
		}
	}
	var mu sync.Mutex
	var wg sync.WaitGroup
	sem := make(chan struct{}, 10)
	for ji, j := range jobs {
		name := fmt.Sprintf("preempt/%s/%s/%s-%s/k%d-%d", j.setup, j.victim, j.i1, j.i2, j.k1, j.k2)
		if !c.Want(name) {
			continue
		}
		wg.Add(1)
		sem <- struct{}{}
		go func(ji int, j job, name string) {
			defer wg.Done()
			defer func() { <-sem }()
			err := kit.Try(func() {
				e := newEnv(uint64(c.Seed)*211+uint64(ji), ji%2 == 1)
				w := e.w
				w.MustSeed("user", xrk.ClaimObject("ex.org/v1", "Thing", "ns1", "c0", map[string]any{"compositionRef": map[string]any{"name": "comp"}}))
				e.settle(4)
				user := w.Client("user")
				m := newMonitor()
				m.running[ctlComposite] = e.defEng.IsRunning(ctlComposite)
				m.running[ctlClaim] = e.offEng.IsRunning(ctlClaim)
				w.AddHook(m.hook)
				from := w.LogLen()
				pol := metav1.DeletePropagationBackground
				if j.setup == "xrd-deleted-foreground" {
					pol = metav1.DeletePropagationForeground
				}
				if j.setup == "claim-and-xrd-deleted" {
					for _, cm := range w.ListObjs(claimGK) {
						_ = user.Delete(ctx, &unstructured.Unstructured{Object: cm})
					}
				}
				_ = user.Delete(ctx, &unstructured.Unstructured{Object: w.GetObj(xrdKey)}, client.PropagationPolicy(pol))
				s := w.NewScheduler()
				loops := 4
				s.Go("definition", func() {
					for k := 0; k < loops; k++ {
						_, _ = e.defR.Reconcile(ctx, xrdReq)
					}
				})
				s.Go("offered", func() {
					for k := 0; k < loops; k++ {
						_, _ = e.offR.Reconcile(ctx, xrdReq)
					}
				})
				s.Go("claim", func() {
					for k := 0; k < 2; k++ {
						e.reconcileClaims()
					}
				})
				s.Go("xr", func() {
					for k := 0; k < 2; k++ {
						e.reconcileXRs()
					}
				})
				gcC := w.Client("gcdriver")
				s.Go("gcdriver", func() {
					for k := 0; k < 6; k++ {
						_ = gcC.Get(ctx, types.NamespacedName{Name: "tick"}, &unstructured.Unstructured{Object: map[string]any{"apiVersion": "v1", "kind": "ConfigMap"}})
						if p := w.GCPending(); len(p) > 0 {
							_ = w.GCDo(p[0])
						}
					}
				})
				plan := []sim.Segment{{Actor: j.victim, Steps: j.k1}, {Actor: j.i1, Steps: -1}, {Actor: j.victim, Steps: j.k2}, {Actor: j.i2, Steps: -1}, {Actor: j.victim, Steps: -1}}
				sched := s.Run(sim.PlanChooser(plan), 20000)
				w.SetScheduler(nil)
				e.settle(6)
				mu.Lock()
				defer mu.Unlock()
				c.Eval(name, true)
				c.Count("preemption_plans", 1)
				c.Count("monitor_evaluations", int64(m.checks))
				for k, key := range m.keys {
					var evs []string
					for _, e2 := range w.Log(from) {
						if e2.IsWrite() || e2.Verb == "mark" {
							evs = append(evs, e2.Short())
						}
						if len(evs) > 150 {
							break
						}
					}
					c.Violate(key, name, m.whats[k], map[string]any{"plan": name, "schedule_len": len(sched), "order": m.order, "trace": evs})
				}
			})
			if err != nil {
				c.Violate("panic", name, err.Error(), nil)
			}
		}(ji, j, name)
	}
	wg.Wait()
}

// ---- part B: a deleted package revision leaves the dependency Lock before it is finalized ----

const finRevision = "revision.pkg.crossplane.io"

var lockKey = sim.Key{Group: "pkg.crossplane.io", Kind: "Lock", Name: "lock"}

func lockLists(lock map[string]any, name string) bool {
	ps, _, _ := unstructured.NestedSlice(lock, "packages")
	for _, p := range ps {
		if m, ok := p.(map[string]any); ok && m["name"] == name {
			return true
		}
	}
	return false
}

func revisionWorld(seed uint64, states []string) *sim.World {
	w := sim.NewWorld(xrk.Scheme(), seed)
	var pkgs []any
	for i, st := range states {
		n := fmt.Sprintf("prov%d-rev", i)
		w.MustSeed("pkgmgr", map[string]any{"apiVersion": "pkg.crossplane.io/v1", "kind": "ProviderRevision",
			"metadata": map[string]any{"name": n, "finalizers": []any{finRevision}, "labels": map[string]any{"pkg.crossplane.io/package": fmt.Sprintf("prov%d", i)}},
			"spec":     map[string]any{"image": fmt.Sprintf("xpkg.example.org/acme/prov%d:v1", i), "desiredState": st, "revision": int64(1)}})
		// the lock entry as different Crossplane versions wrote it: with apiVersion+kind (and the
		// deprecated type), type only (before apiVersion/kind existed), or an older apiVersion
		entry := map[string]any{"name": n, "source": fmt.Sprintf("xpkg.example.org/acme/prov%d", i), "version": "v1", "dependencies": []any{}}
		switch (int(seed) + i) % 3 {
		case 0:
			entry["apiVersion"], entry["kind"], entry["type"] = "pkg.crossplane.io/v1", "Provider", "Provider"
		case 1:
			entry["type"] = "Provider"
		default:
			entry["apiVersion"], entry["kind"] = "pkg.crossplane.io/v1beta1", "Provider"
		}
		if i > 0 && seed%2 == 0 {
			// another package in the Lock depends on the package whose revision is deleted
			entry["dependencies"] = []any{map[string]any{"package": "xpkg.example.org/acme/prov0", "type": "Provider", "constraints": ">=v0.0.0"}}
		}
		pkgs = append(pkgs, entry)
	}
	w.MustSeed("pkgmgr", map[string]any{"apiVersion": "pkg.crossplane.io/v1beta1", "kind": "Lock", "metadata": map[string]any{"name": "lock"}, "packages": pkgs})
	return w
}

func revisionReconciler(w *sim.World, actor string) (*revision.Reconciler, *sim.Client) {
	cl := w.Client(actor)
	r := revision.NewReconciler(xrk.NewManager(w, cl),
		revision.WithNewPackageRevisionFn(func() pkgv1.PackageRevision { return &pkgv1.ProviderRevision{} }),
		revision.WithDependencyManager(revision.NewPackageDependencyManager(cl, dag.NewMapDag, pkgv1.ProviderGroupVersionKind)))
	return r, cl
}

// lockMonitor: a revision's finalizer is removed (by a revision controller) only when the Lock
// no longer lists it.
func lockMonitor(keys, whats *[]string) func(v *sim.View, ev *sim.Event) {
	return func(v *sim.View, ev *sim.Event) {
		if ev.Key.Kind != "ProviderRevision" || !ev.Changed || ev.Before == nil || !strings.HasPrefix(ev.Actor, "revision") {
			return
		}
		if hasFin(ev.Before, finRevision) && (ev.After == nil || !hasFin(ev.After, finRevision)) {
			if lock := v.Get(lockKey); lock != nil && lockLists(lock, ev.Key.Name) {
				for _, k := range *keys {
					if k == "revision-finalized-while-still-in-lock" {
						return
					}
				}
				*keys = append(*keys, "revision-finalized-while-still-in-lock:"+sim.Str(ev.Before, "spec", "desiredState"))
				*whats = append(*whats, fmt.Sprintf("%s: finalizer %s removed while the Lock still lists %s", ev.Short(), finRevision, ev.Key.Name))
			}
		}
	}
}

func runRevisionLock(c *kit.Ctx) {
	// (1) fault enumeration: every call index x 6 outcomes of the deletion reconcile, for an active
	// and an inactive revision, followed by clean retries
	for fi, st := range []string{"Active", "Inactive", "Active", "Inactive", "Active", "Inactive"} {
		// fi/2 selects how the deleted revision's lock entry was written (three forms)
		form := fi / 2
		base := revisionWorld(uint64(c.Seed)*198+uint64(form), []string{st, "Active"})
		u := base.Client("user")
		_ = u.Delete(ctx, &unstructured.Unstructured{Object: base.GetObj(sim.Key{Group: "pkg.crossplane.io", Kind: "ProviderRevision", Name: "prov0-rev"})})
		probe := base.Clone()
		pr, pcl := revisionReconciler(probe, "revision0")
		_, _ = pr.Reconcile(ctx, reconcile.Request{NamespacedName: types.NamespacedName{Name: "prov0-rev"}})
		n := pcl.Calls()
		for k := 0; k < n; k++ {
			for _, out := range sim.EnumFaults {
				name := fmt.Sprintf("revlock/fault/%s/entry-form%d/k%d/%s", st, (int(uint64(c.Seed)*198)+form)%3, k, out)
				if !c.Want(name) {
					continue
				}
				w := base.Clone()
				var keys, whats []string
				w.AddHook(lockMonitor(&keys, &whats))
				r, cl := revisionReconciler(w, "revision0")
				cl.Fault(k, out)
				from := w.LogLen()
				crashed := sim.RunActor(func() {
					_, _ = r.Reconcile(ctx, reconcile.Request{NamespacedName: types.NamespacedName{Name: "prov0-rev"}})
				})
				cl.ClearFaults()
				if crashed {
					r, cl = revisionReconciler(w, "revision0")
				}
				for i := 0; i < 3; i++ {
					cl.ResetCalls()
					_, _ = r.Reconcile(ctx, reconcile.Request{NamespacedName: types.NamespacedName{Name: "prov0-rev"}})
				}
				if rv := w.GetObj(sim.Key{Group: "pkg.crossplane.io", Kind: "ProviderRevision", Name: "prov0-rev"}); rv == nil {
					if lock := w.GetObj(lockKey); lock != nil && lockLists(lock, "prov0-rev") {
						keys = append(keys, "revision-gone-but-still-in-lock:"+st)
						whats = append(whats, "the revision was finalized and is gone but the Lock still lists it")
					}
				}
				c.Eval(name, true)
				c.Count("revision_lock_fault_executions", 1)
				for i, k2 := range keys {
					var evs []string
					for _, e := range w.Log(from) {
						evs = append(evs, e.Short())
					}
					c.Violate(k2, name, whats[i], map[string]any{"state": st, "call": k, "outcome": out.String(), "trace": evs})
				}
			}
		}
	}
	// (1b) the deleted revision's controller reads the Lock through a cache that has not caught up
	// with another writer's update: every Lock update of one or more whole reconciles answers 409.
	// The finalizer has to wait until a Lock write got through.
	for fi, st := range []string{"Active", "Inactive", "Active"} {
		for stale := 1; stale <= 3; stale++ {
			name := fmt.Sprintf("revlock/stale-lock-cache/%s/entry-form%d/stale%d", st, (int(uint64(c.Seed)*198)+fi)%3, stale)
			if !c.Want(name) {
				continue
			}
			w := revisionWorld(uint64(c.Seed)*198+uint64(fi), []string{st, "Active"})
			var keys, whats []string
			w.AddHook(lockMonitor(&keys, &whats))
			frozen := w.RV()
			behind := true
			w.SetActorLag("revision0", func(gk schema.GroupKind) (int64, bool) { return -frozen, behind && gk == lockKey.GK() })
			// somebody else (another revision's controller) rewrites the Lock
			lk := &unstructured.Unstructured{Object: w.GetObj(lockKey)}
			lk.SetAnnotations(map[string]string{"touched": "by-another-writer"})
			if err := w.Client("pkgmgr").Update(ctx, lk); err != nil {
				panic(err)
			}
			_ = w.Client("user").Delete(ctx, &unstructured.Unstructured{Object: w.GetObj(sim.Key{Group: "pkg.crossplane.io", Kind: "ProviderRevision", Name: "prov0-rev"})})
			from := w.LogLen()
			r, cl := revisionReconciler(w, "revision0")
			conflicts := 0
			for i := 0; i < stale+3; i++ {
				if i == stale {
					behind = false // the cache caught up
				}
				cl.ResetCalls()
				lf := w.LogLen()
				_, _ = r.Reconcile(ctx, reconcile.Request{NamespacedName: types.NamespacedName{Name: "prov0-rev"}})
				for _, e := range w.Log(lf) {
					if e.Key == lockKey && e.Reason == "Conflict" {
						conflicts++
					}
				}
			}
			if rv := w.GetObj(sim.Key{Group: "pkg.crossplane.io", Kind: "ProviderRevision", Name: "prov0-rev"}); rv == nil {
				if lock := w.GetObj(lockKey); lock != nil && lockLists(lock, "prov0-rev") {
					keys = append(keys, "revision-gone-but-still-in-lock:"+st)
					whats = append(whats, "the revision was finalized and is gone but the Lock still lists it")
				}
			}
			c.Eval(name, conflicts > 0)
			c.Count("revision_lock_stale_cache_executions", 1)
			c.Count("revision_lock_conflicts_observed", int64(conflicts))
			for i, k2 := range keys {
				var evs []string
				for _, e := range w.Log(from) {
					evs = append(evs, e.Short())
				}
				c.Violate(k2, name, whats[i], map[string]any{"state": st, "reconciles_behind_cache": stale, "trace": evs})
			}
		}
	}
	// (1c) another revision is being installed while the deleted one leaves the Lock: revision B's
	// dependency manager (the real one) has read the Lock and is parked right before its write that
	// adds B; the deleted revision A is reconciled to completion (RemoveSelf, finalizer); B's write
	// then arrives. Whatever B's write does, A must not be listed in the Lock once it is gone.
	for fi, st := range []string{"Active", "Inactive", "Active"} {
		name := fmt.Sprintf("revlock/installing-neighbour/%s/entry-form%d", st, (int(uint64(c.Seed)*198)+fi)%3)
		if !c.Want(name) {
			continue
		}
		w := revisionWorld(uint64(c.Seed)*198+uint64(fi), []string{st, "Active", "Active"})
		// prov2-rev is new: not in the Lock yet
		lk := &unstructured.Unstructured{Object: w.GetObj(lockKey)}
		ps, _, _ := unstructured.NestedSlice(lk.Object, "packages")
		var keep []any
		for _, p := range ps {
			if m, ok := p.(map[string]any); ok && m["name"] != "prov2-rev" {
				keep = append(keep, p)
			}
		}
		_ = unstructured.SetNestedSlice(lk.Object, keep, "packages")
		if err := w.Client("pkgmgr").Update(ctx, lk); err != nil {
			panic(err)
		}
		var keys, whats []string
		w.AddHook(lockMonitor(&keys, &whats))
		_ = w.Client("user").Delete(ctx, &unstructured.Unstructured{Object: w.GetObj(sim.Key{Group: "pkg.crossplane.io", Kind: "ProviderRevision", Name: "prov0-rev"})})
		from := w.LogLen()
		ra, _ := revisionReconciler(w, "revision0")
		clB := w.Client("revision2")
		dmB := revision.NewPackageDependencyManager(clB, dag.NewMapDag, pkgv1.ProviderGroupVersionKind)
		prB := &pkgv1.ProviderRevision{}
		if err := clB.Get(ctx, types.NamespacedName{Name: "prov2-rev"}, prB); err != nil {
			panic(err)
		}
		intruded := false
		clB.OnCall = func(_ int, verb string) {
			if verb == "update" && !intruded {
				intruded = true
				for k := 0; k < 3; k++ {
					_, _ = ra.Reconcile(ctx, reconcile.Request{NamespacedName: types.NamespacedName{Name: "prov0-rev"}})
				}
			}
		}
		var errs []string
		for k := 0; k < 3; k++ {
			_, _, _, err := dmB.Resolve(ctx, &pkgmetav1.Provider{}, prB)
			errs = append(errs, fmt.Sprint(err))
		}
		clB.OnCall = nil
		for k := 0; k < 2; k++ {
			_, _ = ra.Reconcile(ctx, reconcile.Request{NamespacedName: types.NamespacedName{Name: "prov0-rev"}})
		}
		if rv := w.GetObj(sim.Key{Group: "pkg.crossplane.io", Kind: "ProviderRevision", Name: "prov0-rev"}); rv == nil {
			if lock := w.GetObj(lockKey); lock != nil && lockLists(lock, "prov0-rev") {
				keys = append(keys, "revision-gone-but-still-in-lock:"+st+":re-listed-by-installing-neighbour")
				whats = append(whats, "the deleted revision was finalized and is gone, but the Lock lists it again after another revision added itself")
			}
		}
		c.Eval(name, intruded)
		c.Count("revision_lock_installing_neighbour_executions", 1)
		for i, k2 := range keys {
			var evs []string
			for _, e := range w.Log(from) {
				if e.IsWrite() {
					evs = append(evs, e.Short())
				}
			}
			c.Violate(k2, name, whats[i], map[string]any{"state": st, "resolve_results_of_the_installing_revision": errs, "trace": evs})
		}
	}
	// (2) interleavings: two revisions deleted at the same time, both controllers update the Lock
	nSched := c.N(60, 1200)
	for i := 0; i < nSched; i++ {
		name := fmt.Sprintf("revlock/sched/%d", i)
		if !c.Want(name) {
			continue
		}
		r := c.Rng("revlock", i)
		states := []string{[]string{"Active", "Inactive"}[r.IntN(2)], []string{"Active", "Inactive"}[r.IntN(2)], "Active"}
		w := revisionWorld(uint64(c.Seed)*199+uint64(i), states)
		var keys, whats []string
		w.AddHook(lockMonitor(&keys, &whats))
		u := w.Client("user")
		from := w.LogLen()
		s := w.NewScheduler()
		s.Go("user", func() {
			for _, n := range []string{"prov0-rev", "prov1-rev"} {
				_ = u.Delete(ctx, &unstructured.Unstructured{Object: w.GetObj(sim.Key{Group: "pkg.crossplane.io", Kind: "ProviderRevision", Name: n})})
			}
		})
		for j := 0; j < 2; j++ {
			rc, _ := revisionReconciler(w, fmt.Sprintf("revision%d", j))
			n := fmt.Sprintf("prov%d-rev", j)
			s.Go(fmt.Sprintf("revision%d", j), func() {
				for k := 0; k < 4; k++ {
					if o := w.GetObj(sim.Key{Group: "pkg.crossplane.io", Kind: "ProviderRevision", Name: n}); o != nil && sim.Terminating(o) {
						_, _ = rc.Reconcile(ctx, reconcile.Request{NamespacedName: types.NamespacedName{Name: n}})
					} else {
						_ = u // not deleted yet: nothing to do for the deletion branch
						_, _ = rc.Reconcile(ctx, reconcile.Request{NamespacedName: types.NamespacedName{Name: "does-not-exist"}})
					}
				}
			})
		}
		sched := s.Run(func(en, _ []string) int { return r.IntN(len(en)) }, 5000)
		w.SetScheduler(nil)
		switches := 0
		for k := 1; k < len(sched); k++ {
			if sched[k] != sched[k-1] {
				switches++
			}
		}
		c.Eval(name+"|"+strings.Join(sched, ","), switches >= 2)
		c.Count("revision_lock_schedules", 1)
		for k, k2 := range keys {
			var evs []string
			for _, e := range w.Log(from) {
				if e.IsWrite() {
					evs = append(evs, e.Short())
				}
			}
			c.Violate(k2, name, whats[k], map[string]any{"states": states, "schedule": strings.Join(sched, " "), "trace": evs})
		}
	}
}

// runRealEngine is part C: XRD teardown against the REAL controller engine. While the XRD is
// being deleted the informer layer fails to remove one or two event handlers once, so the
// engine's Stop returns an error and the XRD controller retries. The "Stop" marks the monitor
// sees are ground truth (context cancelled and no handler left on any informer), so a CRD
// deleted while handlers of its controller are still registered shows up as
// crd-deleted-before-controller-stopped.
func runRealEngine(c *kit.Ctx) {
	n := c.N(24, 400)
	for i := 0; i < n; i++ {
		name := fmt.Sprintf("real-engine/%d", i)
		if !c.Want(name) {
			continue
		}
		r := c.Rng("real-engine", i)
		ssa := i%2 == 1
		e := newEnvWith(uint64(c.Seed)*211+uint64(i), ssa, true)
		w := e.w
		nClaims := r.IntN(3)
		for k := 0; k < nClaims; k++ {
			w.MustSeed("user", xrk.ClaimObject("ex.org/v1", "Thing", "ns1", fmt.Sprintf("c%d", k), map[string]any{"compositionRef": map[string]any{"name": "comp"}}))
		}
		if r.IntN(2) == 0 {
			w.MustSeed("user", xrk.XRObject("ex.org/v1", "XThing", "direct-xr", "comp", nil))
		}
		e.settle(4)
		def, off := e.defEng.(*xrk.RealEngine), e.offEng.(*xrk.RealEngine)
		m := newMonitor()
		m.running[ctlComposite] = def.IsRunning(ctlComposite)
		m.running[ctlClaim] = off.IsRunning(ctlClaim)
		w.AddHook(m.hook)
		from := w.LogLen()
		regs := def.Infs.Registrations() + off.Infs.Registrations()
		// which engine's teardown fails, and how often
		fd, fo := 0, 0
		switch r.IntN(3) {
		case 0:
			fd = 1 + r.IntN(2)
		case 1:
			fo = 1 + r.IntN(2)
		default:
			fd, fo = 1+r.IntN(2), 1+r.IntN(2)
		}
		def.Infs.FailRemovals(fd)
		off.Infs.FailRemovals(fo)
		u := w.Client("user")
		xrdObj := &unstructured.Unstructured{Object: w.GetObj(xrdKey)}
		if err := u.Delete(ctx, xrdObj); err != nil {
			panic(err)
		}
		e.settle(10)
		if w.GetObj(xrdKey) != nil {
			m.add("xrd-not-finalized-after-transient-informer-faults", fmt.Sprintf("the deleted XRD still exists after 10 settling rounds (stop errors: definition %d, offered %d)", def.StopErrors, off.StopErrors))
		}
		for ctl, en := range map[string]*xrk.RealEngine{ctlComposite: def, ctlClaim: off} {
			stopped, ok := en.TrulyStopped(ctl)
			if !ok {
				c.Inconclusive("a controller's Start was never called by the engine")
				continue
			}
			crd := xrCRD
			if ctl == ctlClaim {
				crd = clCRD
			}
			if w.GetObj(crd) == nil && !stopped {
				m.add("crd-gone-but-controller-alive:"+strings.SplitN(ctl, "/", 2)[0], fmt.Sprintf("CRD %s is gone but controller %s still has a live context or %d registered event handlers (engine reports running=%v)", crd.Name, ctl, en.Infs.Live(), en.IsRunning(ctl)))
			}
		}
		c.Eval(fmt.Sprintf("real-engine|ssa=%v|claims=%d|fail=%d/%d", ssa, nClaims, fd, fo), def.StopErrors+off.StopErrors > 0)
		c.Count("real_engine_cases", 1)
		c.Count("real_engine_stop_errors", int64(def.StopErrors+off.StopErrors))
		c.Count("real_engine_handler_registrations", int64(regs))
		c.Count("invariant_evaluations", int64(m.checks))
		for k, key := range m.keys {
			c.Violate(key+":real-engine", name, m.whats[k], map[string]any{"ssa": ssa, "claims": nClaims, "failing_removals": []int{fd, fo}, "order": m.order, "trace": shortTrace(w, from, 100)})
		}
	}
}

// runComposedUsage is part D: a Usage that is itself part of a composition is finalized only
// after its using resource is gone. The REAL usage reconciler runs against a composed Usage
// (composite label, spec.by naming a using resource); the user deletes the Usage and the using
// resource (foreground or background propagation), a provider releases its finalizer on the
// using resource, a dependent of the using resource lingers, and the Kubernetes garbage
// collector acts one step at a time - in fixed orders and in seeded random ones. Monitor: the
// usage controller removes the Usage's finalizer only when the using resource is not in the
// store any more.
func runComposedUsage(c *kit.Ctx) {
	const finUsage = "usage.apiextensions.crossplane.io"
	usingKey := sim.Key{Group: "nop.ex.org", Kind: "NopA", Name: "using"}
	usageKey := sim.Key{Group: "apiextensions.crossplane.io", Kind: "Usage", Name: "u1"}
	fixed := [][]string{
		{"rec", "rec", "del-using-fg", "del-usage", "rec", "gc", "rec", "gc", "rec"},
		{"rec", "rec", "del-usage", "rec", "del-using-fg", "gc", "rec", "provider", "rec", "gc", "rec"},
		{"rec", "rec", "del-using-fg", "gc", "gc", "provider", "rec", "rec", "child", "gc", "gc", "rec"},
		{"rec", "rec", "del-usage", "del-using-bg", "rec", "provider", "rec", "gc", "rec"},
		{"rec", "del-usage", "rec", "del-using-fg", "provider", "rec", "gc", "rec"},
	}
	pool := []string{"rec", "rec", "rec", "gc", "gc", "del-usage", "del-using-fg", "del-using-bg", "provider", "child"}
	n := c.N(150, 4000)
	for i := 0; i < n; i++ {
		name := fmt.Sprintf("composed-usage/%d", i)
		if !c.Want(name) {
			continue
		}
		r := c.Rng("composed-usage", i)
		var steps []string
		if i < len(fixed)*4 {
			steps = fixed[i%len(fixed)]
		} else {
			steps = []string{"rec", "rec"}
			for k := 0; k < 6+r.IntN(10); k++ {
				steps = append(steps, pool[r.IntN(len(pool))])
			}
		}
		// shape: does the provider hold a finalizer on the using resource; does the using resource
		// have another (blocking) dependent that lingers
		providerFin, child := (i/len(fixed))%2 == 0, (i/(2*len(fixed)))%2 == 0
		if i >= len(fixed)*4 {
			providerFin, child = r.IntN(2) == 0, r.IntN(2) == 0
		}
		w := sim.NewWorld(xrk.Scheme(), uint64(c.Seed)*223+uint64(i))
		using := nop("NopA", "using")
		using["metadata"] = map[string]any{"name": "using"}
		if providerFin {
			using["metadata"].(map[string]any)["finalizers"] = []any{"provider.ex.org/finalizer"}
		}
		w.MustSeed("user", using)
		used := nop("NopB", "used")
		used["metadata"] = map[string]any{"name": "used"}
		w.MustSeed("user", used)
		usingUID := sim.Str(w.GetObj(usingKey), "metadata", "uid")
		if child {
			ch := nop("NopB", "child")
			ch["metadata"] = map[string]any{"name": "child-of-using", "finalizers": []any{"child.ex.org/finalizer"},
				"ownerReferences": []any{map[string]any{"apiVersion": "nop.ex.org/v1", "kind": "NopA", "name": "using", "uid": usingUID, "blockOwnerDeletion": true}}}
			w.MustSeed("user", ch)
		}
		w.MustSeed("xr", map[string]any{"apiVersion": "apiextensions.crossplane.io/v1beta1", "kind": "Usage",
			"metadata": map[string]any{"name": "u1", "labels": map[string]any{"crossplane.io/composite": "xr1"}},
			"spec": map[string]any{"of": map[string]any{"apiVersion": "nop.ex.org/v1", "kind": "NopB", "resourceRef": map[string]any{"name": "used"}},
				"by": map[string]any{"apiVersion": "nop.ex.org/v1", "kind": "NopA", "resourceRef": map[string]any{"name": "using"}}}})
		var keys, whats []string
		checks := 0
		finalizedWhileUsingTerminating := false
		w.AddHook(func(v *sim.View, ev *sim.Event) {
			if ev.Key != usageKey || !ev.Changed || ev.Before == nil || ev.Actor != "usage" {
				return
			}
			checks++
			if hasFin(ev.Before, finUsage) && (ev.After == nil || !hasFin(ev.After, finUsage)) {
				if u := v.Get(usingKey); u != nil {
					fs, _, _ := unstructured.NestedStringSlice(u, "metadata", "finalizers")
					keys = append(keys, "composed-usage-finalized-while-using-resource-exists")
					whats = append(whats, fmt.Sprintf("%s: the usage controller removed the finalizer of composed Usage u1 while its using resource still exists (terminating=%v, finalizers=%v)", ev.Short(), sim.Terminating(u), fs))
				} else {
					finalizedWhileUsingTerminating = true
				}
			}
		})
		uc := w.Client("usage")
		// the field index the usage controller lists by is registered by the webhook's setup
		if err := usagehook.SetupWebhookWithManager(xrk.NewManager(w, w.Client("webhook")), xpcontroller.Options{Logger: logging.NewNopLogger()}); err != nil {
			panic(err)
		}
		rec := usagectrl.NewReconciler(xrk.NewManager(w, uc), usagectrl.WithLogger(logging.NewNopLogger()))
		user, prov := w.Client("user"), w.Client("provider")
		from := w.LogLen()
		sawWindow := false
		for _, st := range steps {
			switch st {
			case "rec":
				if u := w.GetObj(usingKey); u != nil && sim.Terminating(u) {
					if us := w.GetObj(usageKey); us != nil && sim.Terminating(us) {
						sawWindow = true
					}
				}
				uc.ResetCalls()
				_ = sim.RunActor(func() { _, _ = rec.Reconcile(ctx, reconcile.Request{NamespacedName: types.NamespacedName{Name: "u1"}}) })
			case "gc":
				if p := w.GCPending(); len(p) > 0 {
					_ = w.GCDo(p[r.IntN(len(p))])
				}
			case "del-usage":
				if o := w.GetObj(usageKey); o != nil {
					_ = user.Delete(ctx, &unstructured.Unstructured{Object: o})
				}
			case "del-using-fg", "del-using-bg":
				if o := w.GetObj(usingKey); o != nil {
					pol := metav1.DeletePropagationBackground
					if st == "del-using-fg" {
						pol = metav1.DeletePropagationForeground
					}
					_ = user.Delete(ctx, &unstructured.Unstructured{Object: o}, client.PropagationPolicy(pol))
				}
			case "provider", "child":
				k, fin := usingKey, "provider.ex.org/finalizer"
				if st == "child" {
					k, fin = sim.Key{Group: "nop.ex.org", Kind: "NopB", Name: "child-of-using"}, "child.ex.org/finalizer"
				}
				if o := w.GetObj(k); o != nil && sim.Terminating(o) && hasFin(o, fin) {
					u := &unstructured.Unstructured{Object: o}
					var keep []string
					for _, f := range u.GetFinalizers() {
						if f != fin {
							keep = append(keep, f)
						}
					}
					u.SetFinalizers(keep)
					_ = prov.Update(ctx, u)
				}
			}
		}
		if os.Getenv("DBG") != "" {
			for _, ev := range w.Log(from) {
				fmt.Println(ev.Short(), ev.Err)
			}
		}
		c.Eval("composed-usage|"+strings.Join(steps, ",")+fmt.Sprintf("|%v|%v", providerFin, child), sawWindow)
		c.Count("composed_usage_cases", 1)
		c.Count("invariant_evaluations", int64(checks))
		if sawWindow {
			c.Count("composed_usage_reconciled_while_both_terminating", 1)
		}
		if finalizedWhileUsingTerminating {
			c.Count("composed_usage_finalized_after_using_gone", 1)
		}
		for k, key := range keys {
			if k > 0 {
				break
			}
			c.Violate(key, name, whats[k], map[string]any{"steps": steps, "provider_finalizer": providerFin, "lingering_child": child, "trace": shortTrace(w, from, 80)})
		}
	}
}

// runClaimDeletionFaults is part E: a bound claim is deleted by the user; every API call of the
// claim controller's first reconcile after the deletion fails once with each of the 8 outcomes
// (among them "kind not served" and 503), then the controllers settle without faults. The
// precedence monitors run throughout: whatever the failed call, the claim's finalizer goes only
// after its XR was deleted (and is gone under Foreground).
func runClaimDeletionFaults(c *kit.Ctx) {
	for _, ssa := range []bool{false, true} {
		for _, pol := range []string{"Background", "Foreground"} {
			build := func(seed uint64) *env {
				e := newEnv(seed, ssa)
				e.w.MustSeed("user", xrk.ClaimObject("ex.org/v1", "Thing", "ns1", "c0", map[string]any{"compositionRef": map[string]any{"name": "comp"}, "compositeDeletePolicy": pol}))
				e.settle(4)
				cm := e.w.GetObj(sim.Key{Group: "ex.org", Kind: "Thing", Namespace: "ns1", Name: "c0"})
				if err := e.w.Client("user").Delete(ctx, &unstructured.Unstructured{Object: cm}); err != nil {
					panic(err)
				}
				return e
			}
			seed := uint64(c.Seed)*227 + 1
			probe := build(seed)
			probe.reconcileClaims()
			calls := probe.clC.Calls()
			for k := 0; k < calls; k++ {
				for _, out := range sim.EnumFaults {
					if out == sim.CrashBefore || out == sim.CrashAfter {
						continue // the claim reconciler is not rebuilt in this environment
					}
					name := fmt.Sprintf("claim-deletion-fault/ssa=%v/%s/k%d/%s", ssa, pol, k, out)
					if !c.Want(name) {
						continue
					}
					e := build(seed)
					m := newMonitor()
					m.running[ctlComposite] = e.defEng.IsRunning(ctlComposite)
					m.running[ctlClaim] = e.offEng.IsRunning(ctlClaim)
					e.w.AddHook(m.hook)
					from := e.w.LogLen()
					e.clC.Fault(k, out)
					e.reconcileClaims()
					e.clC.ClearFaults()
					e.settle(6)
					c.Eval(name, true)
					c.Count("claim_deletion_fault_cases", 1)
					c.Count("monitor_evaluations", int64(m.checks))
					if cm := e.w.GetObj(sim.Key{Group: "ex.org", Kind: "Thing", Namespace: "ns1", Name: "c0"}); cm != nil {
						c.Count("claim_deletion_not_finished_observed_only", 1)
					}
					for i, key := range m.keys {
						c.Violate(key+":claim-deletion-fault", name, m.whats[i], map[string]any{"ssa": ssa, "policy": pol, "call": k, "outcome": out.String(), "order": m.order, "trace": shortTrace(e.w, from, 60)})
					}
				}
			}
		}
	}
}

// runStaleXRCacheThenDeletion is part J: while a claim is being bound (or once it is bound) one
// reconcile of the claim controller reads XRs from a cache that has not seen the claim's XR yet;
// later the user deletes the claim. Whatever that reconcile made of the missing XR, the claim's
// finalizer goes only after EVERY XR bound to the claim was deleted.
func runStaleXRCacheThenDeletion(c *kit.Ctx) {
	for _, ssa := range []bool{false, true} {
		for _, pol := range []string{"Background", "Foreground"} {
			for _, when := range []string{"right-after-binding", "after-settling"} {
				for stale := 1; stale <= 2; stale++ {
					name := fmt.Sprintf("stale-xr-cache-then-claim-deletion/ssa=%v/%s/%s/stale-reconciles=%d", ssa, pol, when, stale)
					if !c.Want(name) {
						continue
					}
					e := newEnv(uint64(c.Seed)*239+uint64(stale), ssa)
					e.settle(2)
					m := newMonitor()
					m.running[ctlComposite] = e.defEng.IsRunning(ctlComposite)
					m.running[ctlClaim] = e.offEng.IsRunning(ctlClaim)
					e.w.AddHook(m.hook)
					from := e.w.LogLen()
					frozen := e.w.RV() // the XR cache as it was before the claim existed
					e.w.MustSeed("user", xrk.ClaimObject("ex.org/v1", "Thing", "ns1", "c0", map[string]any{"compositionRef": map[string]any{"name": "comp"}, "compositeDeletePolicy": pol}))
					e.reconcileClaims()
					if when == "after-settling" {
						e.settle(3)
					}
					e.clLag = func(gk schema.GroupKind) (int64, bool) { return -frozen, gk == xrGK }
					for k := 0; k < stale; k++ {
						e.reconcileClaims()
					}
					e.clLag = nil
					e.settle(4)
					bound := 0
					for _, o := range e.w.ListObjs(xrGK) {
						if sim.Str(o, "spec", "claimRef", "name") == "c0" {
							bound++
						}
					}
					c.Count(fmt.Sprintf("stale_xr_cache_xrs_bound_to_claim_%d", bound), 1)
					if cm := e.w.GetObj(sim.Key{Group: "ex.org", Kind: "Thing", Namespace: "ns1", Name: "c0"}); cm != nil {
						_ = e.w.Client("user").Delete(ctx, &unstructured.Unstructured{Object: cm})
					}
					e.settle(6)
					c.Eval(name, true)
					c.Count("stale_xr_cache_then_deletion_cases", 1)
					c.Count("monitor_evaluations", int64(m.checks))
					for i, key := range m.keys {
						c.Violate(key+":stale-xr-cache", name, m.whats[i], map[string]any{"ssa": ssa, "policy": pol, "when": when, "order": m.order, "trace": shortTrace(e.w, from, 80)})
					}
				}
			}
		}
	}
}

// runVersionBump is part G: a claim is bound, then the XRD author makes another (newly added)
// version the referenceable one - the definition and offered reconcilers restart the XR and claim
// controllers for it - and then the claim is deleted. Whatever the claim controller makes of the
// XR's old-version claim reference, the claim's finalizer goes only after its XR was deleted.
func runVersionBump(c *kit.Ctx) {
	for _, ssa := range []bool{false, true} {
		for _, pol := range []string{"Background", "Foreground"} {
			name := fmt.Sprintf("version-bump-then-claim-deletion/ssa=%v/%s", ssa, pol)
			if !c.Want(name) {
				continue
			}
			e := newEnv(uint64(c.Seed)*229+3, ssa)
			e.w.MustSeed("user", xrk.ClaimObject("ex.org/v1", "Thing", "ns1", "c0", map[string]any{"compositionRef": map[string]any{"name": "comp"}, "compositeDeletePolicy": pol}))
			e.settle(4)
			m := newMonitor()
			m.running[ctlComposite] = e.defEng.IsRunning(ctlComposite)
			m.running[ctlClaim] = e.offEng.IsRunning(ctlClaim)
			e.w.AddHook(m.hook)
			from := e.w.LogLen()
			// the author adds v2 and makes it the referenceable version (v1 stays served)
			var xk sim.Key
			for _, o := range e.w.ListObjs(schema.GroupKind{Group: "apiextensions.crossplane.io", Kind: "CompositeResourceDefinition"}) {
				xk = sim.KeyOf(o)
			}
			d := &unstructured.Unstructured{Object: e.w.GetObj(xk)}
			vs, _, _ := unstructured.NestedSlice(d.Object, "spec", "versions")
			if len(vs) == 0 {
				c.Inconclusive("version-bump: the XRD has no versions")
				return
			}
			v2 := runtime.DeepCopyJSON(vs[0].(map[string]any))
			v2["name"], v2["referenceable"] = "v2", true
			vs[0].(map[string]any)["referenceable"] = false
			_ = unstructured.SetNestedSlice(d.Object, append(vs, v2), "spec", "versions")
			if err := e.w.Client("user").Update(ctx, d); err != nil {
				panic(err)
			}
			e.settle(4)
			if cm := e.w.GetObj(sim.Key{Group: "ex.org", Kind: "Thing", Namespace: "ns1", Name: "c0"}); cm != nil {
				_ = e.w.Client("user").Delete(ctx, &unstructured.Unstructured{Object: cm})
			}
			e.settle(8)
			c.Eval(name, true)
			c.Count("version_bump_cases", 1)
			c.Count("monitor_evaluations", int64(m.checks))
			if cm := e.w.GetObj(sim.Key{Group: "ex.org", Kind: "Thing", Namespace: "ns1", Name: "c0"}); cm != nil {
				c.Count("version_bump_claim_deletion_not_finished_observed_only", 1)
			}
			for i, key := range m.keys {
				c.Violate(key+":version-bump", name, m.whats[i], map[string]any{"ssa": ssa, "policy": pol, "order": m.order, "trace": shortTrace(e.w, from, 80)})
			}
		}
	}
}

// restart replaces the XRD controllers and their engines by fresh ones: Crossplane crashed or
// failed over; no XR or claim controller runs until the XRD reconcilers start them again.
func (e *env) restart(ssa bool) {
	e.xrC, e.clC = e.w.Client("xr"), e.w.Client("claim")
	e.defEng = xrk.NewCapturingEngine(e.w, e.xrC)
	e.offEng = xrk.NewCapturingEngine(e.w, e.clC)
	od := xrk.Options(ssa)
	od.FunctionRunner = xfn.NewPackagedFunctionRunner(e.xrC)
	e.defR = definition.NewReconciler(definition.NewClientApplicator(e.w.Client("definition")), definition.WithControllerEngine(e.defEng), definition.WithOptions(od))
	e.offR = offered.NewReconciler(offered.NewClientApplicator(e.w.Client("offered")), offered.WithControllerEngine(e.offEng), offered.WithOptions(xrk.Options(ssa)))
}

// runRestartDuringTeardown is part H: the XRD is deleted while an XR (or a claim) cannot go yet
// (somebody else's finalizer holds it); before it is gone Crossplane restarts, so the new process
// finds a deleting XRD, instances, and no running controller for them. The CRDs stay until every
// instance is gone, whoever is or is not there to finalize them.
func runRestartDuringTeardown(c *kit.Ctx) {
	for i, what := range []string{"xr", "claim", "xr", "claim"} {
		ssa := i >= 2
		name := fmt.Sprintf("restart-during-teardown/%s/ssa=%v", what, ssa)
		if !c.Want(name) {
			continue
		}
		e := newEnv(uint64(c.Seed)*233+uint64(i), ssa)
		if what == "claim" {
			e.w.MustSeed("user", xrk.ClaimObject("ex.org/v1", "Thing", "ns1", "c0", map[string]any{"compositionRef": map[string]any{"name": "comp"}}))
		} else {
			e.w.MustSeed("user", xrk.XRObject("ex.org/v1", "XThing", "direct-xr", "comp", nil))
		}
		e.settle(4)
		// a third party holds every instance with a finalizer of its own
		for _, gk := range []schema.GroupKind{xrGK, claimGK} {
			for _, o := range e.w.ListObjs(gk) {
				u := &unstructured.Unstructured{Object: o}
				u.SetFinalizers(append(u.GetFinalizers(), "third-party.example.org/hold"))
				if err := e.w.Client("third-party").Update(ctx, u); err != nil {
					panic(err)
				}
			}
		}
		xrd := e.w.GetObj(sim.Key{Group: "apiextensions.crossplane.io", Kind: "CompositeResourceDefinition", Name: xrdName})
		if err := e.w.Client("user").Delete(ctx, &unstructured.Unstructured{Object: xrd}); err != nil {
			panic(err)
		}
		e.settle(2)
		e.restart(ssa)
		m := newMonitor()
		e.w.AddHook(m.hook)
		from := e.w.LogLen()
		e.settle(4)
		left := len(e.w.ListObjs(xrGK)) + len(e.w.ListObjs(claimGK))
		// the third party lets go
		for _, gk := range []schema.GroupKind{xrGK, claimGK} {
			for _, o := range e.w.ListObjs(gk) {
				u := &unstructured.Unstructured{Object: o}
				var keep []string
				for _, f := range u.GetFinalizers() {
					if f != "third-party.example.org/hold" {
						keep = append(keep, f)
					}
				}
				u.SetFinalizers(keep)
				_ = e.w.Client("third-party").Update(ctx, u)
			}
		}
		e.settle(6)
		c.Eval(name, left > 0)
		c.Count("restart_during_teardown_cases", 1)
		c.Count("monitor_evaluations", int64(m.checks))
		if e.w.GetObj(sim.Key{Group: "apiextensions.crossplane.io", Kind: "CompositeResourceDefinition", Name: xrdName}) != nil {
			c.Count("restart_during_teardown_not_finished_observed_only", 1)
		}
		for k, key := range m.keys {
			if strings.HasPrefix(key, "xr-orphaned-with-dead-controller") || strings.HasPrefix(key, "claim-orphaned-with-dead-controller") {
				continue
			}
			c.Violate(key+":restart-during-teardown", name, m.whats[k], map[string]any{"ssa": ssa, "held": what, "order": m.order, "trace": shortTrace(e.w, from, 80)})
		}
	}
}

// runPausedTeardown is part F: the XRD is deleted while a claim (or an XR) carries the
// crossplane.io/paused annotation, so its own controller does not finalize it. The teardown has
// to wait for it like for any other instance: controller stop and CRD deletion only after every
// instance is gone. Later the user un-pauses it and the teardown completes.
// runEstablishInterleave is part L: a brand-new XRD is picked up by the defined and the offered
// controller at the same time. One of them is parked before each of its first API calls (its read
// of the XRD is then older than the other's writes) while the other reconciles to completion.
// Then the XRD is deleted at once. Each controller's finalizer is its own: it goes only after the
// CRD it stands for.
func runEstablishInterleave(c *kit.Ctx) {
	for _, ssa := range []bool{false, true} {
		for _, victim := range []string{"definition", "offered"} {
			for k := 0; k <= 8; k++ {
				name := fmt.Sprintf("establish-interleave/ssa=%v/%s-parked-before-call-%d", ssa, victim, k)
				if !c.Want(name) {
					continue
				}
				e := newEnv(uint64(c.Seed)*241+uint64(k), ssa)
				w := e.w
				m := newMonitor()
				w.AddHook(m.hook)
				from := w.LogLen()
				other := map[string]string{"definition": "offered", "offered": "definition"}[victim]
				recs := map[string]func(){
					"definition": func() { _, _ = e.defR.Reconcile(ctx, xrdReq) },
					"offered":    func() { _, _ = e.offR.Reconcile(ctx, xrdReq) },
				}
				s := w.NewScheduler()
				s.Go(victim, func() { recs[victim](); recs[victim]() })
				s.Go(other, func() { recs[other](); xrk.EstablishCRDs(w); recs[other]() })
				plan := []sim.Segment{{Actor: victim, Steps: k}, {Actor: other, Steps: -1}, {Actor: victim, Steps: -1}}
				_ = s.Run(sim.PlanChooser(plan), 5000)
				w.SetScheduler(nil)
				xrk.EstablishCRDs(w)
				m.running[ctlComposite] = e.defEng.IsRunning(ctlComposite)
				m.running[ctlClaim] = e.offEng.IsRunning(ctlClaim)
				// deleted before either controller gets another turn
				if x := w.GetObj(xrdKey); x != nil {
					_ = w.Client("user").Delete(ctx, &unstructured.Unstructured{Object: x})
				}
				e.settle(6)
				c.Eval(name, true)
				c.Count("establish_interleave_cases", 1)
				c.Count("monitor_evaluations", int64(m.checks))
				for i, key := range m.keys {
					c.Violate(key+":establish-interleave", name, m.whats[i], map[string]any{"ssa": ssa, "parked": victim, "before_call": k, "order": m.order, "trace": shortTrace(w, from, 60)})
				}
			}
		}
	}
}

// runEstablishedXRD is part K: the XRD belongs to a Configuration package; its active revision
// establishes it again (as it does on every reconcile) with the REAL establisher - once while the
// XRD lives, once after the user deleted it and it waits, Terminating, for its instances. Whoever
// writes the XRD: its finalizers go only after its CRDs are gone.
func runEstablishedXRD(c *kit.Ctx) {
	for i, when := range []string{"live", "terminating", "live", "terminating"} {
		ssa := i >= 2
		name := fmt.Sprintf("established-xrd/%s/ssa=%v", when, ssa)
		if !c.Want(name) {
			continue
		}
		e := newEnv(uint64(c.Seed)*233+uint64(i), ssa)
		w := e.w
		w.MustSeed("pkgmgr", map[string]any{"apiVersion": "pkg.crossplane.io/v1", "kind": "Configuration", "metadata": map[string]any{"name": "cfg"}, "spec": map[string]any{"package": "xpkg.example.org/acme/cfg:v1"}})
		cfg := w.GetObj(sim.Key{Group: "pkg.crossplane.io", Kind: "Configuration", Name: "cfg"})
		w.MustSeed("pkgmgr", map[string]any{"apiVersion": "pkg.crossplane.io/v1", "kind": "ConfigurationRevision",
			"metadata": map[string]any{"name": "cfg-rev1", "labels": map[string]any{"pkg.crossplane.io/package": "cfg"},
				"ownerReferences": []any{map[string]any{"apiVersion": "pkg.crossplane.io/v1", "kind": "Configuration", "name": "cfg", "uid": sim.Str(cfg, "metadata", "uid"), "controller": true, "blockOwnerDeletion": true}}},
			"spec": map[string]any{"image": "xpkg.example.org/acme/cfg:v1", "desiredState": "Active", "revision": int64(1)}})
		w.MustSeed("user", xrk.ClaimObject("ex.org/v1", "Thing", "ns1", "c0", map[string]any{"compositionRef": map[string]any{"name": "comp"}}))
		e.settle(4)
		pc := w.Client("pkgrev")
		est := revision.NewAPIEstablisher(pc, "crossplane-system", 1)
		rev := &pkgv1.ConfigurationRevision{}
		if err := pc.Get(ctx, types.NamespacedName{Name: "cfg-rev1"}, rev); err != nil {
			panic(err)
		}
		rev.SetGroupVersionKind(pkgv1.ConfigurationRevisionGroupVersionKind)
		manifest := func() []runtime.Object {
			return []runtime.Object{xrk.XRDTyped(xrk.XRDObject(xrk.XRDOpts{Group: "ex.org", Kind: "XThing", Plural: "xthings", ClaimKind: "Thing", ClaimPlural: "things"}))}
		}
		// first establishment: the revision takes the XRD over (it had no controller)
		if _, err := est.Establish(ctx, manifest(), rev, true); err != nil {
			c.Violate("harness:establish-failed", name, err.Error(), nil)
			continue
		}
		e.settle(3)
		m := newMonitor()
		m.running[ctlComposite] = e.defEng.IsRunning(ctlComposite)
		m.running[ctlClaim] = e.offEng.IsRunning(ctlClaim)
		w.AddHook(m.hook)
		from := w.LogLen()
		if when == "terminating" {
			if err := w.Client("user").Delete(ctx, &unstructured.Unstructured{Object: w.GetObj(xrdKey)}); err != nil {
				panic(err)
			}
		}
		_, eerr := est.Establish(ctx, manifest(), rev, true)
		stillThere := w.GetObj(xrdKey) != nil
		e.settle(6)
		c.Eval(name, true)
		c.Count("established_xrd_cases", 1)
		c.Count("monitor_evaluations", int64(m.checks))
		for k, key := range m.keys {
			c.Violate(key+":established-xrd", name, m.whats[k], map[string]any{"when": when, "establish_error": fmt.Sprint(eerr), "xrd_exists_after_establish": stillThere, "order": m.order, "trace": shortTrace(w, from, 40)})
		}
	}
}

func runPausedTeardown(c *kit.Ctx) {
	for i, what := range []string{"claim", "xr", "claim", "xr"} {
		ssa := i >= 2
		name := fmt.Sprintf("paused-teardown/%s/ssa=%v", what, ssa)
		if !c.Want(name) {
			continue
		}
		e := newEnv(uint64(c.Seed)*229+uint64(i), ssa)
		w := e.w
		w.MustSeed("user", xrk.ClaimObject("ex.org/v1", "Thing", "ns1", "c0", map[string]any{"compositionRef": map[string]any{"name": "comp"}}))
		w.MustSeed("user", xrk.ClaimObject("ex.org/v1", "Thing", "ns1", "c1", map[string]any{"compositionRef": map[string]any{"name": "comp"}}))
		e.settle(4)
		u := w.Client("user")
		pause := func(val string) {
			gk := claimGK
			if what == "xr" {
				gk = xrGK
			}
			for _, o := range w.ListObjs(gk) {
				if what == "claim" && sim.Str(o, "metadata", "name") != "c0" {
					continue
				}
				uo := &unstructured.Unstructured{Object: o}
				an := uo.GetAnnotations()
				if an == nil {
					an = map[string]string{}
				}
				if val == "" {
					delete(an, "crossplane.io/paused")
				} else {
					an["crossplane.io/paused"] = val
				}
				uo.SetAnnotations(an)
				_ = u.Update(ctx, uo)
				if what == "xr" {
					break
				}
			}
		}
		pause("true")
		m := newMonitor()
		m.running[ctlComposite] = e.defEng.IsRunning(ctlComposite)
		m.running[ctlClaim] = e.offEng.IsRunning(ctlClaim)
		w.AddHook(m.hook)
		from := w.LogLen()
		if err := u.Delete(ctx, &unstructured.Unstructured{Object: w.GetObj(xrdKey)}); err != nil {
			panic(err)
		}
		e.settle(8)
		waiting := w.GetObj(xrdKey) != nil
		pause("")
		e.settle(8)
		c.Eval(name, waiting)
		c.Count("paused_teardown_cases", 1)
		if waiting {
			c.Count("paused_teardown_waited_for_paused_instance", 1)
		}
		c.Count("monitor_evaluations", int64(m.checks))
		for k, key := range m.keys {
			c.Violate(key+":paused-"+what, name, m.whats[k], map[string]any{"paused": what, "ssa": ssa, "order": m.order, "trace": shortTrace(w, from, 80)})
		}
	}
}

func shortTrace(w *sim.World, from, max int) []string {
	var out []string
	for _, e := range w.Log(from) {
		if e.Verb == "get" || e.Verb == "list" {
			continue
		}
		out = append(out, e.Short())
		if len(out) >= max {
			break
		}
	}
	return out
}

func onceAt(call int) func(int, string, sim.Key) sim.Outcome {
	n := 0
	return func(_ int, _ string, _ sim.Key) sim.Outcome {
		n++
		if n == call+1 {
			return sim.ServerError
		}
		return sim.OK
	}
}

func main() {
	c := kit.New("C08", "exploration")
	c.Rule = "worlds with one XRD (with claim names), 1-2 claims with Background/Foreground/unset delete policy, optionally a directly created XR and a not-yet-bound claim; actors scheduled at API-call granularity by a seeded scheduler: user deletions (claim, XR, XRD with foreground/background propagation, in every order), the real definition and offered reconcilers, the production-wired claim and XR reconcilers they start (gated by engine Start/Stop), the Kubernetes garbage collector (one action per step), a third party stripping finalizers, one injected API error; then sequential settling. Precedence monitors on every trace event: claim finalizer removal => XR delete issued before (XR gone under Foreground); CRD delete => no instance exists and the controller was stopped; engine.Stop during XRD deletion => no instance exists; XRD finalizer removal => CRD gone or not ours; at the end nothing terminating is left with a stopped controller. Part B (package revisions): the real revision reconciler's deletion branch with the real PackageDependencyManager over a Lock in sim - every call index x 6 outcomes for an Active and an Inactive deleted revision plus seeded schedules of two revisions deleted concurrently; monitor: the revision finalizer is removed only when the Lock no longer lists the revision. distinct = (scenario, schedule); non-trivial = >=2 different reconcilers made effective writes during the scheduled phase."
	c.Rule += " Part E: a bound claim (Background / Foreground, both syncers) is deleted; every API call of the claim controller's next reconcile fails once with each of 6 non-crash outcomes (incl. kind not served, 503), then fault-free settling; same monitors. Part F: XRD deletion while a claim is paused. Part C: XRD teardown against the REAL ControllerEngine over fake informers whose RemoveEventHandler fails once or twice; Stop marks are ground truth (context cancelled, no handler registered). Part D: the real usage reconciler on a composed Usage (composite label, spec.by) with user deletions of the Usage and the using resource (fore/background), a provider finalizer, a lingering dependent and single GC steps in fixed and seeded orders; monitor: the usage controller removes the Usage finalizer only when the using resource is gone."
	c.Rule += " " + "Lock entries in the forms older versions wrote (type only, apiVersion+kind, Function as v1beta1)."
	c.Rule += " " + "(1b) the deleted revision's controller reads the Lock through a cache that is behind another writer for 1-3 reconciles."
	c.Rule += " " + "Part G: referenceable version bump, then claim deletion. Part H: Crossplane restarts during an XRD teardown held up by a third-party finalizer."
	c.Rule += " " + "Part L: a new XRD picked up by both XRD controllers at once, one parked before each of its first calls while the other completes, then deleted at once."
	c.Rule += " " + "Part K: the XRD is established again by its package's active revision (real establisher) while it lives and while it waits, Terminating, for its instances; its finalizers go only after its CRDs."
	c.Rule += " " + "Part J: one or two claim reconciles behind an XR cache that has not seen the claim's XR, then deletion - every XR bound to the claim (not only the referenced one) precedes the finalizer. Revision-lock worlds in which another locked package depends on the deleted revision's package."
	c.Assumptions = []string{"a stopped controller reconciles nothing; a running one reconciles every instance when scheduled", "part C: fake informers stand in for client-go shared informers (handler registrations, RemoveEventHandler errors); part D: the Usage is composed by label only, no XR reconciler runs"}
	c.Floor = 100
	n := c.N(400, 8000)
	var mu sync.Mutex
	schedules := map[string]bool{}
	var wg sync.WaitGroup
	sem := make(chan struct{}, 10)
	for i := 0; i < n; i++ {
		name := fmt.Sprintf("sched/%d", i)
		if !c.Want(name) {
			continue
		}
		wg.Add(1)
		sem <- struct{}{}
		go func(i int, name string) {
			defer wg.Done()
			defer func() { <-sem }()
			if err := kit.Try(func() { run(c, i, name, &mu, schedules) }); err != nil {
				c.Violate("panic", name, err.Error(), nil)
			}
		}(i, name)
	}
	wg.Wait()
	c.Count("distinct_schedules", int64(len(schedules)))
	runPreempt(c)
	if err := kit.Try(func() { runRealEngine(c) }); err != nil {
		c.Violate("panic:real-engine", "real-engine", err.Error(), nil)
	}
	if err := kit.Try(func() { runClaimDeletionFaults(c) }); err != nil {
		c.Violate("panic:claim-deletion-faults", "claim-deletion-fault", err.Error(), nil)
	}
	if err := kit.Try(func() { runEstablishInterleave(c) }); err != nil {
		c.Violate("panic:establish-interleave", "establish-interleave", err.Error(), nil)
	}
	if err := kit.Try(func() { runEstablishedXRD(c) }); err != nil {
		c.Violate("panic:established-xrd", "established-xrd", err.Error(), nil)
	}
	if err := kit.Try(func() { runPausedTeardown(c) }); err != nil {
		c.Violate("panic:paused-teardown", "paused-teardown", err.Error(), nil)
	}
	if err := kit.Try(func() { runRestartDuringTeardown(c) }); err != nil {
		c.Violate("panic:restart-during-teardown", "restart-during-teardown", err.Error(), nil)
	}
	if err := kit.Try(func() { runStaleXRCacheThenDeletion(c) }); err != nil {
		c.Violate("panic:stale-xr-cache", "stale-xr-cache-then-claim-deletion", err.Error(), nil)
	}
	if err := kit.Try(func() { runVersionBump(c) }); err != nil {
		c.Violate("panic:version-bump", "version-bump-then-claim-deletion", err.Error(), nil)
	}
	if err := kit.Try(func() { runComposedUsage(c) }); err != nil {
		c.Violate("panic:composed-usage", "composed-usage", err.Error(), nil)
	}
	if err := kit.Try(func() { runRevisionLock(c) }); err != nil {
		c.Violate("panic:revision-lock", "revlock", err.Error(), nil)
	}
	c.Finish()
}
