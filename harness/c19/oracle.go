//go:build verif

package main

import (
	"fmt"
	"sort"
	"strings"
	"sync"

	"k8s.io/apimachinery/pkg/apis/meta/v1/unstructured"
	"k8s.io/apimachinery/pkg/runtime/schema"

	"github.com/crossplane/crossplane/verifh/sim"
)

// Everything in this file is written from the property statement: what "a Usage names R",
// "reports ready", "deletion requested", "in-use marker" and "attempt recorded" mean is
// decided here on the stored JSON, never by calling code of /repo.

const (
	usageGroup = "apiextensions.crossplane.io"
	thingGroup = "nop.ex.org"
	inUseLabel = "crossplane.io/in-use"
	attemptAnn = "usage.crossplane.io/deletion-attempt-with-policy"
)

var (
	usageGK = schema.GroupKind{Group: usageGroup, Kind: "Usage"}
	xrGK    = schema.GroupKind{Group: "ex.org", Kind: "XThing"}
)

func usageKey(name string) sim.Key { return sim.Key{Group: usageGroup, Kind: "Usage", Name: name} }

func groupOf(apiVersion string) string {
	if i := strings.LastIndex(apiVersion, "/"); i >= 0 {
		return apiVersion[:i]
	}
	return ""
}

// refKey is the resource a Usage's spec.of / spec.by names once it carries a name.
func refKey(u map[string]any, field string) (sim.Key, bool) {
	r, ok, _ := unstructured.NestedMap(u, "spec", field)
	if !ok {
		return sim.Key{}, false
	}
	n := sim.Str(r, "resourceRef", "name")
	if n == "" {
		return sim.Key{}, false
	}
	return sim.Key{Group: groupOf(sim.Str(r, "apiVersion")), Kind: sim.Str(r, "kind"), Name: n}, true
}

func named(u map[string]any) (sim.Key, bool) { return refKey(u, "of") }

func isReady(u map[string]any) bool {
	cs, _, _ := unstructured.NestedSlice(u, "status", "conditions")
	for _, c := range cs {
		if m, ok := c.(map[string]any); ok && sim.Str(m, "type") == "Ready" && sim.Str(m, "status") == "True" {
			return true
		}
	}
	return false
}

func hasInUse(o map[string]any) bool {
	if o == nil {
		return false
	}
	ls, _, _ := unstructured.NestedStringMap(o, "metadata", "labels")
	return ls[inUseLabel] == "true"
}

func usagesNaming(v *sim.View, k sim.Key) []map[string]any {
	var out []map[string]any
	for _, u := range v.List(usageGK) {
		if nk, ok := named(u); ok && nk == k {
			out = append(out, u)
		}
	}
	return out
}

func names(us []map[string]any) []string {
	var out []string
	for _, u := range us {
		s := sim.Str(u, "metadata", "name")
		if isReady(u) {
			s += "(Ready)"
		}
		if sim.Terminating(u) {
			s += "(deleting)"
		}
		out = append(out, s)
	}
	return out
}

// preds evaluates the two antecedents of O1 on one store state.
func preds(v *sim.View, k sim.Key) (mustRefuse, mustAllow bool) {
	us := usagesNaming(v, k)
	for _, u := range us {
		if isReady(u) && !sim.Terminating(u) {
			mustRefuse = true
		}
	}
	return mustRefuse, len(us) == 0
}

// window is one DELETE request from the start of its admission phase to its outcome.
type window struct {
	actor   string
	key     sim.Key
	version string
	policy  string
	dry     bool
	seqOpen int

	mustRefuse, mustAllow bool // held on EVERY state of the window
	labelAtOpen           bool
	recorded              bool // the resource carried the attempt record for this policy at some state of the window
	namingAtOpen          []string
	inFlight              bool

	selected, invoked, unregistered, denied bool
	code                                    int32
	whFault                                 bool
	admErr                                  string
}

type recState struct {
	usage      string
	active     bool
	calls      int
	target     sim.Key // the used resource this reconcile's Usage named when the reconcile read it
	hasTarget  bool
	listSeen   bool
	listNaming int
	listSelf   bool // the reconciled Usage itself was among the Usages naming the resource at its list
	listItems  string
	ensured    map[sim.Key]bool
	dirty      bool // the last reconcile ended by an injected fault (partially applied)
}

type viol struct {
	key, what string
	seq       int
}

type monitor struct {
	mu      sync.Mutex
	pending map[string]*window
	last    map[string]*window
	rec     map[string]*recState
	cause   map[sim.Key]string // how the in-use label last left the resource
	viols   []viol
	cnt     map[string]int64
	seq     int

	shared, delInFlight bool
	expectGone          map[string]string // usage -> using resource whose deletion must release it
	usersOf             map[string]string // usage -> policy its using resource was deleted with
}

func newMonitor() *monitor {
	return &monitor{pending: map[string]*window{}, last: map[string]*window{}, rec: map[string]*recState{},
		cause: map[sim.Key]string{}, cnt: map[string]int64{}, expectGone: map[string]string{}, usersOf: map[string]string{}}
}

func (m *monitor) count(name string, n int64) {
	m.mu.Lock()
	m.cnt[name] += n
	m.mu.Unlock()
}

func (m *monitor) add(key, what string) {
	for _, v := range m.viols {
		if v.key == key {
			return
		}
	}
	m.viols = append(m.viols, viol{key, what, m.seq})
}

func (m *monitor) beginReconcile(actor, usage string) {
	m.mu.Lock()
	defer m.mu.Unlock()
	m.rec[actor] = &recState{usage: usage, active: true, ensured: map[sim.Key]bool{}}
}

func (m *monitor) endReconcile(actor string, crashed bool) {
	m.mu.Lock()
	defer m.mu.Unlock()
	if rs := m.rec[actor]; rs != nil {
		rs.active = false
		if crashed {
			rs.dirty = true
		}
	}
}

func (m *monitor) reconcileInFlight() bool {
	for _, rs := range m.rec {
		if (rs.active && rs.calls > 0) || rs.dirty {
			return true
		}
	}
	return false
}

// open starts the window of a DELETE request (called from the admission phase, unlocked).
func (m *monitor) open(w *sim.World, req *sim.AdmitRequest, policy string) *window {
	win := &window{actor: req.Actor, key: req.Key, version: req.Version, policy: policy, dry: req.DryRun}
	w.Read(func(v *sim.View) {
		m.mu.Lock()
		defer m.mu.Unlock()
		win.mustRefuse, win.mustAllow = preds(v, req.Key)
		win.labelAtOpen = hasInUse(v.Get(req.Key))
		win.recorded = attempt(v.Get(req.Key)) == win.want()
		win.namingAtOpen = names(usagesNaming(v, req.Key))
		win.inFlight = m.reconcileInFlight()
		win.seqOpen = m.seq
		if win.inFlight {
			m.delInFlight = true
		}
		m.pending[req.Actor] = win
	})
	return win
}

func (m *monitor) close(win *window, err error) {
	m.mu.Lock()
	defer m.mu.Unlock()
	if err != nil {
		win.admErr = err.Error()
	}
	delete(m.pending, win.actor)
	m.last[win.actor] = win
}

func attempt(o map[string]any) string {
	if o == nil {
		return ""
	}
	as, _, _ := unstructured.NestedStringMap(o, "metadata", "annotations")
	return as[attemptAnn]
}

// want is the record the property expects for this request: the propagation policy, the
// API default (Background) when the request names none.
func (w *window) want() string {
	if w.policy == "" {
		return "Background"
	}
	return w.policy
}

func ownerUIDs(o map[string]any) []string {
	var out []string
	for _, r := range sim.OwnerRefs(o) {
		out = append(out, sim.Str(r, "uid"))
	}
	return out
}

func contains(l []string, s string) bool {
	for _, x := range l {
		if x == s {
			return true
		}
	}
	return false
}

// hook runs after every API call, under the store lock.
func (m *monitor) hook(v *sim.View, ev *sim.Event) {
	m.mu.Lock()
	defer m.mu.Unlock()
	m.seq = ev.Seq
	m.cnt["hook_evaluations"]++
	if ev.Injected != "" {
		m.cnt["faults_hit"]++
	}

	// whose call is it: the webhook serving an open window, or a usage reconcile
	if win := m.pending[ev.Actor]; win != nil {
		m.cnt["webhook_api_calls"]++
		if ev.Injected != "" {
			win.whFault = true
		}
	} else if rs := m.rec[ev.Actor]; rs != nil && rs.active {
		rs.calls++
		if ev.Injected != "" {
			rs.dirty = true
		} else if rs.calls == 1 {
			rs.dirty = false
		}
		if ev.Key == usageKey(rs.usage) && ev.After != nil && ev.Err == "" {
			if k, ok := named(ev.After); ok {
				rs.target, rs.hasTarget = k, true
			}
		}
		if ev.Verb == "list" && ev.Key.GK() == usageGK && ev.Err == "" && ev.Injected == "" && rs.hasTarget {
			us := usagesNaming(v, rs.target)
			rs.listSeen, rs.listNaming, rs.listItems, rs.listSelf = true, len(us), ev.Note, false
			for _, u := range us {
				if sim.Str(u, "metadata", "name") == rs.usage {
					rs.listSelf = true
				}
			}
		}
		if ev.IsWrite() && ev.After != nil && hasInUse(ev.After) && (ev.Err == "" || ev.Injected == sim.ErrorAfter.String()) {
			rs.ensured[ev.Key] = true
		}
	}

	if ev.Changed {
		// every open window sees this state
		for _, win := range m.pending {
			r, a := preds(v, win.key)
			win.mustRefuse = win.mustRefuse && r
			win.mustAllow = win.mustAllow && a
			if attempt(v.Get(win.key)) == win.want() {
				win.recorded = true
			}
		}
	}

	// ---- O1 on the outcome of a DELETE request ----
	if ev.Verb == "delete" {
		if win := m.last[ev.Actor]; win != nil && win.key == ev.Key {
			delete(m.last, ev.Actor)
			m.evalDelete(v, ev, win)
		} else {
			m.cnt["deletes_rejected_before_admission"]++
		}
	}

	if !ev.Changed {
		return
	}

	// ---- O2 / O4a on the write that stores Ready=True ----
	if ev.Key.GK() == usageGK && ev.After != nil && isReady(ev.After) && !(ev.Before != nil && isReady(ev.Before)) {
		m.cnt["ready_transitions_checked"]++
		uname := ev.Key.Name
		rs := m.rec[ev.Actor]
		if k, ok := named(ev.After); !ok {
			m.add("O2-ready-without-resolved-used-resource", fmt.Sprintf("%s: Usage %s stored Ready=True while spec.of names no resource", ev.Short(), uname))
		} else if r := v.Get(k); r == nil {
			// the used resource finished an earlier, legitimately admitted deletion between the
			// reconcile's labelling write and this write: the marker cannot be looked at; no claim
			m.cnt["ready_transitions_used_resource_gone"]++
		} else if !hasInUse(r) {
			class := "never-ensured"
			if rs != nil && rs.ensured[k] {
				class = "label-removed-after-ensure:" + m.cause[k]
			}
			m.add("O2-ready-without-in-use-label:"+class, fmt.Sprintf("%s: Usage %s stored Ready=True while %s does not carry %s=true (last removal: %q)", ev.Short(), uname, k, inUseLabel, m.cause[k]))
		}
		if _, has, _ := unstructured.NestedMap(ev.After, "spec", "by"); has {
			m.cnt["ready_transitions_with_by_checked"]++
			xk, ok := refKey(ev.After, "by")
			x := v.Get(xk)
			switch {
			case !ok:
				m.add("O4-ready-without-resolved-using-resource", fmt.Sprintf("%s: Usage %s stored Ready=True while spec.by names no resource", ev.Short(), uname))
			case x == nil:
				// the using resource was deleted between the reconcile's read and this write: no claim
				m.cnt["ready_transitions_using_resource_gone"]++
			case !contains(ownerUIDs(ev.After), sim.Str(x, "metadata", "uid")):
				m.add("O4-ready-without-owner-reference", fmt.Sprintf("%s: Usage %s stored Ready=True without an owner reference to its using resource %s (owners %v)", ev.Short(), uname, xk, ownerUIDs(ev.After)))
			}
		}
	}

	// ---- O4a (persistence): a write to a Ready Usage must not drop the owner reference to its user ----
	if ev.Key.GK() == usageGK && ev.Before != nil && ev.After != nil && isReady(ev.Before) && ev.Actor != "gc" {
		if xk, ok := refKey(ev.After, "by"); ok {
			if x := v.Get(xk); x != nil {
				uid := sim.Str(x, "metadata", "uid")
				if contains(ownerUIDs(ev.Before), uid) && !contains(ownerUIDs(ev.After), uid) {
					m.add("O4-owner-reference-dropped:"+actorClass(ev.Actor), fmt.Sprintf("%s: the owner reference of Usage %s to its using resource %s was removed", ev.Short(), ev.Key.Name, xk))
				}
			}
		}
	}

	// ---- O3 on the write that removes the in-use label ----
	if ev.Before != nil && ev.After != nil && hasInUse(ev.Before) && !hasInUse(ev.After) {
		m.cnt["label_removals_checked"]++
		self := ""
		rs := m.rec[ev.Actor]
		if rs != nil {
			self = rs.usage
		}
		var othersReady, othersAny []string
		for _, u := range usagesNaming(v, ev.Key) {
			n := sim.Str(u, "metadata", "name")
			if n == self || sim.Terminating(u) {
				continue
			}
			othersAny = append(othersAny, n)
			if isReady(u) {
				othersReady = append(othersReady, n)
			}
		}
		class := "no-check"
		if rs != nil && rs.listSeen {
			switch {
			case rs.listSelf && rs.listNaming <= 1:
				class = "check-then-act" // the check was right when made; the store moved before the act
			case !rs.listSelf && rs.listNaming == 1:
				class = "deleted-usage-absent-from-own-list" // the one Usage counted was the OTHER one
			default:
				class = "others-existed-at-check"
			}
		}
		switch {
		case len(othersReady) > 0:
			m.cause[ev.Key] = class
			m.add("O3-label-removed-while-another-usage-exists:"+class, fmt.Sprintf("%s: %s=true removed from %s by the reconcile of Usage %q while Usage(s) %v (Ready, not deleting) still name it; at the reconcile's own list %d Usage(s) named it, itself included: %v (%s)", ev.Short(), inUseLabel, ev.Key, self, othersReady, listNaming(rs), rs != nil && rs.listSelf, listItems(rs)))
		case len(othersAny) > 0:
			// the other Usage has not reported ready yet: the statement's first sentence promises
			// nothing for it, and O2 watches that it does not become ready without the label
			m.cause[ev.Key] = class
			m.cnt["label_removed_while_unready_usage_exists"]++
		default:
			m.cause[ev.Key] = "last-usage"
			m.cnt["label_removed_by_last_usage"]++
		}
	}

	// ---- bookkeeping ----
	if ev.Key.GK() == usageGK {
		per := map[sim.Key]int{}
		for _, u := range v.List(usageGK) {
			if k, ok := named(u); ok {
				per[k]++
				if per[k] >= 2 {
					m.shared = true
				}
			}
		}
	}
	// a later explicit Orphan delete of X withdraws the expectation: the user asked to keep dependents
	if ev.Verb == "delete" && !ev.DryRun && ev.PatchType == "Orphan" {
		for un, x := range m.expectGone {
			if x == ev.Key.String() {
				delete(m.expectGone, un)
				m.cnt["o4_release_expectations_withdrawn_by_orphan_delete"]++
			}
		}
	}
	// O4b: a non-orphaning delete of a using resource X must release what X uses
	if ev.Verb == "delete" && !ev.DryRun && ev.Key.GK() != usageGK && ev.Before != nil && !sim.Terminating(ev.Before) && ev.PatchType != "Orphan" {
		uid := sim.Str(ev.Before, "metadata", "uid")
		for _, u := range v.List(usageGK) {
			if xk, ok := refKey(u, "by"); ok && xk == ev.Key {
				if os := ownerUIDs(u); len(os) == 1 && os[0] == uid {
					m.expectGone[sim.Str(u, "metadata", "name")] = ev.Key.String()
				}
			}
		}
	}
}

func listNaming(rs *recState) int {
	if rs == nil {
		return -1
	}
	return rs.listNaming
}

func listItems(rs *recState) string {
	if rs == nil {
		return ""
	}
	return "list returned " + rs.listItems
}

func actorClass(a string) string {
	if i := strings.Index(a, ":"); i >= 0 {
		return a[:i]
	}
	return strings.TrimRight(a, "0123456789")
}

func (m *monitor) evalDelete(v *sim.View, ev *sim.Event, d *window) {
	m.cnt["delete_attempts"]++
	switch {
	case d.denied:
		m.cnt["delete_attempts_refused"]++
	case ev.Err == "":
		m.cnt["delete_attempts_allowed"]++
	default:
		m.cnt["delete_attempts_other_error"]++
	}
	if d.inFlight {
		m.cnt["delete_attempts_during_reconcile"]++
	}
	if d.dry {
		m.cnt["delete_attempts_dry_run"]++
	}
	if d.version == "v2" {
		m.cnt["delete_attempts_via_other_version"]++
	}
	refused := ev.Err != "" && !ev.Changed && d.admErr != ""
	where := fmt.Sprintf("%s (policy %q, version %s, dry-run %v; Usages naming it when the request arrived: %v)", ev.Short(), d.policy, d.version, d.dry, d.namingAtOpen)
	switch {
	case d.mustRefuse:
		m.cnt["o1_in_use_deletes_evaluated"]++
		if !refused {
			var key string
			switch {
			case d.unregistered:
				key = "webhook-path-not-registered"
			case !d.selected && d.labelAtOpen:
				key = "webhook-not-selected:label-present"
			case !d.selected:
				c := m.cause[d.key]
				if c == "" {
					c = "never-labelled"
				}
				key = "label-absent:" + c
			default:
				key = "webhook-allowed"
				if d.version != "v1" {
					key += ":other-served-version"
				}
			}
			m.add("O1-in-use-delete-allowed:"+key, "a Ready, not-deleting Usage named the resource during the whole request, yet the delete was not refused: "+where)
			return
		}
		if d.whFault {
			m.cnt["o1_refused_with_webhook_fault"]++
			return
		}
		// overlapping attempts with different policies overwrite each other's record, and the
		// webhook compares against the object as it was when the request arrived: the record
		// for THIS policy must have been on the resource at some state of the request, and a
		// record must be there afterwards
		if v.Get(d.key) == nil {
			// the resource finished an earlier, legitimately admitted deletion during the request
			m.cnt["o1_refused_resource_gone_meanwhile"]++
		} else if now := attempt(v.Get(d.key)); !d.recorded || now == "" {
			class := fmt.Sprintf("code-%d", d.code)
			if strings.Contains(d.admErr, "panic") {
				class = "webhook-panicked"
			}
			m.add("O1-refused-without-attempt-record:"+class, fmt.Sprintf("admission answered %q; the delete was refused but the resource never carried %s=%q during the request (has %q afterwards): %s", d.admErr, attemptAnn, d.want(), now, where))
		}
	case d.mustAllow:
		m.cnt["o1_unused_deletes_evaluated"]++
		if d.admErr != "" && !d.whFault {
			key := "webhook-denied"
			if !d.denied {
				key = "webhook-call-failed"
			}
			m.add("O1-unused-delete-refused:"+key, fmt.Sprintf("no Usage named the resource during the whole request, yet admission refused it (%s): %s", d.admErr, where))
		}
	default:
		m.cnt["o1_deletes_without_claim"]++
	}
}

// final evaluates the end-of-run expectations (after a fault-free settle).
func (m *monitor) final(w *sim.World) {
	m.mu.Lock()
	defer m.mu.Unlock()
	ks := make([]string, 0, len(m.expectGone))
	for k := range m.expectGone {
		ks = append(ks, k)
	}
	sort.Strings(ks)
	for _, un := range ks {
		m.cnt["o4_release_checks"]++
		if u := w.GetObj(usageKey(un)); u != nil {
			m.add("O4-used-not-released-after-user-deleted", fmt.Sprintf("Usage %s (owned only by its using resource %s) still exists after that resource was deleted, the garbage collector ran to completion and the Usage was reconciled (deleting=%v, owners=%v)", un, m.expectGone[un], sim.Terminating(u), ownerUIDs(u)))
		}
	}
}
