//go:build verif

package main

import (
	"fmt"
	"math/rand/v2"
	"os"
	"strings"

	metav1 "k8s.io/apimachinery/pkg/apis/meta/v1"
	"k8s.io/apimachinery/pkg/apis/meta/v1/unstructured"
	"sigs.k8s.io/controller-runtime/pkg/client"

	"github.com/crossplane/crossplane/verifh/sim"
)

// resSpec is one side (of / by) of a Usage.
type resSpec struct {
	Version string            `json:"version"` // served version of nop.ex.org Thing the Usage refers to: v1 | v2
	Ref     string            `json:"ref,omitempty"`
	Sel     map[string]string `json:"sel,omitempty"`
	Ctrl    bool              `json:"matchControllerRef,omitempty"`
}

type usageSpec struct {
	Name     string   `json:"name"`
	Version  string   `json:"version"` // v1alpha1 | v1beta1
	Of       resSpec  `json:"of"`
	By       *resSpec `json:"by,omitempty"`
	Owner    string   `json:"owner,omitempty"` // XR controlling the Usage (needed by matchControllerRef)
	Composed bool     `json:"composed,omitempty"`
	// Replay sets spec.replayDeletion: the controller replays a refused deletion of the used
	// resource once this Usage is gone (the timed replay itself is intercepted by the harness)
	Replay bool `json:"replayDeletion,omitempty"`
}

type thingSpec struct {
	Name    string `json:"name"`
	Version string `json:"version"`
	Grp     string `json:"grp,omitempty"`
	Owner   string `json:"owner,omitempty"`
}

// ownerKey resolves an owner given as "name" (an XThing) or as "group/Kind/name" (an XR of
// another type, e.g. one that shares kind and name with a resource it composes).
func ownerKey(owner string) sim.Key {
	if p := strings.Split(owner, "/"); len(p) == 3 {
		return sim.Key{Group: p[0], Kind: p[1], Name: p[2]}
	}
	return sim.Key{Group: xrGK.Group, Kind: xrGK.Kind, Name: owner}
}

func (e *env) ctrlRef(xr string) []any {
	k := ownerKey(xr)
	o := e.w.GetObj(k)
	if o == nil {
		panic("no XR " + xr)
	}
	return []any{map[string]any{"apiVersion": k.Group + "/v1", "kind": k.Kind, "name": k.Name, "uid": sim.Str(o, "metadata", "uid"), "controller": true, "blockOwnerDeletion": true}}
}

func resMap(grp string, r resSpec) map[string]any {
	m := map[string]any{"apiVersion": apiV(grp, r.Version), "kind": "Thing"}
	if r.Ref != "" {
		m["resourceRef"] = map[string]any{"name": r.Ref}
	} else {
		sel := map[string]any{}
		ml := map[string]any{}
		for k, v := range r.Sel {
			ml[k] = v
		}
		sel["matchLabels"] = ml
		if r.Ctrl {
			sel["matchControllerRef"] = true
		}
		m["resourceSelector"] = sel
	}
	return m
}

func (e *env) usageObj(us usageSpec) map[string]any {
	spec := map[string]any{"of": resMap(e.grp, us.Of)}
	if us.By != nil {
		spec["by"] = resMap(e.grp, *us.By)
	} else {
		spec["reason"] = "do not delete"
	}
	if us.Replay {
		spec["replayDeletion"] = true
	}
	md := map[string]any{"name": us.Name}
	if us.Owner != "" {
		md["ownerReferences"] = e.ctrlRef(us.Owner)
	}
	if us.Composed {
		md["labels"] = map[string]any{"crossplane.io/composite": ownerKey(us.Owner).Name}
	}
	return map[string]any{"apiVersion": usageGroup + "/" + us.Version, "kind": "Usage", "metadata": md, "spec": spec}
}

func (e *env) thingObj(t thingSpec) map[string]any {
	md := map[string]any{"name": t.Name}
	ls := map[string]any{"thing-name": t.Name}
	if t.Grp != "" {
		ls["grp"] = t.Grp
	}
	md["labels"] = ls
	if t.Owner != "" {
		md["ownerReferences"] = e.ctrlRef(t.Owner)
	}
	return map[string]any{"apiVersion": apiV(e.grp, t.Version), "kind": "Thing", "metadata": md, "spec": map[string]any{"v": "1"}}
}

func (e *env) seedXRs() {
	for _, n := range []string{"xr1", "xr2"} {
		e.w.MustSeed("setup", map[string]any{"apiVersion": "ex.org/v1", "kind": "XThing", "metadata": map[string]any{"name": n, "labels": map[string]any{"crossplane.io/composite": n}}})
	}
	// an XR whose kind and name equal those of a resource it composes (another API group)
	e.w.MustSeed("setup", map[string]any{"apiVersion": "platform.ex.org/v1", "kind": "Thing", "metadata": map[string]any{"name": "t3"}})
}

// op is one user request.
type op struct {
	Kind    string     `json:"op"` // createUsage | createThing | deleteUsage | deleteThing | compose
	Usage   *usageSpec `json:"usage,omitempty"`
	Thing   *thingSpec `json:"thing,omitempty"`
	Name    string     `json:"name,omitempty"`
	Version string     `json:"version,omitempty"`
	Policy  string     `json:"policy,omitempty"`
	Dry     bool       `json:"dryRun,omitempty"`
	// Collection: the delete arrives as a deletecollection request (kubectl delete --all, DeleteAllOf)
	Collection bool `json:"collection,omitempty"`
}

func (o op) String() string {
	switch o.Kind {
	case "createUsage", "compose":
		return fmt.Sprintf("%s(%s)", o.Kind, o.Usage.Name)
	case "createThing":
		return fmt.Sprintf("createThing(%s)", o.Thing.Name)
	case "xrCompose":
		return fmt.Sprintf("xrCompose(%s)", o.Name)
	case "clearResolvedRef":
		return fmt.Sprintf("clearResolvedRef(%s)", o.Name)
	case "retargetUsage":
		return fmt.Sprintf("retargetUsage(%s->%s)", o.Name, o.Version)
	}
	s := fmt.Sprintf("%s(%s@%s", o.Kind, o.Name, o.Version)
	if o.Policy != "" {
		s += "," + o.Policy
	}
	if o.Dry {
		s += ",dry"
	}
	return s + ")"
}

func (e *env) do(c *sim.Client, o op) error {
	e.mon.count("user_ops", 1)
	switch o.Kind {
	case "createUsage":
		return c.Create(bg, &unstructured.Unstructured{Object: e.usageObj(*o.Usage)})
	case "compose":
		return e.compose(c, *o.Usage)
	case "xrCompose":
		err := e.xrCompose(c, o.Name)
		if err != nil {
			e.mon.count("xr_compose_errors", 1)
			if os.Getenv("DBG") != "" {
				fmt.Fprintln(os.Stderr, "DBG xrCompose:", err)
			}
		} else {
			e.mon.count("xr_compose_ok", 1)
		}
		return err
	case "createThing":
		return c.Create(bg, &unstructured.Unstructured{Object: e.thingObj(*o.Thing)})
	case "clearResolvedRef":
		// the user re-applies the Usage manifest as written (kubectl replace): selector only, the
		// reference the controller had resolved is gone again
		u := &unstructured.Unstructured{Object: e.w.GetObj(sim.Key{Group: usageGroup, Kind: "Usage", Name: o.Name})}
		if u.Object == nil {
			return nil
		}
		unstructured.RemoveNestedField(u.Object, "spec", "of", "resourceRef")
		return c.Update(bg, u)
	case "retargetUsage":
		// the user edits spec.of.resourceRef.name of an existing Usage (spec.of is mutable): from
		// then on the Usage names another resource. o.Version carries the new name.
		u := &unstructured.Unstructured{Object: e.w.GetObj(sim.Key{Group: usageGroup, Kind: "Usage", Name: o.Name})}
		if u.Object == nil {
			return nil
		}
		_ = unstructured.SetNestedField(u.Object, o.Version, "spec", "of", "resourceRef", "name")
		return c.Update(bg, u)
	case "deleteUsage", "deleteThing":
		u := &unstructured.Unstructured{}
		if o.Kind == "deleteUsage" {
			u.SetAPIVersion(usageGroup + "/" + o.Version)
			u.SetKind("Usage")
		} else {
			u.SetAPIVersion(apiV(e.grp, o.Version))
			u.SetKind("Thing")
		}
		u.SetName(o.Name)
		var opts []client.DeleteOption
		if o.Policy != "" {
			opts = append(opts, client.PropagationPolicy(metav1.DeletionPropagation(o.Policy)))
		}
		if o.Dry {
			opts = append(opts, client.DryRunAll)
		}
		if o.Collection && o.Kind == "deleteThing" {
			// a deletecollection request that reaches (only) this object: selected by a label every
			// Thing of that name carries
			var dopts []client.DeleteAllOfOption
			dopts = append(dopts, client.MatchingLabels{"thing-name": o.Name})
			do := &client.DeleteOptions{}
			do.ApplyOptions(opts)
			dopts = append(dopts, &client.DeleteAllOfOptions{DeleteOptions: *do})
			return c.DeleteAllOf(bg, u, dopts...)
		}
		return c.Delete(bg, u, opts...)
	}
	panic("unknown op " + o.Kind)
}

var policies = []string{"", "Background", "Foreground", "Orphan"}

// ---- fixed scenarios (sequential; a fault is injected at every call of every reconcile step) ----

type step struct {
	Kind  string `json:"step"` // op | rec | gc
	Op    op     `json:"op,omitempty"`
	Usage string `json:"usage,omitempty"`
}

type scenario struct {
	Name   string
	Things []thingSpec
	Steps  []step
	// Core: the Thing kind lives in the core API group
	Core          bool
	faultFreeOnly bool
}

func sOp(o op) step            { return step{Kind: "op", Op: o} }
func sRec(u string) step       { return step{Kind: "rec", Usage: u} }
func sGC() step                { return step{Kind: "gc"} }
func cu(u usageSpec) op        { return op{Kind: "createUsage", Usage: &u} }
func dt(n, ver, pol string) op { return op{Kind: "deleteThing", Name: n, Version: ver, Policy: pol} }
func dtDry(n, ver, pol string) op {
	return op{Kind: "deleteThing", Name: n, Version: ver, Policy: pol, Dry: true}
}
func dtAll(n, ver, pol string) op {
	return op{Kind: "deleteThing", Name: n, Version: ver, Policy: pol, Collection: true}
}
func du(n, ver, pol string) op { return op{Kind: "deleteUsage", Name: n, Version: ver, Policy: pol} }

var baseThings = []thingSpec{
	{Name: "t1", Version: "v1", Grp: "a", Owner: "xr1"},
	{Name: "t2", Version: "v1", Grp: "a", Owner: "xr2"},
	{Name: "t3", Version: "v2", Grp: "b"},
}

func scenarios() []scenario {
	ref := func(n, ver string) resSpec { return resSpec{Version: ver, Ref: n} }
	var out []scenario
	// A: one Usage by reference with a reason, every policy, both Usage API versions
	for i, pol := range policies {
		uv := []string{"v1beta1", "v1alpha1"}[i%2]
		u := usageSpec{Name: "u1", Version: uv, Of: ref("t1", "v1")}
		out = append(out, scenario{Name: "single-ref/" + uv + "/" + pol, Things: baseThings, Steps: []step{
			sOp(dtDry("t3", "v1", pol)), // nobody uses t3
			sOp(cu(u)), sRec("u1"), sRec("u1"),
			sOp(dt("t1", "v1", pol)), sOp(dt("t1", "v2", pol)), sOp(dtAll("t1", "v1", pol)), sOp(dt("t2", "v1", pol)),
			sOp(du("u1", uv, pol)), sRec("u1"), sGC(), sRec("u1"),
			sOp(dt("t1", "v2", pol)),
		}})
	}
	// B: Usage by a using resource; deleting the user releases the used (O4)
	for _, pol := range []string{"", "Background", "Foreground"} {
		for _, sel := range []bool{false, true} {
			by := ref("t3", "v2")
			if sel {
				by = resSpec{Version: "v1", Sel: map[string]string{"grp": "b"}}
			}
			u := usageSpec{Name: "u1", Version: "v1beta1", Of: ref("t1", "v2"), By: &by}
			out = append(out, scenario{Name: fmt.Sprintf("by-user/%s/sel=%v", pol, sel), Things: baseThings, Steps: []step{
				sOp(cu(u)), sRec("u1"), sRec("u1"),
				sOp(dt("t1", "v1", "Foreground")),
				sOp(dt("t3", "v2", pol)), sGC(), sRec("u1"), sGC(), sRec("u1"),
				sOp(dt("t1", "v1", pol)),
			}})
		}
	}
	// A2: a ready Usage is edited to name another resource (spec.of is mutable). Once the controller
	// has reconciled the edited Usage, the newly named resource is protected like any other. Fault
	// free only: a reconcile that fails right after the edit leaves the old Ready condition in
	// place, which the property does not speak about.
	for i, withBy := range []bool{false, true} {
		uv := []string{"v1beta1", "v1alpha1"}[i%2]
		u := usageSpec{Name: "u1", Version: uv, Of: ref("t1", "v1")}
		if withBy {
			by := ref("t3", "v2")
			u.By = &by
		}
		out = append(out, scenario{Name: fmt.Sprintf("retarget/by=%v", withBy), Things: baseThings, faultFreeOnly: true, Steps: []step{
			sOp(cu(u)), sRec("u1"), sRec("u1"),
			sOp(dt("t1", "v1", "")),
			sOp(op{Kind: "retargetUsage", Name: "u1", Version: "t2"}), sRec("u1"), sRec("u1"), sRec("u1"),
			sOp(dt("t2", "v1", "")), sOp(dtAll("t2", "v1", "Background")), sOp(dtDry("t2", "v1", "Foreground")),
			sOp(du("u1", uv, "")), sRec("u1"), sGC(), sRec("u1"),
			sOp(dt("t2", "v1", "")),
		}})
	}
	// C: two and three Usages sharing one used resource, through different served versions
	u1 := usageSpec{Name: "u1", Version: "v1beta1", Of: ref("t1", "v1")}
	u2 := usageSpec{Name: "u2", Version: "v1alpha1", Of: ref("t1", "v2")}
	by3 := ref("t3", "v1")
	u3 := usageSpec{Name: "u3", Version: "v1beta1", Of: ref("t1", "v1"), By: &by3}
	out = append(out, scenario{Name: "shared/2", Things: baseThings, Steps: []step{
		sOp(cu(u1)), sOp(cu(u2)), sRec("u1"), sRec("u2"), sRec("u1"),
		sOp(dtDry("t1", "v1", "Orphan")),
		sOp(du("u1", "v1beta1", "")), sRec("u1"), sRec("u1"),
		sOp(dt("t1", "v2", "Background")),
		sOp(du("u2", "v1beta1", "Foreground")), sRec("u2"), sGC(), sRec("u2"),
		sOp(dt("t1", "v1", "")),
	}})
	out = append(out, scenario{Name: "shared/3", Things: baseThings, Steps: []step{
		sOp(cu(u1)), sRec("u1"), sOp(cu(u2)), sOp(cu(u3)), sRec("u2"), sRec("u3"), sRec("u3"),
		sOp(du("u2", "v1alpha1", "Orphan")), sRec("u2"), sGC(), sRec("u2"),
		sOp(dtDry("t1", "v2", "")),
		sOp(du("u1", "v1beta1", "")), sRec("u1"),
		sOp(dt("t1", "v1", "Foreground")),
		sOp(dt("t3", "v1", "Background")), sGC(), sRec("u3"), sGC(), sRec("u3"),
		sOp(dt("t1", "v1", "Foreground")),
	}})
	// D: used resource by selector, with and without controller matching
	for _, ctrl := range []bool{false, true} {
		u := usageSpec{Name: "u1", Version: "v1beta1", Of: resSpec{Version: "v1", Sel: map[string]string{"grp": "a"}, Ctrl: ctrl}, Owner: "xr2"}
		// without controller matching the selector resolves to t1 (first match); with it to t2
		out = append(out, scenario{Name: fmt.Sprintf("selector/ctrl=%v", ctrl), Things: baseThings, Steps: []step{
			sOp(cu(u)), sOp(dtDry("t1", "v1", "")), sOp(dtDry("t2", "v1", "")),
			sRec("u1"), sRec("u1"),
			sOp(dtDry("t1", "v1", "Foreground")), sOp(dtDry("t2", "v2", "Foreground")),
			sOp(dt("t1", "v1", "")), sOp(dt("t2", "v1", "")),
			sOp(du("u1", "v1beta1", "Background")), sRec("u1"), sRec("u1"),
			sOp(dt("t1", "v1", "")), sOp(dt("t2", "v1", "")),
		}})
	}
	// E: a composed Usage (XR-controlled, re-applied by the composer with RespectOwnerRefs)
	byc := ref("t3", "v2")
	uc := usageSpec{Name: "u1", Version: "v1beta1", Of: ref("t1", "v1"), By: &byc, Owner: "xr1", Composed: true}
	out = append(out, scenario{Name: "composed", Things: baseThings, Steps: []step{
		sOp(op{Kind: "compose", Usage: &uc}), sRec("u1"), sRec("u1"),
		sOp(op{Kind: "compose", Usage: &uc}), sRec("u1"),
		sOp(dt("t1", "v1", "")),
		sOp(du("u1", "v1beta1", "")), sRec("u1"), // waits for the using resource
		sOp(dt("t3", "v1", "")), sGC(), sRec("u1"), sRec("u1"),
		sOp(dt("t1", "v1", "")),
	}})
	// E2: the same, composed by an XR that shares kind AND name with the using resource (it lives
	// in another API group): the using resource's owner reference must survive the re-compose
	uc2 := usageSpec{Name: "u1", Version: "v1beta1", Of: ref("t1", "v1"), By: &byc, Owner: "platform.ex.org/Thing/t3", Composed: true}
	out = append(out, scenario{Name: "composed-by-xr-named-like-the-user", Things: baseThings, Steps: []step{
		sOp(op{Kind: "compose", Usage: &uc2}), sRec("u1"), sRec("u1"),
		sOp(op{Kind: "compose", Usage: &uc2}), sRec("u1"),
		sOp(dt("t1", "v1", "")),
		sOp(op{Kind: "compose", Usage: &uc2}), sRec("u1"),
		sOp(dt("t3", "v1", "")), sGC(), sRec("u1"), sRec("u1"),
		sOp(dt("t1", "v1", "")),
	}})
	// E3: two Usages of one resource, one of them with replayDeletion; a deletion of the resource is
	// refused (and recorded for the replay), then the replaying Usage is deleted while the other
	// one stays Ready: the in-use label stays, further deletions are refused
	ur := usageSpec{Name: "u1", Version: "v1beta1", Of: ref("t1", "v1"), Replay: true}
	uk := usageSpec{Name: "u2", Version: "v1beta1", Of: ref("t1", "v1")}
	out = append(out, scenario{Name: "replay-deletion-with-second-usage", Things: baseThings, Steps: []step{
		sOp(cu(ur)), sOp(cu(uk)), sRec("u1"), sRec("u2"), sRec("u1"), sRec("u2"),
		sOp(dt("t1", "v1", "Background")),
		sOp(du("u1", "v1beta1", "")), sRec("u1"), sRec("u1"),
		sOp(dt("t1", "v1", "")), sRec("u2"),
		sOp(du("u2", "v1beta1", "")), sRec("u2"), sRec("u2"),
		sOp(dt("t1", "v1", "")),
	}})
	// E4: the USED resource is composed by an XR with the real patch-and-transform composer; the XR is
	// composed again while a Usage of the resource is Ready: what the usage controller put on the
	// resource (the in-use label) is none of the composer's business
	uxc := usageSpec{Name: "u1", Version: "v1beta1", Of: resSpec{Version: "v1", Sel: map[string]string{"thing-name": "tc"}}}
	out = append(out, scenario{Name: "used-resource-composed-by-pt-xr", Things: baseThings, Steps: []step{
		sOp(op{Kind: "xrCompose", Name: "xr1"}),
		sOp(cu(uxc)), sRec("u1"), sRec("u1"),
		sOp(op{Kind: "xrCompose", Name: "xr1"}),
		sOp(dtAll("tc", "v1", "")), sRec("u1"),
		sOp(op{Kind: "xrCompose", Name: "xr1"}),
		sOp(dtAll("tc", "v1", "Background")),
		sOp(du("u1", "v1beta1", "")), sRec("u1"), sRec("u1"),
		sOp(op{Kind: "xrCompose", Name: "xr1"}),
		sOp(dtAll("tc", "v1", "")),
	}})
	// E5: used resource by selector, using resource by reference; once Ready the user replaces the
	// Usage with its original manifest (the resolved reference is gone again); the controller
	// resolves and STORES it again, deletions stay refused
	byRef := ref("t3", "v2")
	usel := usageSpec{Name: "u1", Version: "v1beta1", Of: resSpec{Version: "v1", Sel: map[string]string{"thing-name": "t1"}}, By: &byRef}
	out = append(out, scenario{Name: "resolved-reference-cleared-by-user", Things: baseThings, Steps: []step{
		sOp(cu(usel)), sRec("u1"), sRec("u1"),
		sOp(op{Kind: "clearResolvedRef", Name: "u1"}), sRec("u1"), sRec("u1"),
		sOp(dt("t1", "v1", "")),
		sOp(op{Kind: "clearResolvedRef", Name: "u1"}), sRec("u1"),
		sOp(dt("t1", "v1", "Foreground")),
		sOp(du("u1", "v1beta1", "")), sRec("u1"), sRec("u1"),
		sOp(dt("t1", "v1", "")),
	}})
	// F: a second Usage whose using resource is given by a selector that matches nothing: it names
	// the used resource (spec.of) but its spec.by stays unresolved
	bysel := resSpec{Version: "v1", Sel: map[string]string{"grp": "nothing"}}
	ux := usageSpec{Name: "u0", Version: "v1beta1", Of: ref("t1", "v1"), By: &bysel}
	u9 := usageSpec{Name: "u9", Version: "v1beta1", Of: ref("t1", "v1")}
	out = append(out, scenario{Name: "unresolved-by-selector", Things: baseThings, Steps: []step{
		sOp(cu(u9)), sRec("u9"), sRec("u9"),
		sOp(cu(ux)), sOp(dt("t1", "v1", "Foreground")),
		sRec("u0"), sOp(dt("t1", "v2", "")),
		sOp(du("u0", "v1beta1", "")), sRec("u0"), sOp(dt("t1", "v1", "Orphan")),
	}})
	// G: the Usage is created (and reconciled) BEFORE the resource it names exists, e.g. both are
	// composed by one XR and the Usage is applied first; the resource appears and is deleted before
	// the Usage is reconciled again, then appears once more
	u4 := usageSpec{Name: "u1", Version: "v1beta1", Of: ref("t4", "v1")}
	t4 := thingSpec{Name: "t4", Version: "v1", Grp: "a"}
	out = append(out, scenario{Name: "usage-created-before-the-used-resource", Things: baseThings, Steps: []step{
		sOp(cu(u4)), sRec("u1"), sRec("u1"),
		sOp(op{Kind: "createThing", Thing: &t4}), sOp(dt("t4", "v1", "")),
		sRec("u1"), sGC(),
		sOp(op{Kind: "createThing", Thing: &t4}), sRec("u1"), sRec("u1"), sOp(dt("t4", "v1", "Background")),
	}})
	return out
}

// ---- random worlds ----

type fault struct {
	Actor string      `json:"actor"`
	Round int         `json:"round"`
	Idx   int         `json:"call"`
	Out   sim.Outcome `json:"-"`
	OutS  string      `json:"outcome"`
}

type plan struct {
	Things   []thingSpec    `json:"things"`
	Pre      []usageSpec    `json:"preCreated"`         // created in set-up
	PreRec   map[string]int `json:"preReconciled"`      // usage -> number of set-up reconciles
	PreDel   []string       `json:"preDeleteRequested"` // usages whose deletion is requested in set-up
	Users    [][]op         `json:"users"`
	Rounds   map[string]int `json:"reconcileRounds"`
	Faults   []fault        `json:"faults,omitempty"`
	WhFaults []whFault      `json:"webhookFaults,omitempty"`
	GCRounds int            `json:"gcRounds"`
	Chooser  string         `json:"chooser"`
	Stick    float64        `json:"stick"`
	Core     bool           `json:"coreGroup,omitempty"` // the Thing kind lives in the core API group
}

func pick[T any](r *rand.Rand, l []T) T { return l[r.IntN(len(l))] }

func genPlan(r *rand.Rand) *plan {
	p := &plan{Things: append([]thingSpec(nil), baseThings...), PreRec: map[string]int{}, Rounds: map[string]int{}}
	p.Core = r.IntN(4) == 0
	vers := []string{"v1", "v2"}
	nU := 1 + r.IntN(3)
	var later []usageSpec
	var all []usageSpec
	for i := 0; i < nU; i++ {
		u := usageSpec{Name: fmt.Sprintf("u%d", i+1), Version: pick(r, []string{"v1beta1", "v1alpha1"})}
		switch x := r.IntN(10); {
		case x < 6: // mostly share t1
			u.Of = resSpec{Version: pick(r, vers), Ref: "t1"}
		case x < 7:
			u.Of = resSpec{Version: pick(r, vers), Ref: "t2"}
		default:
			u.Of = resSpec{Version: pick(r, vers), Sel: map[string]string{"grp": "a"}, Ctrl: r.IntN(2) == 0}
		}
		if u.Of.Ctrl || r.IntN(4) == 0 {
			u.Owner = pick(r, []string{"xr1", "xr2"})
		}
		switch x := r.IntN(10); {
		case x < 4:
		case x < 8:
			u.By = &resSpec{Version: pick(r, vers), Ref: pick(r, []string{"t3", "t2"})}
			if u.By.Ref == u.Of.Ref {
				u.By.Ref = "t3"
			}
		default:
			u.By = &resSpec{Version: pick(r, vers), Sel: map[string]string{"grp": "b"}}
		}
		if u.Owner != "" && u.By != nil && r.IntN(3) == 0 {
			u.Composed = true
		}
		all = append(all, u)
		switch r.IntN(4) {
		case 0:
			later = append(later, u)
		case 1:
			p.Pre = append(p.Pre, u)
			p.PreRec[u.Name] = r.IntN(2)
		default:
			p.Pre = append(p.Pre, u)
			p.PreRec[u.Name] = 2
			if r.IntN(3) == 0 {
				p.PreDel = append(p.PreDel, u.Name)
			}
		}
		p.Rounds[u.Name] = 2 + r.IntN(3)
	}
	nUsers := 2
	p.Users = make([][]op, nUsers)
	for i, u := range later {
		u := u
		p.Users[i%nUsers] = append(p.Users[i%nUsers], op{Kind: "createUsage", Usage: &u})
	}
	t4 := false
	for i := 0; i < nUsers; i++ {
		n := 2 + r.IntN(3)
		for k := 0; k < n; k++ {
			var o op
			switch x := r.IntN(10); {
			case x < 5:
				o = op{Kind: "deleteThing", Name: pick(r, []string{"t1", "t1", "t2", "t3"}), Version: pick(r, vers), Policy: pick(r, policies), Dry: r.IntN(3) == 0, Collection: r.IntN(5) == 0}
			case x < 8:
				o = op{Kind: "deleteUsage", Name: pick(r, all).Name, Version: pick(r, []string{"v1beta1", "v1alpha1"}), Policy: pick(r, policies)}
			case x < 9 && !t4:
				t4 = true
				o = op{Kind: "createThing", Thing: &thingSpec{Name: "t4", Version: pick(r, vers), Grp: "a", Owner: pick(r, []string{"", "xr1", "xr2"})}}
			default:
				o = op{Kind: "deleteThing", Name: "t1", Version: pick(r, vers), Policy: pick(r, policies)}
			}
			// insert at a random position after this user's creates
			p.Users[i] = append(p.Users[i], o)
		}
		r.Shuffle(len(p.Users[i]), func(a, b int) { p.Users[i][a], p.Users[i][b] = p.Users[i][b], p.Users[i][a] })
	}
	if r.IntN(2) == 0 {
		nf := 1 + r.IntN(2)
		for k := 0; k < nf; k++ {
			u := pick(r, all)
			o := pick(r, sim.AllFaults)
			p.Faults = append(p.Faults, fault{Actor: "usage:" + u.Name, Round: r.IntN(p.Rounds[u.Name]), Idx: r.IntN(8), Out: o, OutS: o.String()})
		}
	}
	if r.IntN(6) == 0 {
		p.WhFaults = append(p.WhFaults, whFault{Invocation: r.IntN(3), Idx: r.IntN(2), Out: pick(r, []sim.Outcome{sim.ServerError, sim.Timeout, sim.ErrorAfter, sim.Conflict})})
	}
	p.GCRounds = 4 + r.IntN(6)
	switch x := r.IntN(10); {
	case x < 3:
		p.Chooser, p.Stick = "uniform", 0
	case x < 6:
		p.Chooser, p.Stick = "sticky", 0.6
	default:
		p.Chooser, p.Stick = "sticky", 0.85
	}
	return p
}
