//go:build verif

// C19: an in-use resource cannot be deleted; protection ends exactly when use ends.
//
// Wiring: the simulated apiserver's admission phase is driven by the tree's
// cluster/webhookconfigurations/usage.yaml (rules + objectSelector + service path) and sends
// an AdmissionReview v1 over the HTTP interface of the REAL handler that
// usage.SetupWebhookWithManager registered with the fake manager (which also registers the
// REAL field index into sim); the REAL usage.Reconciler (production defaults) runs as one
// actor per Usage. A hook evaluates the oracles of oracle.go after every API call.
//
// Exploration: (1) fixed scenarios with a fault at every call index of every usage reconcile
// (and of every webhook invocation); (2) systematic two-actor preemption enumeration at
// API-call granularity; (3) seeded random schedules of usage reconcilers, users and the
// garbage collector with fault plans.
package main

import (
	"fmt"
	"math/rand/v2"
	"runtime"
	"sort"
	"strings"
	"sync"

	"github.com/go-logr/logr"
	"k8s.io/apimachinery/pkg/apis/meta/v1/unstructured"
	utilruntime "k8s.io/apimachinery/pkg/util/runtime"
	ctrl "sigs.k8s.io/controller-runtime"

	"github.com/crossplane/crossplane/verifh/kit"
	"github.com/crossplane/crossplane/verifh/sim"
)

type runner struct {
	c   *kit.Ctx
	cfg *whConfig

	mu        sync.Mutex
	schedules map[string]bool
}

func (rn *runner) merge(e *env, caseName, fingerprint string, witness func() any) {
	m := e.mon
	m.mu.Lock()
	defer m.mu.Unlock()
	nontrivial := m.shared || m.delInFlight
	rn.c.Eval(fingerprint, nontrivial)
	for k, v := range m.cnt {
		rn.c.Count(k, v)
	}
	if m.shared {
		rn.c.Count("worlds_with_shared_used_resource", 1)
	}
	if m.delInFlight {
		rn.c.Count("worlds_with_delete_during_reconcile", 1)
	}
	for _, v := range m.viols {
		rn.c.Violate(v.key, caseName, v.what, witness())
	}
}

func (e *env) seedThings(ts []thingSpec) {
	e.seedXRs()
	c := e.w.Client("setup")
	for _, t := range ts {
		if err := c.Create(bg, &unstructured.Unstructured{Object: e.thingObj(t)}); err != nil {
			panic(err)
		}
	}
}

// probes: after the run has settled, one dry-run and one real delete per remaining Thing.
func (e *env) probes() {
	c := e.w.Client("probe")
	for i, t := range e.w.ListObjs(e.thingGK()) {
		n := sim.Str(t, "metadata", "name")
		_ = e.do(c, op{Kind: "deleteThing", Name: n, Version: []string{"v1", "v2"}[i%2], Policy: policies[i%len(policies)], Dry: true})
	}
	for i, t := range e.w.ListObjs(e.thingGK()) {
		n := sim.Str(t, "metadata", "name")
		_ = e.do(c, op{Kind: "deleteThing", Name: n, Version: []string{"v2", "v1"}[i%2], Policy: policies[(i+1)%len(policies)]})
	}
}

// ---------- (1) fixed scenarios with fault enumeration ----------

type scenFault struct {
	step, k int
	out     sim.Outcome
	whInv   int // -1: none
	whIdx   int
	whOut   sim.Outcome
}

type scenInfo struct {
	recCalls map[int]int
	invCalls []int
}

func (rn *runner) runScenario(sc scenario, f *scenFault, caseName string) scenInfo {
	info := scenInfo{recCalls: map[int]int{}}
	e := newEnv(rn.cfg, uint64(rn.c.Seed), coreGroup(sc.Core))
	e.seedThings(sc.Things)
	if f != nil && f.whInv >= 0 {
		e.whFaults = []whFault{{Invocation: f.whInv, Idx: f.whIdx, Out: f.whOut}}
	}
	user := e.w.Client("user1")
	probe := e.w.Client("probe")
	err := kit.Try(func() {
		for i, st := range sc.Steps {
			switch st.Kind {
			case "op":
				_ = e.do(user, st.Op)
			case "gc":
				e.gcRunAll(8)
			case "rec":
				ua := e.usage(st.Usage)
				ua.c.ClearFaults()
				if f != nil && f.step == i && f.whInv < 0 {
					ua.c.Fault(f.k, f.out)
				}
				_, _, _ = e.reconcile(st.Usage)
				ua.c.ClearFaults()
				info.recCalls[i] = ua.c.Calls()
				if f != nil && f.step == i && f.whInv < 0 {
					// requests arriving between the failed reconcile and its retry
					for _, t := range sc.Things {
						_ = e.do(probe, op{Kind: "deleteThing", Name: t.Name, Version: "v1", Dry: true})
					}
					for r := 0; r < 3; r++ {
						_, _, _ = e.reconcile(st.Usage)
					}
				}
			}
		}
		e.settle(6)
		e.mon.final(e.w)
		e.probes()
	})
	e.mu.Lock()
	info.invCalls = append([]int(nil), e.invCalls...)
	e.mu.Unlock()
	if err != nil {
		rn.c.Violate("panic:"+firstLine(err.Error()), caseName, err.Error(), map[string]any{"scenario": sc.Name, "trace": shortLog(e.w, 0, 60)})
	}
	rn.merge(e, caseName, caseName, func() any {
		w := map[string]any{"scenario": sc.Name, "steps": sc.Steps, "trace": shortLog(e.w, 0, 160)}
		if f != nil {
			w["fault"] = fmt.Sprintf("%+v", *f)
		}
		return w
	})
	rn.c.Count("scenario_executions", 1)
	if rn.c.WantSample() && f != nil && f.out == sim.CrashAfter && f.k == 3 {
		rn.c.Sample(map[string]any{"case": caseName, "scenario": sc.Name, "trace": shortLog(e.w, 0, 40)})
	}
	return info
}

func firstLine(s string) string {
	if i := strings.IndexByte(s, '\n'); i >= 0 {
		s = s[:i]
	}
	if len(s) > 80 {
		s = s[:80]
	}
	return s
}

func (rn *runner) faultScenarios(pool *pool) {
	all := scenarios()
	// the same scenarios with the used / using kind in the core API group (apiVersion "v1")
	for i, sc := range scenarios() {
		sc.Core = true
		sc.Name += "-core-group"
		sc.faultFreeOnly = i >= 4
		all = append(all, sc)
	}
	for _, sc := range all {
		sc := sc
		base := "fault/" + sc.Name
		if !rn.c.Want(base) && !strings.HasPrefix(rn.c.Only, base) {
			continue
		}
		info := rn.runScenario(sc, nil, base+"/none")
		if sc.faultFreeOnly {
			continue
		}
		steps := make([]int, 0, len(info.recCalls))
		for s := range info.recCalls {
			steps = append(steps, s)
		}
		sort.Ints(steps)
		for _, s := range steps {
			for k := 0; k < info.recCalls[s]; k++ {
				for _, out := range sim.EnumFaults {
					f := &scenFault{step: s, k: k, out: out, whInv: -1}
					name := fmt.Sprintf("%s/s%d/k%d/%s", base, s, k, out)
					if !rn.c.Want(name) {
						continue
					}
					pool.go_(func() { rn.runScenario(sc, f, name) })
				}
			}
		}
		for inv, n := range info.invCalls {
			for idx := 0; idx < n; idx++ {
				for _, out := range []sim.Outcome{sim.Conflict, sim.ServerError, sim.Timeout, sim.ErrorAfter, sim.NotServed, sim.Unavailable} {
					f := &scenFault{step: -1, whInv: inv, whIdx: idx, whOut: out}
					name := fmt.Sprintf("%s/wh%d/k%d/%s", base, inv, idx, out)
					if !rn.c.Want(name) {
						continue
					}
					pool.go_(func() { rn.runScenario(sc, f, name) })
				}
			}
		}
	}
}

// ---------- (2) systematic preemption enumeration ----------

type script struct {
	Actor string `json:"actor"`
	Steps []step `json:"steps"`
}

type pcase struct {
	Name  string
	Core  bool // the Thing kind lives in the core API group
	Setup []step
	A     script
	B     []script
	After []step
}

func pcases() []pcase {
	ref := func(n, ver string) resSpec { return resSpec{Version: ver, Ref: n} }
	u1 := usageSpec{Name: "u1", Version: "v1beta1", Of: ref("t1", "v1")}
	u2 := usageSpec{Name: "u2", Version: "v1beta1", Of: ref("t1", "v2")}
	u3 := usageSpec{Name: "u3", Version: "v1alpha1", Of: ref("t1", "v1")}
	by := ref("t3", "v2")
	ub := usageSpec{Name: "u1", Version: "v1beta1", Of: ref("t1", "v1"), By: &by}
	usel := usageSpec{Name: "u1", Version: "v1beta1", Of: resSpec{Version: "v1", Sel: map[string]string{"grp": "a"}}}
	ready1 := []step{sOp(cu(u1)), sRec("u1"), sRec("u1")}
	ready12 := []step{sOp(cu(u1)), sOp(cu(u2)), sRec("u1"), sRec("u2"), sRec("u1"), sRec("u2")}
	cat := func(a []step, b ...step) []step { return append(append([]step(nil), a...), b...) }
	return []pcase{
		{Name: "deleting-usage-vs-new-usage", Setup: cat(ready1, sOp(du("u1", "v1beta1", ""))),
			A:     script{"usage:u1", []step{sRec("u1")}},
			B:     []script{{"user1", []step{sOp(cu(u2))}}, {"usage:u2", []step{sRec("u2"), sRec("u2")}}},
			After: []step{sOp(dtDry("t1", "v1", ""))}},
		{Name: "last-of-three-vs-new-usage", Setup: cat(ready12, sOp(du("u1", "v1beta1", "")), sOp(du("u2", "v1beta1", "")), sRec("u2")),
			A:     script{"usage:u1", []step{sRec("u1")}},
			B:     []script{{"user1", []step{sOp(cu(u3))}}, {"usage:u3", []step{sRec("u3")}}},
			After: []step{sOp(dtDry("t1", "v2", "Foreground"))}},
		{Name: "second-delete-reconcile-vs-gc", Setup: cat(ready12, sOp(du("u1", "v1beta1", "Foreground")), sRec("u1")),
			A:     script{"usage:u1", []step{sRec("u1")}},
			B:     []script{{"gc", nil}},
			After: []step{sOp(dtDry("t1", "v1", ""))}},
		{Name: "deleting-usage-vs-delete-used", Setup: cat(ready1, sOp(du("u1", "v1beta1", ""))),
			A: script{"usage:u1", []step{sRec("u1")}},
			B: []script{{"user1", []step{sOp(dt("t1", "v2", "Orphan"))}}, {"gc", nil}}},
		{Name: "new-usage-vs-delete-used", Setup: []step{sOp(cu(u1))},
			A: script{"usage:u1", []step{sRec("u1"), sRec("u1")}},
			B: []script{{"user1", []step{sOp(dt("t1", "v1", "Foreground"))}}, {"gc", nil}}},
		{Name: "two-deleting-usages", Setup: cat(ready12, sOp(du("u1", "v1beta1", "")), sOp(du("u2", "v1beta1", ""))),
			A:     script{"usage:u1", []step{sRec("u1")}},
			B:     []script{{"usage:u2", []step{sRec("u2")}}},
			After: []step{sOp(dtDry("t1", "v1", ""))}},
		{Name: "delete-used-vs-delete-usage", Setup: ready1,
			A: script{"user1", []step{sOp(dt("t1", "v2", "Foreground"))}},
			B: []script{{"user2", []step{sOp(du("u1", "v1beta1", ""))}}, {"usage:u1", []step{sRec("u1"), sRec("u1")}}}},
		{Name: "delete-user-vs-gc", Setup: []step{sOp(cu(ub)), sRec("u1"), sRec("u1")},
			A: script{"user1", []step{sOp(dt("t3", "v1", "Background")), sOp(dt("t1", "v1", ""))}},
			B: []script{{"gc", nil}, {"usage:u1", []step{sRec("u1"), sRec("u1")}}, {"user2", []step{sOp(dt("t1", "v2", ""))}}}},
		{Name: "steady-reconcile-vs-delete-other-usage", Setup: ready12,
			A:     script{"usage:u2", []step{sRec("u2")}},
			B:     []script{{"user1", []step{sOp(du("u1", "v1beta1", "Foreground"))}}, {"usage:u1", []step{sRec("u1")}}, {"gc", nil}},
			After: []step{sOp(dtDry("t1", "v1", "Background"))}},
		{Name: "selector-resolution-vs-delete-used", Setup: []step{sOp(cu(usel))},
			A: script{"usage:u1", []step{sRec("u1"), sRec("u1")}},
			B: []script{{"user1", []step{sOp(dt("t1", "v1", "")), sOp(dtDry("t2", "v1", ""))}}}},
		{Name: "new-usage-vs-new-usage", Setup: []step{sOp(cu(u1)), sOp(cu(u2))},
			A: script{"usage:u1", []step{sRec("u1")}},
			B: []script{{"usage:u2", []step{sRec("u2")}}, {"user1", []step{sOp(dtDry("t1", "v1", ""))}}}},
	}
}

func (e *env) runSteps(c *sim.Client, steps []step) {
	for _, st := range steps {
		switch st.Kind {
		case "op":
			_ = e.do(c, st.Op)
		case "rec":
			_, _, _ = e.reconcile(st.Usage)
		case "gc":
			e.gcRunAll(8)
		}
	}
}

// gcActor is the garbage collector under the scheduler: it polls (one API call = one gate)
// and then performs one pending action.
func (e *env) gcActor(rounds int) {
	c := e.w.Client("gc")
	for i := 0; i < rounds; i++ {
		l := &unstructured.UnstructuredList{}
		l.SetAPIVersion(apiV(e.grp, "v1"))
		l.SetKind("ThingList")
		_ = c.List(bg, l)
		if acts := e.gcPending(); len(acts) > 0 {
			_ = e.gcDo(acts[i%len(acts)])
		}
	}
}

func (e *env) start(s *sim.Scheduler, sc script) {
	if sc.Actor == "gc" {
		s.Go("gc", func() { e.gcActor(3) })
		return
	}
	c := e.w.Client(sc.Actor)
	s.Go(sc.Actor, func() { e.runSteps(c, sc.Steps) })
}

// runPreempt: A gets k grants, then the B chain gets j grants (j<0: runs to completion), then
// A finishes, then B finishes. Returns the numbers of grants A and B received.
func (rn *runner) runPreempt(pc pcase, k, j int, caseName string) (nA, nB int) {
	e := newEnv(rn.cfg, uint64(rn.c.Seed), coreGroup(pc.Core))
	e.seedThings(baseThings)
	var sched []string
	err := kit.Try(func() {
		e.runSteps(e.w.Client("user0"), pc.Setup)
		s := e.w.NewScheduler()
		e.start(s, pc.A)
		for _, b := range pc.B {
			e.start(s, b)
		}
		isB := map[string]int{}
		for i, b := range pc.B {
			isB[b.Actor] = i + 1
		}
		gA, gB := 0, 0
		choose := func(en, _ []string) int {
			ia, ib := -1, -1
			for i, a := range en {
				if a == pc.A.Actor {
					ia = i
				} else if ib < 0 || isB[a] < isB[en[ib]] {
					ib = i
				}
			}
			switch {
			case ia >= 0 && gA < k:
				gA++
				return ia
			case ib >= 0 && (j < 0 || gB < j):
				gB++
				return ib
			case ia >= 0:
				gA++
				return ia
			}
			gB++
			return ib
		}
		sched = s.Run(choose, 5000)
		e.w.SetScheduler(nil)
		nA, nB = gA, gB
		e.runSteps(e.w.Client("user9"), pc.After)
		e.settle(6)
		e.mon.final(e.w)
		e.probes()
	})
	if err != nil {
		rn.c.Violate("panic:"+firstLine(err.Error()), caseName, err.Error(), map[string]any{"case": pc.Name, "trace": shortLog(e.w, 0, 60)})
	}
	ss := strings.Join(sched, " ")
	rn.noteSchedule(pc.Name + "|" + ss)
	rn.merge(e, caseName, caseName+"|"+ss, func() any {
		return map[string]any{"case": pc.Name, "setup": pc.Setup, "A": pc.A, "B": pc.B, "A_grants_before_B": k, "B_grants_before_A_resumes": j, "schedule": ss, "trace": shortLog(e.w, 0, 160)}
	})
	rn.c.Count("preemption_executions", 1)
	if rn.c.WantSample() && k == 3 && j < 0 {
		rn.c.Sample(map[string]any{"case": caseName, "schedule": ss, "trace": shortLog(e.w, 0, 40)})
	}
	return nA, nB
}

func (rn *runner) noteSchedule(s string) {
	rn.mu.Lock()
	rn.schedules[s] = true
	rn.mu.Unlock()
	rn.c.Count("schedules", 1)
}

func (rn *runner) preemptions(pool *pool) {
	for _, pc := range pcases() {
		pc := pc
		base := "preempt/" + pc.Name
		if !rn.c.Want(base) && !strings.HasPrefix(rn.c.Only, base) {
			continue
		}
		nA, nB := rn.runPreempt(pc, 1<<30, -1, base+"/serial")
		for k := 0; k < nA; k++ {
			js := []int{-1}
			for j := 1; j < nB; j++ {
				js = append(js, j)
			}
			for _, j := range js {
				k, j := k, j
				name := fmt.Sprintf("%s/k%d/j%d", base, k, j)
				if !rn.c.Want(name) {
					continue
				}
				pool.go_(func() { rn.runPreempt(pc, k, j, name) })
			}
		}
	}
}

// ---------- (3) random schedules ----------

func (rn *runner) runPlan(i int) {
	caseName := fmt.Sprintf("sched/%d", i)
	r := rn.c.Rng("sched", i)
	p := genPlan(r)
	e := newEnv(rn.cfg, uint64(rn.c.Seed)*1000003+uint64(i), coreGroup(p.Core))
	e.seedThings(p.Things)
	e.whFaults = p.WhFaults
	var sched []string
	err := kit.Try(func() {
		setup := e.w.Client("user0")
		for _, u := range p.Pre {
			u := u
			_ = e.do(setup, op{Kind: "createUsage", Usage: &u})
		}
		for _, u := range p.Pre {
			for k := 0; k < p.PreRec[u.Name]; k++ {
				_, _, _ = e.reconcile(u.Name)
			}
		}
		for _, n := range p.PreDel {
			_ = e.do(setup, du(n, "v1beta1", ""))
		}
		s := e.w.NewScheduler()
		var unames []string
		for n := range p.Rounds {
			unames = append(unames, n)
		}
		sort.Strings(unames)
		for _, n := range unames {
			n := n
			ua := e.usage(n)
			s.Go(ua.actor, func() {
				for round := 0; round < p.Rounds[n]; round++ {
					ua.c.ClearFaults()
					for _, f := range p.Faults {
						if f.Actor == ua.actor && f.Round == round {
							ua.c.Fault(f.Idx, f.Out)
						}
					}
					_, _, _ = e.reconcile(n)
				}
				ua.c.ClearFaults()
			})
		}
		for ui, ops := range p.Users {
			ops := ops
			c := e.w.Client(fmt.Sprintf("user%d", ui+1))
			s.Go(c.Actor, func() {
				for _, o := range ops {
					_ = e.do(c, o)
				}
			})
		}
		s.Go("gc", func() { e.gcActor(p.GCRounds) })
		prev := ""
		choose := func(en, _ []string) int {
			if p.Chooser == "sticky" && prev != "" && r.Float64() < p.Stick {
				for x, a := range en {
					if a == prev {
						return x
					}
				}
			}
			x := r.IntN(len(en))
			prev = en[x]
			return x
		}
		sched = s.Run(choose, 20000)
		e.w.SetScheduler(nil)
		e.settle(8)
		e.mon.final(e.w)
		e.probes()
	})
	if err != nil {
		rn.c.Violate("panic:"+firstLine(err.Error()), caseName, err.Error(), map[string]any{"plan": p, "trace": shortLog(e.w, 0, 60)})
	}
	ss := compress(sched)
	rn.noteSchedule(ss)
	switches := 0
	for k := 1; k < len(sched); k++ {
		if sched[k] != sched[k-1] {
			switches++
		}
	}
	rn.c.Count("schedule_steps", int64(len(sched)))
	rn.c.Count("schedule_actor_switches", int64(switches))
	rn.merge(e, caseName, caseName+"|"+ss, func() any {
		return map[string]any{"plan": p, "schedule": ss, "trace": shortLog(e.w, 0, 200)}
	})
	rn.c.Count("random_schedule_executions", 1)
	if rn.c.WantSample() && switches >= 6 && len(p.Faults) > 0 {
		rn.c.Sample(map[string]any{"case": caseName, "plan": p, "schedule": ss})
	}
}

// compress renders a schedule as run-length encoded actor grants.
func compress(s []string) string {
	var b strings.Builder
	for i := 0; i < len(s); {
		j := i
		for j < len(s) && s[j] == s[i] {
			j++
		}
		if b.Len() > 0 {
			b.WriteByte(' ')
		}
		fmt.Fprintf(&b, "%s*%d", s[i], j-i)
		i = j
	}
	return b.String()
}

// ---------- pool ----------

type pool struct {
	wg  sync.WaitGroup
	sem chan struct{}
}

func newPool(n int) *pool { return &pool{sem: make(chan struct{}, n)} }

func (p *pool) go_(f func()) {
	p.wg.Add(1)
	p.sem <- struct{}{}
	go func() {
		defer p.wg.Done()
		defer func() { <-p.sem }()
		f()
	}()
}

var _ = rand.New

func main() {
	ctrl.SetLogger(logr.Discard())
	utilruntime.PanicHandlers = nil // controller-runtime's webhook recovers handler panics; do not log a stack per panic
	c := kit.New("C19", "exploration")
	c.Rule = "worlds = real usage webhook handler (called over its HTTP AdmissionReview v1 interface, selected by the tree's usage.yaml rules+objectSelector+path, index registered by the real SetupWebhookWithManager) + real usage.Reconciler (one actor per Usage) + garbage collector over sim. " +
		"(1) 16 fixed scenarios (by reference / by selector with and without controller match / with and without a using resource / composed and re-applied with RespectOwnerRefs / 2-3 Usages sharing a used resource / v1alpha1+v1beta1 Usages / used kind served as v1 and v2 / every propagation policy): fault-free, then a fault at EVERY call index of every usage reconcile x 6 outcomes followed by dry-run deletes and retries, and at every call of every webhook invocation x 4 error outcomes. " +
		"(2) 10 two-party races, every split: A runs k API calls, the B chain j calls (or to completion), A finishes, B finishes. " +
		"(3) seeded random plans (1-3 Usages, mostly sharing t1; users creating/deleting Usages and resources with every policy, dry-run or not, through v1/v2; fault plans; GC actor incl. orphan propagation) under uniform or sticky random schedulers at API-call granularity, then fault-free settle and a dry-run + real delete of every remaining resource. " +
		"Oracles on every call/state: O1 on every DELETE whose antecedent held during the WHOLE request window (admission start to outcome), O2/O4 on the write storing Ready=True, O3 on the write removing the in-use label, O4 release after GC+reconciles. distinct = case name + schedule string; non-trivial = >=2 Usages named one resource at some instant, or a delete arrived while a usage reconcile was in flight / crashed / failed by an injected fault and not yet retried. " +
		"Avoided as debatable: re-creating a deleted resource or Usage under the same name, replayDeletion (spawns a timed goroutine), users editing labels/Usage specs, Usages of Usages, Orphan deletion of a using resource as a trigger of O4."
	c.Rule += " Every fixed scenario also runs with the Thing kind in the core API group (apiVersion 'v1'/'v2' without a slash; fault enumeration for four of them) and a quarter of the random plans do."
	c.Rule += " " + "Used resources are also deleted by collection (DeleteAllOf: empty admission request name)."
	c.Rule += " " + "A Usage composed by an XR that shares kind and name with the using resource; Usages with replayDeletion (the timed replay is intercepted and counted)."
	c.Rule += " " + "The used resource composed (and re-composed) by the real P&T composer; a Ready Usage replaced by its original manifest (resolved reference cleared)."
	c.Rule += " " + "A ready Usage (with and without a using resource) edited to name another resource, reconciled, then the newly named resource deleted singly, by collection and as a dry run (fault-free only)."
	c.Assumptions = []string{
		"sim implements optimistic concurrency, no-op writes keeping resourceVersion, finalizers, foreground/background GC (DESIGN.md 2.2); orphan propagation is emulated locally in c19/env.go",
		"reads are linearizable (the usage controller's cached Usage reads are modelled as fresh: the most favourable case for the code)",
		"reconciles of different Usages run concurrently (MaxConcurrentReconciles = --max-reconcile-rate, default 100), reconciles of one Usage never do",
		"the webhook's API calls interleave with other actors; a webhook process crash is not modelled (only API errors of its calls)",
	}
	c.Floor = 150
	cfg, err := loadWebhookConfig()
	if err != nil {
		c.Inconclusive("cannot read usage.yaml: " + err.Error())
		c.Finish()
	}
	rn := &runner{c: c, cfg: cfg, schedules: map[string]bool{}}
	c.Extra("webhook_config", map[string]any{"name": cfg.Hooks[0].Name, "rules": cfg.Hooks[0].Rules, "objectSelector": cfg.Hooks[0].ObjectSelector, "path": cfg.Hooks[0].ClientConfig.Service})
	pl := newPool(runtime.NumCPU())
	rn.faultScenarios(pl)
	rn.preemptions(pl)
	n := c.N(600, 12000)
	for i := 0; i < n; i++ {
		if !c.Want(fmt.Sprintf("sched/%d", i)) {
			continue
		}
		i := i
		pl.go_(func() { rn.runPlan(i) })
	}
	pl.wg.Wait()
	c.Count("distinct_schedule_strings", int64(len(rn.schedules)))
	c.Count("replayed_deletions_intercepted_so_far", replaysIntercepted.Load())
	if c.Only == "" {
		if c.Counter("o1_in_use_deletes_evaluated") == 0 || c.Counter("o1_unused_deletes_evaluated") == 0 || c.Counter("ready_transitions_checked") == 0 || c.Counter("label_removals_checked") == 0 || c.Counter("o4_release_checks") == 0 {
			c.Inconclusive("an oracle was never exercised (see counters)")
		}
	}
	c.Finish()
}
