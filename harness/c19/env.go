//go:build verif

package main

import (
	"bytes"
	"context"
	"encoding/json"
	"fmt"
	"net/http"
	"net/http/httptest"
	"os"
	"path/filepath"
	"sort"
	"strings"
	"sync"
	"sync/atomic"

	admissionv1 "k8s.io/api/admission/v1"
	admregv1 "k8s.io/api/admissionregistration/v1"
	authnv1 "k8s.io/api/authentication/v1"
	kerrors "k8s.io/apimachinery/pkg/api/errors"
	metav1 "k8s.io/apimachinery/pkg/apis/meta/v1"
	"k8s.io/apimachinery/pkg/apis/meta/v1/unstructured"
	"k8s.io/apimachinery/pkg/labels"
	"k8s.io/apimachinery/pkg/runtime"
	"k8s.io/apimachinery/pkg/runtime/schema"
	"k8s.io/apimachinery/pkg/types"
	"k8s.io/utils/ptr"
	"sigs.k8s.io/controller-runtime/pkg/client"
	"sigs.k8s.io/controller-runtime/pkg/reconcile"
	"sigs.k8s.io/yaml"

	"github.com/crossplane/crossplane-runtime/pkg/controller"
	"github.com/crossplane/crossplane-runtime/pkg/logging"
	xpresource "github.com/crossplane/crossplane-runtime/pkg/resource"
	"github.com/crossplane/crossplane-runtime/pkg/resource/unstructured/composed"
	ucomposite "github.com/crossplane/crossplane-runtime/pkg/resource/unstructured/composite"

	xpextv1 "github.com/crossplane/crossplane/apis/apiextensions/v1"
	xcomposite "github.com/crossplane/crossplane/internal/controller/apiextensions/composite"
	usagectrl "github.com/crossplane/crossplane/internal/controller/apiextensions/usage"
	usagehook "github.com/crossplane/crossplane/internal/usage"
	"github.com/crossplane/crossplane/verifh/sim"
	"github.com/crossplane/crossplane/verifh/xrk"
)

var bg = context.Background()

// ---- webhook configuration read from the tree under test ----

type whConfig struct {
	Hooks []admregv1.ValidatingWebhook
	Raw   admregv1.ValidatingWebhookConfiguration
}

func loadWebhookConfig() (*whConfig, error) {
	dir := os.Getenv("VERIF_REPO_DIR")
	if dir == "" {
		dir = "/repo"
	}
	b, err := os.ReadFile(filepath.Join(dir, "cluster", "webhookconfigurations", "usage.yaml"))
	if err != nil {
		return nil, err
	}
	cfg := &whConfig{}
	if err := yaml.Unmarshal(b, &cfg.Raw); err != nil {
		return nil, err
	}
	cfg.Hooks = cfg.Raw.Webhooks
	if len(cfg.Hooks) == 0 {
		return nil, fmt.Errorf("usage.yaml declares no webhook")
	}
	return cfg, nil
}

func inList(l []string, v string) bool {
	for _, x := range l {
		if x == "*" || x == v {
			return true
		}
	}
	return false
}

// ruleMatches is the apiserver's rule matching (k8s.io/apiserver/pkg/admission/plugin/webhook/
// predicates/rules) written out for the fields usage.yaml can use.
func ruleMatches(r admregv1.RuleWithOperations, op, group, version, resource, sub string, namespaced bool) bool {
	okOp := false
	for _, o := range r.Operations {
		if o == admregv1.OperationAll || string(o) == op {
			okOp = true
		}
	}
	if !okOp || !inList(r.APIGroups, group) || !inList(r.APIVersions, version) {
		return false
	}
	if r.Scope != nil {
		switch *r.Scope {
		case admregv1.ClusterScope:
			if namespaced {
				return false
			}
		case admregv1.NamespacedScope:
			if !namespaced {
				return false
			}
		}
	}
	for _, res := range r.Resources {
		rr, rs, hasSub := strings.Cut(res, "/")
		switch {
		case res == "*" && sub == "":
			return true
		case res == "*/*":
			return true
		case !hasSub && sub == "" && rr == resource:
			return true
		case hasSub && (rr == "*" || rr == resource) && (rs == "*" || rs == sub) && sub != "":
			return true
		}
	}
	return false
}

func pluralOf(kind string) string { return strings.ToLower(kind) + "s" }

// selects reports whether the webhook is called for this request (rules + objectSelector).
func selects(h admregv1.ValidatingWebhook, req *sim.AdmitRequest) bool {
	ok := false
	for _, r := range h.Rules {
		if ruleMatches(r, req.Operation, req.Key.Group, req.Version, pluralOf(req.Key.Kind), req.Sub, req.Key.Namespace != "") {
			ok = true
			break
		}
	}
	if !ok {
		return false
	}
	if h.ObjectSelector != nil {
		sel, err := metav1.LabelSelectorAsSelector(h.ObjectSelector)
		if err != nil {
			return false
		}
		// the apiserver evaluates the selector against the old and the new object
		m := false
		for _, o := range []map[string]any{req.Old, req.New} {
			if o == nil {
				continue
			}
			ls, _, _ := unstructured.NestedStringMap(o, "metadata", "labels")
			if sel.Matches(labels.Set(ls)) {
				m = true
			}
		}
		if !m {
			return false
		}
	}
	return true
}

// ---- one world with the production wiring ----

type usageActor struct {
	actor string
	name  string
	c     *sim.Client
	r     *usagectrl.Reconciler
}

type whFault struct {
	Invocation int // n-th webhook invocation in this world (0-based)
	Idx        int
	Out        sim.Outcome
}

type env struct {
	w   *sim.World
	cfg *whConfig
	mon *monitor
	// grp is the API group of the Thing kind in this world: "nop.ex.org", or "" for the core
	// group (apiVersion without a slash, as for Namespace / PersistentVolume / Node)
	grp string

	mu       sync.Mutex
	handlers map[string]http.Handler // webhook path handlers per calling actor
	whc      map[string]*sim.Client
	reqN     int
	invN     int
	whFaults []whFault
	invCalls []int // API calls made by each webhook invocation
	usages   map[string]*usageActor
}

// coreGroup selects the Thing group of a case.
func coreGroup(core bool) string {
	if core {
		return ""
	}
	return thingGroup
}

// apiV renders an apiVersion for a group and version.
func apiV(grp, ver string) string {
	if grp == "" {
		return ver
	}
	return grp + "/" + ver
}

func (e *env) thingGK() schema.GroupKind { return schema.GroupKind{Group: e.grp, Kind: "Thing"} }

func newEnv(cfg *whConfig, seed uint64, grp string) *env {
	w := sim.NewWorld(xrk.Scheme(), seed)
	w.SetKind(usageGK, sim.KindInfo{Plural: "usages"})
	w.SetKind(schema.GroupKind{Group: grp, Kind: "Thing"}, sim.KindInfo{Plural: "things"})
	w.SetKind(xrGK, sim.KindInfo{Plural: "xthings"})
	e := &env{w: w, cfg: cfg, grp: grp, handlers: map[string]http.Handler{}, whc: map[string]*sim.Client{}, usages: map[string]*usageActor{}}
	e.mon = newMonitor()
	// production start-up: the webhook set-up registers the field index the controller and the
	// handler both query (real index function, registered through the fake FieldIndexer)
	if _, err := e.handlerFor("webhook", ""); err != nil {
		panic(err)
	}
	w.AddAdmission(e.admit)
	w.AddHook(e.mon.hook)
	return e
}

// handlerFor returns the REAL webhook handler registered under path, with its own sim client.
// The handler's client carries the calling actor's name so that, under the scheduler, its API
// calls are interleaved like any other call of that request (the monitor tells them apart by
// the open admission window).
func (e *env) handlerFor(actor, path string) (http.Handler, error) {
	e.mu.Lock()
	defer e.mu.Unlock()
	key := actor + "|" + path
	if h, ok := e.handlers[key]; ok {
		return h, nil
	}
	wc := e.w.Client(actor)
	wc.Manager = "crossplane-webhook"
	mgr := xrk.NewManager(e.w, wc)
	if err := usagehook.SetupWebhookWithManager(mgr, controller.Options{Logger: logging.NewNopLogger()}); err != nil {
		return nil, err
	}
	e.whc[actor] = wc
	for p, h := range mgr.Web.Hooks {
		e.handlers[actor+"|"+p] = h
	}
	if path == "" {
		return nil, nil
	}
	h, ok := e.handlers[key]
	if !ok {
		return nil, fmt.Errorf("no handler registered under %q (registered: %v)", path, hookPaths(mgr))
	}
	return h, nil
}

func hookPaths(m *xrk.Manager) []string {
	var out []string
	for p := range m.Web.Hooks {
		out = append(out, p)
	}
	sort.Strings(out)
	return out
}

func denied(name string, code int32, reason metav1.StatusReason, msg string) error {
	if code == 0 {
		code = http.StatusBadRequest
	}
	m := fmt.Sprintf("admission webhook %q denied the request", name)
	switch {
	case msg != "":
		m += ": " + msg
	case reason != "":
		m += ": " + string(reason)
	default:
		m += " without explanation"
	}
	return &kerrors.StatusError{ErrStatus: metav1.Status{Status: metav1.StatusFailure, Code: code, Reason: reason, Message: m}}
}

// admit is the simulated apiserver's validating admission phase, driven by usage.yaml.
func (e *env) admit(_ *sim.World, req *sim.AdmitRequest) error {
	if req.Operation != "DELETE" {
		// rules of usage.yaml are evaluated for every operation, but only DELETE windows are monitored
		for _, h := range e.cfg.Hooks {
			if selects(h, req) {
				if err := e.call(h, req, nil); err != nil {
					return err
				}
			}
		}
		return nil
	}
	policy := ""
	if do, ok := req.Options.(*client.DeleteOptions); ok && do != nil && do.PropagationPolicy != nil {
		policy = string(*do.PropagationPolicy)
	}
	win := e.mon.open(e.w, req, policy)
	var err error
	for _, h := range e.cfg.Hooks {
		if !selects(h, req) {
			continue
		}
		win.selected = true
		if err = e.call(h, req, win); err != nil {
			break
		}
	}
	e.mon.close(win, err)
	return err
}

// call sends the AdmissionReview to the registered handler over its HTTP interface.
func (e *env) call(h admregv1.ValidatingWebhook, req *sim.AdmitRequest, win *window) error {
	fail := func(err error) error {
		if h.FailurePolicy != nil && *h.FailurePolicy == admregv1.Ignore {
			return nil
		}
		return kerrors.NewInternalError(fmt.Errorf("failed calling webhook %q: %w", h.Name, err))
	}
	path := ""
	if h.ClientConfig.Service != nil && h.ClientConfig.Service.Path != nil {
		path = *h.ClientConfig.Service.Path
	}
	handler, herr := e.handlerFor(req.Actor, path)
	if herr != nil || handler == nil {
		if win != nil {
			win.unregistered = true
		}
		return fail(fmt.Errorf("webhook path: %v", herr))
	}
	if win != nil {
		win.invoked = true
	}
	e.mu.Lock()
	e.reqN++
	uid := fmt.Sprintf("req-%d", e.reqN)
	inv := e.invN
	e.invN++
	wc := e.whc[req.Actor]
	wc.ResetCalls()
	wc.ClearFaults()
	for _, f := range e.whFaults {
		if f.Invocation == inv {
			wc.Fault(f.Idx, f.Out)
		}
	}
	e.mu.Unlock()

	gv := schema.GroupVersion{Group: req.Key.Group, Version: req.Version}
	old := runtime.DeepCopyJSON(req.Old)
	old["apiVersion"] = gv.String() // the object as served at the request's version
	oldRaw, _ := json.Marshal(old)
	do := &metav1.DeleteOptions{}
	if o, ok := req.Options.(*client.DeleteOptions); ok && o != nil {
		do = o.AsDeleteOptions()
	}
	do.TypeMeta = metav1.TypeMeta{Kind: "DeleteOptions", APIVersion: "meta.k8s.io/v1"}
	doRaw, _ := json.Marshal(do)
	dry := req.DryRun
	gvk := metav1.GroupVersionKind{Group: gv.Group, Version: gv.Version, Kind: req.Key.Kind}
	gvr := metav1.GroupVersionResource{Group: gv.Group, Version: gv.Version, Resource: pluralOf(req.Key.Kind)}
	review := admissionv1.AdmissionReview{
		TypeMeta: metav1.TypeMeta{APIVersion: "admission.k8s.io/v1", Kind: "AdmissionReview"},
		Request: &admissionv1.AdmissionRequest{
			UID: types.UID(uid), Kind: gvk, Resource: gvr, RequestKind: &gvk, RequestResource: &gvr,
			SubResource: req.Sub, Name: map[bool]string{false: req.Key.Name, true: ""}[req.Collection], Namespace: req.Key.Namespace,
			Operation: admissionv1.Operation(req.Operation),
			UserInfo:  authnv1.UserInfo{Username: req.Actor},
			OldObject: runtime.RawExtension{Raw: oldRaw},
			DryRun:    &dry,
			Options:   runtime.RawExtension{Raw: doRaw},
		},
	}
	if req.New != nil && req.Operation != "DELETE" {
		nw := runtime.DeepCopyJSON(req.New)
		nw["apiVersion"] = gv.String()
		review.Request.Object.Raw, _ = json.Marshal(nw)
	}
	body, _ := json.Marshal(review)
	hr := httptest.NewRequest(http.MethodPost, path, bytes.NewReader(body))
	hr.Header.Set("Content-Type", "application/json")
	rec := httptest.NewRecorder()
	handler.ServeHTTP(rec, hr)
	e.mon.count("webhook_invocations", 1)
	e.mu.Lock()
	e.invCalls = append(e.invCalls, wc.Calls())
	e.mu.Unlock()

	var out admissionv1.AdmissionReview
	if rec.Code != http.StatusOK {
		return fail(fmt.Errorf("webhook returned HTTP %d", rec.Code))
	}
	if err := json.Unmarshal(rec.Body.Bytes(), &out); err != nil || out.Response == nil {
		return fail(fmt.Errorf("undecodable webhook response: %v", err))
	}
	if string(out.Response.UID) != uid {
		return fail(fmt.Errorf("response uid %q does not match request uid %q", out.Response.UID, uid))
	}
	if out.Response.Allowed {
		return nil
	}
	var code int32
	var reason metav1.StatusReason
	msg := ""
	if r := out.Response.Result; r != nil {
		code, reason, msg = r.Code, r.Reason, r.Message
	}
	if win != nil {
		win.denied = true
		win.code = code
	}
	return denied(h.Name, code, reason, msg)
}

// usage returns the usage controller actor for the named Usage: the REAL reconciler built by
// NewReconciler with its production defaults (API finalizer, API selector resolver,
// unstructured client) over its own sim client. One actor per Usage: the work queue never
// runs two reconciles of one object concurrently, but it does run different objects
// concurrently (MaxConcurrentReconciles = --max-reconcile-rate, default 100).
func (e *env) usage(name string) *usageActor {
	e.mu.Lock()
	defer e.mu.Unlock()
	if ua, ok := e.usages[name]; ok {
		return ua
	}
	actor := "usage:" + name
	c := e.w.Client(actor)
	mgr := xrk.NewManager(e.w, &replayGuard{Client: c})
	ua := &usageActor{actor: actor, name: name, c: c, r: usagectrl.NewReconciler(mgr, usagectrl.WithLogger(logging.NewNopLogger()))}
	e.usages[name] = ua
	return ua
}

// replayGuard intercepts the one Delete the usage controller ever issues for an object that is
// not a Usage: the replay of a recorded deletion, which the controller fires from a goroutine
// after a fixed sleep. The harness counts and drops it (the world it would hit is usually gone by
// then); what the replay presupposes - the in-use label gone only with the last Usage - is judged
// by the store oracles.
type replayGuard struct{ client.Client }

var replaysIntercepted atomic.Int64

func (g *replayGuard) Delete(ctx context.Context, obj client.Object, opts ...client.DeleteOption) error {
	if obj.GetObjectKind().GroupVersionKind().Kind != "Usage" {
		replaysIntercepted.Add(1)
		return nil
	}
	return g.Client.Delete(ctx, obj, opts...)
}

// reconcile runs one reconcile of the named Usage; an injected crash ends it quietly.
func (e *env) reconcile(name string) (res reconcile.Result, err error, crashed bool) {
	ua := e.usage(name)
	e.mon.beginReconcile(ua.actor, name)
	ua.c.ResetCalls()
	crashed = sim.RunActor(func() {
		res, err = ua.r.Reconcile(bg, reconcile.Request{NamespacedName: types.NamespacedName{Name: name}})
	})
	e.mon.endReconcile(ua.actor, crashed)
	e.mon.count("usage_reconciles", 1)
	if !crashed && err == nil {
		// after a completed reconcile a Ready Usage NAMES what it protects: the reference its selector
		// resolved to is stored on it (that is what the deletion webhook looks Usages up by)
		if u := e.w.GetObj(sim.Key{Group: usageGroup, Kind: "Usage", Name: name}); u != nil && isReady(u) && !sim.Terminating(u) {
			if _, ok := named(u); !ok {
				e.mon.mu.Lock()
				e.mon.add("O1-ready-usage-does-not-name-the-used-resource", fmt.Sprintf("Usage %s is Ready after a completed reconcile but its stored spec.of carries no resourceRef (spec.of=%v)", name, u["spec"].(map[string]any)["of"]))
				e.mon.mu.Unlock()
			}
		}
	}
	if err != nil {
		e.mon.count("usage_reconcile_errors", 1)
	}
	return res, err, crashed
}

// compose applies the Usage the way the P&T composer does (composition_pt.go): patching
// applicator with MustBeControllableBy and the REAL usage.RespectOwnerRefs option.
func (e *env) compose(c *sim.Client, us usageSpec) error {
	obj := e.usageObj(us)
	cd := composed.New()
	cd.SetUnstructuredContent(obj)
	var xrUID types.UID
	if o := e.w.GetObj(ownerKey(us.Owner)); o != nil {
		xrUID = types.UID(sim.Str(o, "metadata", "uid"))
	}
	a := xpresource.NewAPIPatchingApplicator(c)
	return a.Apply(bg, cd, xpresource.MustBeControllableBy(xrUID), usagectrl.RespectOwnerRefs())
}

// xrCompose runs the REAL patch-and-transform composer for the named XR with a one-template
// revision: a Thing called "tc" (the composer re-applies it on every call, as an XR reconcile does).
func (e *env) xrCompose(c *sim.Client, xrName string) error {
	xr := ucomposite.New(ucomposite.WithGroupVersionKind(schema.GroupVersionKind{Group: xrGK.Group, Version: "v1", Kind: xrGK.Kind}))
	if err := c.Get(bg, types.NamespacedName{Name: xrName}, xr); err != nil {
		return err
	}
	base := map[string]any{"apiVersion": apiV(e.grp, "v1"), "kind": "Thing", "metadata": map[string]any{"name": "tc", "labels": map[string]any{"thing-name": "tc", "grp": "a"}}, "spec": map[string]any{"v": "1"}}
	raw, _ := json.Marshal(base)
	rev := &xpextv1.CompositionRevision{Spec: xpextv1.CompositionRevisionSpec{Resources: []xpextv1.ComposedTemplate{{Name: ptr.To("used"), Base: runtime.RawExtension{Raw: raw}}}}}
	_, err := xcomposite.NewPTComposer(c, c).Compose(bg, xr, xcomposite.CompositionRequest{Revision: rev})
	return err
}

// ---- garbage collector actor (sim's actions plus orphan propagation, which sim lacks) ----

type gcAct struct {
	sim  *sim.GCAction
	what string // orphan-dependent | finish-orphan
	key  sim.Key
	uid  string
}

func (a gcAct) String() string {
	if a.sim != nil {
		return a.sim.What + " " + a.sim.Key.String()
	}
	return a.what + " " + a.key.String()
}

func (e *env) gcPending() []gcAct {
	var out []gcAct
	for _, a := range e.w.GCPending() {
		a := a
		out = append(out, gcAct{sim: &a})
	}
	var extra []gcAct
	e.w.Read(func(v *sim.View) {
		for _, k := range v.Keys() {
			o := v.Get(k)
			if !sim.Terminating(o) || !hasFinalizer(o, metav1.FinalizerOrphanDependents) {
				continue
			}
			uid := sim.Str(o, "metadata", "uid")
			deps := 0
			for _, dk := range v.Keys() {
				for _, r := range sim.OwnerRefs(v.Get(dk)) {
					if sim.Str(r, "uid") == uid {
						extra = append(extra, gcAct{what: "orphan-dependent", key: dk, uid: uid})
						deps++
					}
				}
			}
			if deps == 0 {
				extra = append(extra, gcAct{what: "finish-orphan", key: k})
			}
		}
	})
	return append(out, extra...)
}

func hasFinalizer(o map[string]any, f string) bool {
	fs, _, _ := unstructured.NestedStringSlice(o, "metadata", "finalizers")
	for _, x := range fs {
		if x == f {
			return true
		}
	}
	return false
}

func (e *env) gcDo(a gcAct) error {
	e.mon.count("gc_actions", 1)
	if a.sim != nil {
		return e.w.GCDo(*a.sim)
	}
	c := e.w.Client("gc")
	c.Manager = "kube-controller-manager"
	o := e.w.GetObj(a.key)
	if o == nil {
		return nil
	}
	u := &unstructured.Unstructured{Object: o}
	switch a.what {
	case "orphan-dependent":
		var keep []any
		for _, r := range sim.OwnerRefs(o) {
			if sim.Str(r, "uid") != a.uid {
				keep = append(keep, r)
			}
		}
		_ = unstructured.SetNestedSlice(u.Object, keep, "metadata", "ownerReferences")
	case "finish-orphan":
		var keep []string
		for _, f := range u.GetFinalizers() {
			if f != metav1.FinalizerOrphanDependents {
				keep = append(keep, f)
			}
		}
		u.SetFinalizers(keep)
	}
	return client.IgnoreNotFound(c.Update(bg, u))
}

// gcRunAll performs every pending action once per pass until a pass changes nothing.
func (e *env) gcRunAll(maxPasses int) {
	for p := 0; p < maxPasses; p++ {
		acts := e.gcPending()
		if len(acts) == 0 {
			return
		}
		from := e.w.LogLen()
		for _, a := range acts {
			_ = e.gcDo(a)
		}
		if !changedSince(e.w, from) {
			return
		}
	}
}

func changedSince(w *sim.World, from int) bool {
	for _, ev := range w.Log(from) {
		if ev.Changed {
			return true
		}
	}
	return false
}

// settle gives the garbage collector and every Usage fault-free reconciles until quiescence.
func (e *env) settle(max int) {
	for i := 0; i < max; i++ {
		from := e.w.LogLen()
		e.gcRunAll(8)
		for _, u := range e.w.ListObjs(usageGK) {
			name := sim.Str(u, "metadata", "name")
			e.usage(name).c.ClearFaults()
			e.usage(name).c.FaultFn = nil
			_, _, _ = e.reconcile(name)
		}
		if !changedSince(e.w, from) {
			return
		}
	}
}

func shortLog(w *sim.World, from, max int) []string {
	var out []string
	evs := w.Log(from)
	if len(evs) > max {
		out = append(out, fmt.Sprintf("... %d earlier events elided ...", len(evs)-max))
		evs = evs[len(evs)-max:]
	}
	for i := range evs {
		out = append(out, evs[i].Short())
	}
	return out
}
