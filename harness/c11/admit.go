//go:build verif

package main

import (
	"context"
	"encoding/json"
	"fmt"
	"net/http"

	admissionv1 "k8s.io/api/admission/v1"
	extv1 "k8s.io/apiextensions-apiserver/pkg/apis/apiextensions/v1"
	metav1 "k8s.io/apimachinery/pkg/apis/meta/v1"
	"k8s.io/apimachinery/pkg/runtime"
	"k8s.io/client-go/rest"
	"sigs.k8s.io/controller-runtime/pkg/client"
	"sigs.k8s.io/controller-runtime/pkg/healthz"
	"sigs.k8s.io/controller-runtime/pkg/manager"
	"sigs.k8s.io/controller-runtime/pkg/webhook"
	"sigs.k8s.io/controller-runtime/pkg/webhook/admission"

	"github.com/crossplane/crossplane-runtime/pkg/controller"

	v1 "github.com/crossplane/crossplane/apis/apiextensions/v1"
	xrdhook "github.com/crossplane/crossplane/internal/validation/apiextensions/v1/xrd"
	"github.com/crossplane/crossplane/verifh/sim"
)

var scheme = func() *runtime.Scheme {
	s := runtime.NewScheme()
	if err := v1.AddToScheme(s); err != nil {
		panic(err)
	}
	if err := extv1.AddToScheme(s); err != nil {
		panic(err)
	}
	return s
}()

// fakeServer records what the real SetupWebhookWithManager registers.
type fakeServer struct{ hooks map[string]http.Handler }

func (s *fakeServer) NeedLeaderElection() bool             { return false }
func (s *fakeServer) Register(path string, h http.Handler) { s.hooks[path] = h }
func (s *fakeServer) Start(context.Context) error          { return nil }
func (s *fakeServer) StartedChecker() healthz.Checker {
	return func(*http.Request) error { return nil }
}
func (s *fakeServer) WebhookMux() *http.ServeMux { return nil }

// fakeMgr is the part of a controller-runtime manager the webhook builder touches.
type fakeMgr struct {
	manager.Manager // nil: anything else the builder might call panics (caught by kit.Try)
	c               client.Client
	srv             *fakeServer
}

func (m *fakeMgr) GetClient() client.Client         { return m.c }
func (m *fakeMgr) GetScheme() *runtime.Scheme       { return scheme }
func (m *fakeMgr) GetConfig() *rest.Config          { return &rest.Config{} }
func (m *fakeMgr) GetWebhookServer() webhook.Server { return m.srv }

// hook is the real XRD validating webhook in front of one simulated API server.
type hook struct {
	w  *sim.World
	wh *admission.Webhook
	n  int
}

func newHook(seed uint64) (*hook, error) {
	w := sim.NewWorld(scheme, seed)
	w.KeepBodies = false
	m := &fakeMgr{c: w.Client("xrd-webhook"), srv: &fakeServer{hooks: map[string]http.Handler{}}}
	if err := xrdhook.SetupWebhookWithManager(m, controller.Options{}); err != nil {
		return nil, err
	}
	const path = "/validate-apiextensions-crossplane-io-v1-compositeresourcedefinition"
	wh, ok := m.srv.hooks[path].(*admission.Webhook)
	if !ok {
		return nil, fmt.Errorf("no admission webhook registered at %s (registered: %d)", path, len(m.srv.hooks))
	}
	return &hook{w: w, wh: wh}, nil
}

func rawOf(x *v1.CompositeResourceDefinition) runtime.RawExtension {
	b, err := json.Marshal(x)
	if err != nil {
		panic(err)
	}
	return runtime.RawExtension{Raw: b}
}

func (h *hook) request(op admissionv1.Operation, oldX, newX *v1.CompositeResourceDefinition) admission.Response {
	h.n++
	req := admission.Request{AdmissionRequest: admissionv1.AdmissionRequest{
		UID:       "req-" + newX.GetUID(),
		Kind:      metav1.GroupVersionKind{Group: v1.Group, Version: v1.Version, Kind: v1.CompositeResourceDefinitionKind},
		Resource:  metav1.GroupVersionResource{Group: v1.Group, Version: v1.Version, Resource: "compositeresourcedefinitions"},
		Name:      newX.GetName(),
		Operation: op,
		Object:    rawOf(newX),
	}}
	if oldX != nil {
		req.OldObject = rawOf(oldX)
	}
	return h.wh.Handle(context.Background(), req)
}

func (h *hook) create(x *v1.CompositeResourceDefinition) admission.Response {
	return h.request(admissionv1.Create, nil, x)
}

func (h *hook) update(oldX, newX *v1.CompositeResourceDefinition) admission.Response {
	return h.request(admissionv1.Update, oldX, newX)
}

// seed stores CRDs (as the definition / offered controllers would have) so that the
// webhook's dry-run takes its update path.
func (h *hook) seed(crds ...*extv1.CustomResourceDefinition) error {
	c := h.w.Client("xrd-controller")
	for _, crd := range crds {
		if crd == nil {
			continue
		}
		crd = crd.DeepCopy()
		crd.TypeMeta = metav1.TypeMeta{APIVersion: "apiextensions.k8s.io/v1", Kind: "CustomResourceDefinition"}
		if err := c.Create(context.Background(), crd); err != nil {
			return err
		}
	}
	return nil
}

func denial(r admission.Response) string {
	if r.Result == nil {
		return ""
	}
	return fmt.Sprintf("%d %s: %s", r.Result.Code, r.Result.Reason, r.Result.Message)
}
