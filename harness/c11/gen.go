//go:build verif

package main

import (
	"encoding/json"
	"fmt"
	"math/rand/v2"
	"sort"
	"strings"

	extv1 "k8s.io/apiextensions-apiserver/pkg/apis/apiextensions/v1"
	metav1 "k8s.io/apimachinery/pkg/apis/meta/v1"
	"k8s.io/apimachinery/pkg/runtime"
	"k8s.io/apimachinery/pkg/types"

	xpv1 "github.com/crossplane/crossplane-runtime/apis/common/v1"

	v1 "github.com/crossplane/crossplane/apis/apiextensions/v1"
)

// Names an XRD author would plausibly use.
var plainNames = []string{
	"size", "region", "engine", "version", "storageGB", "replicas", "parameters", "network",
	"tags", "enabled", "tier", "endpoint", "address", "port", "nodes", "id", "name", "kind",
}

// Names that are (or were, or are in one of the two CRDs only) Crossplane machinery. The
// generator uses them as AUTHOR property names; whether one of them is machinery for a given
// CRD is decided by the oracle from the golden files only.
var specCollisionNames = []string{
	"compositionRef", "compositionSelector", "compositionRevisionRef", "compositionRevisionSelector",
	"compositionUpdatePolicy", "claimRef", "resourceRefs", "resourceRef", "writeConnectionSecretToRef",
	"publishConnectionDetailsTo", "environmentConfigRefs", "compositeDeletePolicy",
}

var statusCollisionNames = []string{"conditions", "connectionDetails", "claimConditionTypes"}

type gen struct{ r *rand.Rand }

func (g *gen) p(x float64) bool { return g.r.Float64() < x }
func (g *gen) n(k int) int      { return g.r.IntN(k) }
func (g *gen) pick(s []string) string {
	return s[g.n(len(s))]
}

// subset returns 1..max distinct elements of s (in s order).
func (g *gen) subset(s []string, max int) []string {
	if len(s) == 0 {
		return nil
	}
	if max > len(s) {
		max = len(s)
	}
	k := 1 + g.n(max)
	idx := g.r.Perm(len(s))[:k]
	sort.Ints(idx)
	out := make([]string, 0, k)
	for _, i := range idx {
		out = append(out, s[i])
	}
	return out
}

func sortedKeys(m map[string]any) []string {
	ks := make([]string, 0, len(m))
	for k := range m {
		ks = append(ks, k)
	}
	sort.Strings(ks)
	return ks
}

func strs(s []string) []any {
	out := make([]any, len(s))
	for i, v := range s {
		out[i] = v
	}
	return out
}

// celRules generates 1..3 x-kubernetes-validations entries. Only non-zero fields are written
// (zero-valued optional fields are dropped by any JSON round trip through the typed schema).
func (g *gen) celRules(tag string) []any {
	k := 1 + g.n(3)
	out := make([]any, 0, k)
	for i := 0; i < k; i++ {
		r := map[string]any{"rule": fmt.Sprintf("self.%s%d != oldSelf.%s%d || has(self.f%d)", tag, i, tag, i, g.n(50))}
		if g.p(0.7) {
			r["message"] = fmt.Sprintf("%s rule %d of %d", tag, i, g.n(1000))
		}
		if g.p(0.15) {
			r["messageExpression"] = "'value is ' + string(self.x)"
		}
		if g.p(0.2) {
			r["reason"] = g.pick([]string{"FieldValueInvalid", "FieldValueForbidden", "FieldValueRequired", "FieldValueDuplicate"})
		}
		if g.p(0.2) {
			r["fieldPath"] = ".f" + fmt.Sprint(g.n(9))
		}
		if g.p(0.1) {
			r["optionalOldSelf"] = true
		}
		out = append(out, r)
	}
	return out
}

// prop generates one structural property schema in canonical form (no zero-valued optional
// keywords, no empty maps or lists).
func (g *gen) prop(depth int) map[string]any {
	kinds := 6
	if depth <= 0 {
		kinds = 4 // leaves only
	}
	var m map[string]any
	switch g.n(kinds + 1) {
	case 0:
		m = map[string]any{"type": "string"}
		if g.p(0.3) {
			m["maxLength"] = float64(1 + g.n(253))
		}
		if g.p(0.2) {
			m["minLength"] = float64(g.n(3)) // 0 is kept: pointer field
		}
		if g.p(0.2) {
			m["pattern"] = "^[a-z0-9]([-a-z0-9]*[a-z0-9])?$"
		}
		if g.p(0.2) {
			m["enum"] = strs(g.subset([]string{"small", "medium", "large", "xl", ""}, 4))
		}
		if g.p(0.15) {
			m["format"] = g.pick([]string{"date-time", "byte", "uri", "password"})
		}
		if g.p(0.2) {
			m["default"] = g.pick([]string{"small", "", "us-east-1"})
		}
	case 1:
		m = map[string]any{"type": "integer"}
		if g.p(0.3) {
			m["minimum"] = float64(g.n(10))
		}
		if g.p(0.3) {
			m["maximum"] = float64(10 + g.n(1000))
		}
		if g.p(0.1) {
			m["exclusiveMaximum"] = true
		}
		if g.p(0.2) {
			m["format"] = g.pick([]string{"int32", "int64"})
		}
		if g.p(0.2) {
			m["default"] = float64(g.n(10))
		}
		if g.p(0.1) {
			m["multipleOf"] = float64(1 + g.n(8))
		}
	case 2:
		m = map[string]any{"type": "boolean"}
		if g.p(0.4) {
			m["default"] = g.p(0.5) // default:false must survive as well
		}
	case 3:
		m = map[string]any{"type": "number"}
		if g.p(0.3) {
			m["minimum"] = 0.5 + float64(g.n(4))
		}
		if g.p(0.1) {
			m["exclusiveMinimum"] = true
		}
		if g.p(0.2) {
			m["format"] = g.pick([]string{"float", "double"})
		}
	case 4:
		// int-or-string
		m = map[string]any{
			"x-kubernetes-int-or-string": true,
			"anyOf":                      []any{map[string]any{"type": "integer"}, map[string]any{"type": "string"}},
		}
	case 5:
		m = map[string]any{"type": "array", "items": g.prop(depth - 1)}
		if g.p(0.3) {
			m["minItems"] = float64(g.n(3))
		}
		if g.p(0.3) {
			m["maxItems"] = float64(3 + g.n(20))
		}
		if g.p(0.3) {
			m["x-kubernetes-list-type"] = g.pick([]string{"atomic", "set"})
		}
	default:
		m = map[string]any{"type": "object"}
		switch g.n(5) {
		case 0:
			m["additionalProperties"] = map[string]any{"type": "string"}
		case 1:
			m["x-kubernetes-preserve-unknown-fields"] = true
		case 2:
			m["additionalProperties"] = g.p(0.5)
		default:
			props := map[string]any{}
			for _, k := range g.subset(plainNames, 3) {
				props[k] = g.prop(depth - 1)
			}
			m["properties"] = props
			if g.p(0.5) {
				m["required"] = strs(g.subset(sortedKeys(props), 2))
			}
			if g.p(0.15) {
				m["x-kubernetes-validations"] = g.celRules("n")
			}
			if g.p(0.1) {
				m["x-kubernetes-map-type"] = g.pick([]string{"atomic", "granular"})
			}
			if g.p(0.1) {
				ks := sortedKeys(props)
				m["oneOf"] = []any{
					map[string]any{"required": []any{ks[0]}},
					map[string]any{"required": []any{ks[len(ks)-1]}},
				}
			}
		}
		if g.p(0.1) {
			m["nullable"] = true
		}
	}
	if g.p(0.25) {
		m["description"] = fmt.Sprintf("field %d", g.n(100000))
	}
	return m
}

// collidingProp is an author property that is deliberately NOT the machinery schema: whatever
// its shape, it carries a marker description no machinery property has.
func (g *gen) collidingProp(name string) map[string]any {
	m := g.prop(1)
	m["description"] = "AUTHOR-DEFINED " + name
	return m
}

// section generates the author's schema for spec or status. It returns nil when the author
// does not declare the section at all.
func (g *gen) section(which string, collide bool) map[string]any {
	if g.p(0.04) {
		return nil
	}
	m := map[string]any{"type": "object"}
	props := map[string]any{}
	if !g.p(0.05) {
		for _, k := range g.subset(plainNames, 5) {
			props[k] = g.prop(2)
		}
	}
	if collide {
		pool := specCollisionNames
		other := statusCollisionNames
		if which == "status" {
			pool, other = statusCollisionNames, specCollisionNames
		}
		for _, k := range g.subset(pool, 3) {
			props[k] = g.collidingProp(k)
		}
		if g.p(0.15) { // a machinery name of the OTHER section is an ordinary author field here
			k := g.pick(other)
			props[k] = g.collidingProp(k)
		}
	}
	if len(props) > 0 {
		m["properties"] = props
		if g.p(0.6) {
			req := g.subset(sortedKeys(props), 3)
			// a required list may name what the author declares no property for: a machinery field
			// Crossplane adds itself, or a field left to preserve-unknown-fields
			if which == "spec" && g.p(0.25) {
				req = append(req, g.pick([]string{"compositionRef", "writeConnectionSecretToRef", "compositionSelector", "compositionUpdatePolicy", "notDeclaredAnywhere"}))
			}
			m["required"] = strs(req)
		}
		if g.p(0.15) {
			ks := sortedKeys(props)
			m["oneOf"] = []any{
				map[string]any{"required": []any{ks[0]}},
				map[string]any{"required": []any{ks[len(ks)-1]}},
			}
		}
	}
	if g.p(0.45) {
		m["x-kubernetes-validations"] = g.celRules(which[:2])
	}
	if g.p(0.1) {
		m["x-kubernetes-preserve-unknown-fields"] = true
	}
	if g.p(0.3) {
		m["description"] = fmt.Sprintf("the %s of thing %d", which, g.n(10000))
	}
	// Keywords the property does not require to be carried over (the check stays quiet on them).
	if g.p(0.05) {
		m["minProperties"] = float64(1)
	}
	return m
}

// schema generates the author's whole openAPIV3Schema of one version.
func (g *gen) schema(collide bool) map[string]any {
	root := map[string]any{"type": "object"}
	props := map[string]any{}
	if s := g.section("spec", collide); s != nil {
		props["spec"] = s
	}
	if s := g.section("status", collide && g.p(0.6)); s != nil {
		props["status"] = s
	}
	if g.p(0.25) {
		props["metadata"] = map[string]any{"type": "object", "properties": map[string]any{
			"name": map[string]any{"type": "string", "maxLength": float64(1 + g.n(100))},
		}}
	}
	if len(props) > 0 {
		root["properties"] = props
	}
	if g.p(0.3) {
		root["description"] = fmt.Sprintf("A thing %d", g.n(10000))
	}
	if g.p(0.2) {
		root["required"] = []any{"spec"}
	}
	if g.p(0.1) {
		root["x-kubernetes-validations"] = g.celRules("root")
	}
	return root
}

var versionNames = []string{"v1alpha1", "v1alpha2", "v1beta1", "v1", "v2"}

// genXRD is one generated XRD together with the author's schemas as plain JSON values (the
// oracle works from these, never from what the code under test parsed).
type genXRD struct {
	X       *v1.CompositeResourceDefinition
	Schemas []map[string]any // per version; nil = version without schema
	// measured classes
	CollisionProps int
	Degenerate     string // "", "nil-schema", "bad-json"
}

type xrdOpts struct {
	claim      float64 // probability of claimNames
	small      bool    // small schemas (pairs)
	degenerate bool    // allow nil / unparsable schema
}

func names(kind string) extv1.CustomResourceDefinitionNames {
	l := strings.ToLower(kind)
	return extv1.CustomResourceDefinitionNames{Kind: kind, Plural: l + "s", Singular: l, ListKind: kind + "List"}
}

func (g *gen) xrd(o xrdOpts) *genXRD {
	out := &genXRD{}
	id := g.n(1000000)
	base := g.pick([]string{"Database", "Bucket", "Network", "Cluster", "Queue", "Cache"}) + fmt.Sprint(id)
	x := &v1.CompositeResourceDefinition{
		TypeMeta: metav1.TypeMeta{APIVersion: "apiextensions.crossplane.io/v1", Kind: "CompositeResourceDefinition"},
	}
	x.Spec.Group = g.pick([]string{"example.org", "platform.acme.io", "db.example.com"})
	x.Spec.Names = names("X" + base)
	if g.p(0.3) {
		x.Spec.Names.ShortNames = []string{"x" + strings.ToLower(base[:2])}
	}
	if g.p(0.2) {
		// categories are free-form; an author may list Crossplane's own ("claim", "composite") so
		// that `kubectl get claim` lists these too
		x.Spec.Names.Categories = [][]string{{"acme"}, {"claim"}, {"acme", "claim", "composite"}}[g.n(3)]
	}
	switch g.n(6) { // optional names may be left to the API server's defaulting
	case 0:
		x.Spec.Names.Singular = ""
	case 1:
		x.Spec.Names.ListKind = ""
	}
	if g.p(o.claim) {
		cn := names(base)
		switch g.n(6) {
		case 0:
			cn.Singular = ""
		case 1:
			cn.ListKind = ""
		}
		if g.p(0.2) {
			cn.Categories = [][]string{{"acme"}, {"composite"}, {"claim", "acme"}}[g.n(3)]
		}
		x.Spec.ClaimNames = &cn
	}
	x.SetName(x.Spec.Names.Plural + "." + x.Spec.Group)
	x.SetUID(types.UID(fmt.Sprintf("uid-xrd-%d", id)))
	if g.p(0.3) {
		x.SetLabels(map[string]string{"team": "a" + fmt.Sprint(g.n(9))})
	}
	if g.p(0.15) {
		x.Spec.Metadata = &v1.CompositeResourceDefinitionSpecMetadata{
			Labels:      map[string]string{"tier": "gold"},
			Annotations: map[string]string{"acme.io/owner": "team"},
		}
	}
	if g.p(0.2) {
		x.Spec.ConnectionSecretKeys = []string{"username", "password"}
	}
	if g.p(0.4) {
		v := xpv1.CompositeDeletePolicy(g.pick([]string{"Background", "Foreground"}))
		x.Spec.DefaultCompositeDeletePolicy = &v
	}
	if g.p(0.4) {
		v := xpv1.UpdatePolicy(g.pick([]string{"Automatic", "Manual"}))
		x.Spec.DefaultCompositionUpdatePolicy = &v
	}
	if g.p(0.25) {
		x.Spec.DefaultCompositionRef = &v1.CompositionReference{Name: "default-comp-" + fmt.Sprint(g.n(9))}
	}
	if g.p(0.15) {
		x.Spec.EnforcedCompositionRef = &v1.CompositionReference{Name: "enforced-comp-" + fmt.Sprint(g.n(9))}
	}
	switch g.n(5) {
	case 0:
		x.Spec.Conversion = &extv1.CustomResourceConversion{Strategy: extv1.NoneConverter}
	case 1:
		u := "https://conv.example.org/convert"
		x.Spec.Conversion = &extv1.CustomResourceConversion{Strategy: extv1.WebhookConverter, Webhook: &extv1.WebhookConversion{
			ClientConfig:             &extv1.WebhookClientConfig{URL: &u},
			ConversionReviewVersions: []string{"v1"},
		}}
	}

	nv := 1 + g.n(4)
	if g.p(0.1) {
		nv = 1
	}
	vi := g.r.Perm(len(versionNames))[:nv]
	sort.Ints(vi)
	ref := g.n(nv)
	collide := g.p(0.75)
	maxDepthSchemas := 1
	if !g.p(0.5) {
		maxDepthSchemas = nv // every version has its own schema
	}
	var shared map[string]any
	for i := 0; i < nv; i++ {
		ver := v1.CompositeResourceDefinitionVersion{Name: versionNames[vi[i]], Referenceable: i == ref}
		ver.Served = g.p(0.8)
		if i == ref && !g.p(0.05) {
			ver.Served = true
		}
		switch g.n(4) {
		case 0:
			t := true
			ver.Deprecated = &t
			if g.p(0.5) {
				w := "version " + ver.Name + " is deprecated"
				ver.DeprecationWarning = &w
			}
		case 1:
			f := false
			ver.Deprecated = &f
		}
		if g.p(0.15) {
			ver.AdditionalPrinterColumns = []extv1.CustomResourceColumnDefinition{{Name: "SIZE", Type: "string", JSONPath: ".spec.size"}}
		}
		var s map[string]any
		if maxDepthSchemas == 1 && shared != nil {
			s = shared
		} else {
			s = g.schema(collide)
			shared = s
		}
		if o.degenerate && g.p(0.5) && out.Degenerate == "" {
			if g.p(0.5) {
				out.Degenerate = "nil-schema"
				out.Schemas = append(out.Schemas, nil)
				x.Spec.Versions = append(x.Spec.Versions, ver)
				continue
			}
			out.Degenerate = "bad-json"
			ver.Schema = &v1.CompositeResourceValidation{OpenAPIV3Schema: runtime.RawExtension{Raw: []byte(`{"type": 7, "properties": []}`)}}
			out.Schemas = append(out.Schemas, nil)
			x.Spec.Versions = append(x.Spec.Versions, ver)
			continue
		}
		raw, err := json.Marshal(s)
		if err != nil {
			panic(err)
		}
		ver.Schema = &v1.CompositeResourceValidation{OpenAPIV3Schema: runtime.RawExtension{Raw: raw}}
		out.Schemas = append(out.Schemas, s)
		x.Spec.Versions = append(x.Spec.Versions, ver)
	}
	if o.degenerate && out.Degenerate == "" { // make sure a degenerate case is degenerate
		out.Degenerate = "nil-schema"
		x.Spec.Versions[0].Schema = nil
		out.Schemas[0] = nil
	}
	out.X = x
	out.CollisionProps = countCollisions(out.Schemas)
	return out
}

// countCollisions counts author properties under spec/status that carry the author marker
// (generated by collidingProp), over distinct schemas.
func countCollisions(schemas []map[string]any) int {
	n := 0
	seen := map[string]bool{}
	for _, s := range schemas {
		if s == nil {
			continue
		}
		for _, sec := range []string{"spec", "status"} {
			props, _ := dig(s, "properties", sec, "properties").(map[string]any)
			for k, v := range props {
				pm, _ := v.(map[string]any)
				d, _ := pm["description"].(string)
				if strings.HasPrefix(d, "AUTHOR-DEFINED ") && !seen[sec+"/"+k] {
					seen[sec+"/"+k] = true
					n++
				}
			}
		}
	}
	return n
}

// dig walks nested JSON objects; nil when a step is missing.
func dig(v any, path ...string) any {
	for _, p := range path {
		m, ok := v.(map[string]any)
		if !ok {
			return nil
		}
		v = m[p]
	}
	return v
}

// toJSONValue renders any typed object the way the API server would see it.
func toJSONValue(o any) (any, error) {
	b, err := json.Marshal(o)
	if err != nil {
		return nil, err
	}
	var a any
	if err := json.Unmarshal(b, &a); err != nil {
		return nil, err
	}
	return a, nil
}
