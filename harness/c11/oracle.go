//go:build verif

package main

import (
	"encoding/json"
	"fmt"
	"os"
	"path/filepath"
	"reflect"

	v1 "github.com/crossplane/crossplane/apis/apiextensions/v1"
	"github.com/crossplane/crossplane/verifh/kit"
)

// golden is the fixed reference schema of the Crossplane machinery, per derived CRD kind.
type golden struct {
	spec   map[string]map[string]any // "xr" / "claim" -> property -> schema
	status map[string]any
}

func loadGolden() (*golden, error) {
	dir := filepath.Join(kit.Root(), "golden")
	rd := func(name string) (map[string]any, error) {
		b, err := os.ReadFile(filepath.Join(dir, name))
		if err != nil {
			return nil, err
		}
		var m map[string]any
		if err := json.Unmarshal(b, &m); err != nil {
			return nil, fmt.Errorf("%s: %w", name, err)
		}
		if len(m) == 0 {
			return nil, fmt.Errorf("%s: no machinery properties listed", name)
		}
		return m, nil
	}
	g := &golden{spec: map[string]map[string]any{}}
	var err error
	if g.spec["xr"], err = rd("machinery_xr_spec.json"); err != nil {
		return nil, err
	}
	if g.spec["claim"], err = rd("machinery_claim_spec.json"); err != nil {
		return nil, err
	}
	if g.status, err = rd("machinery_status.json"); err != nil {
		return nil, err
	}
	return g, nil
}

type finding struct {
	Key     string
	What    string
	Witness any
}

// tally is what one case measured.
type tally map[string]int64

func (t tally) add(k string, n int) { t[k] += int64(n) }

// defaultRule says which XRD field may legitimately put a `default` on a machinery property.
type defaultRule struct {
	value any  // expected default (JSON value)
	must  bool // the default is the documented way the XRD field takes effect
}

func defaultRules(kind string, x *v1.CompositeResourceDefinition) map[string]defaultRule {
	out := map[string]defaultRule{}
	if p := x.Spec.DefaultCompositionUpdatePolicy; p != nil {
		// documented: "the policy used ... if no policy has been specified on the composite"
		out["compositionUpdatePolicy"] = defaultRule{value: string(*p), must: kind == "xr"}
	}
	if p := x.Spec.DefaultCompositeDeletePolicy; p != nil && kind == "claim" {
		out["compositeDeletePolicy"] = defaultRule{value: string(*p), must: true}
	}
	// A composition reference default would be an equally legitimate variation; today none is
	// written. Enforced wins over default.
	if r := x.Spec.EnforcedCompositionRef; r != nil {
		out["compositionRef"] = defaultRule{value: map[string]any{"name": r.Name}}
	} else if r := x.Spec.DefaultCompositionRef; r != nil {
		out["compositionRef"] = defaultRule{value: map[string]any{"name": r.Name}}
	}
	return out
}

func contains(list any, want any) bool {
	l, _ := list.([]any)
	for _, e := range l {
		if reflect.DeepEqual(e, want) {
			return true
		}
	}
	return false
}

func without(m map[string]any, key string) map[string]any {
	out := make(map[string]any, len(m))
	for k, v := range m {
		if k != key {
			out[k] = v
		}
	}
	return out
}

// checkCRD is the oracle for one derived CRD. kind is "xr" or "claim"; crd is the JSON view
// of the CustomResourceDefinition the code under test returned.
func checkCRD(kind string, gx *genXRD, crd any, gold *golden, t tally) []finding {
	var fs []finding
	bad := func(key, what string, w any) {
		fs = append(fs, finding{Key: kind + "-" + key, What: what, Witness: w})
	}
	x := gx.X
	t.add(kind+"_crds_checked", 1)

	// --- identity, scope, owner
	wantScope := "Cluster"
	wantNames := x.Spec.Names
	if kind == "claim" {
		wantScope = "Namespaced"
		wantNames = *x.Spec.ClaimNames
	}
	if s, _ := dig(crd, "spec", "scope").(string); s != wantScope {
		bad("scope-wrong", fmt.Sprintf("scope is %q, want %q", s, wantScope), nil)
	}
	if s, _ := dig(crd, "spec", "group").(string); s != x.Spec.Group {
		bad("group-differs", fmt.Sprintf("group is %q, XRD says %q", s, x.Spec.Group), nil)
	}
	for f, want := range map[string]string{"kind": wantNames.Kind, "plural": wantNames.Plural, "singular": wantNames.Singular, "listKind": wantNames.ListKind} {
		got, _ := dig(crd, "spec", "names", f).(string)
		if got != want {
			bad("names-"+f+"-differs", fmt.Sprintf("names.%s is %q, XRD says %q", f, got, want), nil)
		}
	}
	refs, _ := dig(crd, "metadata", "ownerReferences").([]any)
	ctrl := 0
	okRef := false
	for _, r := range refs {
		if b, _ := dig(r, "controller").(bool); !b {
			continue
		}
		ctrl++
		if dig(r, "apiVersion") == "apiextensions.crossplane.io/v1" && dig(r, "kind") == "CompositeResourceDefinition" &&
			dig(r, "name") == x.GetName() && dig(r, "uid") == string(x.GetUID()) {
			okRef = true
		}
	}
	if ctrl != 1 || !okRef {
		bad("controller-ref-missing-or-wrong", fmt.Sprintf("%d controller owner references, one to the XRD expected: %s", ctrl, kit.JSON(refs)), refs)
	}

	// --- versions
	vers, _ := dig(crd, "spec", "versions").([]any)
	byName := map[string]any{}
	for _, v := range vers {
		n, _ := dig(v, "name").(string)
		if _, dup := byName[n]; dup {
			bad("version-duplicated", "version "+n+" appears twice", nil)
		}
		byName[n] = v
	}
	if len(vers) != len(x.Spec.Versions) {
		bad("version-set-differs", fmt.Sprintf("%d versions in CRD, %d in XRD", len(vers), len(x.Spec.Versions)), nil)
	}
	storage := 0
	for _, v := range vers {
		if b, _ := dig(v, "storage").(bool); b {
			storage++
		}
	}
	if storage != 1 {
		bad("storage-count-not-one", fmt.Sprintf("%d storage versions", storage), nil)
	}

	rules := defaultRules(kind, x)
	for i, xv := range x.Spec.Versions {
		t.add("versions_checked", 1)
		cv, ok := byName[xv.Name]
		if !ok {
			bad("version-set-differs", "version "+xv.Name+" missing", nil)
			continue
		}
		if b, _ := dig(cv, "served").(bool); b != xv.Served {
			bad("served-flag-differs", fmt.Sprintf("version %s served=%v, XRD says %v", xv.Name, b, xv.Served), nil)
		}
		wantDep := xv.Deprecated != nil && *xv.Deprecated
		if b, _ := dig(cv, "deprecated").(bool); b != wantDep {
			bad("deprecated-flag-differs", fmt.Sprintf("version %s deprecated=%v, XRD says %v", xv.Name, b, wantDep), nil)
		}
		if b, _ := dig(cv, "storage").(bool); b != xv.Referenceable {
			bad("storage-not-referenceable", fmt.Sprintf("version %s storage=%v but referenceable=%v", xv.Name, b, xv.Referenceable), nil)
		}
		if _, ok := dig(cv, "subresources", "status").(map[string]any); !ok {
			bad("status-subresource-missing", "version "+xv.Name+" has no status subresource", dig(cv, "subresources"))
		}
		root, _ := dig(cv, "schema", "openAPIV3Schema").(map[string]any)
		if root == nil {
			bad("schema-missing", "version "+xv.Name+" has no openAPIV3Schema", nil)
			continue
		}
		author := gx.Schemas[i]
		for _, sec := range []string{"spec", "status"} {
			out, _ := dig(root, "properties", sec).(map[string]any)
			if out == nil {
				bad(sec+"-section-missing", "version "+xv.Name+" has no "+sec+" schema", nil)
				continue
			}
			outProps, _ := out["properties"].(map[string]any)
			mach := gold.status
			if sec == "spec" {
				mach = gold.spec[kind]
			}
			as, _ := dig(author, "properties", sec).(map[string]any)
			aProps, _ := as["properties"].(map[string]any)

			// machinery: present, exactly the golden schema, never the author's
			for _, k := range sortedKeys(mach) {
				t.add("machinery_props_compared", 1)
				want := mach[k].(map[string]any)
				got, ok := outProps[k].(map[string]any)
				_, authored := aProps[k]
				if authored {
					t.add("machinery_props_compared_under_collision", 1)
				}
				if !ok {
					bad("machinery-"+sec+"-"+k+"-missing", fmt.Sprintf("version %s: machinery property %s.%s is absent", xv.Name, sec, k), nil)
					continue
				}
				cmp := got
				rule, varies := rules[k]
				if sec != "spec" {
					varies = false
				}
				if varies {
					cmp = without(got, "default")
					if _, inGold := want["default"]; inGold {
						cmp = got // golden itself has a default: no variation allowed
						varies = false
					}
				}
				if !reflect.DeepEqual(cmp, want) {
					key := "machinery-" + sec + "-" + k + "-altered"
					if authored && reflect.DeepEqual(got, aProps[k]) {
						key = "machinery-" + sec + "-" + k + "-shadowed"
					}
					bad(key, fmt.Sprintf("version %s: machinery property %s.%s is %s, standard schema is %s", xv.Name, sec, k, kit.JSON(got), kit.JSON(want)),
						map[string]any{"got": got, "golden": want, "author": aProps[k]})
					continue
				}
				if varies {
					t.add("defaults_checked", 1)
					d, has := got["default"]
					switch {
					case has && !reflect.DeepEqual(d, rule.value):
						bad("machinery-"+sec+"-"+k+"-default-mismatch", fmt.Sprintf("version %s: default of %s is %s, XRD says %s", xv.Name, k, kit.JSON(d), kit.JSON(rule.value)), nil)
					case !has && rule.must:
						bad("machinery-"+sec+"-"+k+"-default-not-applied", fmt.Sprintf("version %s: XRD default %s not applied to %s", xv.Name, kit.JSON(rule.value), k), nil)
					}
				}
			}

			// author's properties (other than machinery names) are carried verbatim
			for _, k := range sortedKeys(aProps) {
				if _, isMach := mach[k]; isMach {
					continue
				}
				t.add("author_props_compared", 1)
				got, ok := outProps[k]
				if !ok {
					bad("author-"+sec+"-property-lost", fmt.Sprintf("version %s: author property %s.%s is absent", xv.Name, sec, k), map[string]any{"property": k, "author": aProps[k]})
					continue
				}
				if !reflect.DeepEqual(got, aProps[k]) {
					bad("author-"+sec+"-property-altered", fmt.Sprintf("version %s: author property %s.%s is %s, author wrote %s", xv.Name, sec, k, kit.JSON(got), kit.JSON(aProps[k])),
						map[string]any{"property": k, "author": aProps[k], "got": got})
				}
			}
			// author's required entries
			if req, _ := as["required"].([]any); len(req) > 0 {
				for _, r := range req {
					t.add("required_entries_checked", 1)
					if !contains(out["required"], r) {
						bad("author-"+sec+"-required-lost", fmt.Sprintf("version %s: %s.required lacks author's %q (has %s)", xv.Name, sec, r, kit.JSON(out["required"])), nil)
					}
				}
			}
			// author's CEL rules
			if cel, _ := as["x-kubernetes-validations"].([]any); len(cel) > 0 {
				for _, r := range cel {
					t.add("cel_rules_checked", 1)
					if !contains(out["x-kubernetes-validations"], r) {
						bad("author-"+sec+"-cel-lost", fmt.Sprintf("version %s: %s lacks author's validation rule %s (has %s)", xv.Name, sec, kit.JSON(r), kit.JSON(out["x-kubernetes-validations"])), nil)
					}
				}
			}
		}
		// Observed only (the property does not demand it): name length limit honoured.
		if ml, ok := dig(author, "properties", "metadata", "properties", "name", "maxLength").(float64); ok {
			got, _ := dig(root, "properties", "metadata", "properties", "name", "maxLength").(float64)
			want := ml
			if want > 63 {
				want = 63
			}
			if got == want {
				t.add("name_maxlength_honoured", 1)
			} else {
				t.add("name_maxlength_not_honoured_observed_only", 1)
			}
		}
	}
	return fs
}
