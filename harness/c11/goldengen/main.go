//go:build verifgolden

// Command goldengen dumped the Crossplane machinery schema ONCE into /verif/golden.
// It is NOT part of the C11 check (different build tag) and must not be re-run to make a
// failing check pass: the golden files are fixed reference data that were reviewed by hand.
// Re-run it only after a deliberate, reviewed change of the machinery schema:
//
//	cd /verif/harness && go run -tags verifgolden ./c11/goldengen /verif/golden
package main

import (
	"encoding/json"
	"fmt"
	"os"
	"path/filepath"

	"github.com/crossplane/crossplane/internal/xcrd"
)

func dump(dir, name string, v any) {
	b, err := json.MarshalIndent(v, "", " ")
	if err != nil {
		panic(err)
	}
	// normalise through any so that key order is sorted and raw JSON is compacted
	var a any
	if err := json.Unmarshal(b, &a); err != nil {
		panic(err)
	}
	b, _ = json.MarshalIndent(a, "", " ")
	if err := os.WriteFile(filepath.Join(dir, name), append(b, '\n'), 0o644); err != nil {
		panic(err)
	}
	fmt.Println("wrote", filepath.Join(dir, name))
}

func main() {
	dir := "/verif/golden"
	if len(os.Args) > 1 {
		dir = os.Args[1]
	}
	dump(dir, "machinery_xr_spec.json", xcrd.CompositeResourceSpecProps())
	dump(dir, "machinery_claim_spec.json", xcrd.CompositeResourceClaimSpecProps())
	dump(dir, "machinery_status.json", xcrd.CompositeResourceStatusProps())
}
