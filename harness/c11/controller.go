//go:build verif

package main

import (
	"context"
	"fmt"
	"math/rand/v2"

	"k8s.io/apimachinery/pkg/apis/meta/v1/unstructured"
	"k8s.io/apimachinery/pkg/types"
	"sigs.k8s.io/controller-runtime/pkg/client"
	"sigs.k8s.io/controller-runtime/pkg/reconcile"

	v1 "github.com/crossplane/crossplane/apis/apiextensions/v1"
	"github.com/crossplane/crossplane/internal/controller/apiextensions/definition"
	"github.com/crossplane/crossplane/internal/controller/apiextensions/offered"
	"github.com/crossplane/crossplane/verifh/kit"
	"github.com/crossplane/crossplane/verifh/sim"
	"github.com/crossplane/crossplane/verifh/xrk"
)

// controllerCase is part 4: "for every XRD the CRDs carry ..." judged on the CRDs the REAL
// definition and offered controllers store, over a history of one XRD name handled by one
// long-lived pair of reconcilers: created, its versions and schemas edited in place, deleted
// (CRDs torn down) and created again with another schema. After every step the stored
// composite and claim CRDs go through the same oracle as the derived ones, with the stored
// XRD's uid as the expected controller reference.
func controllerCase(gold *golden) func(r *rand.Rand, res *result) {
	return func(r *rand.Rand, res *result) {
		bg := context.Background()
		g := &gen{r: r}
		t := res.t
		w := sim.NewWorld(xrk.Scheme(), r.Uint64())
		defR := definition.NewReconciler(definition.NewClientApplicator(w.Client("definition")), definition.WithControllerEngine(xrk.NewCapturingEngine(w, w.Client("xr"))), definition.WithOptions(xrk.Options(false)))
		offR := offered.NewReconciler(offered.NewClientApplicator(w.Client("offered")), offered.WithControllerEngine(xrk.NewCapturingEngine(w, w.Client("claim"))), offered.WithOptions(xrk.Options(false)))
		user := w.Client("user")
		first := g.xrd(xrdOpts{claim: 0.6, small: true})
		name := first.X.Spec.Names.Plural + "." + first.X.Spec.Group
		xrdKey := sim.Key{Group: "apiextensions.crossplane.io", Kind: "CompositeResourceDefinition", Name: name}
		sameIdentity := func(gx *genXRD) *genXRD {
			gx.X.SetName(name)
			gx.X.Spec.Group = first.X.Spec.Group
			gx.X.Spec.Names = first.X.Spec.Names
			gx.X.Spec.ClaimNames = first.X.Spec.ClaimNames
			return gx
		}
		settle := func() {
			req := reconcile.Request{NamespacedName: types.NamespacedName{Name: name}}
			for i := 0; i < 3; i++ {
				_, _ = defR.Reconcile(bg, req)
				_, _ = offR.Reconcile(bg, req)
				xrk.EstablishCRDs(w)
				w.GCRun(20)
			}
		}
		fp := ""
		check := func(step string, gx *genXRD) {
			stored := w.GetObj(xrdKey)
			if stored == nil {
				res.bad("harness-xrd-missing", step+": the XRD is not in the store", nil)
				return
			}
			x := gx.X.DeepCopy()
			x.SetUID(types.UID(sim.Str(stored, "metadata", "uid")))
			cp := *gx
			cp.X = x
			kinds := map[string]string{"xr": x.Spec.Names.Plural + "." + x.Spec.Group}
			if x.Spec.ClaimNames != nil {
				kinds["claim"] = x.Spec.ClaimNames.Plural + "." + x.Spec.Group
			}
			for _, kind := range []string{"xr", "claim"} {
				crdName, ok := kinds[kind]
				if !ok {
					continue
				}
				obj := w.GetObj(sim.Key{Group: "apiextensions.k8s.io", Kind: "CustomResourceDefinition", Name: crdName})
				if obj == nil {
					res.bad(kind+"-crd-not-stored-by-controller", fmt.Sprintf("%s: after three reconciles no CRD %s exists", step, crdName), map[string]any{"xrd": x})
					continue
				}
				j, err := toJSONValue(obj)
				if err != nil {
					res.bad("harness-crd-not-serialisable", err.Error(), nil)
					continue
				}
				t.add("controller_crds_checked", 1)
				for _, fd := range checkCRD(kind, &cp, j, gold, t) {
					fd.Key = "stored-" + fd.Key
					fd.What = step + " (generation " + fmt.Sprint(sim.Str(stored, "metadata", "generation")) + "): " + fd.What
					fd.Witness = map[string]any{"step": step, "xrd": x, "detail": fd.Witness}
					res.findings = append(res.findings, fd)
				}
			}
		}
		// 1. created
		first.X.SetName(name)
		if err := user.Create(bg, first.X.DeepCopy()); err != nil {
			res.bad("harness-create-xrd", err.Error(), nil)
			return
		}
		settle()
		check("created", first)
		fp += kit.JSON(first.X)
		// 1b. a third party (backup/restore, manual edit) strips the CRDs' owner references: the
		// controllers put the controller reference back
		if g.p(0.5) {
			third := w.Client("third-party")
			for _, o := range w.ListObjs(sim.Key{Group: "apiextensions.k8s.io", Kind: "CustomResourceDefinition"}.GK()) {
				uo := &unstructured.Unstructured{Object: o}
				uo.SetOwnerReferences(nil)
				_ = third.Update(bg, uo)
			}
			settle()
			check("owner references stripped by a third party", first)
			t.add("controller_owner_strips", 1)
		}
		// 2. versions and schemas edited in place (1-2 edits)
		cur := first
		for e, ne := 0, g.n(3); e < ne; e++ {
			next := sameIdentity(g.xrd(xrdOpts{claim: 0, small: true}))
			stored := &v1.CompositeResourceDefinition{}
			if err := user.Get(bg, client.ObjectKey{Name: name}, stored); err != nil {
				res.bad("harness-get-xrd", err.Error(), nil)
				return
			}
			stored.Spec = next.X.Spec
			if err := user.Update(bg, stored); err != nil {
				res.bad("harness-update-xrd", err.Error(), nil)
				return
			}
			settle()
			check(fmt.Sprintf("edited in place (%d)", e+1), next)
			cur = next
			t.add("controller_inplace_edits", 1)
		}
		_ = cur
		// 3. deleted, CRDs torn down, created again under the same name with another schema
		if err := user.Delete(bg, &v1.CompositeResourceDefinition{ObjectMeta: first.X.ObjectMeta}); err != nil {
			res.bad("harness-delete-xrd", err.Error(), nil)
			return
		}
		for i := 0; i < 4 && w.GetObj(xrdKey) != nil; i++ {
			settle()
		}
		if w.GetObj(xrdKey) != nil {
			t.add("controller_xrd_not_finalized_observed_only", 1)
			res.fp, res.nontrivial = fp, false
			return
		}
		again := sameIdentity(g.xrd(xrdOpts{claim: 0, small: true}))
		if err := user.Create(bg, again.X.DeepCopy()); err != nil {
			res.bad("harness-recreate-xrd", err.Error(), nil)
			return
		}
		settle()
		check("deleted and created again", again)
		t.add("controller_recreations", 1)
		t.add("controller_histories", 1)
		res.fp = fp + kit.JSON(again.X)
		res.nontrivial = true
	}
}
