//go:build verif

// Check C11: CRDs derived from an XRD are the XRD's schema plus intact Crossplane machinery;
// colliding claim names are rejected; group and kind/plural names are immutable.
package main

import (
	"fmt"
	metav1 "k8s.io/apimachinery/pkg/apis/meta/v1"
	"math/rand/v2"
	"runtime"
	"sort"
	"strings"
	"sync"
	"time"

	"github.com/go-logr/logr"
	extv1 "k8s.io/apiextensions-apiserver/pkg/apis/apiextensions/v1"
	"k8s.io/apimachinery/pkg/util/validation/field"
	ctrl "sigs.k8s.io/controller-runtime"

	xpv1 "github.com/crossplane/crossplane-runtime/apis/common/v1"

	v1 "github.com/crossplane/crossplane/apis/apiextensions/v1"
	"github.com/crossplane/crossplane/internal/xcrd"
	"github.com/crossplane/crossplane/verifh/kit"
)

type result struct {
	name       string
	skipped    bool
	fp         string
	nontrivial bool
	findings   []finding
	t          tally
	sample     map[string]any
}

func (r *result) bad(key, what string, w any) {
	r.findings = append(r.findings, finding{Key: key, What: what, Witness: w})
}

// runStream evaluates n independent cases in parallel and reports them in index order, so
// that counters, samples and the witness kept per violation key do not depend on scheduling.
func runStream(c *kit.Ctx, stream string, n, samples int, f func(r *rand.Rand, res *result)) {
	const chunk = 4096
	workers := runtime.GOMAXPROCS(0)
	for lo := 0; lo < n; lo += chunk {
		hi := lo + chunk
		if hi > n {
			hi = n
		}
		res := make([]result, hi-lo)
		var wg sync.WaitGroup
		next := make(chan int, hi-lo)
		for i := lo; i < hi; i++ {
			next <- i
		}
		close(next)
		for w := 0; w < workers; w++ {
			wg.Add(1)
			go func() {
				defer wg.Done()
				for i := range next {
					r := &res[i-lo]
					r.name = fmt.Sprintf("%s/%d", stream, i)
					r.t = tally{}
					if !c.Want(r.name) {
						r.skipped = true
						continue
					}
					if err := kit.Try(func() { f(c.Rng(stream, i), r) }); err != nil {
						r.bad("harness-panic-"+stream, "the check itself panicked: "+firstLine(err.Error()), err.Error())
					}
				}
			}()
		}
		wg.Wait()
		for i := range res {
			r := &res[i]
			if r.skipped {
				continue
			}
			c.Eval(r.fp, r.nontrivial)
			ks := make([]string, 0, len(r.t))
			for k := range r.t {
				ks = append(ks, k)
			}
			sort.Strings(ks)
			for _, k := range ks {
				c.Count(k, r.t[k])
			}
			if r.sample != nil && lo+i < samples && c.WantSample() {
				c.Sample(r.sample)
			}
			for _, fd := range r.findings {
				c.Violate(fd.Key, r.name, fd.What, fd.Witness)
			}
		}
	}
}

func firstLine(s string) string {
	if i := strings.IndexByte(s, '\n'); i >= 0 {
		return s[:i]
	}
	return s
}

// ---------------------------------------------------------------- part 1: derived CRDs

func deriveCase(gold *golden) func(r *rand.Rand, res *result) {
	return func(r *rand.Rand, res *result) {
		g := &gen{r: r}
		gx := g.xrd(xrdOpts{claim: 0.6, degenerate: g.p(0.01)})
		x := gx.X
		xj := kit.JSON(x)
		res.fp = xj
		t := res.t
		t.add("xrds_total", 1)
		t.add(fmt.Sprintf("xrds_versions_%d", len(x.Spec.Versions)), 1)
		if x.Spec.ClaimNames != nil {
			t.add("xrds_with_claims", 1)
		}
		if gx.CollisionProps > 0 {
			t.add("xrds_with_collision_props", 1)
			t.add("collision_props_total", gx.CollisionProps)
		}
		if x.Spec.Conversion != nil {
			t.add("xrds_with_conversion", 1)
		}
		if x.Spec.DefaultCompositionUpdatePolicy != nil || x.Spec.DefaultCompositeDeletePolicy != nil {
			t.add("xrds_with_default_policy", 1)
		}
		if x.Spec.DefaultCompositionRef != nil || x.Spec.EnforcedCompositionRef != nil {
			t.add("xrds_with_default_or_enforced_composition", 1)
		}
		res.nontrivial = gx.Degenerate == "" && (gx.CollisionProps > 0 || len(x.Spec.Versions) >= 2)
		res.sample = map[string]any{"case": res.name, "class": "derive", "collision_props": gx.CollisionProps, "xrd": x}

		var xr, cl *extv1.CustomResourceDefinition
		var xrErr, clErr error
		if p := kit.Try(func() { xr, xrErr = xcrd.ForCompositeResource(x.DeepCopy()) }); p != nil {
			res.bad("xr-derive-panics", "ForCompositeResource panicked: "+firstLine(p.Error()), map[string]any{"xrd": x, "panic": p.Error()})
			return
		}
		if p := kit.Try(func() { cl, clErr = xcrd.ForCompositeResourceClaim(x.DeepCopy()) }); p != nil {
			res.bad("claim-derive-panics", "ForCompositeResourceClaim panicked: "+firstLine(p.Error()), map[string]any{"xrd": x, "panic": p.Error()})
			return
		}
		if gx.Degenerate != "" {
			// no schema / unparsable schema: only robustness is observed
			t.add("xrds_degenerate_"+gx.Degenerate, 1)
			if xrErr != nil {
				t.add("degenerate_rejected_with_error", 1)
			} else {
				t.add("degenerate_accepted_observed_only", 1)
			}
			return
		}
		if xrErr != nil {
			res.bad("xr-derive-error", "ForCompositeResource failed on a valid XRD: "+xrErr.Error(), map[string]any{"xrd": x})
		} else {
			j, err := toJSONValue(xr)
			if err != nil {
				res.bad("xr-crd-not-serialisable", err.Error(), nil)
			} else {
				for _, fd := range checkCRD("xr", gx, j, gold, t) {
					fd.Witness = map[string]any{"xrd": x, "detail": fd.Witness}
					res.findings = append(res.findings, fd)
				}
			}
		}
		if x.Spec.ClaimNames == nil {
			if clErr != nil {
				t.add("claim_crd_refused_without_claim_names", 1)
			} else {
				t.add("claim_crd_derived_without_claim_names_observed_only", 1)
			}
			return
		}
		if clErr != nil {
			res.bad("claim-derive-error", "ForCompositeResourceClaim failed on a valid XRD: "+clErr.Error(), map[string]any{"xrd": x})
			return
		}
		j, err := toJSONValue(cl)
		if err != nil {
			res.bad("claim-crd-not-serialisable", err.Error(), nil)
			return
		}
		for _, fd := range checkCRD("claim", gx, j, gold, t) {
			fd.Witness = map[string]any{"xrd": x, "detail": fd.Witness}
			res.findings = append(res.findings, fd)
		}
	}
}

// ---------------------------------------------------------------- part 2: admission

func errList(e field.ErrorList) string {
	if len(e) == 0 {
		return ""
	}
	return e.ToAggregate().Error()
}

func hasFieldErr(e field.ErrorList, path string) bool {
	for _, x := range e {
		if x.Field == path {
			return true
		}
	}
	return false
}

var immutablePaths = map[string]string{
	"group":             "spec.group",
	"names.kind":        "spec.names.kind",
	"names.plural":      "spec.names.plural",
	"claimNames.kind":   "spec.claimNames.kind",
	"claimNames.plural": "spec.claimNames.plural",
}

// swapCase changes nothing but the letter case (names are case sensitive: a change all the same).
func swapCase(v string) string {
	b := []byte(v)
	for i, ch := range b {
		switch {
		case 'a' <= ch && ch <= 'z':
			b[i] = ch - 'a' + 'A'
		case 'A' <= ch && ch <= 'Z':
			b[i] = ch - 'A' + 'a'
		}
	}
	return string(b)
}

// mutateImmutable changes one immutable name: by appending to it or, for values of even length,
// only in the case of its letters.
func mutateImmutable(x *v1.CompositeResourceDefinition, f string) {
	mut := func(v, suffix string) string {
		if len(v)%2 == 0 && swapCase(v) != v {
			return swapCase(v)
		}
		return v + suffix
	}
	switch f {
	case "group":
		if len(x.Spec.Group)%2 == 0 && swapCase(x.Spec.Group) != x.Spec.Group {
			x.Spec.Group = swapCase(x.Spec.Group)
		} else {
			x.Spec.Group = "changed." + x.Spec.Group
		}
	case "names.kind":
		x.Spec.Names.Kind = mut(x.Spec.Names.Kind, "Changed")
	case "names.plural":
		x.Spec.Names.Plural = mut(x.Spec.Names.Plural, "changed")
	case "claimNames.kind":
		x.Spec.ClaimNames.Kind = mut(x.Spec.ClaimNames.Kind, "Changed")
	case "claimNames.plural":
		x.Spec.ClaimNames.Plural = mut(x.Spec.ClaimNames.Plural, "changed")
	}
}

func pairCase(r *rand.Rand, res *result) {
	g := &gen{r: r}
	gx := g.xrd(xrdOpts{claim: 0.7})
	oldX := gx.X
	newX := oldX.DeepCopy()
	t := res.t
	t.add("pairs_total", 1)

	expect := "" // "reject" | "accept" | "" (observed only)
	class := ""
	var mutated []string
	switch k := g.n(100); {
	case k < 45: // exactly one immutable field
		fs := []string{"group", "names.kind", "names.plural"}
		if oldX.Spec.ClaimNames != nil {
			fs = append(fs, "claimNames.kind", "claimNames.plural", "claimNames.kind", "claimNames.plural")
		}
		f := g.pick(fs)
		mutateImmutable(newX, f)
		mutated = []string{f}
		class, expect = "immutable-"+f, "reject"
	case k < 52: // several immutable fields, possibly with a legitimate change on top
		fs := []string{"group", "names.kind", "names.plural"}
		if oldX.Spec.ClaimNames != nil {
			fs = append(fs, "claimNames.kind", "claimNames.plural")
		}
		mutated = g.subset(fs, 3)
		if len(mutated) < 2 {
			mutated = fs[:2]
		}
		for _, f := range mutated {
			mutateImmutable(newX, f)
		}
		if g.p(0.5) {
			newX.Spec.ConnectionSecretKeys = []string{"endpoint"}
		}
		class, expect = "immutable-multi", "reject"
	case k < 58:
		class, expect = "identical", "accept"
	case k < 66:
		class, expect = "add-version", "accept"
		used := map[string]bool{}
		for _, v := range newX.Spec.Versions {
			used[v.Name] = true
		}
		name := "v9"
		for _, n := range versionNames {
			if !used[n] {
				name = n
				break
			}
		}
		nv := g.xrd(xrdOpts{}).X.Spec.Versions[0]
		nv.Name, nv.Referenceable = name, false
		newX.Spec.Versions = append(newX.Spec.Versions, nv)
	case k < 74:
		class, expect = "change-schema", "accept"
		i := g.n(len(newX.Spec.Versions))
		newX.Spec.Versions[i].Schema = g.xrd(xrdOpts{}).X.Spec.Versions[0].Schema
	case k < 79:
		class, expect = "flip-flags", "accept"
		i := g.n(len(newX.Spec.Versions))
		if !newX.Spec.Versions[i].Referenceable {
			newX.Spec.Versions[i].Served = !newX.Spec.Versions[i].Served
		}
		d := newX.Spec.Versions[i].Deprecated == nil || !*newX.Spec.Versions[i].Deprecated
		newX.Spec.Versions[i].Deprecated = &d
	case k < 84:
		class, expect = "change-defaults", "accept"
		cdp := xpv1.CompositeDeletePolicy("Foreground")
		if p := oldX.Spec.DefaultCompositeDeletePolicy; p != nil && *p == cdp {
			cdp = "Background"
		}
		newX.Spec.DefaultCompositeDeletePolicy = &cdp
		up := xpv1.UpdatePolicy("Manual")
		if p := oldX.Spec.DefaultCompositionUpdatePolicy; p != nil && *p == up {
			up = "Automatic"
		}
		newX.Spec.DefaultCompositionUpdatePolicy = &up
		newX.Spec.DefaultCompositionRef = &v1.CompositionReference{Name: "another"}
	case k < 89:
		class, expect = "add-claim-names", "accept"
		if oldX.Spec.ClaimNames == nil {
			cn := names(strings.TrimPrefix(oldX.Spec.Names.Kind, "X"))
			newX.Spec.ClaimNames = &cn
		} else {
			oldX = oldX.DeepCopy()
			oldX.Spec.ClaimNames = nil
		}
	case k < 93:
		class, expect = "change-metadata-or-short-names", "accept"
		newX.SetLabels(map[string]string{"changed": "yes"})
		newX.Spec.ConnectionSecretKeys = append(newX.Spec.ConnectionSecretKeys, "extra")
		newX.Spec.Names.ShortNames = []string{"xchg"}
		if newX.Spec.ClaimNames != nil {
			newX.Spec.ClaimNames.Categories = []string{"changed"}
		}
	case k < 96: // not forbidden and not promised: observed only
		class = "observe-remove-claim-names"
		newX.Spec.ClaimNames = nil
	case k < 98:
		class = "observe-change-singular-listkind"
		newX.Spec.Names.Singular += "x"
		if newX.Spec.ClaimNames != nil {
			newX.Spec.ClaimNames.ListKind += "X"
		}
	default:
		class = "observe-switch-referenceable"
		if len(newX.Spec.Versions) > 1 {
			for i := range newX.Spec.Versions {
				newX.Spec.Versions[i].Referenceable = false
			}
			newX.Spec.Versions[g.n(len(newX.Spec.Versions))].Referenceable = true
		}
	}
	// a quarter of the pairs are updates of an XRD that has been deleted but is still held by its
	// finalizers: the names are just as immutable while it is terminating
	if g.p(0.25) {
		ts := metav1.NewTime(time.Unix(1700000000, 0))
		oldX = oldX.DeepCopy()
		for _, x := range []*v1.CompositeResourceDefinition{oldX, newX} {
			x.SetDeletionTimestamp(&ts)
			x.SetFinalizers([]string{"defined.apiextensions.crossplane.io", "offered.apiextensions.crossplane.io"})
		}
		t.add("pairs_terminating_xrd", 1)
	}
	t.add("pairs_class_"+class, 1)
	res.fp = kit.JSON(oldX) + "|" + kit.JSON(newX)
	res.nontrivial = len(mutated) > 0 || len(newX.Spec.Versions) >= 2
	res.sample = map[string]any{"case": res.name, "class": "pair/" + class, "expect": expect, "old": oldX, "new": newX}
	wit := map[string]any{"class": class, "mutated": mutated, "old": oldX, "new": newX}

	// (a) the API type's own update validation
	var errs field.ErrorList
	if p := kit.Try(func() { _, errs = newX.DeepCopy().ValidateUpdate(oldX.DeepCopy()) }); p != nil {
		res.bad("validateupdate-panics", "ValidateUpdate panicked: "+firstLine(p.Error()), wit)
		return
	}
	// (b) the admission webhook in front of the simulated API server
	h, err := newHook(r.Uint64())
	if err != nil {
		res.bad("harness-webhook-setup-failed", err.Error(), nil)
		return
	}
	seeded := g.p(0.6)
	if seeded {
		xr, e1 := xcrd.ForCompositeResource(oldX.DeepCopy())
		var cl *extv1.CustomResourceDefinition
		if oldX.Spec.ClaimNames != nil {
			cl, _ = xcrd.ForCompositeResourceClaim(oldX.DeepCopy())
		}
		if e1 != nil {
			seeded = false
		} else if e := h.seed(xr, cl); e != nil {
			res.bad("harness-seed-failed", e.Error(), nil)
			return
		}
	}
	if seeded {
		t.add("pairs_with_existing_crds", 1)
	}
	resp := h.update(oldX, newX)
	t.add("webhook_calls", 1)
	res.sample["validateupdate_errors"] = errList(errs)
	res.sample["webhook_allowed"] = resp.Allowed
	res.sample["webhook_result"] = denial(resp)

	rejectedDirect, rejectedHook := len(errs) > 0, !resp.Allowed
	if rejectedDirect {
		t.add("pairs_rejected_by_validateupdate", 1)
	} else {
		t.add("pairs_accepted_by_validateupdate", 1)
	}
	if rejectedHook {
		t.add("pairs_denied_by_webhook", 1)
	} else {
		t.add("pairs_allowed_by_webhook", 1)
	}
	switch expect {
	case "reject":
		named := true
		for _, f := range mutated {
			named = named && hasFieldErr(errs, immutablePaths[f])
		}
		if named {
			t.add("pairs_rejection_names_every_changed_field", 1)
		}
		if !rejectedDirect {
			res.bad(class+"-change-accepted-by-validateupdate", fmt.Sprintf("ValidateUpdate accepted a change of %v", mutated), wit)
		}
		if !rejectedHook {
			res.bad(class+"-change-admitted-by-webhook", fmt.Sprintf("the XRD webhook admitted a change of %v", mutated), wit)
		}
	case "accept":
		if rejectedDirect {
			res.bad("legit-update-"+class+"-rejected-by-validateupdate", "ValidateUpdate rejected a legitimate update: "+errList(errs), wit)
		}
		if rejectedHook {
			res.bad("legit-update-"+class+"-denied-by-webhook", "the XRD webhook denied a legitimate update: "+denial(resp), wit)
		}
	default:
		t.add("pairs_observed_only", 1)
	}
}

func collideCase(r *rand.Rand, res *result) {
	g := &gen{r: r}
	gx := g.xrd(xrdOpts{claim: 1})
	x := gx.X
	t := res.t
	t.add("collide_total", 1)
	all := []string{"kind", "plural", "singular", "listKind"}
	var fields []string
	switch k := g.n(100); {
	case k < 64:
		fields = []string{all[g.n(4)]}
	case k < 80:
		fields = g.subset(all, 4)
		if len(fields) < 2 {
			fields = []string{"kind", "plural"}
		}
	}
	for _, f := range fields {
		switch f {
		case "kind":
			x.Spec.ClaimNames.Kind = x.Spec.Names.Kind
		case "plural":
			x.Spec.ClaimNames.Plural = x.Spec.Names.Plural
		case "singular":
			if x.Spec.Names.Singular == "" {
				x.Spec.Names.Singular = strings.ToLower(x.Spec.Names.Kind)
			}
			x.Spec.ClaimNames.Singular = x.Spec.Names.Singular
		case "listKind":
			if x.Spec.Names.ListKind == "" {
				x.Spec.Names.ListKind = x.Spec.Names.Kind + "List"
			}
			x.Spec.ClaimNames.ListKind = x.Spec.Names.ListKind
		}
	}
	class := "none"
	switch len(fields) {
	case 0:
	case 1:
		class = fields[0]
	default:
		class = "multi"
	}
	t.add("collide_class_"+class, 1)
	res.fp = kit.JSON(x)
	res.nontrivial = len(fields) > 0 || len(x.Spec.Versions) >= 2
	res.sample = map[string]any{"case": res.name, "class": "collide/" + class, "fields": fields, "xrd": x}
	wit := map[string]any{"colliding": fields, "xrd": x}

	// the update's old object: the same XRD before claim names were added, or (when only
	// optional names collide) with proper claim names
	oldX := x.DeepCopy()
	oldX.Spec.ClaimNames = nil
	if len(fields) > 0 && g.p(0.5) {
		onlyOptional := true
		for _, f := range fields {
			onlyOptional = onlyOptional && (f == "singular" || f == "listKind")
		}
		if onlyOptional {
			cn := *x.Spec.ClaimNames.DeepCopy()
			cn.Singular = strings.ToLower(cn.Kind)
			cn.ListKind = cn.Kind + "List"
			oldX.Spec.ClaimNames = &cn
		}
	}

	var derr error
	if p := kit.Try(func() { _, derr = xcrd.ForCompositeResourceClaim(x.DeepCopy()) }); p != nil {
		res.bad("claim-derive-panics", "ForCompositeResourceClaim panicked: "+firstLine(p.Error()), wit)
		return
	}
	var verrs field.ErrorList
	if p := kit.Try(func() { _, verrs = x.DeepCopy().Validate() }); p != nil {
		res.bad("validate-panics", "Validate panicked: "+firstLine(p.Error()), wit)
		return
	}
	if len(verrs) > 0 {
		t.add("collide_rejected_by_validate_alone", 1)
	}
	hc, err := newHook(r.Uint64())
	if err != nil {
		res.bad("harness-webhook-setup-failed", err.Error(), nil)
		return
	}
	cresp := hc.create(x)
	hu, err := newHook(r.Uint64())
	if err != nil {
		res.bad("harness-webhook-setup-failed", err.Error(), nil)
		return
	}
	if g.p(0.5) {
		if xr, e := xcrd.ForCompositeResource(oldX.DeepCopy()); e == nil {
			if e := hu.seed(xr); e != nil {
				res.bad("harness-seed-failed", e.Error(), nil)
				return
			}
		}
	}
	uresp := hu.update(oldX, x)
	t.add("webhook_calls", 2)
	// a third way into the same collision: an XRD that is already offered (status Offered=True) whose
	// claim names do not change; the update renames the composite's MUTABLE optional names
	// (singular / listKind) onto the claim's
	renameOnly := len(fields) > 0
	for _, f := range fields {
		renameOnly = renameOnly && (f == "singular" || f == "listKind")
	}
	if renameOnly {
		old2 := x.DeepCopy()
		old2.Spec.Names.Singular = "zz" + strings.ToLower(old2.Spec.Names.Kind)
		old2.Spec.Names.ListKind = old2.Spec.Names.Kind + "ZzList"
		old2.Status.SetConditions(v1.WatchingComposite(), v1.WatchingClaim())
		if hv, e := newHook(r.Uint64()); e == nil {
			r2 := hv.update(old2, x)
			t.add("webhook_calls", 1)
			t.add("collide_by_composite_rename_cases", 1)
			if r2.Allowed {
				res.bad("claim-collision-"+class+"-admitted-on-composite-rename", fmt.Sprintf("the XRD webhook admitted an update of an offered XRD that renames the composite's %v onto the unchanged claim names", fields), wit)
			}
		}
	}
	res.sample["xcrd_error"] = fmt.Sprint(derr)
	res.sample["webhook_create"] = fmt.Sprintf("allowed=%v %s", cresp.Allowed, denial(cresp))
	res.sample["webhook_update"] = fmt.Sprintf("allowed=%v %s", uresp.Allowed, denial(uresp))

	if derr != nil {
		t.add("collide_refused_by_xcrd", 1)
	}
	if !cresp.Allowed {
		t.add("collide_denied_on_create", 1)
	}
	if !uresp.Allowed {
		t.add("collide_denied_on_update", 1)
	}
	if len(fields) > 0 {
		if derr == nil {
			res.bad("claim-collision-"+class+"-derived-by-xcrd", fmt.Sprintf("ForCompositeResourceClaim accepted claim names colliding on %v", fields), wit)
		}
		if cresp.Allowed {
			res.bad("claim-collision-"+class+"-admitted-on-create", fmt.Sprintf("the XRD webhook admitted the creation of an XRD whose claim names collide on %v", fields), wit)
		}
		if uresp.Allowed {
			res.bad("claim-collision-"+class+"-admitted-on-update", fmt.Sprintf("the XRD webhook admitted an update to claim names colliding on %v", fields), wit)
		}
		return
	}
	t.add("collide_controls_accepted", 1)
	if derr != nil {
		res.bad("valid-claim-names-refused-by-xcrd", "ForCompositeResourceClaim refused distinct claim names: "+derr.Error(), wit)
	}
	if len(verrs) > 0 {
		res.bad("valid-xrd-rejected-by-validate", "Validate rejected a valid XRD: "+errList(verrs), wit)
	}
	if !cresp.Allowed {
		res.bad("valid-xrd-denied-on-create", "the XRD webhook denied a valid XRD: "+denial(cresp), wit)
	}
	if !uresp.Allowed {
		res.bad("valid-xrd-denied-on-update", "the XRD webhook denied adding valid claim names: "+denial(uresp), wit)
	}
}

func main() {
	ctrl.SetLogger(logr.Discard())
	c := kit.New("C11", "exploration")
	c.Rule = "stream xrd: random XRDs (1-4 versions, exactly one referenceable; structural schemas with all property types, " +
		"nested objects, required, CEL rules at spec/status/root/nested, oneOf, preserve-unknown-fields, metadata.name maxLength; " +
		"75% carry author properties named like machinery fields with a different schema; claim names, default policies, " +
		"default/enforced composition, conversion, served/deprecated vary) are passed to the real ForCompositeResource / " +
		"ForCompositeResourceClaim and the returned CRDs (as JSON) are compared with the author's schema and the golden machinery " +
		"schema. Schemas are canonical (no zero-valued optional keywords, no empty maps/lists) so that verbatim comparison is fair. " +
		"1% degenerate XRDs (missing / unparsable schema) are only watched for panics. " +
		"stream pair: (old,new) XRDs through ValidateUpdate and the real validating webhook over the simulated API server: single or " +
		"multiple changes of group, names.kind/plural, claimNames.kind/plural must be rejected; identical, added version, changed " +
		"schema, flags, defaults, added claim names, labels/short names must be accepted; removing claim names, changing " +
		"singular/listKind or the referenceable version is observed only. stream collide: claim names equal to the composite's " +
		"kind / plural / singular / listKind (same field, non-empty) must be refused by ForCompositeResourceClaim and denied by the " +
		"webhook on create and update; distinct names are the control. A case is distinct by its XRD JSON and non-trivial when a " +
		"schema has >= 1 property colliding with a machinery name, or >= 2 versions, or an immutable field / claim name was mutated."
	c.Rule += " stream controller: one long-lived pair of real definition/offered reconcilers over sim handles a history of ONE XRD name (created; versions and schemas edited in place 0-2 times; deleted with CRD teardown; created again with another schema); after every step the stored CRDs go through the same oracle with the stored XRD's uid as expected controller reference."
	c.Rule += " " + "Immutable names are also changed in letter case only."
	c.Rule += " " + "Offered XRDs whose composite singular/listKind are renamed onto the claim names; required lists naming machinery or undeclared fields."
	c.Assumptions = append(c.Assumptions,
		"golden/machinery_*.json is the standard machinery schema (dumped once from schemas.go and reviewed); new machinery properties are allowed, listed ones must match exactly",
		"the only legitimate variation of a machinery property is a `default` derived from the XRD's default*/enforced* fields",
		"top-level schema keywords other than properties / required / x-kubernetes-validations need not be carried over; cross-field name collisions (e.g. claim kind = composite listKind) and defaulted optional names are out of scope",
		"the simulated API server accepts any CRD body on dry-run (no structural-schema validation), so webhook denials stem from Crossplane's own validation",
	)
	c.Floor = c.N(2000, 40000)

	gold, err := loadGolden()
	if err != nil {
		c.Inconclusive("golden machinery schema unreadable: " + err.Error())
		c.Finish()
	}
	c.Extra("golden_machinery_properties", map[string]any{
		"xr_spec": sortedKeys(gold.spec["xr"]), "claim_spec": sortedKeys(gold.spec["claim"]), "status": sortedKeys(gold.status),
	})

	runStream(c, "xrd", c.N(5000, 100000), 2, deriveCase(gold))
	runStream(c, "pair", c.N(2000, 24000), 1, pairCase)
	runStream(c, "collide", c.N(1000, 12000), 1, collideCase)
	runStream(c, "controller", c.N(150, 3000), 0, controllerCase(gold))

	if c.Only == "" {
		for _, k := range []string{"machinery_props_compared_under_collision", "author_props_compared", "cel_rules_checked",
			"required_entries_checked", "defaults_checked", "pairs_rejected_by_validateupdate", "pairs_allowed_by_webhook",
			"collide_denied_on_create", "collide_controls_accepted", "xrds_with_claims"} {
			if c.Counter(k) == 0 {
				c.Inconclusive("nothing observed for " + k)
			}
		}
	}
	c.Finish()
}
