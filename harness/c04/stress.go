//go:build verif

package main

import (
	"context"
	"fmt"
	"sync"
	"sync/atomic"

	"google.golang.org/protobuf/types/known/structpb"
	"k8s.io/apimachinery/pkg/apis/meta/v1/unstructured"
	"sigs.k8s.io/controller-runtime/pkg/client"

	fnv1 "github.com/crossplane/crossplane/apis/apiextensions/fn/proto/v1"
	"github.com/crossplane/crossplane/internal/xfn"
	"github.com/crossplane/crossplane/verifh/kit"
	"github.com/crossplane/crossplane/verifh/sim"
	"github.com/crossplane/crossplane/verifh/xrk"
)

// lockedReader makes a sim client usable from many goroutines (its call counter is not
// goroutine-safe; the store itself is).
type lockedReader struct {
	mu sync.Mutex
	c  *sim.Client
}

func (l *lockedReader) Get(ctx context.Context, k client.ObjectKey, o client.Object, opts ...client.GetOption) error {
	l.mu.Lock()
	defer l.mu.Unlock()
	return l.c.Get(ctx, k, o, opts...)
}

func (l *lockedReader) List(ctx context.Context, o client.ObjectList, opts ...client.ListOption) error {
	l.mu.Lock()
	defer l.mu.Unlock()
	return l.c.List(ctx, o, opts...)
}

// stress hammers the real PackagedFunctionRunner from many goroutines while the functions'
// active endpoints move, functions are uninstalled and re-installed and connections are garbage
// collected. Functional oracle: every successful response was produced by a server that was the
// function's active endpoint at some moment between call and return. Under `-race` (thorough
// tier) the race detector additionally watches the runner's connection map.
func stress(c *kit.Ctx) {
	ctx := context.Background()
	const nFn = 3
	rounds := c.N(6, 30)
	for round := 0; round < rounds; round++ {
		name := fmt.Sprintf("stress/%d", round)
		if !c.Want(name) {
			continue
		}
		r := c.Rng("stress", round)
		w := sim.NewWorld(xrk.Scheme(), uint64(c.Seed)*223+uint64(round))
		adm := w.Client("admin")
		// two servers per function; each tags its response with its own address
		var srv [nFn][2]*xrk.FnServer
		for f := 0; f < nFn; f++ {
			for k := 0; k < 2; k++ {
				s := xrk.NewFnServer(false)
				addr := s.Addr
				s.Set(func(req *fnv1.RunFunctionRequest) (*fnv1.RunFunctionResponse, error) {
					return &fnv1.RunFunctionResponse{Context: &structpb.Struct{Fields: map[string]*structpb.Value{"served-by": structpb.NewStringValue(addr)}}}, nil
				})
				srv[f][k] = s
			}
		}
		// history of active endpoints per function: (from-seq, addr); seq is a global atomic clock
		var clock atomic.Int64
		// A span is the interval in which addr may legitimately be read as the active endpoint: it
		// opens BEFORE the write that makes it active is issued and closes AFTER the write that
		// replaces it has returned, so consecutive spans overlap for the duration of that write.
		type span struct {
			from, to int64
			addr     string
		}
		const open = int64(1) << 62
		var hmu sync.Mutex
		hist := make([][]span, nFn)
		setActive := func(f int, addr string) {
			hmu.Lock()
			hist[f] = append(hist[f], span{from: clock.Add(1), to: open, addr: addr})
			hmu.Unlock()
		}
		// closePrevious ends every span of f but the newest one (called after the write returned)
		closePrevious := func(f int) {
			hmu.Lock()
			t := clock.Add(1)
			for k := 0; k+1 < len(hist[f]); k++ {
				if hist[f][k].to == open {
					hist[f][k].to = t
				}
			}
			hmu.Unlock()
		}
		for f := 0; f < nFn; f++ {
			fn := fmt.Sprintf("fn-%d", f)
			for _, o := range xrk.FunctionObjects(fn, srv[f][0].Addr) {
				w.MustSeedFull("admin", o)
			}
			setActive(f, srv[f][0].Addr)
		}
		lr := &lockedReader{c: w.Client("runner")}
		runner := xfn.NewPackagedFunctionRunner(lr)
		var amu sync.Mutex // serialises the admin's writes with its history bookkeeping
		var wg sync.WaitGroup
		var calls, okCalls, errCalls, gcs, flips atomic.Int64
		var bad []string
		var bmu sync.Mutex
		stop := make(chan struct{})
		// callers
		for g := 0; g < 8; g++ {
			wg.Add(1)
			go func(g int) {
				defer wg.Done()
				for i := 0; i < 150; i++ {
					f := (g + i) % nFn
					t0 := clock.Add(1)
					rsp, err := runner.RunFunction(ctx, fmt.Sprintf("fn-%d", f), &fnv1.RunFunctionRequest{})
					t1 := clock.Add(1)
					calls.Add(1)
					if err != nil {
						errCalls.Add(1)
						continue
					}
					okCalls.Add(1)
					by := rsp.GetContext().GetFields()["served-by"].GetStringValue()
					// was `by` active at some moment in [t0, t1]?
					hmu.Lock()
					ok := false
					hs := hist[f]
					for _, sp := range hs {
						if sp.addr == by && sp.from <= t1 && sp.to >= t0 {
							ok = true
						}
					}
					hmu.Unlock()
					if !ok {
						bmu.Lock()
						bad = append(bad, fmt.Sprintf("fn-%d call [%d,%d] was served by %s, which was not the active endpoint at any moment of the call", f, t0, t1, by))
						bmu.Unlock()
					}
				}
			}(g)
		}
		// admin: moves endpoints, uninstalls / reinstalls, collects connections
		wg.Add(1)
		go func() {
			defer wg.Done()
			cur := [nFn]int{}
			for i := 0; i < 60; i++ {
				select {
				case <-stop:
					return
				default:
				}
				f := r.IntN(nFn)
				fn := fmt.Sprintf("fn-%d", f)
				revKey := sim.Key{Group: "pkg.crossplane.io", Kind: "FunctionRevision", Name: fn + "-rev1"}
				amu.Lock()
				switch r.IntN(4) {
				case 0, 1: // move the active revision's endpoint
					cur[f] = 1 - cur[f]
					if o := w.GetObj(revKey); o != nil {
						u := &unstructured.Unstructured{Object: o}
						_ = unstructured.SetNestedField(u.Object, srv[f][cur[f]].Addr, "status", "endpoint")
						// the new endpoint becomes "active" from the moment the write can be seen
						setActive(f, srv[f][cur[f]].Addr)
						_ = adm.Status().Update(ctx, u)
						closePrevious(f)
						flips.Add(1)
					}
				case 2: // uninstall and re-install the function
					if o := w.GetObj(sim.Key{Group: "pkg.crossplane.io", Kind: "Function", Name: fn}); o != nil {
						_ = adm.Delete(ctx, &unstructured.Unstructured{Object: o})
						if n, err := runner.GarbageCollectConnectionsNow(ctx); err == nil {
							gcs.Add(int64(n))
						}
						for _, ob := range xrk.FunctionObjects(fn, srv[f][cur[f]].Addr) {
							if ob["kind"] == "Function" {
								_ = w.Seed("admin", ob)
							}
						}
					}
				case 3:
					if n, err := runner.GarbageCollectConnectionsNow(ctx); err == nil {
						gcs.Add(int64(n))
					}
				}
				amu.Unlock()
			}
		}()
		wg.Wait()
		close(stop)
		for f := 0; f < nFn; f++ {
			for k := 0; k < 2; k++ {
				srv[f][k].Close()
			}
		}
		c.Eval(name, true)
		c.Count("stress_calls", calls.Load())
		c.Count("stress_calls_ok", okCalls.Load())
		c.Count("stress_calls_err", errCalls.Load())
		c.Count("stress_endpoint_moves", flips.Load())
		c.Count("stress_connections_collected", gcs.Load())
		if len(bad) > 0 {
			c.Violate("stress:response-from-non-active-endpoint", name, bad[0], map[string]any{"all": bad})
		}
		if okCalls.Load() == 0 {
			c.Inconclusive("stress: no RunFunction call succeeded")
		}
	}
}
