//go:build verif

// C04: every pipeline step sees exactly the state the function contract promises.
// Generated deterministic function programs run behind real gRPC servers (one per function
// revision) driven by the real chain FunctionComposer -> FetchingFunctionRunner ->
// PackagedFunctionRunner -> BetaFallBack client. A reference interpreter, given the store
// snapshot at pipeline start and the same programs, computes the request sequence every
// server must receive; it is compared with what the servers recorded (proto.Equal).
package main

import (
	"context"
	"encoding/base64"
	"fmt"
	"math/rand/v2"
	"os"
	"sort"
	"strings"
	"sync"
	"sync/atomic"

	"google.golang.org/protobuf/proto"
	"google.golang.org/protobuf/types/known/structpb"
	"k8s.io/apimachinery/pkg/apis/meta/v1/unstructured"
	"k8s.io/apimachinery/pkg/runtime/schema"
	"k8s.io/apimachinery/pkg/runtime"

	fnv1 "github.com/crossplane/crossplane/apis/apiextensions/fn/proto/v1"
	"github.com/crossplane/crossplane/verifh/kit"
	"github.com/crossplane/crossplane/verifh/sim"
	"github.com/crossplane/crossplane/verifh/xrk"
)

const annResName = "crossplane.io/composition-resource-name"

var xrKey = sim.Key{Group: "ex.org", Kind: "XThing", Name: "xr1"}

// progSpec describes one deterministic function program (a pure function of its request).
type progSpec struct {
	Add      []string `json:"add,omitempty"`      // desired resources to add/overwrite
	Drop     []string `json:"drop,omitempty"`     // desired resources to remove
	CtxKey   string   `json:"ctxKey,omitempty"`   // context key to (re)write
	DropCtx  bool     `json:"dropCtx,omitempty"`  // start from an empty context instead of the received one
	Req      string   `json:"req,omitempty"`      // "", name, labels, name-then-labels, absent
	Result   string   `json:"result,omitempty"`   // "", normal, warning
	Cond     string   `json:"cond,omitempty"`     // custom condition type to emit
	XRStatus bool     `json:"xrStatus,omitempty"` // set desired composite status
}

func summarize(req *fnv1.RunFunctionRequest) map[string]any {
	var obs []string
	for n := range req.GetObserved().GetResources() {
		obs = append(obs, n)
	}
	sort.Strings(obs)
	var des []string
	for n := range req.GetDesired().GetResources() {
		des = append(des, n)
	}
	sort.Strings(des)
	var extra []string
	for k, rs := range req.GetExtraResources() {
		var items []string
		for _, it := range rs.GetItems() {
			md, _ := it.GetResource().AsMap()["metadata"].(map[string]any)
			items = append(items, fmt.Sprint(md["name"]))
		}
		sort.Strings(items)
		extra = append(extra, k+"="+strings.Join(items, "+"))
	}
	sort.Strings(extra)
	var creds []string
	for k, c := range req.GetCredentials() {
		var ks []string
		for dk := range c.GetCredentialData().GetData() {
			ks = append(ks, dk)
		}
		sort.Strings(ks)
		creds = append(creds, k+":"+strings.Join(ks, "+"))
	}
	sort.Strings(creds)
	toAny := func(ss []string) []any {
		out := make([]any, len(ss))
		for i, s := range ss {
			out[i] = s
		}
		return out
	}
	in := ""
	if req.GetInput() != nil {
		in = fmt.Sprint(req.GetInput().AsMap()["marker"])
	}
	ctxKeys := []string{}
	for k, v := range req.GetContext().GetFields() {
		ctxKeys = append(ctxKeys, k+"="+v.GetStringValue())
	}
	sort.Strings(ctxKeys)
	xrSize := ""
	if s, ok := req.GetObserved().GetComposite().GetResource().AsMap()["spec"].(map[string]any); ok {
		xrSize = fmt.Sprint(s["size"])
	}
	var xrConn []string
	for k := range req.GetObserved().GetComposite().GetConnectionDetails() {
		xrConn = append(xrConn, k)
	}
	sort.Strings(xrConn)
	return map[string]any{"observed": toAny(obs), "desiredIn": toAny(des), "extra": toAny(extra), "creds": toAny(creds), "input": in, "ctx": toAny(ctxKeys), "xrSize": xrSize, "xrConn": toAny(xrConn)}
}

// evalProgram is the program: a deterministic function of (spec, request). It is the test
// INPUT (run by the gRPC servers and by the reference interpreter alike), not the code under test.
func evalProgram(p progSpec, stepIdx int, req *fnv1.RunFunctionRequest) *fnv1.RunFunctionResponse {
	d := &fnv1.State{Resources: map[string]*fnv1.Resource{}}
	if req.GetDesired() != nil {
		d = proto.Clone(req.GetDesired()).(*fnv1.State)
		if d.Resources == nil {
			d.Resources = map[string]*fnv1.Resource{}
		}
	}
	sum := summarize(req)
	for _, n := range p.Add {
		s, err := structpb.NewStruct(map[string]any{"apiVersion": "nop.ex.org/v1", "kind": "NopA", "spec": map[string]any{"forProvider": map[string]any{"by": fmt.Sprintf("step%d", stepIdx), "saw": sum}}})
		if err != nil {
			panic(err)
		}
		d.Resources[n] = &fnv1.Resource{Resource: s, Ready: fnv1.Ready_READY_TRUE}
	}
	for _, n := range p.Drop {
		delete(d.Resources, n)
	}
	if p.XRStatus {
		s, _ := structpb.NewStruct(map[string]any{"status": map[string]any{"fromStep": fmt.Sprintf("step%d", stepIdx), "sawDesired": sum["desiredIn"]}})
		d.Composite = &fnv1.Resource{Resource: s}
	}
	ctx := &structpb.Struct{Fields: map[string]*structpb.Value{}}
	if !p.DropCtx && req.GetContext() != nil {
		ctx = proto.Clone(req.GetContext()).(*structpb.Struct)
		if ctx.Fields == nil {
			ctx.Fields = map[string]*structpb.Value{}
		}
	}
	if p.CtxKey != "" {
		ctx.Fields[p.CtxKey] = structpb.NewStringValue(fmt.Sprintf("step%d/des%d/extra%d", stepIdx, len(d.Resources), len(req.GetExtraResources())))
	}
	rsp := &fnv1.RunFunctionResponse{Desired: d, Context: ctx}
	if p.DropCtx && p.CtxKey == "" && stepIdx%2 == 1 {
		// a function that builds its response from scratch returns NO context at all (not an
		// empty one): the next step starts from an empty context all the same
		rsp.Context = nil
	}
	byName := func(n string) *fnv1.ResourceSelector {
		return &fnv1.ResourceSelector{ApiVersion: "nop.ex.org/v1", Kind: "EnvThing", Match: &fnv1.ResourceSelector_MatchName{MatchName: n}}
	}
	byLabels := &fnv1.ResourceSelector{ApiVersion: "nop.ex.org/v1", Kind: "EnvThing", Match: &fnv1.ResourceSelector_MatchLabels{MatchLabels: &fnv1.MatchLabels{Labels: map[string]string{"tier": "gold"}}}}
	switch p.Req {
	case "name":
		rsp.Requirements = &fnv1.Requirements{ExtraResources: map[string]*fnv1.ResourceSelector{"one": byName("env-1")}}
	case "labels":
		rsp.Requirements = &fnv1.Requirements{ExtraResources: map[string]*fnv1.ResourceSelector{"gold": byLabels}}
	case "absent":
		rsp.Requirements = &fnv1.Requirements{ExtraResources: map[string]*fnv1.ResourceSelector{"none": byName("does-not-exist")}}
	case "labels-narrowing":
		// same requirement name, apiVersion and kind; the label selector gets NARROWER once the
		// first answer arrived: the second answer must only hold what matches the narrower one
		if _, ok := req.GetExtraResources()["gold"]; !ok {
			rsp.Requirements = &fnv1.Requirements{ExtraResources: map[string]*fnv1.ResourceSelector{"gold": byLabels}}
		} else {
			narrow := &fnv1.ResourceSelector{ApiVersion: "nop.ex.org/v1", Kind: "EnvThing", Match: &fnv1.ResourceSelector_MatchLabels{MatchLabels: &fnv1.MatchLabels{Labels: map[string]string{"tier": "gold", "zone": "a"}}}}
			rsp.Requirements = &fnv1.Requirements{ExtraResources: map[string]*fnv1.ResourceSelector{"gold": narrow}}
		}
	case "labels-then-name":
		// first asks by labels; once its context says so, asks only for one by name: the
		// resources supplied for the dropped requirement must disappear from the next request
		flag := fmt.Sprintf("switched-%d", stepIdx)
		if _, ok := req.GetContext().GetFields()[flag]; !ok {
			rsp.Requirements = &fnv1.Requirements{ExtraResources: map[string]*fnv1.ResourceSelector{"gold": byLabels}}
		} else {
			rsp.Requirements = &fnv1.Requirements{ExtraResources: map[string]*fnv1.ResourceSelector{"one": byName("env-3")}}
		}
		ctx.Fields[flag] = structpb.NewStringValue("yes")
	case "name-then-none":
		// round 1 asks for one by name; once its context says it was asked, requires nothing any
		// more: the requirements changed (to nothing), so the function must be run once more,
		// this time WITHOUT the resources of the dropped requirement
		flag := fmt.Sprintf("asked-%d", stepIdx)
		if _, ok := req.GetContext().GetFields()[flag]; !ok {
			rsp.Requirements = &fnv1.Requirements{ExtraResources: map[string]*fnv1.ResourceSelector{"one": byName("env-1")}}
		}
		if rsp.Context == nil {
			rsp.Context = ctx
		}
		ctx.Fields[flag] = structpb.NewStringValue("yes")
	case "name-then-labels":
		// round 1 asks for one by name; once it was supplied, additionally asks by labels
		if _, ok := req.GetExtraResources()["one"]; !ok {
			rsp.Requirements = &fnv1.Requirements{ExtraResources: map[string]*fnv1.ResourceSelector{"one": byName("env-2")}}
		} else {
			rsp.Requirements = &fnv1.Requirements{ExtraResources: map[string]*fnv1.ResourceSelector{"one": byName("env-2"), "gold": byLabels}}
		}
	}
	switch p.Result {
	case "normal":
		rsp.Results = []*fnv1.Result{{Severity: fnv1.Severity_SEVERITY_NORMAL, Message: fmt.Sprintf("result-step%d-extra%d", stepIdx, len(req.GetExtraResources()))}}
	case "warning":
		rsp.Results = []*fnv1.Result{{Severity: fnv1.Severity_SEVERITY_WARNING, Message: fmt.Sprintf("result-step%d-extra%d", stepIdx, len(req.GetExtraResources()))}}
	}
	if p.Cond != "" {
		msg := fmt.Sprintf("cond-step%d", stepIdx)
		rsp.Conditions = []*fnv1.Condition{{Type: p.Cond, Status: fnv1.Status_STATUS_CONDITION_TRUE, Reason: "FromFn", Message: &msg}}
	}
	return rsp
}

type stepCfg struct {
	Prog     progSpec `json:"prog"`
	Input    bool     `json:"input"`
	Creds    bool     `json:"creds"`
	BetaOnly bool     `json:"betaOnly"`
}

type tcase struct {
	Steps    []stepCfg `json:"steps"`
	EnvGold  []string  `json:"envGold"`      // which EnvThings carry tier=gold
	EnvZoneA []string  `json:"envZoneA"`     // which EnvThings carry zone=a
	FlipRev  int       `json:"flipRev"`      // function index whose active revision flips before reconcile 3 (-1 none)
	MoveEP   int       `json:"moveEndpoint"` // function index whose active revision's endpoint changes before reconcile 3 (-1)
	// Terminating: before reconcile 3 one composed resource is deleted while its provider still holds
	// a finalizer on it: it exists, terminating, and is still part of the observed state
	Terminating bool `json:"terminatingComposedResource,omitempty"`
	// EmptyEP: function index whose ACTIVE revision loses its endpoint before reconcile 3 (an upgrade
	// whose new runtime is not serving yet) while the runner still holds a connection to it (-1)
	EmptyEP int `json:"emptyEndpoint"`
	XRSecret bool      `json:"xrSecret"`
	CDSecret bool      `json:"cdSecret"`
}

func genCase(c *kit.Ctx, i int) tcase {
	r := c.Rng("case", i)
	names := []string{"a", "b", "c", "d"}
	t := tcase{FlipRev: -1, MoveEP: -1, EmptyEP: -1, XRSecret: r.IntN(2) == 0, CDSecret: r.IntN(2) == 0}
	ns := 1 + r.IntN(3)
	for s := 0; s < ns; s++ {
		p := progSpec{}
		for _, n := range names {
			switch r.IntN(4) {
			case 0:
				p.Add = append(p.Add, n)
			case 1:
				if s > 0 {
					p.Drop = append(p.Drop, n)
				}
			}
		}
		if s == 0 && len(p.Add) == 0 {
			p.Add = []string{"a"}
		}
		if r.IntN(2) == 0 {
			p.CtxKey = fmt.Sprintf("k%d", r.IntN(3))
		}
		p.DropCtx = r.IntN(6) == 0
		p.Req = []string{"", "", "name", "labels", "name-then-labels", "absent", "labels-then-name", "labels-narrowing", "name-then-none"}[r.IntN(9)]
		p.Result = []string{"", "normal", "warning"}[r.IntN(3)]
		if r.IntN(3) == 0 {
			p.Cond = fmt.Sprintf("Custom%d", r.IntN(2))
		}
		p.XRStatus = r.IntN(3) == 0
		t.Steps = append(t.Steps, stepCfg{Prog: p, Input: r.IntN(2) == 0, Creds: r.IntN(3) == 0, BetaOnly: r.IntN(5) == 0})
	}
	for _, e := range []string{"env-1", "env-2", "env-3"} {
		if r.IntN(3) > 0 {
			t.EnvGold = append(t.EnvGold, e)
		}
		if r.IntN(2) == 0 {
			t.EnvZoneA = append(t.EnvZoneA, e)
		}
	}
	if r.IntN(3) == 0 {
		t.FlipRev = r.IntN(ns)
	} else if r.IntN(3) == 0 {
		t.MoveEP = r.IntN(ns)
	}
	t.Terminating = r.IntN(3) == 0
	return t
}

// servers of one worker: per function index, two v1 servers (revisions A, B), one spare v1
// server (endpoint move) and one v1beta1-only server.
type worker struct {
	c    *kit.Ctx
	v1   [3][3]*xrk.FnServer
	beta [3]*xrk.FnServer
	mu   sync.Mutex
	cur  *tcase
	// fatalLast makes the last step of the pipeline add a fatal result to its response
	fatalLast atomic.Bool
}

func newWorker(c *kit.Ctx) *worker {
	w := &worker{c: c}
	for f := 0; f < 3; f++ {
		f := f
		h := func(req *fnv1.RunFunctionRequest) (*fnv1.RunFunctionResponse, error) {
			w.mu.Lock()
			t := w.cur
			w.mu.Unlock()
			rsp := evalProgram(t.Steps[f].Prog, f, req)
			if w.fatalLast.Load() && f == len(t.Steps)-1 {
				rsp.Results = append(rsp.Results, &fnv1.Result{Severity: fnv1.Severity_SEVERITY_FATAL, Message: "scripted fatal result of the last step"})
			}
			return rsp, nil
		}
		for k := 0; k < 3; k++ {
			w.v1[f][k] = xrk.NewFnServer(false)
			w.v1[f][k].Set(h)
		}
		w.beta[f] = xrk.NewFnServer(true)
		w.beta[f].Set(h)
	}
	return w
}

func (w *worker) drain() {
	for f := 0; f < 3; f++ {
		for k := 0; k < 3; k++ {
			w.v1[f][k].Take()
		}
		w.beta[f].Take()
	}
}

func b64(m map[string]any) map[string][]byte {
	out := map[string][]byte{}
	for k, v := range m {
		b, _ := base64.StdEncoding.DecodeString(fmt.Sprint(v))
		out[k] = b
	}
	return out
}

func secretDataOf(snap map[string]map[string]any, ns, name string) map[string][]byte {
	s := snap[sim.Key{Kind: "Secret", Namespace: ns, Name: name}.String()]
	if s == nil {
		return nil
	}
	d, _, _ := unstructured.NestedMap(s, "data")
	return b64(d)
}

func connOf(snap map[string]map[string]any, o map[string]any) map[string][]byte {
	ref, ok, _ := unstructured.NestedMap(o, "spec", "writeConnectionSecretToRef")
	if !ok {
		return nil
	}
	return secretDataOf(snap, sim.Str(ref, "namespace"), sim.Str(ref, "name"))
}

func mustStruct(m map[string]any) *structpb.Struct {
	s, err := structpb.NewStruct(runtime.DeepCopyJSON(m))
	if err != nil {
		panic(err)
	}
	return s
}

// normalize sorts extra-resource items by name: list order is not part of the contract.
func normalize(req *fnv1.RunFunctionRequest) *fnv1.RunFunctionRequest {
	r := proto.Clone(req).(*fnv1.RunFunctionRequest)
	for _, rs := range r.GetExtraResources() {
		sort.SliceStable(rs.Items, func(i, j int) bool {
			a, _ := rs.Items[i].GetResource().AsMap()["metadata"].(map[string]any)
			b, _ := rs.Items[j].GetResource().AsMap()["metadata"].(map[string]any)
			return fmt.Sprint(a["name"]) < fmt.Sprint(b["name"])
		})
	}
	if r.Meta != nil {
		r.Meta = nil
	}
	// empty vs nil containers are the same on the wire
	if r.Context == nil || len(r.Context.Fields) == 0 {
		r.Context = &structpb.Struct{}
	}
	return r
}

// reference computes, from the store snapshot taken when the pipeline starts, the request
// sequence each step must receive, and the expected final desired names / result messages.
type expectation struct {
	reqs     [][]*fnv1.RunFunctionRequest // per step
	final    []string
	messages []string
	conds    map[string]string
}

func reference(t *tcase, snap map[string]map[string]any) expectation {
	xr := snap[xrKey.String()]
	xrUID := sim.Str(xr, "metadata", "uid")
	obs := &fnv1.State{Composite: &fnv1.Resource{Resource: mustStruct(xr), ConnectionDetails: connOf(snap, xr)}, Resources: map[string]*fnv1.Resource{}}
	refs, _, _ := unstructured.NestedSlice(xr, "spec", "resourceRefs")
	for _, r := range refs {
		rm, _ := r.(map[string]any)
		gv := strings.SplitN(sim.Str(rm, "apiVersion"), "/", 2)
		k := sim.Key{Group: gv[0], Kind: sim.Str(rm, "kind"), Namespace: sim.Str(rm, "namespace"), Name: sim.Str(rm, "name")}
		o := snap[k.String()]
		if o == nil {
			continue
		}
		if ctl := sim.ControllerOf(o); ctl != nil && sim.Str(ctl, "uid") != xrUID {
			continue
		}
		ann, _, _ := unstructured.NestedStringMap(o, "metadata", "annotations")
		obs.Resources[ann[annResName]] = &fnv1.Resource{Resource: mustStruct(o), ConnectionDetails: connOf(snap, o)}
	}
	fetch := func(sel *fnv1.ResourceSelector) *fnv1.Resources {
		out := &fnv1.Resources{}
		for _, o := range snap {
			if sim.Str(o, "kind") != sel.GetKind() || sim.Str(o, "apiVersion") != sel.GetApiVersion() {
				continue
			}
			switch m := sel.GetMatch().(type) {
			case *fnv1.ResourceSelector_MatchName:
				if sim.Str(o, "metadata", "name") == m.MatchName {
					out.Items = append(out.Items, &fnv1.Resource{Resource: mustStruct(o)})
				}
			case *fnv1.ResourceSelector_MatchLabels:
				ls, _, _ := unstructured.NestedStringMap(o, "metadata", "labels")
				ok := true
				for k, v := range m.MatchLabels.GetLabels() {
					if ls[k] != v {
						ok = false
					}
				}
				if ok {
					out.Items = append(out.Items, &fnv1.Resource{Resource: mustStruct(o)})
				}
			}
		}
		return out
	}
	exp := expectation{conds: map[string]string{}}
	desired := &fnv1.State{}
	fctx := &structpb.Struct{Fields: map[string]*structpb.Value{}}
	var last *fnv1.RunFunctionResponse
	for si, st := range t.Steps {
		req := &fnv1.RunFunctionRequest{Observed: obs, Desired: desired, Context: fctx, Credentials: map[string]*fnv1.Credentials{}}
		if st.Input {
			req.Input = mustStruct(map[string]any{"apiVersion": "fn.ex.org/v1", "kind": "Input", "marker": fmt.Sprintf("input-%d", si)})
		}
		if st.Creds {
			req.Credentials["main"] = &fnv1.Credentials{Source: &fnv1.Credentials_CredentialData{CredentialData: &fnv1.CredentialData{Data: secretDataOf(snap, fmt.Sprintf("team-%d", si), "cloud-creds")}}}
			if si%2 == 1 {
				// odd steps list a source-None placeholder first and a second Secret last
				req.Credentials["second"] = &fnv1.Credentials{Source: &fnv1.Credentials_CredentialData{CredentialData: &fnv1.CredentialData{Data: secretDataOf(snap, fmt.Sprintf("team-%d", si), "extra-creds")}}}
			}
		}
		var prev *fnv1.Requirements
		var step []*fnv1.RunFunctionRequest
		var rsp *fnv1.RunFunctionResponse
		for round := 0; round < 8; round++ {
			step = append(step, proto.Clone(req).(*fnv1.RunFunctionRequest))
			rsp = evalProgram(st.Prog, si, req)
			if proto.Equal(rsp.GetRequirements(), prev) {
				break
			}
			prev = rsp.GetRequirements()
			req.ExtraResources = map[string]*fnv1.Resources{}
			for n, sel := range prev.GetExtraResources() {
				req.ExtraResources[n] = fetch(sel)
			}
			req.Context = rsp.GetContext()
		}
		exp.reqs = append(exp.reqs, step)
		desired, fctx, last = rsp.GetDesired(), rsp.GetContext(), rsp
		for _, rs := range rsp.GetResults() {
			exp.messages = append(exp.messages, rs.GetMessage())
		}
		for _, cd := range rsp.GetConditions() {
			exp.conds[cd.GetType()] = cd.GetMessage()
		}
	}
	for n := range last.GetDesired().GetResources() {
		exp.final = append(exp.final, n)
	}
	sort.Strings(exp.final)
	return exp
}

func (w *worker) run(i int, name string) {
	c := w.c
	t := genCase(c, i)
	w.mu.Lock()
	w.cur = &t
	w.mu.Unlock()
	ctx := context.Background()
	world := sim.NewWorld(xrk.Scheme(), uint64(c.Seed)*163+uint64(i))
	xrd := xrk.XRDObject(xrk.XRDOpts{Group: "ex.org", Kind: "XThing", Plural: "xthings"})
	world.MustSeed("user", xrd)
	// functions: revision A active, revision B inactive (listed first by name so that "first
	// revision" != "active revision")
	activeSrv := make([]*xrk.FnServer, len(t.Steps))
	var fnNames []string
	var inputs []map[string]any
	for f, st := range t.Steps {
		fn := fmt.Sprintf("fn-%d", f)
		fnNames = append(fnNames, fn)
		world.MustSeed("pkg", map[string]any{"apiVersion": "pkg.crossplane.io/v1", "kind": "Function", "metadata": map[string]any{"name": fn}, "spec": map[string]any{"package": "xpkg.example.org/fn/" + fn + ":v1"}})
		act := w.v1[f][0]
		if st.BetaOnly {
			act = w.beta[f]
		}
		activeSrv[f] = act
		world.MustSeedFull("pkg", xrk.FunctionRevision(fn, fn+"-a-old", w.v1[f][1].Addr, false, 1))
		world.MustSeedFull("pkg", xrk.FunctionRevision(fn, fn+"-b-new", act.Addr, true, 2))
		if st.Input {
			inputs = append(inputs, map[string]any{"apiVersion": "fn.ex.org/v1", "kind": "Input", "marker": fmt.Sprintf("input-%d", f)})
		} else {
			inputs = append(inputs, nil)
		}
	}
	comp := xrk.PipelineComposition("comp", "ex.org/v1", "XThing", fnNames, inputs)
	steps, _, _ := unstructured.NestedSlice(comp, "spec", "pipeline")
	user := world.Client("user")
	for f, st := range t.Steps {
		if st.Creds {
			// every step's credentials Secret has the same NAME, in a namespace of its own
			steps[f].(map[string]any)["credentials"] = []any{map[string]any{"name": "main", "source": "Secret", "secretRef": map[string]any{"namespace": fmt.Sprintf("team-%d", f), "name": "cloud-creds"}}}
			world.MustSeed("user", map[string]any{"apiVersion": "v1", "kind": "Secret", "metadata": map[string]any{"namespace": fmt.Sprintf("team-%d", f), "name": "cloud-creds"},
				"data": map[string]any{"token": base64.StdEncoding.EncodeToString([]byte(fmt.Sprintf("t%d", f)))}})
			if f%2 == 1 {
				// a placeholder without a source first, the step's main Secret, and a second Secret last
				cl := steps[f].(map[string]any)["credentials"].([]any)
				steps[f].(map[string]any)["credentials"] = append(append([]any{map[string]any{"name": "placeholder", "source": "None"}}, cl...),
					map[string]any{"name": "second", "source": "Secret", "secretRef": map[string]any{"namespace": fmt.Sprintf("team-%d", f), "name": "extra-creds"}})
				world.MustSeed("user", map[string]any{"apiVersion": "v1", "kind": "Secret", "metadata": map[string]any{"namespace": fmt.Sprintf("team-%d", f), "name": "extra-creds"},
					"data": map[string]any{"token": base64.StdEncoding.EncodeToString([]byte(fmt.Sprintf("x%d", f)))}})
			}
		}
	}
	_ = unstructured.SetNestedSlice(comp, steps, "spec", "pipeline")
	world.MustSeed("user", comp)
	if err := xrk.ReconcileComposition(world, "comp"); err != nil {
		panic(err)
	}
	for _, e := range []string{"env-1", "env-2", "env-3"} {
		o := map[string]any{"apiVersion": "nop.ex.org/v1", "kind": "EnvThing", "metadata": map[string]any{"name": e}, "spec": map[string]any{"v": e}}
		ls := map[string]any{}
		for _, g := range t.EnvGold {
			if g == e {
				ls["tier"] = "gold"
			}
		}
		for _, g := range t.EnvZoneA {
			if g == e {
				ls["zone"] = "a"
			}
		}
		if len(ls) > 0 {
			o["metadata"].(map[string]any)["labels"] = ls
		}
		world.MustSeed("user", o)
	}
	xrSpec := map[string]any{"size": int64(i % 7)}
	if t.XRSecret {
		xrSpec["writeConnectionSecretToRef"] = map[string]any{"name": "xr-conn", "namespace": "crossplane-system"}
		world.MustSeed("user", map[string]any{"apiVersion": "v1", "kind": "Secret", "type": "connection.crossplane.io/v1alpha1", "metadata": map[string]any{"namespace": "crossplane-system", "name": "xr-conn"},
			"data": map[string]any{"xrkey": base64.StdEncoding.EncodeToString([]byte("xrval"))}})
	}
	world.MustSeed("user", xrk.XRObject("ex.org/v1", "XThing", "xr1", "comp", xrSpec))
	var env *xrk.XREnv
	if i%3 == 2 {
		// the XR controller's informer cache has not (yet) seen any composed resource: every read of
		// a composed kind misses the cache and must fall back to the API server
		cached := world.LaggingClient("xr", func(gk schema.GroupKind) (int64, bool) { return 1 << 40, gk.Group == "nop.ex.org" && gk.Kind != "EnvThing" })
		env = xrk.NewXREnvSplit(world, xrk.XRDTyped(xrd), cached, world.Client("xr"))
		c.Count("cases_composed_kinds_behind_cache", 1)
	} else {
		env = xrk.NewXREnv(world, xrk.XRDTyped(xrd))
	}
	defer env.CloseConns()

	fail := func(key, what string, wit any) { c.Violate(key, name, what, wit) }

	// snapshot hook: the store as it is when the pipeline starts (first FunctionRevision list)
	var snap map[string]map[string]any
	armed := false
	world.AddHook(func(v *sim.View, ev *sim.Event) {
		if armed && snap == nil && ev.Actor == "xr" && ev.Verb == "list" && ev.Key.Kind == "FunctionRevision" {
			snap = map[string]map[string]any{}
			for _, k := range v.Keys() {
				snap[k.String()] = runtime.DeepCopyJSON(v.Get(k))
			}
		}
	})

	var lastExp *expectation
	for rec := 0; rec < 4; rec++ {
		if rec == 2 {
			// the cluster changes between reconciles: a composed resource gets a connection secret
			if t.CDSecret {
				for _, o := range world.ListObjs(sim.Key{Group: "nop.ex.org", Kind: "NopA"}.GK()) {
					u := &unstructured.Unstructured{Object: o}
					_ = unstructured.SetNestedMap(u.Object, map[string]any{"name": "cd-conn-" + u.GetName(), "namespace": "crossplane-system"}, "spec", "writeConnectionSecretToRef")
					_ = user.Update(ctx, u)
					world.MustSeed("user", map[string]any{"apiVersion": "v1", "kind": "Secret", "metadata": map[string]any{"namespace": "crossplane-system", "name": "cd-conn-" + u.GetName()},
						"data": map[string]any{"cdkey": base64.StdEncoding.EncodeToString([]byte("v-" + u.GetName()))}})
				}
			}
		}
		if rec == 3 && t.Terminating {
			for _, o := range world.ListObjs(sim.Key{Group: "nop.ex.org", Kind: "NopA"}.GK()) {
				u := &unstructured.Unstructured{Object: o}
				u.SetFinalizers([]string{"provider.ex.org/finalizer"})
				if err := world.Client("provider").Update(ctx, u); err == nil {
					_ = user.Delete(ctx, u)
					c.Count("composed_resources_left_terminating", 1)
				}
				break
			}
		}
		if rec == 3 {
			if f := t.FlipRev; f >= 0 && !t.Steps[f].BetaOnly {
				// the old revision becomes active again (rollback): requests must move to its server
				fn := fmt.Sprintf("fn-%d", f)
				for _, rn := range []string{fn + "-a-old", fn + "-b-new"} {
					o := &unstructured.Unstructured{Object: world.GetObj(sim.Key{Group: "pkg.crossplane.io", Kind: "FunctionRevision", Name: rn})}
					st := "Active"
					if rn == fn+"-b-new" {
						st = "Inactive"
					}
					_ = unstructured.SetNestedField(o.Object, st, "spec", "desiredState")
					_ = user.Update(ctx, o)
				}
				activeSrv[f] = w.v1[f][1]
			}
			if f := t.MoveEP; f >= 0 && !t.Steps[f].BetaOnly {
				fn := fmt.Sprintf("fn-%d", f)
				o := &unstructured.Unstructured{Object: world.GetObj(sim.Key{Group: "pkg.crossplane.io", Kind: "FunctionRevision", Name: fn + "-b-new"})}
				_ = unstructured.SetNestedField(o.Object, w.v1[f][2].Addr, "status", "endpoint")
				_ = world.Client("pkg").Status().Update(ctx, o)
				activeSrv[f] = w.v1[f][2]
			}
		}
		w.drain()
		snap = nil
		armed = rec >= 1
		evFrom := env.Rec.Len()
		logFrom := world.LogLen()
		_, rerr, _ := env.Reconcile("xr1")
		armed = false
		if rec == 0 {
			continue // first reconcile: the in-memory XR differs from the stored one (finalizer, refs being set)
		}
		if snap == nil {
			fail("harness:pipeline-not-started", fmt.Sprintf("reconcile %d err=%v", rec, rerr), t)
			return
		}
		exp := reference(&t, snap)
		lastExp = nil
		if rerr == nil {
			lastExp = &exp
		}
		wit := func(extra map[string]any) any {
			m := map[string]any{"case": t, "reconcile": rec, "reconcile_error": fmt.Sprint(rerr)}
			for k, v := range extra {
				m[k] = v
			}
			return m
		}
		for f := range t.Steps {
			got := activeSrv[f].Take()
			// no other revision's server may have been called
			for k := 0; k < 3; k++ {
				if w.v1[f][k] != activeSrv[f] {
					if n := len(w.v1[f][k].Take()); n > 0 {
						fail("request-sent-to-non-active-revision", fmt.Sprintf("step %d: %d requests reached a server that is not the active revision's endpoint", f, n), wit(nil))
					}
				}
			}
			if w.beta[f] != activeSrv[f] {
				if n := len(w.beta[f].Take()); n > 0 {
					fail("request-sent-to-non-active-revision", fmt.Sprintf("step %d: %d requests reached the v1beta1 server though it is not active", f, n), wit(nil))
				}
			}
			want := exp.reqs[f]
			if len(got) != len(want) {
				fail("step-request-count-differs", fmt.Sprintf("step %d received %d requests, the contract implies %d (requirement rounds)", f, len(got), len(want)), wit(map[string]any{"step": f}))
				continue
			}
			for k := range want {
				g, wnt := normalize(got[k]), normalize(want[k])
				if proto.Equal(g, wnt) {
					continue
				}
				part := "other"
				switch {
				case !proto.Equal(g.GetObserved(), wnt.GetObserved()):
					part = "observed"
				case !proto.Equal(g.GetDesired(), wnt.GetDesired()):
					part = "desired"
				case !proto.Equal(g.GetContext(), wnt.GetContext()):
					part = "context"
				case !proto.Equal(g.GetInput(), wnt.GetInput()):
					part = "input"
				case fmt.Sprint(g.GetCredentials()) != fmt.Sprint(wnt.GetCredentials()):
					part = "credentials"
				case fmt.Sprint(g.GetExtraResources()) != fmt.Sprint(wnt.GetExtraResources()):
					part = "extra-resources"
				}
				fail("step-request-differs:"+part, fmt.Sprintf("step %d round %d: the %s the function received differs from what the contract promises", f, k, part),
					wit(map[string]any{"step": f, "round": k, "got_summary": summarize(got[k]), "want_summary": summarize(want[k])}))
				break
			}
			c.Count("requests_compared", int64(len(want)))
			if len(want) > 1 {
				c.Count("steps_with_requirement_rounds", 1)
			}
		}
		if rerr == nil {
			// final desired = last step's output: exactly these resource names are applied
			applied := map[string]bool{}
			for _, e := range world.Log(logFrom) {
				if e.Key.Group == "nop.ex.org" && e.Key.Kind == "NopA" && e.Verb == "patch" && e.PatchType == "application/apply-patch+yaml" && e.Body != nil {
					ann, _, _ := unstructured.NestedStringMap(e.Body, "metadata", "annotations")
					applied[ann[annResName]] = true
				}
			}
			var got []string
			for n := range applied {
				got = append(got, n)
			}
			sort.Strings(got)
			if strings.Join(got, ",") != strings.Join(exp.final, ",") {
				fail("applied-set-differs-from-last-step-output", fmt.Sprintf("applied resource names %v, last step's desired %v", got, exp.final), wit(nil))
			}
			// results surfaced in pipeline order, none dropped
			var msgs []string
			for _, e := range env.Rec.Events(evFrom) {
				for _, m := range exp.messages {
					if strings.Contains(e.Message, m) {
						msgs = append(msgs, m)
					}
				}
			}
			if strings.Join(msgs, "|") != strings.Join(exp.messages, "|") {
				fail("results-dropped-or-reordered", fmt.Sprintf("events carry %v, pipeline produced %v", msgs, exp.messages), wit(nil))
			}
			xr := world.GetObj(xrKey)
			conds, _, _ := unstructured.NestedSlice(xr, "status", "conditions")
			for typ, msg := range exp.conds {
				found := false
				for _, cd := range conds {
					m, _ := cd.(map[string]any)
					if m["type"] == typ && m["message"] == msg {
						found = true
					}
				}
				if !found {
					fail("condition-dropped", fmt.Sprintf("custom condition %s (%s) of the pipeline is not on the XR: %v", typ, msg, conds), wit(nil))
				}
			}
		}
	}
	// a later step ends the pipeline with a fatal result: the conditions the earlier responses (and
	// that response) asserted are still surfaced with the status they asserted - none is dropped
	// or degraded to Unknown
	if lastExp != nil && len(lastExp.conds) > 0 {
		w.fatalLast.Store(true)
		w.drain()
		_, _, _ = env.Reconcile("xr1")
		w.fatalLast.Store(false)
		xr := world.GetObj(xrKey)
		conds, _, _ := unstructured.NestedSlice(xr, "status", "conditions")
		for typ := range lastExp.conds {
			st := "<absent>"
			for _, cd := range conds {
				if m, _ := cd.(map[string]any); m["type"] == typ {
					st = fmt.Sprint(m["status"])
				}
			}
			if st != "True" {
				fail("condition-dropped-by-fatal-tail", fmt.Sprintf("custom condition %s was asserted True by a step of the reconcile whose last step returned a fatal result, the XR shows status %s: %v", typ, st, conds), t)
			}
		}
		c.Count("fatal_tail_reconciles", 1)
		// back to a healthy pipeline
		_, _, _ = env.Reconcile("xr1")
	}
	// the composed kind is momentarily not served (discovery answers NoKindMatch) while the XR's
	// composed resources are observed: whatever the reconcile does then, a function it calls is
	// still handed EVERY existing composed resource of the XR
	{
		ff := func(_ int, verb string, k sim.Key) sim.Outcome {
			if verb == "get" && k.Group == "nop.ex.org" && k.Kind == "NopA" {
				return sim.NotServed
			}
			return sim.OK
		}
		w.drain()
		snap = nil
		armed = true
		env.C.FaultFn, env.UC.FaultFn = ff, ff
		_, rerr, _ := env.Reconcile("xr1")
		env.C.FaultFn, env.UC.FaultFn = nil, nil
		armed = false
		c.Count("unserved_observation_reconciles", 1)
		if snap != nil {
			exp := reference(&t, snap)
			for f := range t.Steps {
				got := activeSrv[f].Take()
				if len(got) == 0 || len(exp.reqs[f]) == 0 {
					continue
				}
				c.Count("unserved_observation_requests_compared", 1)
				if g, wnt := normalize(got[0]), normalize(exp.reqs[f][0]); !proto.Equal(g.GetObserved(), wnt.GetObserved()) {
					fail("step-request-differs:observed:composed-kind-not-served", fmt.Sprintf("step %d was called (reconcile err %v) while reads of the composed kind answered NoKindMatch; the observed state it received differs from the XR's existing composed resources", f, rerr),
						map[string]any{"case": t, "got_summary": summarize(got[0]), "want_summary": summarize(exp.reqs[f][0])})
					break
				}
			}
		}
		w.drain()
		_, _, _ = env.Reconcile("xr1")
	}
	// the runtime behind fn-0's endpoint is upgraded in place: first it only speaks v1beta1, then
	// only v1 (the endpoint - a Service named after the function - and the revision stay the same)
	if len(t.Steps) > 0 && !t.Steps[0].BetaOnly && activeSrv[0] != nil {
		srv := activeSrv[0]
		for _, mode := range []int32{xrk.ServeBetaOnly, xrk.ServeV1Only, xrk.ServeAsRegistered} {
			srv.Serve.Store(mode)
			w.drain()
			_, rerr, _ := env.Reconcile("xr1")
			if got := len(srv.Take()); got == 0 {
				fail("function-unreachable-after-runtime-upgrade-in-place", fmt.Sprintf("fn-0's runtime now answers %s at the same endpoint, but a reconcile delivered no request to it (err %v)", map[int32]string{xrk.ServeBetaOnly: "only v1beta1", xrk.ServeV1Only: "only v1", xrk.ServeAsRegistered: "v1 and v1beta1"}[mode], rerr), t)
			}
			c.Count("runtime_upgrade_in_place_reconciles", 1)
		}
	}
	// the active revision of fn-0 loses its endpoint (its new runtime is not serving yet) while the
	// runner still holds a connection from earlier reconciles: no runtime may be called for it
	if len(t.Steps) > 0 {
		for _, rn := range []string{"fn-0-a-old", "fn-0-b-new"} {
			ro := world.GetObj(sim.Key{Group: "pkg.crossplane.io", Kind: "FunctionRevision", Name: rn})
			if sim.Str(ro, "spec", "desiredState") != "Active" {
				continue
			}
			ep := sim.Str(ro, "status", "endpoint")
			u := &unstructured.Unstructured{Object: ro}
			unstructured.RemoveNestedField(u.Object, "status", "endpoint")
			if err := world.Client("pkg").Status().Update(ctx, u); err != nil {
				panic(err)
			}
			w.drain()
			_, rerr, _ := env.Reconcile("xr1")
			n := len(w.beta[0].Take())
			for k := 0; k < 3; k++ {
				n += len(w.v1[0][k].Take())
			}
			if n > 0 {
				fail("request-sent-to-non-active-revision:active-revision-has-no-endpoint", fmt.Sprintf("the active revision %s of fn-0 has no endpoint, yet %d request(s) reached a runtime of fn-0 (reconcile error: %v)", rn, n, rerr), t)
			}
			c.Count("endpointless_active_revision_reconciles", 1)
			u = &unstructured.Unstructured{Object: world.GetObj(sim.Key{Group: "pkg.crossplane.io", Kind: "FunctionRevision", Name: rn})}
			_ = unstructured.SetNestedField(u.Object, ep, "status", "endpoint")
			if err := world.Client("pkg").Status().Update(ctx, u); err != nil {
				panic(err)
			}
			_, _, _ = env.Reconcile("xr1")
		}
	}
	// uninstalling a function closes its connection
	if len(t.Steps) > 0 {
		fn := &unstructured.Unstructured{Object: world.GetObj(sim.Key{Group: "pkg.crossplane.io", Kind: "Function", Name: "fn-0"})}
		_ = user.Delete(ctx, fn)
		n, err := env.Runner.GarbageCollectConnectionsNow(ctx)
		if err != nil || n != 1 {
			fail("connection-not-closed-after-uninstall", fmt.Sprintf("GarbageCollectConnectionsNow closed %d connections (err %v) after fn-0 was uninstalled, want 1", n, err), t)
		}
		// ... and installing it again (same name, same endpoint) makes it reachable again
		world.MustSeed("pkg", map[string]any{"apiVersion": "pkg.crossplane.io/v1", "kind": "Function", "metadata": map[string]any{"name": "fn-0"}, "spec": map[string]any{"package": "xpkg.example.org/fn/fn-0:v1"}})
		w.drain()
		_, rerr, _ := env.Reconcile("xr1")
		if got := len(activeSrv[0].Take()); got == 0 {
			fail("function-unreachable-after-reinstall", fmt.Sprintf("after fn-0 was uninstalled, its connection collected and fn-0 installed again, a reconcile sent it no request (err %v)", rerr), t)
		}
		c.Count("reinstall_reconciles", 1)
	}
	changed := false
	rounds := false
	for _, st := range t.Steps {
		if len(st.Prog.Add)+len(st.Prog.Drop) > 0 || st.Prog.CtxKey != "" {
			changed = true
		}
		if st.Prog.Req != "" {
			rounds = true
		}
	}
	c.Eval(kit.JSON(t), (len(t.Steps) >= 2 || rounds) && changed)
	c.Count("cases", 1)
	if c.WantSample() && len(t.Steps) >= 2 && rounds {
		c.Sample(map[string]any{"case": t})
	}
}

var _ = rand.Int

func main() {
	c := kit.New("C04", "exploration")
	c.Rule = "generated pipelines of 1-3 steps; each step's function is a deterministic program of its request (adds resources whose content digests what it was given - observed names, desired names, context, extra resources, input, credentials -, drops resources, rewrites or drops context, requires extra resources by name / by labels / absent / changing between rounds, emits results and custom conditions, sets XR status), served by real gRPC servers: one per function revision (active + inactive, listed so that first != active), some v1beta1-only; cluster contents for selectors vary; between reconciles composed resources gain connection secrets, the active revision flips or its endpoint moves; finally a function is uninstalled; plus a concurrent stress of the PackagedFunctionRunner (8 callers x 150 calls while endpoints move, functions are uninstalled/re-installed and connections are collected; every response must come from an endpoint that was active during the call; the thorough tier is built with the Go race detector). A reference interpreter (contract from the property text + the same programs + the store snapshot taken at pipeline start) predicts every request of reconciles 2-4; compared with proto.Equal (extra-resource item order normalised). distinct = the case; non-trivial = (>=2 steps or requirement rounds) and a step changed desired or context."
	c.Rule += " After the four reconciles: one reconcile whose last step adds a fatal result (conditions asserted in it must still be True), then uninstall + connection collection + re-install of fn-0 (it must be reached again)."
	c.Rule += " " + "A runtime upgraded in place behind an unchanged endpoint (v1 <-> v1beta1 only) must keep being served; a Terminating composed resource stays in the observed state."
	c.Rule += " " + "Programs may return no context at all, and may shrink their requirements to nothing."
	c.Rule += " " + "A third of the cases with composed kinds behind the XR controller's cache (reconciler built through the real CompositeReconcilerOptions)."
	c.Rule += " " + "One reconcile during which reads of the composed kind answer NoKindMatch: a function that is called all the same receives every existing composed resource."
	c.Rule += " " + "Interleave part: two XRs reconciled by one reconciler, the first parked before each of its API calls while the second completes; per XR the surfaced results (order, none dropped, none foreign), custom conditions and composed resources equal the sequential run."
	c.Assumptions = []string{"programs are test inputs executed by both sides; the contract (threading, rounds, observed construction) is written from the property statement", "the first reconcile of an XR is not judged (in-memory XR differs from the stored one)"}
	c.Floor = 100
	n := c.N(600, 12000)
	if os.Getenv("VERIF_RACE_LOG") != "" && c.Thorough() {
		n = 3000 // the thorough tier is built with the race detector (about 5x slower)
	}
	if err := kit.Try(func() { runInterleave(c) }); err != nil {
		c.Violate("panic:interleave", "interleave", err.Error(), nil)
	}
	if err := kit.Try(func() { stress(c) }); err != nil {
		c.Violate("panic:stress", "stress", err.Error(), nil)
	}
	ch := make(chan int)
	var wg sync.WaitGroup
	for wk := 0; wk < 6; wk++ {
		wg.Add(1)
		go func() {
			defer wg.Done()
			w := newWorker(c)
			for i := range ch {
				name := fmt.Sprintf("pipe/%d", i)
				if !c.Want(name) {
					continue
				}
				if err := kit.Try(func() { w.run(i, name) }); err != nil {
					c.Violate("panic", name, err.Error(), nil)
				}
			}
		}()
	}
	for i := 0; i < n; i++ {
		ch <- i
	}
	close(ch)
	wg.Wait()
	c.Finish()
}
