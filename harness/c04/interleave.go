// Two XRs reconciled by ONE reconciler (one function composer), interleaved (C04).
//go:build verif

package main

import (
	"context"
	"fmt"
	"strings"

	"google.golang.org/protobuf/types/known/structpb"
	"k8s.io/apimachinery/pkg/apis/meta/v1/unstructured"
	"k8s.io/apimachinery/pkg/types"
	"sigs.k8s.io/controller-runtime/pkg/reconcile"

	fnv1 "github.com/crossplane/crossplane/apis/apiextensions/fn/proto/v1"
	"github.com/crossplane/crossplane/verifh/kit"
	"github.com/crossplane/crossplane/verifh/sim"
	"github.com/crossplane/crossplane/verifh/xrk"
)

// runInterleave: the XR controller's workers share one reconciler and one function composer.
// Two XRs of one XRD run a pipeline of 2-3 steps; every step returns a result and a custom
// condition that name the XR and the step, and one composed resource whose content digests the
// desired state it was handed. The reconcile of xr-a is parked before each of its API calls
// (among them the function-revision lookup in front of every step) while xr-b is reconciled to
// completion. Per XR: the results surfaced as events (in pipeline order, none dropped, none of
// the other XR), the custom conditions and the composed resources equal those of the sequential
// run.
func runInterleave(c *kit.Ctx) {
	for i := 0; i < c.N(3, 8); i++ {
		caseName := fmt.Sprintf("interleave/%d", i)
		if !c.Want(caseName) {
			continue
		}
		steps := 2 + i%2
		w := sim.NewWorld(xrk.Scheme(), uint64(c.Seed)*613+uint64(i))
		xrd := xrk.XRDObject(xrk.XRDOpts{Group: "ex.org", Kind: "XThing", Plural: "xthings"})
		w.MustSeed("user", xrd)
		var fns []*xrk.FnServer
		var names []string
		for s := 0; s < steps; s++ {
			step := s
			fs := xrk.NewFnServer(false)
			fs.Set(func(req *fnv1.RunFunctionRequest) (*fnv1.RunFunctionResponse, error) {
				xr := sim.Str(req.GetObserved().GetComposite().GetResource().AsMap(), "metadata", "name")
				d := req.GetDesired()
				if d == nil {
					d = &fnv1.State{}
				}
				if d.Resources == nil {
					d.Resources = map[string]*fnv1.Resource{}
				}
				var had []string
				for n := range d.Resources {
					had = append(had, n)
				}
				o := map[string]any{"apiVersion": "nop.ex.org/v1", "kind": "NopA", "spec": map[string]any{"forProvider": map[string]any{"v": fmt.Sprintf("%s-step%d-after-%d", xr, step, len(had))}}}
				st, _ := structpb.NewStruct(o)
				d.Resources[fmt.Sprintf("r%d", step)] = &fnv1.Resource{Resource: st, Ready: fnv1.Ready_READY_TRUE}
				msg := fmt.Sprintf("result of step %d for %s", step, xr)
				return &fnv1.RunFunctionResponse{Desired: d,
					Results:    []*fnv1.Result{{Severity: fnv1.Severity_SEVERITY_NORMAL, Message: msg}},
					Conditions: []*fnv1.Condition{{Type: fmt.Sprintf("Step%dRan", step), Status: fnv1.Status_STATUS_CONDITION_TRUE, Reason: "Ran", Message: &msg}},
				}, nil
			})
			fns = append(fns, fs)
			n := fmt.Sprintf("fn-%d", s)
			names = append(names, n)
			for _, o := range xrk.FunctionObjects(n, fs.Addr) {
				w.MustSeedFull("pkg", o)
			}
		}
		w.MustSeed("user", xrk.PipelineComposition("comp", "ex.org/v1", "XThing", names, nil))
		if err := xrk.ReconcileComposition(w, "comp"); err != nil {
			panic(err)
		}
		for _, n := range []string{"xr-a", "xr-b"} {
			w.MustSeed("user", xrk.XRObject("ex.org/v1", "XThing", n, "comp", map[string]any{"size": int64(1)}))
		}
		env := xrk.NewXREnv(w, xrk.XRDTyped(xrd))
		rec := func(n string) func() {
			return func() {
				_, _ = env.R.Reconcile(context.Background(), reconcile.Request{NamespacedName: types.NamespacedName{Name: n}})
			}
		}
		for k := 0; k < 2; k++ {
			rec("xr-a")()
			rec("xr-b")()
		}
		evFrom := env.Rec.Len()
		digest := func(w *sim.World) map[string]string {
			out := map[string]string{}
			// results surfaced for each XR since the last digest, in order
			per := map[string][]string{}
			for _, e := range env.Rec.Events(evFrom) {
				if strings.HasPrefix(e.Message, "result of step") || strings.Contains(e.Message, "result of step") {
					per[e.Name] = append(per[e.Name], e.Message[strings.Index(e.Message, "result of step"):])
				}
			}
			evFrom = env.Rec.Len()
			for _, n := range []string{"xr-a", "xr-b"} {
				out["events/"+n] = strings.Join(per[n], " | ")
				xr := w.GetObj(sim.Key{Group: "ex.org", Kind: "XThing", Name: n})
				conds, _, _ := unstructured.NestedSlice(xr, "status", "conditions")
				var cs []string
				for _, cd := range conds {
					if m, ok := cd.(map[string]any); ok && strings.HasPrefix(fmt.Sprint(m["type"]), "Step") {
						cs = append(cs, fmt.Sprintf("%v=%v(%v)", m["type"], m["status"], m["message"]))
					}
				}
				out["conditions/"+n] = strings.Join(cs, " | ")
			}
			for _, o := range w.ListObjs(sim.Key{Group: "nop.ex.org", Kind: "NopA"}.GK()) {
				out["NopA/"+sim.Str(o, "metadata", "name")] = kit.JSON(o["spec"])
			}
			return out
		}
		points, parked, diffs := xrk.InterleaveVsSequential(w, env.C, rec("xr-a"), rec("xr-b"), digest, nil)
		env.CloseConns()
		for _, fs := range fns {
			fs.Close()
		}
		c.Eval(caseName, parked > 0)
		c.Count("interleave_preemption_points", int64(points))
		c.Count("interleave_runs_that_parked", int64(parked))
		for _, d := range diffs {
			c.Violate("interleaved-xr-reconciles-differ-from-sequential:"+strings.SplitN(d.Key, "/", 2)[0], caseName,
				fmt.Sprintf("reconcile of xr-a parked before %s while xr-b was reconciled by the same reconciler: %s differs from the sequential run", d.Point, d.Key), d)
			break
		}
	}
}
