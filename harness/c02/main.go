//go:build verif

// C02: Crossplane never modifies, adopts or deletes what another owner controls.
// Each site where a controller writes on behalf of an owner is run twice: a PROBE run in a
// clean world records which objects the controller creates; then, for every such object, a
// fresh world is prepared in which an object with that kind and name already exists under a
// FOREIGN controller reference (or uncontrolled, or controlled by the owner) and the real
// controller is run again. Composed resources (random names) are handled by re-parenting an
// object after the first composition. The oracle is a byte-for-byte diff of the foreign object
// plus the write log, and that the conflict is surfaced.
package main

import (
	"os"
	"encoding/base64"
	"context"
	"fmt"
	"reflect"
	"sort"
	"strings"
	"sync"

	"google.golang.org/protobuf/types/known/structpb"
	appsv1 "k8s.io/api/apps/v1"
	corev1 "k8s.io/api/core/v1"
	metav1 "k8s.io/apimachinery/pkg/apis/meta/v1"
	"k8s.io/apimachinery/pkg/apis/meta/v1/unstructured"
	"k8s.io/apimachinery/pkg/runtime"
	"k8s.io/apimachinery/pkg/runtime/schema"
	"k8s.io/apimachinery/pkg/types"
	"sigs.k8s.io/controller-runtime/pkg/client"
	"sigs.k8s.io/controller-runtime/pkg/reconcile"

	fnv1 "github.com/crossplane/crossplane/apis/apiextensions/fn/proto/v1"
	pkgv1 "github.com/crossplane/crossplane/apis/pkg/v1"
	"github.com/crossplane/crossplane/internal/controller/apiextensions/definition"
	"github.com/crossplane/crossplane/internal/controller/apiextensions/offered"
	pkgmanager "github.com/crossplane/crossplane/internal/controller/pkg/manager"
	"github.com/crossplane/crossplane/internal/controller/pkg/revision"
	rbacdefinition "github.com/crossplane/crossplane/internal/controller/rbac/definition"
	"github.com/crossplane/crossplane/internal/controller/rbac/provider/binding"
	"github.com/crossplane/crossplane/internal/controller/rbac/provider/roles"
	"github.com/crossplane/crossplane/internal/xpkg"
	"github.com/crossplane/crossplane/verifh/kit"
	"github.com/crossplane/crossplane/verifh/sim"
	"github.com/crossplane/crossplane/verifh/xrk"
)

var ctx = context.Background()

const annResName = "crossplane.io/composition-resource-name"

// outcome of running a site once.
type outcome struct {
	errs     []error
	warnings int
	unsynced bool
}

func (o outcome) surfaced() bool {
	for _, e := range o.errs {
		if e != nil {
			return true
		}
	}
	return o.warnings > 0 || o.unsynced
}

// site is one place where a controller writes objects on behalf of an owner.
type site struct {
	name   string
	actors map[string]bool // actors whose writes are judged
	setup  func(w *sim.World, r *siteRng)
	run    func(w *sim.World) outcome
	// retire, if set, moves the legitimate owner into its retired (still existing) state, e.g. a
	// provider revision made Inactive whose deployment is gone; the site then runs once more
	retire func(w *sim.World)
}

type siteRng struct{ suffix string }

func countWarnings(rec *xrk.Recorder, from int) int {
	n := 0
	for _, e := range rec.Events(from) {
		if e.Type == "Warning" {
			n++
		}
	}
	return n
}

func nopObj(kind, val string) map[string]any {
	return map[string]any{"apiVersion": "nop.ex.org/v1", "kind": kind, "spec": map[string]any{"forProvider": map[string]any{"v": val}}}
}

func xrd(sfx string, claim bool) map[string]any {
	o := xrk.XRDOpts{Group: "ex" + sfx + ".org", Kind: "XThing", Plural: "xthings"}
	if claim {
		o.ClaimKind, o.ClaimPlural = "Thing", "things"
	}
	return xrk.XRDObject(o)
}

func xrSynced(w *sim.World, group string) bool {
	for _, xr := range w.ListObjs(sim.Key{Group: group, Kind: "XThing"}.GK()) {
		cs, _, _ := unstructured.NestedSlice(xr, "status", "conditions")
		for _, c := range cs {
			if m, ok := c.(map[string]any); ok && m["type"] == "Synced" && m["status"] == "False" {
				return true
			}
		}
	}
	return false
}

var fnServer = xrk.Fn(0)
var fnMu sync.Mutex

func sites() []site {
	var out []site

	// --- XRD controllers defining CRDs ---
	out = append(out, site{name: "definition-composite-crd", actors: map[string]bool{"definition": true},
		setup: func(w *sim.World, r *siteRng) { w.MustSeed("user", xrd(r.suffix, false)) },
		run: func(w *sim.World) outcome {
			rec := xrk.NewRecorder()
			c := w.Client("definition")
			rc := definition.NewReconciler(definition.NewClientApplicator(c), definition.WithControllerEngine(xrk.NewCapturingEngine(w, w.Client("xr"))), definition.WithRecorder(rec), definition.WithOptions(xrk.Options(false)))
			var o outcome
			for _, d := range w.ListObjs(sim.Key{Group: "apiextensions.crossplane.io", Kind: "CompositeResourceDefinition"}.GK()) {
				for i := 0; i < 2; i++ {
					_, err := rc.Reconcile(ctx, reconcile.Request{NamespacedName: types.NamespacedName{Name: sim.Str(d, "metadata", "name")}})
					o.errs = append(o.errs, err)
					xrk.EstablishCRDs(w)
				}
			}
			o.warnings = countWarnings(rec, 0)
			return o
		}})
	out = append(out, site{name: "offered-claim-crd", actors: map[string]bool{"offered": true},
		setup: func(w *sim.World, r *siteRng) { w.MustSeed("user", xrd(r.suffix, true)) },
		run: func(w *sim.World) outcome {
			rec := xrk.NewRecorder()
			c := w.Client("offered")
			rc := offered.NewReconciler(offered.NewClientApplicator(c), offered.WithControllerEngine(xrk.NewCapturingEngine(w, w.Client("claim"))), offered.WithRecorder(rec), offered.WithOptions(xrk.Options(false)))
			var o outcome
			for _, d := range w.ListObjs(sim.Key{Group: "apiextensions.crossplane.io", Kind: "CompositeResourceDefinition"}.GK()) {
				for i := 0; i < 2; i++ {
					_, err := rc.Reconcile(ctx, reconcile.Request{NamespacedName: types.NamespacedName{Name: sim.Str(d, "metadata", "name")}})
					o.errs = append(o.errs, err)
					xrk.EstablishCRDs(w)
				}
			}
			o.warnings = countWarnings(rec, 0)
			return o
		}})

	// --- package manager creating a revision ---
	out = append(out, site{name: "pkg-manager-revision", actors: map[string]bool{"pkgmgr": true},
		setup: func(w *sim.World, r *siteRng) {
			w.MustSeed("user", map[string]any{"apiVersion": "pkg.crossplane.io/v1", "kind": "Provider", "metadata": map[string]any{"name": "prov" + r.suffix},
				"spec": map[string]any{"package": "xpkg.example.org/acme/prov" + r.suffix + ":v1.0.0", "revisionActivationPolicy": "Automatic", "revisionHistoryLimit": int64(1), "packagePullPolicy": "IfNotPresent"}})
		},
		run: func(w *sim.World) outcome {
			rec := xrk.NewRecorder()
			c := w.Client("pkgmgr")
			rc := pkgmanager.NewReconciler(xrk.NewManager(w, gvkKeeping{c}),
				pkgmanager.WithNewPackageFn(func() pkgv1.Package { return &pkgv1.Provider{} }),
				pkgmanager.WithNewPackageRevisionFn(func() pkgv1.PackageRevision { return &pkgv1.ProviderRevision{} }),
				pkgmanager.WithNewPackageRevisionListFn(func() pkgv1.PackageRevisionList { return &pkgv1.ProviderRevisionList{} }),
				pkgmanager.WithRevisioner(fixedRevisioner{}),
				pkgmanager.WithConfigStore(xpkg.NewImageConfigStore(c, "crossplane-system")),
				pkgmanager.WithRecorder(rec))
			var o outcome
			for _, p := range w.ListObjs(sim.Key{Group: "pkg.crossplane.io", Kind: "Provider"}.GK()) {
				for i := 0; i < 2; i++ {
					_, err := rc.Reconcile(ctx, reconcile.Request{NamespacedName: types.NamespacedName{Name: sim.Str(p, "metadata", "name")}})
					o.errs = append(o.errs, err)
				}
			}
			o.warnings = countWarnings(rec, 0)
			return o
		}})

	// --- active package revision installing objects ---
	out = append(out, site{name: "establisher-active-revision", actors: map[string]bool{"revision": true},
		setup: func(w *sim.World, r *siteRng) {
			w.MustSeed("user", map[string]any{"apiVersion": "pkg.crossplane.io/v1", "kind": "Provider", "metadata": map[string]any{"name": "prov" + r.suffix}, "spec": map[string]any{"package": "xpkg.example.org/acme/prov:v1"}})
			p := w.GetObj(sim.Key{Group: "pkg.crossplane.io", Kind: "Provider", Name: "prov" + r.suffix})
			w.MustSeed("pkgmgr", map[string]any{"apiVersion": "pkg.crossplane.io/v1", "kind": "ProviderRevision",
				"metadata": map[string]any{"name": "prov" + r.suffix + "-rev1", "labels": map[string]any{"pkg.crossplane.io/package": "prov" + r.suffix},
					"ownerReferences": []any{map[string]any{"apiVersion": "pkg.crossplane.io/v1", "kind": "Provider", "name": "prov" + r.suffix, "uid": sim.Str(p, "metadata", "uid"), "controller": true, "blockOwnerDeletion": true}}},
				"spec": map[string]any{"image": "xpkg.example.org/acme/prov:v1", "desiredState": "Active", "revision": int64(1)}})
		},
		run: func(w *sim.World) outcome {
			c := w.Client("revision")
			est := revision.NewAPIEstablisher(c, "crossplane-system", 2)
			var o outcome
			for _, rv := range w.ListObjs(sim.Key{Group: "pkg.crossplane.io", Kind: "ProviderRevision"}.GK()) {
				pr := &pkgv1.ProviderRevision{}
				if err := runtime.DefaultUnstructuredConverter.FromUnstructured(rv, pr); err != nil {
					panic(err)
				}
				sfx := strings.TrimSuffix(strings.TrimPrefix(pr.GetName(), "prov"), "-rev1")
				var objs []runtime.Object
				for _, k := range []string{"Widget", "Gadget"} {
					crd := &unstructured.Unstructured{Object: map[string]any{"apiVersion": "apiextensions.k8s.io/v1", "kind": "CustomResourceDefinition",
						"metadata": map[string]any{"name": strings.ToLower(k) + "s.prov" + sfx + ".example.org"},
						"spec": map[string]any{"group": "prov" + sfx + ".example.org", "scope": "Cluster", "names": map[string]any{"kind": k, "plural": strings.ToLower(k) + "s"},
							"versions": []any{map[string]any{"name": "v1", "served": true, "storage": true, "schema": map[string]any{"openAPIV3Schema": map[string]any{"type": "object"}}}}}}}
					objs = append(objs, crd)
				}
				_, err := est.Establish(ctx, objs, pr, true)
				o.errs = append(o.errs, err)
			}
			return o
		}})

	// --- RBAC manager ---
	prSetup := func(w *sim.World, r *siteRng) {
		w.MustSeedFull("pkgmgr", map[string]any{"apiVersion": "pkg.crossplane.io/v1", "kind": "ProviderRevision", "metadata": map[string]any{"name": "prov" + r.suffix + "-rev1"},
			"spec":   map[string]any{"image": "xpkg.example.org/acme/prov:v1", "desiredState": "Active", "revision": int64(1)},
			"status": map[string]any{"objectRefs": []any{map[string]any{"apiVersion": "apiextensions.k8s.io/v1", "kind": "CustomResourceDefinition", "name": "widgets.prov" + r.suffix + ".example.org"}}}})
		pr := w.GetObj(sim.Key{Group: "pkg.crossplane.io", Kind: "ProviderRevision", Name: "prov" + r.suffix + "-rev1"})
		d := &appsv1.Deployment{ObjectMeta: metav1.ObjectMeta{Namespace: "crossplane-system", Name: "prov" + r.suffix,
			OwnerReferences: []metav1.OwnerReference{{APIVersion: "pkg.crossplane.io/v1", Kind: "ProviderRevision", Name: "prov" + r.suffix + "-rev1", UID: types.UID(sim.Str(pr, "metadata", "uid"))}}},
			Spec: appsv1.DeploymentSpec{Selector: &metav1.LabelSelector{}, Template: corev1.PodTemplateSpec{Spec: corev1.PodSpec{ServiceAccountName: "prov-sa"}}}}
		if err := w.Client("pkgmgr").Create(ctx, d); err != nil {
			panic(err)
		}
	}
	prRetire := func(w *sim.World) {
		for _, p := range w.ListObjs(sim.Key{Group: "pkg.crossplane.io", Kind: "ProviderRevision"}.GK()) {
			u := &unstructured.Unstructured{Object: p}
			_ = unstructured.SetNestedField(u.Object, "Inactive", "spec", "desiredState")
			if err := w.Client("pkgmgr").Update(ctx, u); err != nil {
				panic(err)
			}
		}
		for _, d := range w.ListObjs(schema.GroupKind{Group: "apps", Kind: "Deployment"}) {
			_ = w.Client("pkgmgr").Delete(ctx, &unstructured.Unstructured{Object: d})
		}
	}
	out = append(out, site{name: "rbac-provider-roles", actors: map[string]bool{"rbac": true}, setup: prSetup, retire: prRetire,
		run: func(w *sim.World) outcome {
			rec := xrk.NewRecorder()
			rc := roles.NewReconciler(xrk.NewManager(w, w.Client("rbac")), roles.WithRecorder(rec))
			var o outcome
			for _, p := range w.ListObjs(sim.Key{Group: "pkg.crossplane.io", Kind: "ProviderRevision"}.GK()) {
				_, err := rc.Reconcile(ctx, reconcile.Request{NamespacedName: types.NamespacedName{Name: sim.Str(p, "metadata", "name")}})
				o.errs = append(o.errs, err)
			}
			o.warnings = countWarnings(rec, 0)
			return o
		}})
	out = append(out, site{name: "rbac-provider-binding", actors: map[string]bool{"rbac": true}, setup: prSetup, retire: prRetire,
		run: func(w *sim.World) outcome {
			rec := xrk.NewRecorder()
			rc := binding.NewReconciler(xrk.NewManager(w, w.Client("rbac")), binding.WithRecorder(rec))
			var o outcome
			for _, p := range w.ListObjs(sim.Key{Group: "pkg.crossplane.io", Kind: "ProviderRevision"}.GK()) {
				_, err := rc.Reconcile(ctx, reconcile.Request{NamespacedName: types.NamespacedName{Name: sim.Str(p, "metadata", "name")}})
				o.errs = append(o.errs, err)
			}
			o.warnings = countWarnings(rec, 0)
			return o
		}})
	out = append(out, site{name: "rbac-definition-roles", actors: map[string]bool{"rbac": true},
		setup: func(w *sim.World, r *siteRng) { w.MustSeed("user", xrd(r.suffix, true)) },
		run: func(w *sim.World) outcome {
			rec := xrk.NewRecorder()
			rc := rbacdefinition.NewReconciler(xrk.NewManager(w, w.Client("rbac")), rbacdefinition.WithRecorder(rec))
			var o outcome
			for _, d := range w.ListObjs(sim.Key{Group: "apiextensions.crossplane.io", Kind: "CompositeResourceDefinition"}.GK()) {
				_, err := rc.Reconcile(ctx, reconcile.Request{NamespacedName: types.NamespacedName{Name: sim.Str(d, "metadata", "name")}})
				o.errs = append(o.errs, err)
			}
			o.warnings = countWarnings(rec, 0)
			return o
		}})

	// --- XR composing a resource with a name the function asks for; XR connection secret ---
	// mode "pipeline-plainref": the function's desired resource already lists the XR among its owner
	// references, explicitly as a NON-controlling owner (controller: false)
	for _, mode := range []string{"pipeline", "pt", "pipeline-plainref"} {
		mode := mode
		out = append(out, site{name: "xr-" + mode + "-named-resource-and-secret", actors: map[string]bool{"xr": true},
			setup: func(w *sim.World, r *siteRng) {
				d := xrd(r.suffix, false)
				w.MustSeed("user", d)
				g := "ex" + r.suffix + ".org"
				if mode != "pt" {
					for _, o := range xrk.FunctionObjects("fn-0", fnServer.Addr) {
						w.MustSeedFull("pkg", o)
					}
					w.MustSeed("user", xrk.PipelineComposition("comp", g+"/v1", "XThing", []string{"fn-0"}, nil))
				} else {
					// P&T names a composed resource through a patch to metadata.name
					w.MustSeed("user", xrk.ResourcesComposition("comp", g+"/v1", "XThing", []map[string]any{
						{"name": "a", "base": nopObj("NopA", "1"), "patches": []any{map[string]any{"type": "FromCompositeFieldPath", "fromFieldPath": "spec.wantName", "toFieldPath": "metadata.name"}}, "connectionDetails": []any{map[string]any{"name": "k", "type": "FromValue", "value": "v"}}, "readinessChecks": []any{map[string]any{"type": "None"}}}}))
				}
				if err := xrk.ReconcileComposition(w, "comp"); err != nil {
					panic(err)
				}
				w.MustSeed("user", xrk.XRObject(g+"/v1", "XThing", "xr"+r.suffix, "comp", map[string]any{"wantName": "fixed-name" + r.suffix, "writeConnectionSecretToRef": map[string]any{"name": "xr-conn" + r.suffix, "namespace": "crossplane-system"}}))
			},
			run: func(w *sim.World) outcome {
				var o outcome
				for _, d := range w.ListObjs(sim.Key{Group: "apiextensions.crossplane.io", Kind: "CompositeResourceDefinition"}.GK()) {
					xd := xrk.XRDTyped(d)
					sfx := strings.TrimSuffix(strings.TrimPrefix(xd.Spec.Group, "ex"), ".org")
					fnMu.Lock()
					fnServer.Set(func(req *fnv1.RunFunctionRequest) (*fnv1.RunFunctionResponse, error) {
						ds := &fnv1.State{Resources: map[string]*fnv1.Resource{}, Composite: &fnv1.Resource{ConnectionDetails: map[string][]byte{"k": []byte("v")}, Ready: fnv1.Ready_READY_TRUE}}
						m := nopObj("NopA", "1")
						m["metadata"] = map[string]any{"name": "fixed-name" + sfx}
						if mode == "pipeline-plainref" {
							oxr := req.GetObserved().GetComposite().GetResource().AsMap()
							md, _ := oxr["metadata"].(map[string]any)
							m["metadata"].(map[string]any)["ownerReferences"] = []any{map[string]any{"apiVersion": oxr["apiVersion"], "kind": oxr["kind"], "name": md["name"], "uid": md["uid"], "controller": false, "blockOwnerDeletion": false}}
						}
						s, _ := structpb.NewStruct(m)
						ds.Resources["a"] = &fnv1.Resource{Resource: s, Ready: fnv1.Ready_READY_TRUE}
						return &fnv1.RunFunctionResponse{Desired: ds}, nil
					})
					env := xrk.NewXREnv(w, xd)
					for _, xr := range w.ListObjs(sim.Key{Group: xd.Spec.Group, Kind: "XThing"}.GK()) {
						for i := 0; i < 3; i++ {
							_, err, _ := env.Reconcile(sim.Str(xr, "metadata", "name"))
							o.errs = append(o.errs, err)
						}
					}
					o.warnings += countWarnings(env.Rec, 0)
					o.unsynced = o.unsynced || xrSynced(w, xd.Spec.Group)
					env.CloseConns()
					fnMu.Unlock()
				}
				return o
			}})
	}
	return out
}

type fixedRevisioner struct{ suffix string }

func (f fixedRevisioner) Revision(_ context.Context, p pkgv1.Package, _ ...string) (string, error) {
	return p.GetName() + "-0123456789ab" + f.suffix, nil
}

// gvkKeeping restores the GVK on typed objects after Get, as the controller-runtime cache
// reader does in production (the package manager derives owner references from it).
type gvkKeeping struct{ *sim.Client }

func (g gvkKeeping) Get(ctx context.Context, k types.NamespacedName, o client.Object, opts ...client.GetOption) error {
	err := g.Client.Get(ctx, k, o, opts...)
	if gvks, _, e := g.Client.Scheme().ObjectKinds(o); e == nil && len(gvks) > 0 {
		o.GetObjectKind().SetGroupVersionKind(gvks[0])
	}
	return err
}

func foreignRef() map[string]any {
	return map[string]any{"apiVersion": "v1", "kind": "ConfigMap", "name": "someone-else", "uid": "foreign-uid-0001", "controller": true, "blockOwnerDeletion": true}
}

// bystanderRef is a plain owner that spells out "controller: false" (as kubectl, Helm or a released
// package revision leave it); listed BEFORE the controller reference.
func bystanderRef() map[string]any {
	return map[string]any{"apiVersion": "v1", "kind": "ConfigMap", "name": "bystander", "uid": "plain-uid-0009", "controller": false}
}

// plant stores a copy of what the probe created, under a foreign controller reference (or
// none), with a marker so that it differs from what the controller would write.
func plant(w *sim.World, created map[string]any, variant string) sim.Key {
	o := runtime.DeepCopyJSON(created)
	md := o["metadata"].(map[string]any)
	for _, f := range []string{"uid", "resourceVersion", "creationTimestamp", "generation", "managedFields", "ownerReferences"} {
		delete(md, f)
	}
	legit := sim.ControllerOf(created)
	if variant == "foreign" || variant == "foreign-behind-cache" {
		md["ownerReferences"] = []any{foreignRef()}
	}
	if variant == "foreign-after-plain-owner" {
		md["ownerReferences"] = []any{bystanderRef(), foreignRef()}
	}
	if variant == "foreign-lookalike" {
		// a different owner of the SAME kind as the legitimate one whose name merely extends it
		// (e.g. a revision of package "provider-aws-s3" when installing "provider-aws")
		if legit == nil {
			return sim.Key{}
		}
		md["ownerReferences"] = []any{map[string]any{"apiVersion": legit["apiVersion"], "kind": legit["kind"], "name": sim.Str(legit, "name") + "-s3-0a1b2c3d4e5f",
			"uid": "foreign-uid-0002", "controller": true, "blockOwnerDeletion": true}}
	}
	if variant == "foreign-plus-owner" {
		// another owner took control; the legitimate owner (as it exists in this world) is still
		// listed, but no longer as the controller
		if legit == nil {
			return sim.Key{}
		}
		gv, _ := schema.ParseGroupVersion(sim.Str(legit, "apiVersion"))
		var own map[string]any
		for _, cand := range w.ListObjs(schema.GroupKind{Group: gv.Group, Kind: sim.Str(legit, "kind")}) {
			if sim.Str(cand, "metadata", "name") == sim.Str(legit, "name") {
				own = cand
			}
		}
		if own == nil {
			return sim.Key{}
		}
		md["ownerReferences"] = []any{foreignRef(), map[string]any{"apiVersion": legit["apiVersion"], "kind": legit["kind"], "name": legit["name"], "uid": sim.Str(own, "metadata", "uid")}}
	}
	if variant == "foreign-bare" {
		// an unrelated object that merely has the name: none of Crossplane's labels or annotations
		md["ownerReferences"] = []any{foreignRef()}
		for _, f := range []string{"labels", "annotations"} {
			if m, ok := md[f].(map[string]any); ok {
				for k := range m {
					if strings.Contains(k, "crossplane.io") {
						delete(m, k)
					}
				}
			}
		}
	}
	ls, _ := md["labels"].(map[string]any)
	if ls == nil {
		ls = map[string]any{}
	}
	ls["planted-by"] = "someone-else"
	md["labels"] = ls
	delete(o, "status")
	if o["kind"] == "Secret" {
		o["data"] = map[string]any{"k": "Zm9yZWlnbg==", "theirs": "a2VlcA=="} // differs from what would be published
	}
	w.MustSeed("someone-else", o)
	return sim.KeyOf(o)
}

func judge(c *kit.Ctx, s site, caseName, variant string, w *sim.World, k sim.Key, before map[string]any, from int, o outcome, extra map[string]any) {
	after := w.GetObj(k)
	addressed := 0
	var trace []string
	for _, e := range w.Log(from) {
		if e.Key == k {
			addressed++
			trace = append(trace, e.Short())
		}
	}
	wit := func() any {
		m := map[string]any{"site": s.name, "variant": variant, "object": k.String(), "trace": trace, "errors": fmt.Sprint(o.errs), "warnings": o.warnings, "unsynced": o.unsynced}
		for kk, v := range extra {
			m[kk] = v
		}
		return m
	}
	if strings.HasPrefix(variant, "foreign") {
		if after == nil {
			c.Violate("foreign-object-deleted:"+s.name, caseName, "object controlled by a foreign owner was deleted", wit())
		} else if !reflect.DeepEqual(sansServerStatus(before), sansServerStatus(after)) {
			c.Violate("foreign-object-modified:"+s.name, caseName, fmt.Sprintf("object controlled by a foreign owner changed (rv %s -> %s)", sim.Str(before, "metadata", "resourceVersion"), sim.Str(after, "metadata", "resourceVersion")), wit())
		}
		for _, e := range w.Log(from) {
			if e.Key == k && e.Changed && s.actors[e.Actor] {
				c.Violate("effective-write-to-foreign-object:"+s.name, caseName, e.Short(), wit())
			}
		}
		if addressed > 0 && !o.surfaced() {
			c.Violate("conflict-not-surfaced:"+s.name, caseName, "the controller addressed the foreign object but surfaced neither an error, a Warning event nor Synced=False", wit())
		}
	}
	c.Eval(caseName, addressed > 0)
	c.Count("cases_"+variant, 1)
	c.Count("site_"+s.name+"_"+k.Kind, 1)
	if addressed > 0 {
		c.Count("foreign_object_addressed", 1)
	}
	if c.WantSample() && strings.HasPrefix(variant, "foreign") && addressed > 0 {
		c.Sample(wit())
	}
}

// sansServerStatus strips what the simulated API server itself maintains on a CRD (the
// Established condition written by the harness's "apiserver" actor) so that only writes of the
// controllers under test show up in the diff.
func sansServerStatus(o map[string]any) map[string]any {
	if o == nil || o["kind"] != "CustomResourceDefinition" {
		return o
	}
	cp := runtime.DeepCopyJSON(o)
	delete(cp, "status")
	unstructured.RemoveNestedField(cp, "metadata", "resourceVersion")
	unstructured.RemoveNestedField(cp, "metadata", "managedFields")
	return cp
}

func runSite(c *kit.Ctx, s site, round int) {
	sfx := fmt.Sprintf("%c%d", 'a'+round%26, round)
	// probe
	probe := sim.NewWorld(xrk.Scheme(), uint64(c.Seed)*173+uint64(round))
	s.setup(probe, &siteRng{suffix: sfx})
	from := probe.LogLen()
	_ = s.run(probe)
	var created []map[string]any
	seen := map[string]bool{}
	for _, e := range probe.Log(from) {
		if s.actors[e.Actor] && e.Changed && e.Before == nil && e.After != nil && !seen[e.Key.String()] {
			// composed resources have random names: handled by the re-parenting sites
			if _, isComposed, _ := unstructured.NestedString(e.After, "metadata", "annotations", annResName); isComposed && !strings.HasPrefix(e.Key.Name, "fixed-name") {
				continue
			}
			if e.Key.Kind == "Event" {
				continue
			}
			seen[e.Key.String()] = true
			created = append(created, probe.GetObj(e.Key))
			if created[len(created)-1] == nil {
				created[len(created)-1] = e.After
			}
		}
	}
	c.Count("probe_created_objects", int64(len(created)))
	sort.Slice(created, func(i, j int) bool { return sim.KeyOf(created[i]).String() < sim.KeyOf(created[j]).String() })
	for _, obj := range created {
		for _, variant := range []string{"foreign", "foreign-after-plain-owner", "foreign-lookalike", "foreign-plus-owner", "foreign-bare", "foreign-behind-cache", "uncontrolled"} {
			k := sim.KeyOf(obj)
			if (variant == "foreign-lookalike" || variant == "foreign-plus-owner") && sim.ControllerOf(obj) == nil {
				continue
			}
			caseName := fmt.Sprintf("%s/%s/%s/%s/r%d", s.name, k.Kind, strings.ReplaceAll(k.Name, sfx, ""), variant, round)
			if !c.Want(caseName) {
				continue
			}
			if variant == "foreign-behind-cache" && s.actors["xr"] {
				continue // the XR controller's cache/direct-read split has its own cases below
			}
			w := sim.NewWorld(xrk.Scheme(), uint64(c.Seed)*179+uint64(round))
			s.setup(w, &siteRng{suffix: sfx})
			frozen := w.RV()
			pk := plant(w, obj, variant)
			if variant == "foreign-behind-cache" && pk != (sim.Key{}) {
				// the controller's informer cache has not seen the foreign object yet: its reads of
				// that kind are served as of before the object appeared, its writes hit the store
				gk := pk.GK()
				for a := range s.actors {
					w.SetActorLag(a, func(g schema.GroupKind) (int64, bool) { return -frozen, g == gk })
				}
			}
			if pk == (sim.Key{}) {
				continue
			}
			before := w.GetObj(pk)
			f := w.LogLen()
			var o outcome
			if err := kit.Try(func() { o = s.run(w) }); err != nil {
				c.Violate("panic:"+s.name, caseName, err.Error(), nil)
				continue
			}
			judge(c, s, caseName, variant, w, pk, before, f, o, nil)
			// intermediate phase: the legitimate owner retires (still exists); whatever the controller
			// tidies up then must leave the foreign object alone
			if s.retire != nil && strings.HasPrefix(variant, "foreign") {
				s.retire(w)
				before = w.GetObj(pk)
				f = w.LogLen()
				if err := kit.Try(func() { o = s.run(w) }); err != nil {
					c.Violate("panic:"+s.name, caseName+"/owner-retired", err.Error(), nil)
					continue
				}
				o.errs = append(o.errs, fmt.Errorf("not-required"))
				judge(c, s, caseName+"/owner-retired", variant, w, pk, before, f, o, map[string]any{"phase": "owner retired (inactive, deployment gone)"})
				c.Count("owner_retired_phases", 1)
			}
			// second phase: the legitimate owner is deleted; its clean-up must leave the foreign
			// object alone as well (an orphaned object needs no conflict report)
			legit := sim.ControllerOf(obj)
			if !strings.HasPrefix(variant, "foreign") || legit == nil {
				continue
			}
			gv, _ := schema.ParseGroupVersion(sim.Str(legit, "apiVersion"))
			deleted := false
			for _, cand := range w.ListObjs(schema.GroupKind{Group: gv.Group, Kind: sim.Str(legit, "kind")}) {
				if sim.Str(cand, "metadata", "name") == sim.Str(legit, "name") {
					if err := w.Client("user").Delete(ctx, &unstructured.Unstructured{Object: cand}); err == nil {
						deleted = true
					}
				}
			}
			if !deleted {
				continue
			}
			before = w.GetObj(pk)
			f = w.LogLen()
			if err := kit.Try(func() { o = s.run(w) }); err != nil {
				c.Violate("panic:"+s.name, caseName+"/owner-deleted", err.Error(), nil)
				continue
			}
			o.errs = append(o.errs, fmt.Errorf("not-required"))
			judge(c, s, caseName+"/owner-deleted", variant, w, pk, before, f, o, map[string]any{"phase": "owner deleted"})
			c.Count("owner_deleted_phases", 1)
		}
	}
}

// ---- composed resources: re-parent after the first composition ----

func composedSites(c *kit.Ctx, round int) {
	for _, mode := range []string{"pipeline", "pt", "pt-anon"} {
		for _, what := range []string{"still-desired", "no-longer-desired", "recreated-by-foreign-behind-cache", "still-desired-midway", "no-longer-desired-midway",
			"still-desired-reparented-behind-cache", "no-longer-desired-reparented-behind-cache"} {
			if mode == "pt-anon" && strings.HasPrefix(what, "no-longer-desired") {
				continue // anonymous templates cannot be removed individually
			}
			caseName := fmt.Sprintf("xr-%s-composed-reparented/%s/r%d", mode, what, round)
			if !c.Want(caseName) {
				continue
			}
			s := site{name: "xr-" + mode + "-composed-" + what, actors: map[string]bool{"xr": true}}
			w := sim.NewWorld(xrk.Scheme(), uint64(c.Seed)*181+uint64(round))
			d := xrd("", false)
			w.MustSeed("user", d)
			names := []string{"a", "b"}
			fnMu.Lock()
			desired := names
			fnServer.Set(func(req *fnv1.RunFunctionRequest) (*fnv1.RunFunctionResponse, error) {
				ds := &fnv1.State{Resources: map[string]*fnv1.Resource{}}
				for _, n := range desired {
					st, _ := structpb.NewStruct(nopObj("NopA", n))
					ds.Resources[n] = &fnv1.Resource{Resource: st, Ready: fnv1.Ready_READY_TRUE}
				}
				return &fnv1.RunFunctionResponse{Desired: ds}, nil
			})
			tmpl := func(ns []string) []map[string]any {
				var ts []map[string]any
				for _, n := range ns {
					t := map[string]any{"name": n, "base": nopObj("NopA", n)}
					if mode == "pt-anon" {
						delete(t, "name")
					}
					ts = append(ts, t)
				}
				return ts
			}
			if mode == "pipeline" {
				for _, o := range xrk.FunctionObjects("fn-0", fnServer.Addr) {
					w.MustSeedFull("pkg", o)
				}
				w.MustSeed("user", xrk.PipelineComposition("comp", "ex.org/v1", "XThing", []string{"fn-0"}, nil))
			} else {
				w.MustSeed("user", xrk.ResourcesComposition("comp", "ex.org/v1", "XThing", tmpl(names)))
			}
			_ = xrk.ReconcileComposition(w, "comp")
			w.MustSeed("user", xrk.XRObject("ex.org/v1", "XThing", "xr1", "comp", map[string]any{"compositionUpdatePolicy": "Automatic"}))
			// the XR controller reads composed kinds through a cache that may lag (only used by the
			// behind-cache case) and falls back to an uncached read
			lag := int64(0)
			cached := w.LaggingClient("xr", func(gk schema.GroupKind) (int64, bool) {
				if lag != 0 && gk.Group == "nop.ex.org" {
					return lag, true
				}
				return 0, false
			})
			uncached := w.Client("xr")
			env := xrk.NewXREnvSplit(w, xrk.XRDTyped(d), cached, uncached)
			for i := 0; i < 2; i++ {
				_, _, _ = env.Reconcile("xr1")
			}
			if strings.HasSuffix(what, "-midway") {
				composedMidway(c, s, caseName, mode, what, w, env, cached, uncached, &desired, tmpl)
				env.CloseConns()
				fnMu.Unlock()
				continue
			}
			// somebody else takes over composed resource "a"
			var pk sim.Key
			for _, o := range w.ListObjs(sim.Key{Group: "nop.ex.org", Kind: "NopA"}.GK()) {
				if sim.Str(o, "spec", "forProvider", "v") == "a" {
					u := &unstructured.Unstructured{Object: o}
					pk = sim.KeyOf(o)
					if what == "recreated-by-foreign-behind-cache" {
						// the composed resource disappears and another owner creates an object under the
						// very name the XR still references; the XR controller's cache has not seen it yet
						_ = w.Client("user").Delete(ctx, u)
						n := &unstructured.Unstructured{Object: map[string]any{"apiVersion": "nop.ex.org/v1", "kind": "NopA",
							"metadata": map[string]any{"name": u.GetName(), "annotations": map[string]any{annResName: "a"}, "ownerReferences": []any{foreignRef()}},
							"spec":     map[string]any{"forProvider": map[string]any{"v": "theirs"}}}}
						if err := w.Client("someone-else").Create(ctx, n); err != nil {
							panic(err)
						}
						lag = 1
						continue
					}
					if strings.HasSuffix(what, "-reparented-behind-cache") {
						// the XR controller's cache of composed kinds stays at the state before the takeover
						lag = -w.RV()
					}
					newRefs := []any{foreignRef()}
					if round%2 == 1 {
						newRefs = []any{bystanderRef(), foreignRef()}
					}
					_ = unstructured.SetNestedSlice(u.Object, newRefs, "metadata", "ownerReferences")
					if err := w.Client("someone-else").Update(ctx, u); err != nil {
						panic(err)
					}
				}
			}
			if strings.HasPrefix(what, "no-longer-desired") {
				desired = []string{"b"}
				if mode == "pt" {
					comp := &unstructured.Unstructured{Object: w.GetObj(sim.Key{Group: "apiextensions.crossplane.io", Kind: "Composition", Name: "comp"})}
					var rs []any
					for _, t := range tmpl([]string{"b"}) {
						rs = append(rs, runtime.DeepCopyJSONValue(t))
					}
					_ = unstructured.SetNestedSlice(comp.Object, rs, "spec", "resources")
					_ = w.Client("user").Update(ctx, comp)
					_ = xrk.ReconcileComposition(w, "comp")
				}
			}
			before := w.GetObj(pk)
			from := w.LogLen()
			evFrom := env.Rec.Len()
			var o outcome
			for i := 0; i < 3; i++ {
				_, err, _ := env.Reconcile("xr1")
				o.errs = append(o.errs, err)
			}
			o.warnings = countWarnings(env.Rec, evFrom)
			o.unsynced = xrSynced(w, "ex.org")
			env.CloseConns()
			fnMu.Unlock()
			// the pipeline composer deliberately ignores resources it does not control (it composes a
			// new one under a new name), so no conflict needs surfacing there
			if mode == "pipeline" {
				o.errs = append(o.errs, fmt.Errorf("not-required"))
			}
			if strings.HasSuffix(what, "-reparented-behind-cache") {
				// a write that fails with an optimistic-lock conflict is retried silently (nothing to
				// surface yet: the controller has not seen the other owner)
				o.errs = append(o.errs, fmt.Errorf("not-required"))
				if mode != "pipeline" {
					// OBSERVED ONLY for the legacy P&T composer: its applicator (crossplane-runtime's
					// APIPatchingApplicator) sends a merge patch without a resourceVersion, so a takeover
					// its cache has not caught up with is patched over on the unchanged tree. C02 quantifies
					// over placements of the foreign reference, not over cache staleness; the function
					// composer (server-side apply + version-guarded label update) holds under it and is judged.
					acted := false
					for _, e := range w.Log(from) {
						if e.Key == pk && e.Changed && s.actors[e.Actor] {
							acted = true
						}
					}
					if acted {
						c.Count("pt_takeover_behind_cache_then_written(observed-only)", 1)
					}
					c.Eval(caseName, true)
					continue
				}
			}
			judge(c, s, caseName, "foreign", w, pk, before, from, o, nil)
		}
	}
}

// composedMidway: another owner takes composed resource "a" over WHILE the XR is being
// reconciled - right before the reconcile's API call k, for every k (calls of the cached and the
// uncached client counted together). From that instant the object is somebody else's: the XR
// controller's writes to it are counted (observed only, see below).
func composedMidway(c *kit.Ctx, s site, caseName, mode, what string, w *sim.World, env *xrk.XREnv, cached, uncached *sim.Client, desired *[]string, tmpl func([]string) []map[string]any) {
	var pk sim.Key
	for _, o := range w.ListObjs(sim.Key{Group: "nop.ex.org", Kind: "NopA"}.GK()) {
		if sim.Str(o, "spec", "forProvider", "v") == "a" {
			pk = sim.KeyOf(o)
		}
	}
	if what == "no-longer-desired-midway" {
		*desired = []string{"b"}
		if mode == "pt" {
			comp := &unstructured.Unstructured{Object: w.GetObj(sim.Key{Group: "apiextensions.crossplane.io", Kind: "Composition", Name: "comp"})}
			var rs []any
			for _, t := range tmpl([]string{"b"}) {
				rs = append(rs, runtime.DeepCopyJSONValue(t))
			}
			_ = unstructured.SetNestedSlice(comp.Object, rs, "spec", "resources")
			_ = w.Client("user").Update(ctx, comp)
			_ = xrk.ReconcileComposition(w, "comp")
		}
	}
	snap := w.Clone()
	// probe: how many API calls does the reconcile make?
	n := 0
	count := func(int, string) { n++ }
	cached.OnCall, uncached.OnCall = count, count
	_, _, _ = env.Reconcile("xr1")
	total := n
	for k := 0; k < total; k++ {
		w.Restore(snap)
		n = 0
		var before map[string]any
		from := -1
		intrude := func(int, string) {
			if n == k && from < 0 {
				u := &unstructured.Unstructured{Object: w.GetObj(pk)}
				if u.Object != nil {
					_ = unstructured.SetNestedSlice(u.Object, []any{foreignRef()}, "metadata", "ownerReferences")
					if err := w.Client("someone-else").Update(ctx, u); err == nil {
						before = w.GetObj(pk)
						from = w.LogLen()
					}
				}
			}
			n++
		}
		cached.OnCall, uncached.OnCall = intrude, intrude
		var o outcome
		evFrom := env.Rec.Len()
		for i := 0; i < 3; i++ {
			_, err, _ := env.Reconcile("xr1")
			o.errs = append(o.errs, err)
		}
		cached.OnCall, uncached.OnCall = nil, nil
		c.Count("midway_takeovers", 1)
		if from < 0 {
			c.Count("midway_takeover_not_possible", 1)
			continue
		}
		_, _ = evFrom, before
		// OBSERVED ONLY: the property quantifies over placements of a foreign controller reference
		// (inputs, histories), not over schedules inside one reconcile; a write that lands on an
		// object taken over between the controller's read and its write is counted, not judged.
		acted := false
		for _, e := range w.Log(from) {
			if e.Key == pk && e.Changed && s.actors[e.Actor] {
				acted = true
			}
		}
		if acted {
			c.Count("midway_takeover_then_written_by_xr_controller(observed-only)", 1)
		}
		c.Eval(fmt.Sprintf("%s/k%d", caseName, k), true)
	}
	cached.OnCall, uncached.OnCall = nil, nil
}

// inactiveRevisionReleasesAgain: an upgrade history. Revision 1 (active) establishes two CRDs, is
// deactivated and releases them; revision 2 becomes active and takes control; then the INACTIVE
// revision 1 is reconciled again (every inactive reconcile releases the objects it lists). From
// revision 1's point of view the CRDs are now controlled by a different owner: it must leave them
// exactly as they are.
func inactiveRevisionReleasesAgain(c *kit.Ctx, round int) {
	caseName := fmt.Sprintf("establisher-inactive-revision-releases-again/r%d", round)
	if !c.Want(caseName) {
		return
	}
	sfx := fmt.Sprintf("%c%d", 'a'+round%26, round)
	w := sim.NewWorld(xrk.Scheme(), uint64(c.Seed)*191+uint64(round))
	w.MustSeed("user", map[string]any{"apiVersion": "pkg.crossplane.io/v1", "kind": "Provider", "metadata": map[string]any{"name": "prov" + sfx}, "spec": map[string]any{"package": "xpkg.example.org/acme/prov:v2"}})
	p := w.GetObj(sim.Key{Group: "pkg.crossplane.io", Kind: "Provider", Name: "prov" + sfx})
	mk := func(n int, state string) *pkgv1.ProviderRevision {
		name := fmt.Sprintf("prov%s-rev%d", sfx, n)
		w.MustSeed("pkgmgr", map[string]any{"apiVersion": "pkg.crossplane.io/v1", "kind": "ProviderRevision",
			"metadata": map[string]any{"name": name, "labels": map[string]any{"pkg.crossplane.io/package": "prov" + sfx},
				"ownerReferences": []any{map[string]any{"apiVersion": "pkg.crossplane.io/v1", "kind": "Provider", "name": "prov" + sfx, "uid": sim.Str(p, "metadata", "uid"), "controller": true, "blockOwnerDeletion": true}}},
			"spec": map[string]any{"image": fmt.Sprintf("xpkg.example.org/acme/prov:v%d", n), "desiredState": state, "revision": int64(n)}})
		pr := &pkgv1.ProviderRevision{}
		if err := runtime.DefaultUnstructuredConverter.FromUnstructured(w.GetObj(sim.Key{Group: "pkg.crossplane.io", Kind: "ProviderRevision", Name: name}), pr); err != nil {
			panic(err)
		}
		return pr
	}
	objs := func() []runtime.Object {
		var out []runtime.Object
		for _, k := range []string{"Widget", "Gadget"} {
			out = append(out, &unstructured.Unstructured{Object: map[string]any{"apiVersion": "apiextensions.k8s.io/v1", "kind": "CustomResourceDefinition",
				"metadata": map[string]any{"name": strings.ToLower(k) + "s.prov" + sfx + ".example.org"},
				"spec": map[string]any{"group": "prov" + sfx + ".example.org", "scope": "Cluster", "names": map[string]any{"kind": k, "plural": strings.ToLower(k) + "s"},
					"versions": []any{map[string]any{"name": "v1", "served": true, "storage": true, "schema": map[string]any{"openAPIV3Schema": map[string]any{"type": "object"}}}}}}})
		}
		return out
	}
	rev1, rev2 := mk(1, "Active"), mk(2, "Inactive")
	e1 := revision.NewAPIEstablisher(w.Client("revision1"), "crossplane-system", 2)
	e2 := revision.NewAPIEstablisher(w.Client("revision2"), "crossplane-system", 2)
	refs, err := e1.Establish(ctx, objs(), rev1, true)
	if err != nil {
		c.Violate("harness:initial-establish-failed", caseName, err.Error(), nil)
		return
	}
	rev1.SetObjects(refs)
	// the package manager flips the two revisions; rev1 releases, rev2 takes control
	if err := e1.ReleaseObjects(ctx, rev1); err != nil {
		c.Violate("harness:release-failed", caseName, err.Error(), nil)
		return
	}
	if _, err := e2.Establish(ctx, objs(), rev2, true); err != nil {
		c.Violate("harness:second-establish-failed", caseName, err.Error(), nil)
		return
	}
	s := site{name: "establisher-inactive-revision-releases-again", actors: map[string]bool{"revision1": true}}
	for _, r := range refs {
		pk := sim.Key{Group: "apiextensions.k8s.io", Kind: "CustomResourceDefinition", Name: r.Name}
		before := w.GetObj(pk)
		from := w.LogLen()
		var o outcome
		// the inactive revision is reconciled again, twice
		for i := 0; i < 2; i++ {
			o.errs = append(o.errs, e1.ReleaseObjects(ctx, rev1))
		}
		o.errs = append(o.errs, fmt.Errorf("not-required")) // nothing to report: the objects are simply not ours any more
		judge(c, s, caseName+"/"+r.Name, "foreign", w, pk, before, from, o, map[string]any{"history": "rev1 active -> released; rev2 active; rev1 (inactive) releases again"})
	}
}

func main() {
	c := kit.New("C02", "exploration")
	c.Rule = "per write site (definition/offered CRDs, package-manager revision, active-revision establisher, RBAC provider roles / binding / XRD roles, XR composer named resource + XR connection secret in both modes) a probe run in a clean world records the objects the real controller creates; for each, a fresh world holds an object of that kind and name under a foreign controller reference / without controller, and the controller runs again; composed resources with generated names are re-parented to a foreign controller after the first composition (still desired / no longer desired, both composers). Names and groups vary with the round. Oracle: the foreign object is byte-identical afterwards (same resourceVersion), no effective write to it in the log, and - when the controller addressed it - an error, a Warning event or Synced=False surfaced. distinct = (site, object, variant, round); non-trivial = the controller issued at least one request addressed to the planted object."
	c.Rule += " Claim secret race: two claims naming the same connection secret, served by ONE claim reconciler; the non-owning claim parked before each API call while the owning one is reconciled; the secret must equal that of the sequential run. Behind-cache variant: the controller's reads of the planted kind are frozen at the state before the foreign object appeared (Create hits AlreadyExists). Variants per planted object: foreign controller / look-alike foreign controller / foreign controller with the legitimate owner kept as a plain owner / bare unrelated object without Crossplane labels or annotations / uncontrolled; after each foreign variant the legitimate owner is deleted and the site runs again (no conflict report required then). P&T resources are named through a patch to metadata.name; re-parenting cases also run with anonymous P&T templates."
	c.Rule += " " + "Long-lived reconcilers over histories: the XR's connection secret deleted and re-created by a foreign owner while details rotate; a package deleted and re-created under its name while a revision controlled by its predecessor remains (Active / Inactive, with an upgrade)."
	c.Rule += " " + "A composed resource taken over behind the XR controller's frozen cache (function composer judged; legacy P&T composer and takeovers between two API calls of a reconcile counted only); RBAC sites re-run after the owning revision retired (Inactive, deployment gone)."
	c.Rule += " " + "An inactive revision releasing its objects again after the next revision took control; foreign-controlled objects whose first owner reference is a plain owner with controller:false."
	c.Assumptions = []string{"sim rejects a second controller reference (422) - the mechanism the SSA composer relies on", "objects created in the probe run are the objects the site writes; sites listed in DESIGN.md C02"}
	c.Floor = 20
	rounds := c.N(20, 300)
	ss := sites()
	for r := 0; r < rounds; r++ {
		for _, s := range ss {
			s := s
			if err := kit.Try(func() { runSite(c, s, r) }); err != nil {
				c.Violate("panic:"+s.name, s.name, err.Error(), nil)
			}
		}
		if err := kit.Try(func() { composedSites(c, r) }); err != nil {
			c.Violate("panic:composed", "composed", err.Error(), nil)
		}
		if r < 4 {
			if err := kit.Try(func() { xrSecretHistory(c, r) }); err != nil {
				c.Violate("panic:xr-secret-history", "xr-secret-history", err.Error(), nil)
			}
			if err := kit.Try(func() { predecessorRevision(c, r) }); err != nil {
				c.Violate("panic:predecessor-revision", "predecessor-revision", err.Error(), nil)
			}
			if err := kit.Try(func() { inactiveRevisionReleasesAgain(c, r) }); err != nil {
				c.Violate("panic:inactive-revision-releases-again", "establisher-inactive-revision-releases-again", err.Error(), nil)
			}
			if err := kit.Try(func() { claimSecretRace(c, r) }); err != nil {
				c.Violate("panic:claim-secret-race", "claim-secret-race", err.Error(), nil)
			}
		}
	}
	c.Finish()
}

// xrSecretHistory: the XR has published its connection secret; the secret is then deleted and
// re-created under the same name by another owner, and the XR's connection details change. The
// next publishes (same long-lived controller) must leave the other owner's secret alone.
func xrSecretHistory(c *kit.Ctx, round int) {
	for _, mode := range []string{"pipeline", "pt"} {
		caseName := fmt.Sprintf("xr-secret-recreated-by-foreign/%s/r%d", mode, round)
		if !c.Want(caseName) {
			continue
		}
		s := site{name: "xr-" + mode + "-connection-secret-recreated-by-foreign", actors: map[string]bool{"xr": true}}
		w := sim.NewWorld(xrk.Scheme(), uint64(c.Seed)*193+uint64(round))
		d := xrd("", false)
		w.MustSeed("user", d)
		val := "v1"
		fnMu.Lock()
		if mode == "pipeline" {
			fnServer.Set(func(req *fnv1.RunFunctionRequest) (*fnv1.RunFunctionResponse, error) {
				ds := &fnv1.State{Resources: map[string]*fnv1.Resource{}, Composite: &fnv1.Resource{ConnectionDetails: map[string][]byte{"k": []byte(val)}, Ready: fnv1.Ready_READY_TRUE}}
				st, _ := structpb.NewStruct(nopObj("NopA", "1"))
				ds.Resources["a"] = &fnv1.Resource{Resource: st, Ready: fnv1.Ready_READY_TRUE}
				return &fnv1.RunFunctionResponse{Desired: ds}, nil
			})
			for _, o := range xrk.FunctionObjects("fn-0", fnServer.Addr) {
				w.MustSeedFull("pkg", o)
			}
			w.MustSeed("user", xrk.PipelineComposition("comp", "ex.org/v1", "XThing", []string{"fn-0"}, nil))
		} else {
			w.MustSeed("user", xrk.ResourcesComposition("comp", "ex.org/v1", "XThing", []map[string]any{
				{"name": "a", "base": nopObj("NopA", "1"), "readinessChecks": []any{map[string]any{"type": "None"}},
					"patches":           []any{map[string]any{"type": "FromCompositeFieldPath", "fromFieldPath": "spec.secretValue", "toFieldPath": "spec.forProvider.v"}},
					"connectionDetails": []any{map[string]any{"name": "k", "type": "FromFieldPath", "fromFieldPath": "spec.forProvider.v"}}}}))
		}
		_ = xrk.ReconcileComposition(w, "comp")
		w.MustSeed("user", xrk.XRObject("ex.org/v1", "XThing", "xr1", "comp", map[string]any{"secretValue": "v1", "writeConnectionSecretToRef": map[string]any{"name": "xr-conn", "namespace": "crossplane-system"}}))
		env := xrk.NewXREnv(w, xrk.XRDTyped(d))
		for i := 0; i < 3; i++ {
			_, _, _ = env.Reconcile("xr1")
		}
		sk := sim.Key{Kind: "Secret", Namespace: "crossplane-system", Name: "xr-conn"}
		published := w.GetObj(sk) != nil
		// somebody deletes the secret and another owner creates one under the same name
		if o := w.GetObj(sk); o != nil {
			_ = w.Client("user").Delete(ctx, &unstructured.Unstructured{Object: o})
		}
		w.MustSeed("someone-else", map[string]any{"apiVersion": "v1", "kind": "Secret", "type": "connection.crossplane.io/v1alpha1",
			"metadata": map[string]any{"namespace": "crossplane-system", "name": "xr-conn", "ownerReferences": []any{foreignRef()}, "labels": map[string]any{"planted-by": "someone-else"}},
			"data":     map[string]any{"k": "dGhlaXJz", "theirs": "a2VlcA=="}})
		// ... and the XR's connection details change
		val = "v2"
		xr := &unstructured.Unstructured{Object: w.GetObj(sim.Key{Group: "ex.org", Kind: "XThing", Name: "xr1"})}
		_ = unstructured.SetNestedField(xr.Object, "v2", "spec", "secretValue")
		_ = w.Client("user").Update(ctx, xr)
		before := w.GetObj(sk)
		from := w.LogLen()
		evFrom := env.Rec.Len()
		var o outcome
		for i := 0; i < 3; i++ {
			_, err, _ := env.Reconcile("xr1")
			o.errs = append(o.errs, err)
		}
		o.warnings = countWarnings(env.Rec, evFrom)
		o.unsynced = xrSynced(w, "ex.org")
		env.CloseConns()
		fnMu.Unlock()
		judge(c, s, caseName, "foreign", w, sk, before, from, o, map[string]any{"published_before_takeover": published})
	}
}

// predecessorRevision: a package was deleted and created again under the same name (new uid)
// before its old revision was collected. The old revision still carries the package label but is
// controlled by the predecessor's uid: the new package's manager must not touch it.
func predecessorRevision(c *kit.Ctx, round int) {
	caseName := fmt.Sprintf("pkg-manager-predecessor-revision/r%d", round)
	if !c.Want(caseName) {
		return
	}
	s := site{name: "pkg-manager-predecessor-revision", actors: map[string]bool{"pkgmgr": true}}
	w := sim.NewWorld(xrk.Scheme(), uint64(c.Seed)*197+uint64(round))
	name := fmt.Sprintf("prov-r%d", round)
	w.MustSeed("user", map[string]any{"apiVersion": "pkg.crossplane.io/v1", "kind": "Provider", "metadata": map[string]any{"name": name},
		"spec": map[string]any{"package": "xpkg.example.org/acme/" + name + ":v2.0.0", "revisionActivationPolicy": "Automatic", "revisionHistoryLimit": int64(int(round) % 2), "packagePullPolicy": "IfNotPresent"}})
	w.MustSeed("old-pkgmgr", map[string]any{"apiVersion": "pkg.crossplane.io/v1", "kind": "ProviderRevision",
		"metadata": map[string]any{"name": name + "-aaaaaaaaaaaa", "labels": map[string]any{"pkg.crossplane.io/package": name},
			"ownerReferences": []any{map[string]any{"apiVersion": "pkg.crossplane.io/v1", "kind": "Provider", "name": name, "uid": "uid-of-the-deleted-predecessor", "controller": true, "blockOwnerDeletion": true}}},
		"spec": map[string]any{"image": "xpkg.example.org/acme/" + name + ":v1.0.0", "desiredState": []string{"Active", "Inactive"}[(round/2)%2], "revision": int64(1)}})
	pk := sim.Key{Group: "pkg.crossplane.io", Kind: "ProviderRevision", Name: name + "-aaaaaaaaaaaa"}
	before := w.GetObj(pk)
	from := w.LogLen()
	rec := xrk.NewRecorder()
	cl := w.Client("pkgmgr")
	rc := pkgmanager.NewReconciler(xrk.NewManager(w, gvkKeeping{cl}),
		pkgmanager.WithNewPackageFn(func() pkgv1.Package { return &pkgv1.Provider{} }),
		pkgmanager.WithNewPackageRevisionFn(func() pkgv1.PackageRevision { return &pkgv1.ProviderRevision{} }),
		pkgmanager.WithNewPackageRevisionListFn(func() pkgv1.PackageRevisionList { return &pkgv1.ProviderRevisionList{} }),
		pkgmanager.WithRevisioner(fixedRevisioner{}),
		pkgmanager.WithConfigStore(xpkg.NewImageConfigStore(cl, "crossplane-system")),
		pkgmanager.WithRecorder(rec))
	var o outcome
	for i := 0; i < 3; i++ {
		_, err := rc.Reconcile(ctx, reconcile.Request{NamespacedName: types.NamespacedName{Name: name}})
		o.errs = append(o.errs, err)
	}
	// the package is upgraded: with a history limit of 1 there are now more revisions than the
	// limit allows - the collector may only ever remove revisions of THIS package
	pu := &unstructured.Unstructured{Object: w.GetObj(sim.Key{Group: "pkg.crossplane.io", Kind: "Provider", Name: name})}
	_ = unstructured.SetNestedField(pu.Object, "xpkg.example.org/acme/"+name+":v3.0.0", "spec", "package")
	_ = w.Client("user").Update(ctx, pu)
	rc2 := pkgmanager.NewReconciler(xrk.NewManager(w, gvkKeeping{cl}),
		pkgmanager.WithNewPackageFn(func() pkgv1.Package { return &pkgv1.Provider{} }),
		pkgmanager.WithNewPackageRevisionFn(func() pkgv1.PackageRevision { return &pkgv1.ProviderRevision{} }),
		pkgmanager.WithNewPackageRevisionListFn(func() pkgv1.PackageRevisionList { return &pkgv1.ProviderRevisionList{} }),
		pkgmanager.WithRevisioner(fixedRevisioner{suffix: "-v3"}),
		pkgmanager.WithConfigStore(xpkg.NewImageConfigStore(cl, "crossplane-system")),
		pkgmanager.WithRecorder(rec))
	for i := 0; i < 3; i++ {
		_, err := rc2.Reconcile(ctx, reconcile.Request{NamespacedName: types.NamespacedName{Name: name}})
		o.errs = append(o.errs, err)
	}
	o.warnings = countWarnings(rec, 0)
	// the manager need not report anything about a revision that is not its own
	o.errs = append(o.errs, fmt.Errorf("not-required"))
	judge(c, s, caseName, "foreign", w, pk, before, from, o, map[string]any{"revisions": len(w.ListObjs(sim.Key{Group: "pkg.crossplane.io", Kind: "ProviderRevision"}.GK()))})
}

// claimSecretRace: two claims in one namespace name the SAME connection secret. Claim B owns it.
// The claim controller serves both claims with ONE reconciler (one connection propagator):
// claim A's reconcile is parked before each of its API calls while claim B is reconciled, then
// resumes. Whatever the interleaving, the secret B controls is left exactly as it was - the
// outcome must equal that of the sequential run A;B (A refused, B a no-op).
func claimSecretRace(c *kit.Ctx, round int) {
	for _, ssa := range []bool{false, true} {
		caseName := fmt.Sprintf("claim-secret-race/ssa=%v/r%d", ssa, round)
		if !c.Want(caseName) {
			continue
		}
		w := sim.NewWorld(xrk.Scheme(), uint64(c.Seed)*191+uint64(round))
		d := xrd("", true)
		w.MustSeed("user", d)
		w.MustSeed("user", xrk.ResourcesComposition("comp", "ex.org/v1", "XThing", []map[string]any{
			{"name": "a", "base": nopObj("NopA", "1"), "connectionDetails": []any{map[string]any{"name": "k", "type": "FromValue", "value": "v"}}, "readinessChecks": []any{map[string]any{"type": "None"}}}}))
		if err := xrk.ReconcileComposition(w, "comp"); err != nil {
			panic(err)
		}
		for _, n := range []string{"a", "b"} {
			w.MustSeed("user", xrk.XRObject("ex.org/v1", "XThing", "xr-"+n, "comp", map[string]any{
				"claimRef":                   map[string]any{"apiVersion": "ex.org/v1", "kind": "Thing", "namespace": "ns1", "name": n},
				"writeConnectionSecretToRef": map[string]any{"name": "xr-" + n + "-conn", "namespace": "crossplane-system"}}))
			w.MustSeed("user", xrk.ClaimObject("ex.org/v1", "Thing", "ns1", n, map[string]any{"resourceRef": map[string]any{"apiVersion": "ex.org/v1", "kind": "XThing", "name": "xr-" + n},
				"compositionRef": map[string]any{"name": "comp"}, "writeConnectionSecretToRef": map[string]any{"name": "shared"}}))
		}
		// the XRs' own connection secrets hold different values
		for _, n := range []string{"a", "b"} {
			xr := w.GetObj(sim.Key{Group: "ex.org", Kind: "XThing", Name: "xr-" + n})
			xu := &unstructured.Unstructured{Object: runtime.DeepCopyJSON(xr)}
			_ = unstructured.SetNestedSlice(xu.Object, []any{
				map[string]any{"type": "Ready", "status": "True", "reason": "Available", "lastTransitionTime": "2024-01-01T00:00:00Z"},
				map[string]any{"type": "Synced", "status": "True", "reason": "ReconcileSuccess", "lastTransitionTime": "2024-01-01T00:00:00Z"}}, "status", "conditions")
			if err := w.Client("xr").Status().Update(ctx, xu); err != nil {
				panic(err)
			}
			w.MustSeed("xr", map[string]any{"apiVersion": "v1", "kind": "Secret", "type": "connection.crossplane.io/v1alpha1",
				"metadata": map[string]any{"namespace": "crossplane-system", "name": "xr-" + n + "-conn",
					"ownerReferences": []any{map[string]any{"apiVersion": "ex.org/v1", "kind": "XThing", "name": "xr-" + n, "uid": sim.Str(xr, "metadata", "uid"), "controller": true, "blockOwnerDeletion": true}}},
				"data": map[string]any{"k": base64.StdEncoding.EncodeToString([]byte("value-of-" + n))}})
		}
		ce := xrk.NewClaimEnv(w, "xthings.ex.org", ssa)
		rec := func(n string) func() {
			return func() {
				_, _ = ce.R.Reconcile(ctx, reconcile.Request{NamespacedName: types.NamespacedName{Namespace: "ns1", Name: n}})
			}
		}
		for i := 0; i < 3; i++ {
			rec("b")()
		}
		sk := sim.Key{Kind: "Secret", Namespace: "ns1", Name: "shared"}
		before := w.GetObj(sk)
		if os.Getenv("DBG") != "" {
			for _, e := range w.Log(0) {
				if e.Actor == "claim" {
					fmt.Println(e.Short(), e.Err)
				}
			}
			fmt.Println(kit.JSON(w.GetObj(sim.Key{Group: "ex.org", Kind: "Thing", Namespace: "ns1", Name: "b"})))
		}
		bUID := sim.Str(w.GetObj(sim.Key{Group: "ex.org", Kind: "Thing", Namespace: "ns1", Name: "b"}), "metadata", "uid")
		owned := before != nil && sim.ControllerOf(before) != nil && sim.Str(sim.ControllerOf(before), "uid") == bUID
		digest := func(w *sim.World) map[string]string {
			o := w.GetObj(sk)
			if o == nil {
				return map[string]string{"secret": "<absent>"}
			}
			md, _ := o["metadata"].(map[string]any)
			return map[string]string{"secret": kit.JSON(map[string]any{"data": o["data"], "owners": md["ownerReferences"], "rv": md["resourceVersion"]})}
		}
		points, parked, diffs := xrk.InterleaveVsSequential(w, ce.C, rec("a"), rec("b"), digest, nil)
		c.Eval(caseName, owned && parked > 0)
		c.Count("claim_secret_race_points", int64(points))
		if owned {
			c.Count("claim_secret_race_cases_with_owned_secret", 1)
		}
		for _, df := range diffs {
			c.Violate("foreign-object-modified:claim-connection-secret-under-concurrent-reconciles", caseName,
				fmt.Sprintf("claim a's reconcile parked before %s while claim b (the secret's controller) was reconciled by the same reconciler: the secret differs from the sequential run", df.Point), df)
			break
		}
	}
}
