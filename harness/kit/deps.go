package kit

// keep the optional verification libraries in go.mod/go.sum
import (
	_ "github.com/anishathalye/porcupine"
	_ "pgregory.net/rapid"
)
