// Package kit holds what every check shares: tier/seed handling, per-case PRNGs,
// the three-valued verdict, evidence and replay writers and the known-findings file.
package kit

import (
	"crypto/sha256"
	"encoding/hex"
	"encoding/json"
	"fmt"
	"math/rand/v2"
	"os"
	"path/filepath"
	"runtime/debug"
	"sort"
	"strconv"
	"strings"
	"sync"
	"time"
)

// Root is the /verif directory (overridable for tests of the kit itself).
func Root() string {
	if r := os.Getenv("VERIF_ROOT"); r != "" {
		return r
	}
	return "/verif"
}

// Finding is one entry of known_findings.json.
type Finding struct {
	Property string `json:"property"`
	Key      string `json:"key"`
	Status   string `json:"status"` // known | fixed
	Commit   string `json:"commit,omitempty"`
	What     string `json:"what"`
}

// Violation is one monitor alarm.
type Violation struct {
	Key     string `json:"key"`
	What    string `json:"what"`
	Case    string `json:"case,omitempty"`
	Witness any    `json:"witness,omitempty"`
}

// Ctx is the state of one check run.
type Ctx struct {
	ID          string
	Level       string
	Tier        string
	Seed        int64
	Rule        string
	Assumptions []string
	Floor       int // minimum distinct_nontrivial for a "held" verdict
	Only        string

	mu         sync.Mutex
	start      time.Time
	evals      int
	distinct   map[string]struct{}
	samples    []any
	maxSamples int
	extras     map[string]any
	counters   map[string]int64
	viol       []Violation
	knownSeen  map[string]string
	known      map[string]Finding
	exhaustive bool
	inconcl    []string
}

// New creates the context from the environment (VERIF_TIER, VERIF_SEED, VERIF_ONLY).
func New(id, level string) *Ctx {
	tier := os.Getenv("VERIF_TIER")
	if tier != "thorough" {
		tier = "quick"
	}
	seed := int64(1)
	if s := os.Getenv("VERIF_SEED"); s != "" {
		if v, err := strconv.ParseInt(s, 10, 64); err == nil {
			seed = v
		}
	}
	levelDetail := ""
	switch level {
	case "exploration", "fault_enumeration", "model_checking", "proof", "translation_validation", "other":
	default:
		// the evidence schema only knows the categories; keep free text as a detail
		levelDetail = level
		if strings.HasPrefix(level, "fault_enumeration") {
			level = "fault_enumeration"
		} else {
			level = "exploration"
		}
	}
	c := &Ctx{
		ID: id, Level: level, Tier: tier, Seed: seed, Floor: 2,
		Only:       os.Getenv("VERIF_ONLY"),
		start:      time.Now(),
		distinct:   map[string]struct{}{},
		maxSamples: 4,
		extras:     map[string]any{},
		counters:   map[string]int64{},
		knownSeen:  map[string]string{},
		known:      map[string]Finding{},
	}
	if levelDetail != "" {
		c.extras["level_detail"] = levelDetail
	}
	if rp := os.Getenv("VERIF_REPLAY"); rp != "" {
		if b, err := os.ReadFile(rp); err == nil {
			var r struct {
				Tier string `json:"tier"`
				Seed int64  `json:"seed"`
				Case string `json:"case"`
			}
			if json.Unmarshal(b, &r) == nil {
				if r.Tier != "" {
					c.Tier = r.Tier
				}
				c.Seed = r.Seed
				c.Only = r.Case
			}
		}
	}
	b, err := os.ReadFile(filepath.Join(Root(), "known_findings.json"))
	if err == nil {
		var fs []Finding
		if json.Unmarshal(b, &fs) == nil {
			for _, f := range fs {
				if f.Property == id && f.Status == "known" {
					c.known[f.Key] = f
				}
			}
		}
	}
	return c
}

// Thorough reports whether the thorough tier was requested.
func (c *Ctx) Thorough() bool { return c.Tier == "thorough" }

// N picks the case count for the tier.
func (c *Ctx) N(quick, thorough int) int {
	if c.Thorough() {
		return thorough
	}
	return quick
}

// Rng returns a PRNG that is a pure function of (seed, check id, stream name, index):
// skipping or replaying one case never shifts the randomness of another.
func (c *Ctx) Rng(stream string, i int) *rand.Rand {
	h := sha256.Sum256([]byte(fmt.Sprintf("%s|%d|%s|%d", c.ID, c.Seed, stream, i)))
	var a, b uint64
	for k := 0; k < 8; k++ {
		a = a<<8 | uint64(h[k])
		b = b<<8 | uint64(h[8+k])
	}
	return rand.New(rand.NewPCG(a, b))
}

// Want reports whether the case with this name should run (VERIF_ONLY / replay filter).
func (c *Ctx) Want(caseName string) bool {
	return c.Only == "" || c.Only == caseName || strings.HasPrefix(caseName, c.Only+"/")
}

// Eval records one execution. fingerprint identifies the case shape for distinctness;
// nontrivial says whether the property's non-triviality rule was met.
func (c *Ctx) Eval(fingerprint string, nontrivial bool) {
	c.mu.Lock()
	defer c.mu.Unlock()
	c.evals++
	if nontrivial {
		c.distinct[Hash(fingerprint)] = struct{}{}
	}
}

// Sample keeps up to a few written-out cases for the evidence file.
func (c *Ctx) Sample(v any) {
	c.mu.Lock()
	defer c.mu.Unlock()
	if len(c.samples) < c.maxSamples {
		c.samples = append(c.samples, v)
	}
}

// WantSample reports whether more samples are still wanted.
func (c *Ctx) WantSample() bool {
	c.mu.Lock()
	defer c.mu.Unlock()
	return len(c.samples) < c.maxSamples
}

// Count adds to a named measured counter reported in the evidence.
func (c *Ctx) Count(name string, n int64) {
	c.mu.Lock()
	defer c.mu.Unlock()
	c.counters[name] += n
}

// Counter reads a counter.
func (c *Ctx) Counter(name string) int64 {
	c.mu.Lock()
	defer c.mu.Unlock()
	return c.counters[name]
}

// Extra stores an additional measured item in coverage.
func (c *Ctx) Extra(name string, v any) {
	c.mu.Lock()
	defer c.mu.Unlock()
	c.extras[name] = v
}

// Exhaustive marks that a finite space was enumerated completely.
func (c *Ctx) Exhaustive(b bool) { c.exhaustive = b }

// Inconclusive records a reason why this run cannot give a held verdict.
func (c *Ctx) Inconclusive(reason string) {
	c.mu.Lock()
	defer c.mu.Unlock()
	c.inconcl = append(c.inconcl, reason)
}

// Violate records a monitor alarm. key is the stable signature of the specific failing
// input / call site / history and is what known_findings.json is matched against.
func (c *Ctx) Violate(key, caseName, what string, witness any) {
	c.mu.Lock()
	defer c.mu.Unlock()
	if f, ok := c.known[key]; ok {
		if _, seen := c.knownSeen[key]; !seen {
			c.knownSeen[key] = f.What
		}
		c.counters["known_finding_hits"]++
		return
	}
	c.counters["violations_total"]++
	for _, v := range c.viol {
		if v.Key == key {
			return // one witness per key is enough
		}
	}
	c.viol = append(c.viol, Violation{Key: key, What: what, Case: caseName, Witness: witness})
}

// Violations returns the number of distinct unlisted violation keys so far.
func (c *Ctx) Violations() int {
	c.mu.Lock()
	defer c.mu.Unlock()
	return len(c.viol)
}

// Try runs f, turning a panic into an error carrying the stack.
func Try(f func()) (err error) {
	defer func() {
		if r := recover(); r != nil {
			err = fmt.Errorf("panic: %v\n%s", r, debug.Stack())
		}
	}()
	f()
	return nil
}

// Hash is a short stable digest.
func Hash(s string) string {
	h := sha256.Sum256([]byte(s))
	return hex.EncodeToString(h[:8])
}

// JSON renders v compactly (for fingerprints and messages).
func JSON(v any) string {
	b, err := json.Marshal(v)
	if err != nil {
		return fmt.Sprintf("%#v", v)
	}
	return string(b)
}

// Finish writes the evidence file and replays, prints the verdict lines and exits.
func (c *Ctx) Finish() {
	c.mu.Lock()
	defer c.mu.Unlock()
	root := Root()
	_ = os.MkdirAll(filepath.Join(root, "evidence"), 0o755)
	replayDir := filepath.Join(root, "replays")
	if d := os.Getenv("VERIF_REPLAY_DIR"); d != "" {
		replayDir = d // trials against scratch copies keep their witnesses out of /verif/replays
	}
	_ = os.MkdirAll(replayDir, 0o755)

	keys := make([]string, 0, len(c.knownSeen))
	for k := range c.knownSeen {
		keys = append(keys, k)
	}
	sort.Strings(keys)
	for _, k := range keys {
		fmt.Printf("KNOWN-FINDING: property=%s %s: %s\n", c.ID, k, c.knownSeen[k])
	}

	var replayPaths []string
	for i, v := range c.viol {
		p := filepath.Join(replayDir, fmt.Sprintf("%s-%s-seed%d-%d.json", c.ID, c.Tier, c.Seed, i))
		b, _ := json.MarshalIndent(map[string]any{
			"property": c.ID, "tier": c.Tier, "seed": c.Seed, "case": v.Case,
			"key": v.Key, "what": v.What, "witness": v.Witness,
		}, "", " ")
		_ = os.WriteFile(p, b, 0o644)
		replayPaths = append(replayPaths, p)
	}

	cov := map[string]any{
		"evaluations":         c.evals,
		"distinct_nontrivial": len(c.distinct),
		"rule":                c.Rule,
		"samples":             c.samples,
		"exhaustive":          c.exhaustive,
		"counters":            c.counters,
	}
	for k, v := range c.extras {
		cov[k] = v
	}
	if len(c.knownSeen) > 0 {
		cov["known_findings_observed"] = keys
	}
	if len(c.viol) > 0 {
		vs := make([]map[string]string, 0, len(c.viol))
		for _, v := range c.viol {
			vs = append(vs, map[string]string{"key": v.Key, "what": v.What, "case": v.Case})
		}
		cov["violation_keys"] = vs
	}
	verdict := "held"
	if len(c.samples) == 0 {
		c.inconcl = append(c.inconcl, "no sample recorded")
	}
	if len(c.distinct) < c.Floor {
		c.inconcl = append(c.inconcl, fmt.Sprintf("distinct_nontrivial %d under floor %d", len(c.distinct), c.Floor))
	}
	if len(c.viol) > 0 {
		verdict = "violated"
	} else if len(c.inconcl) > 0 && c.Only == "" {
		verdict = "inconclusive"
	}
	cov["verdict"] = verdict
	if len(c.inconcl) > 0 {
		cov["inconclusive_reasons"] = c.inconcl
	}
	if c.Assumptions == nil {
		c.Assumptions = []string{}
	}
	ev := map[string]any{
		"property_id": c.ID,
		"tier":        c.Tier,
		"seed":        c.Seed,
		"level":       c.Level,
		"coverage":    cov,
		"assumptions": c.Assumptions,
		"wall_s":      time.Since(c.start).Seconds(),
		"violations":  len(c.viol),
	}
	if c.Only == "" { // a replay / filtered run never overwrites the evidence of a full run
		b, _ := json.MarshalIndent(ev, "", " ")
		dir := os.Getenv("VERIF_EVIDENCE_DIR")
		if dir == "" {
			dir = filepath.Join(root, "evidence")
		}
		_ = os.MkdirAll(dir, 0o755)
		_ = os.WriteFile(filepath.Join(dir, c.ID+".json"), b, 0o644)
	}

	fmt.Printf("SUMMARY property=%s tier=%s seed=%d evaluations=%d distinct_nontrivial=%d violations=%d known=%d verdict=%s wall=%.1fs\n",
		c.ID, c.Tier, c.Seed, c.evals, len(c.distinct), len(c.viol), len(c.knownSeen), verdict, time.Since(c.start).Seconds())
	ck := make([]string, 0, len(c.counters))
	for k := range c.counters {
		ck = append(ck, k)
	}
	sort.Strings(ck)
	for _, k := range ck {
		fmt.Printf("  counter %s=%d\n", k, c.counters[k])
	}
	switch verdict {
	case "violated":
		for i, v := range c.viol {
			fmt.Printf("  violation key=%s case=%s: %s\n", v.Key, v.Case, v.What)
			fmt.Printf("VIOLATION property=%s replay=%s\n", c.ID, replayPaths[i])
		}
		os.Exit(1)
	case "inconclusive":
		fmt.Printf("INCONCLUSIVE property=%s %s\n", c.ID, strings.Join(c.inconcl, "; "))
		os.Exit(4) // 2 is what the Go runtime uses for fatal errors and unrecovered panics
	}
	os.Exit(0)
}
