module github.com/crossplane/crossplane/verifh

go 1.23.0

toolchain go1.23.7

require (
	github.com/anishathalye/porcupine v1.3.0
	github.com/crossplane/crossplane v0.0.0
)

replace github.com/crossplane/crossplane => /repo
