//go:build verif

package main

import (
	"context"
	"errors"
	"fmt"
	"reflect"

	"github.com/google/go-containerregistry/pkg/name"
	ggcrv1 "github.com/google/go-containerregistry/pkg/v1"
	"k8s.io/apimachinery/pkg/apis/meta/v1/unstructured"
	"k8s.io/apimachinery/pkg/runtime"
	"k8s.io/apimachinery/pkg/runtime/schema"
	"k8s.io/apimachinery/pkg/types"
	"sigs.k8s.io/controller-runtime/pkg/client"
	"sigs.k8s.io/controller-runtime/pkg/client/apiutil"
	"sigs.k8s.io/controller-runtime/pkg/reconcile"

	v1 "github.com/crossplane/crossplane/apis/pkg/v1"
	"github.com/crossplane/crossplane/internal/controller/pkg/manager"
	"github.com/crossplane/crossplane/internal/xpkg"
	"github.com/crossplane/crossplane/verifh/kit"
	"github.com/crossplane/crossplane/verifh/sim"
	"github.com/crossplane/crossplane/verifh/xrk"
)

const (
	actorPkgmgr = "pkgmgr" // the package manager (code under test)
	actorUser   = "user"   // edits the Package, may activate revisions by hand
	actorRevctl = "revctl" // stands in for the revision controller: sets revision health
	pkgName     = "pk"
	pkgGroup    = "pkg.crossplane.io"
	labelParent = "pkg.crossplane.io/package"
)

// pkgKind is one of the three package kinds with the constructors the production Setup*
// functions hand to manager.NewReconciler.
type pkgKind struct {
	Kind    string
	RevKind string
	np      func() v1.Package
	nr      func() v1.PackageRevision
	nrl     func() v1.PackageRevisionList
}

var kinds = []pkgKind{
	{"Provider", "ProviderRevision", func() v1.Package { return &v1.Provider{} }, func() v1.PackageRevision { return &v1.ProviderRevision{} }, func() v1.PackageRevisionList { return &v1.ProviderRevisionList{} }},
	{"Configuration", "ConfigurationRevision", func() v1.Package { return &v1.Configuration{} }, func() v1.PackageRevision { return &v1.ConfigurationRevision{} }, func() v1.PackageRevisionList { return &v1.ConfigurationRevisionList{} }},
	{"Function", "FunctionRevision", func() v1.Package { return &v1.Function{} }, func() v1.PackageRevision { return &v1.FunctionRevision{} }, func() v1.PackageRevisionList { return &v1.FunctionRevisionList{} }},
}

func kindByName(n string) *pkgKind {
	for i := range kinds {
		if kinds[i].Kind == n {
			return &kinds[i]
		}
	}
	panic("unknown kind " + n)
}

func (k *pkgKind) pkgKey() sim.Key { return sim.Key{Group: pkgGroup, Kind: k.Kind, Name: pkgName} }
func (k *pkgKind) revGK() schema.GroupKind {
	return schema.GroupKind{Group: pkgGroup, Kind: k.RevKind}
}

// regState is the scripted registry: which digest each image reference resolves to and how
// many of the next Head calls fail.
type regState struct {
	Tags     map[string]string
	FailNext int
}

func (s *regState) clone() *regState {
	n := &regState{Tags: map[string]string{}, FailNext: s.FailNext}
	for k, v := range s.Tags {
		n.Tags[k] = v
	}
	return n
}

// fetcher is the fake xpkg.Fetcher. Head is the only method the PackageRevisioner uses; it
// tells the monitor which digest the registry answered with (the monitor's only source of
// "the current digest").
type fetcher struct {
	st *regState
	m  *monitor
}

var _ xpkg.Fetcher = &fetcher{}

func (f *fetcher) Fetch(context.Context, name.Reference, ...string) (ggcrv1.Image, error) {
	return nil, errors.New("c14: Fetch is not scripted")
}

func (f *fetcher) Tags(context.Context, name.Reference, ...string) ([]string, error) {
	return nil, errors.New("c14: Tags is not scripted")
}

func (f *fetcher) Head(_ context.Context, ref name.Reference, _ ...string) (*ggcrv1.Descriptor, error) {
	f.m.headCalls++
	if f.st.FailNext > 0 {
		f.st.FailNext--
		f.m.headFailures++
		return nil, errors.New("scripted registry failure")
	}
	hex, ok := f.st.Tags[ref.String()]
	if !ok {
		f.m.headFailures++
		return nil, fmt.Errorf("MANIFEST_UNKNOWN: %s", ref.String())
	}
	f.m.resolved("sha256:" + hex)
	return &ggcrv1.Descriptor{MediaType: "application/vnd.oci.image.manifest.v1+json", Size: 1, Digest: ggcrv1.Hash{Algorithm: "sha256", Hex: hex}}, nil
}

// cacheLikeClient is the sim client with the one behaviour of controller-runtime's cache
// reader that the package reconciler leans on: a typed object returned by Get carries its
// GroupVersionKind (the reconciler builds the controller reference from it).
type cacheLikeClient struct {
	*sim.Client
	e *env
}

// List is served by the env's lister while one is set: the revision informer's store is behind
// (it has not seen the latest writes) when the reconciler lists, and has caught up by the time
// the reconciler's next Get arrives.
func (c cacheLikeClient) List(ctx context.Context, list client.ObjectList, opts ...client.ListOption) error {
	if c.e != nil && c.e.lister != nil {
		return c.e.lister.List(ctx, list, opts...)
	}
	return c.Client.List(ctx, list, opts...)
}

func (c cacheLikeClient) Get(ctx context.Context, key client.ObjectKey, obj client.Object, opts ...client.GetOption) error {
	err := c.Client.Get(ctx, key, obj, opts...)
	if err == nil {
		if gvk, e := apiutil.GVKForObject(obj, c.Client.Scheme()); e == nil {
			obj.GetObjectKind().SetGroupVersionKind(gvk)
		}
	}
	return err
}

// env is the real package reconciler with the real PackageRevisioner over the sim client.
type env struct {
	w    *sim.World
	c    *sim.Client
	kind *pkgKind
	f    *fetcher
	rec  *manager.Reconciler
	// lister, when set, serves the reconciler's List calls (see cacheLikeClient.List)
	lister *sim.Client
}

func newEnv(w *sim.World, kind *pkgKind, st *regState, m *monitor) *env {
	e := &env{w: w, kind: kind, c: w.Client(actorPkgmgr), f: &fetcher{st: st, m: m}}
	e.rebuild()
	return e
}

// rebuild constructs the reconciler as SetupProvider/SetupConfiguration/SetupFunction do (a
// process restart: the reconciler keeps no state, the client's fault plan is kept).
func (e *env) rebuild() {
	cl := cacheLikeClient{Client: e.c, e: e}
	mgr := xrk.NewManager(e.w, cl)
	e.rec = manager.NewReconciler(mgr,
		manager.WithNewPackageFn(e.kind.np),
		manager.WithNewPackageRevisionFn(e.kind.nr),
		manager.WithNewPackageRevisionListFn(e.kind.nrl),
		manager.WithRevisioner(manager.NewPackageRevisioner(e.f, manager.WithDefaultRegistry(xpkg.DefaultRegistry))),
		manager.WithConfigStore(xpkg.NewImageConfigStore(cl, "crossplane-system")),
		manager.WithRecorder(xrk.NewRecorder()),
	)
}

// onlyTimestamps reports whether two versions of an object differ in nothing but condition
// lastTransitionTime values (and server bookkeeping). The reconciler stamps conditions with the
// wall clock; such writes must not influence how many reconciles the harness runs.
func onlyTimestamps(before, after map[string]any) bool {
	if before == nil || after == nil {
		return false
	}
	return reflect.DeepEqual(stripTimes(before), stripTimes(after))
}

func stripTimes(o map[string]any) map[string]any {
	cp := runtime.DeepCopyJSON(o)
	if md, ok := cp["metadata"].(map[string]any); ok {
		delete(md, "resourceVersion")
		delete(md, "managedFields")
	}
	if conds, ok, _ := unstructured.NestedSlice(cp, "status", "conditions"); ok {
		for _, c := range conds {
			if m, ok := c.(map[string]any); ok {
				delete(m, "lastTransitionTime")
			}
		}
		_ = unstructured.SetNestedSlice(cp, conds, "status", "conditions")
	}
	return cp
}

type recResult struct {
	res      reconcile.Result
	err      error
	crashed  bool
	panicked error
	calls    int
	changed  int // effective writes by the package manager
}

// reconcile runs one reconcile of the package.
func (e *env) reconcile() recResult {
	var r recResult
	e.c.ResetCalls()
	from := e.w.LogLen()
	r.panicked = kit.Try(func() {
		r.crashed = sim.RunActor(func() {
			r.res, r.err = e.rec.Reconcile(context.Background(), reconcile.Request{NamespacedName: types.NamespacedName{Name: pkgName}})
		})
	})
	if r.crashed {
		e.rebuild()
	}
	r.calls = e.c.Calls()
	for _, ev := range e.w.Log(from) {
		if ev.Actor == actorPkgmgr && ev.Changed && !onlyTimestamps(ev.Before, ev.After) {
			r.changed++
		}
	}
	return r
}
