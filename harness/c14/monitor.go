//go:build verif

package main

import (
	"fmt"
	"sort"
	"strings"

	"k8s.io/apimachinery/pkg/apis/meta/v1/unstructured"
	"k8s.io/apimachinery/pkg/runtime/schema"

	"github.com/crossplane/crossplane/verifh/sim"
)

// monitor is the oracle state of one execution. It is written from the property text:
//
//	identity  = what the package's source currently resolves to: the digest the registry
//	            answered with in this reconcile; under pull policy Never the source string
//	            itself (no digest is ever known); under IfNotPresent with an unchanged source
//	            the identity pinned when status.currentIdentifier was last written.
//	binding   = a revision is bound, at the moment the package manager creates it, to the
//	            identity resolved in that reconcile. The monitor never derives anything from
//	            revision names (names are what O3 checks).
//
// It is touched only from the goroutine owning the execution (the hook runs synchronously
// inside that goroutine's API calls).
type monitor struct {
	pkgKey sim.Key
	revGK  schema.GroupKind

	// reconcile scope
	inReconcile bool
	curIdentity string

	// persistent
	pinSource, pinIdentity string
	bound                  map[string]string // live revision name -> identity
	nameOf                 map[string]string // identity -> the revision name it was given
	userMultiActive        bool              // > 1 Active revisions exist because of a user write

	// observations
	hookEvals, deletes, creates, activations, deactivations int
	headCalls, headFailures                                 int
	o2Checks                                                int
	identities                                              []string // identity per successful reconcile, consecutive duplicates dropped
	lastEvents                                              []string

	viol []violation
}

type violation struct {
	key, what string
	state     []string
}

func newMonitor(k *pkgKind) *monitor {
	return &monitor{pkgKey: k.pkgKey(), revGK: k.revGK(), bound: map[string]string{}, nameOf: map[string]string{}}
}

func (m *monitor) clone() *monitor {
	n := *m
	n.bound = map[string]string{}
	for k, v := range m.bound {
		n.bound[k] = v
	}
	n.nameOf = map[string]string{}
	for k, v := range m.nameOf {
		n.nameOf[k] = v
	}
	n.identities = append([]string(nil), m.identities...)
	n.lastEvents = nil
	n.viol = nil
	n.hookEvals, n.deletes, n.creates, n.activations, n.deactivations, n.headCalls, n.headFailures, n.o2Checks = 0, 0, 0, 0, 0, 0, 0, 0
	return &n
}

func (m *monitor) add(key, what string, revs []revInfo) {
	for _, v := range m.viol {
		if v.key == key {
			return
		}
	}
	var st []string
	for _, r := range revs {
		st = append(st, r.String())
	}
	m.viol = append(m.viol, violation{key: key, what: what, state: st})
}

// resolved is called by the fake registry when it answers a Head request.
func (m *monitor) resolved(identity string) { m.curIdentity = identity }

type revInfo struct {
	Name     string
	Num      int64
	State    string
	Identity string
}

func (r revInfo) String() string {
	return fmt.Sprintf("%s #%d state=%q identity=%s", r.Name, r.Num, r.State, short(r.Identity))
}

func short(id string) string {
	if strings.HasPrefix(id, "sha256:") && len(id) > 19 {
		return id[:19]
	}
	return id
}

func isRevOf(o map[string]any) bool {
	l, _, _ := unstructured.NestedString(o, "metadata", "labels", labelParent)
	return l == pkgName
}

func (m *monitor) info(o map[string]any) revInfo {
	n, _, _ := unstructured.NestedInt64(o, "spec", "revision")
	name := sim.Str(o, "metadata", "name")
	return revInfo{Name: name, Num: n, State: sim.Str(o, "spec", "desiredState"), Identity: m.bound[name]}
}

// revisions lists the package's revisions in the store, ordered by name.
func (m *monitor) revisions(v *sim.View) []revInfo {
	var out []revInfo
	for _, o := range v.List(m.revGK) {
		if isRevOf(o) {
			out = append(out, m.info(o))
		}
	}
	return out
}

func pkgSpec(p map[string]any) (source, pull, activation string, limit int64, hasLimit bool) {
	source = sim.Str(p, "spec", "package")
	pull = sim.Str(p, "spec", "packagePullPolicy")
	activation = sim.Str(p, "spec", "revisionActivationPolicy")
	limit, hasLimit, _ = unstructured.NestedInt64(p, "spec", "revisionHistoryLimit")
	return
}

// beginReconcile fixes what the monitor knows about the current identity before the registry
// is asked (the pull-policy shortcuts of the API documentation).
func (m *monitor) beginReconcile(w *sim.World) {
	m.inReconcile = true
	m.curIdentity = ""
	p := w.GetObj(m.pkgKey)
	if p == nil {
		return
	}
	source, pull, _, _, _ := pkgSpec(p)
	switch pull {
	case "Never":
		m.curIdentity = "src:" + source
	case "IfNotPresent":
		if sim.Str(p, "status", "currentIdentifier") == source && m.pinSource == source {
			m.curIdentity = m.pinIdentity
		}
	}
}

// hook judges every store state produced by a write.
func (m *monitor) hook(v *sim.View, ev *sim.Event) {
	if !ev.Changed {
		return
	}
	obj := ev.After
	if obj == nil {
		obj = ev.Before
	}
	isRev := ev.Key.GK() == m.revGK && obj != nil && isRevOf(obj)
	revs := m.revisions(v)
	nActive := 0
	for _, r := range revs {
		if r.State == "Active" {
			nActive++
		}
	}
	if ev.Actor != actorPkgmgr {
		// states produced by other actors are not judged, only remembered
		m.userMultiActive = nActive > 1
		if isRev && ev.After == nil {
			delete(m.bound, ev.Key.Name)
		}
		return
	}
	if !onlyTimestamps(ev.Before, ev.After) {
		m.hookEvals++ // counted without wall-clock-only writes so that the counter is reproducible; those are judged all the same
	}
	if len(m.lastEvents) < 400 {
		m.lastEvents = append(m.lastEvents, ev.Short())
	}
	pkg := v.Get(m.pkgKey)
	_, _, activation, limit, hasLimit := pkgSpec(pkg)

	activated := false
	if isRev {
		switch {
		case ev.Verb == "delete":
			m.judgeDelete(ev, revs, limit, hasLimit)
		case ev.Before == nil && ev.After != nil:
			m.judgeCreate(ev, revs)
		}
		if ev.After != nil {
			was := ev.Before != nil && sim.Str(ev.Before, "spec", "desiredState") == "Active"
			is := sim.Str(ev.After, "spec", "desiredState") == "Active"
			if is && !was {
				activated = true
				m.activations++
				// O2, manual clause: Crossplane never activates under the Manual policy
				if activation == "Manual" {
					m.add("O2-manual-policy-revision-activated-by-crossplane",
						fmt.Sprintf("%s set revision %s Active although the package's revisionActivationPolicy is Manual", ev.Short(), ev.Key.Name), revs)
				}
			}
			if was && !is {
				m.deactivations++
			}
		}
	}
	// O1: after a write by Crossplane at most one revision of the package is Active. A surplus
	// that a user write produced is tolerated as long as Crossplane does not activate anything.
	if nActive > 1 && (activated || !m.userMultiActive) {
		m.add("O1-two-active-revisions:"+orDefault(activation, "Automatic"),
			fmt.Sprintf("after %s, %d revisions of the package are Active", ev.Short(), nActive), revs)
	}
	if nActive <= 1 {
		m.userMultiActive = false
	}
	// the pin of pull policy IfNotPresent: identity resolved when currentIdentifier was written
	if ev.Key == m.pkgKey && ev.After != nil && m.inReconcile && m.curIdentity != "" {
		if ci := sim.Str(ev.After, "status", "currentIdentifier"); ci != "" && ci == sim.Str(ev.After, "spec", "package") {
			m.pinSource, m.pinIdentity = ci, m.curIdentity
		}
	}
}

func orDefault(s, d string) string {
	if s == "" {
		return d
	}
	return s
}

// judgeCreate is O3 at the moment a revision appears.
func (m *monitor) judgeCreate(ev *sim.Event, revs []revInfo) {
	m.creates++
	name := ev.Key.Name
	id := m.curIdentity
	if id == "" {
		m.add("O3-revision-created-before-source-was-resolved", fmt.Sprintf("%s created a revision in a reconcile that had not resolved the package source", ev.Short()), revs)
		return
	}
	for _, r := range revs {
		if r.Name != name && r.Identity == id {
			m.add("O3-second-revision-for-same-digest", fmt.Sprintf("%s created revision %s for %s while revision %s of the same package already exists for it", ev.Short(), name, short(id), r.Name), revs)
		}
	}
	if prev, ok := m.nameOf[id]; ok && prev != name {
		m.add("O3-revision-name-not-a-function-of-digest", fmt.Sprintf("%s: %s was named %s before and is named %s now", ev.Short(), short(id), prev, name), revs)
	}
	m.nameOf[id] = name
	m.bound[name] = id
}

// judgeDelete is O4 on every effective Delete issued by the package manager.
func (m *monitor) judgeDelete(ev *sim.Event, after []revInfo, limit int64, hasLimit bool) {
	m.deletes++
	target := m.info(ev.Before)
	before := append([]revInfo{target}, after...)
	sort.Slice(before, func(i, j int) bool { return before[i].Name < before[j].Name })
	if ev.After == nil {
		defer delete(m.bound, target.Name) // really gone (no finalizer held it)
	}

	if !hasLimit {
		// the CRD defaults the field to 1; the harness' user always sets it
		m.add("O4-gc-without-history-limit", fmt.Sprintf("%s although spec.revisionHistoryLimit is unset", ev.Short()), before)
		return
	}
	if limit == 0 {
		m.add("O4-gc-with-history-limit-zero", fmt.Sprintf("%s although revisionHistoryLimit is 0 (garbage collection disabled)", ev.Short()), before)
	} else if int64(len(before))-1 <= limit { // written so that limit+1 cannot overflow
		m.add("O4-gc-within-history-limit", fmt.Sprintf("%s although only %d revisions exist with revisionHistoryLimit %d (needs more than limit+1)", ev.Short(), len(before), limit), before)
	}
	if m.curIdentity == "" {
		m.add("O4-gc-before-source-was-resolved", fmt.Sprintf("%s in a reconcile that had not resolved the package source", ev.Short()), before)
		return
	}
	minAll, minOther := int64(1<<62), int64(1<<62)
	for _, r := range before {
		if r.Num < minAll {
			minAll = r.Num
		}
		if r.Identity != m.curIdentity && r.Num < minOther {
			minOther = r.Num
		}
	}
	if target.Identity == m.curIdentity {
		class := "not-oldest"
		if target.Num == minAll {
			class = "rollback-to-oldest"
		}
		m.add("O4-gc-deleted-current-revision:"+class,
			fmt.Sprintf("%s deleted revision %s (#%d), the revision of the package's current source (%s); %d revisions, limit %d", ev.Short(), target.Name, target.Num, short(m.curIdentity), len(before), limit), before)
		return
	}
	if target.Num > minOther {
		m.add("O4-gc-target-not-oldest-noncurrent", fmt.Sprintf("%s deleted #%d although non-current revision #%d is older", ev.Short(), target.Num, minOther), before)
	}
}

// endReconcile applies the post-reconcile oracles. ok = the reconcile was fault-free, returned
// nil and asked for no immediate requeue.
func (m *monitor) endReconcile(w *sim.World, ok bool) {
	m.inReconcile = false
	if !ok {
		return
	}
	m.o2Checks++
	w.Read(func(v *sim.View) {
		revs := m.revisions(v)
		pkg := v.Get(m.pkgKey)
		if pkg == nil {
			return
		}
		_, _, activation, _, _ := pkgSpec(pkg)
		id := m.curIdentity
		if id == "" {
			m.add("O2-reconcile-succeeded-without-resolving-source", "a reconcile returned success without the package source having been resolved to a digest", revs)
			return
		}
		if len(m.identities) == 0 || m.identities[len(m.identities)-1] != id {
			m.identities = append(m.identities, id)
		}
		var cur []revInfo
		perID := map[string][]string{}
		for _, r := range revs {
			if r.Identity == id {
				cur = append(cur, r)
			}
			perID[r.Identity] = append(perID[r.Identity], r.Name)
		}
		// O3: at most one revision per (package, digest); every revision is accounted for
		ids := make([]string, 0, len(perID))
		for k := range perID {
			ids = append(ids, k)
		}
		sort.Strings(ids)
		for _, k := range ids {
			if k == "" {
				m.add("O3-revision-of-unknown-origin", fmt.Sprintf("revisions %v exist that were not created for a resolved digest", perID[k]), revs)
			} else if len(perID[k]) > 1 {
				m.add("O3-second-revision-for-same-digest", fmt.Sprintf("revisions %v all belong to %s", perID[k], short(k)), revs)
			}
		}
		if len(cur) == 0 {
			m.add("O2-no-revision-for-current-digest", fmt.Sprintf("after a successful reconcile no revision exists for the current source (%s)", short(id)), revs)
			return
		}
		c := cur[0]
		for _, r := range revs {
			if r.Name != c.Name && r.Num >= c.Num {
				m.add("O2-current-revision-not-highest-numbered", fmt.Sprintf("after a successful reconcile the current revision %s has number %d but %s has %d", c.Name, c.Num, r.Name, r.Num), revs)
			}
			if r.Name != c.Name && r.State == "Active" {
				m.add("O1-noncurrent-revision-left-active:"+orDefault(activation, "Automatic"), fmt.Sprintf("after a successful reconcile the non-current revision %s is still Active (current: %s)", r.Name, c.Name), revs)
			}
		}
		if activation != "Manual" && c.State != "Active" {
			m.add("O2-current-revision-not-active", fmt.Sprintf("after a successful reconcile under the Automatic policy the current revision %s has desiredState %q", c.Name, c.State), revs)
		}
	})
}
