//go:build verif

package main

import (
	"crypto/sha256"
	"encoding/hex"
	"fmt"
	"math"
	"math/rand/v2"
)

// step is one user-visible event between reconciles. All set fields of one step land before
// the package manager reconciles again (the spec fields in ONE update of the Package).
type step struct {
	Source     string            `json:"source,omitempty"`     // spec.package
	Limit      *int64            `json:"limit,omitempty"`      // spec.revisionHistoryLimit
	Activation string            `json:"activation,omitempty"` // spec.revisionActivationPolicy
	Pull       string            `json:"pull,omitempty"`       // spec.packagePullPolicy
	Registry   map[string]string `json:"registry,omitempty"`   // image reference -> digest id it resolves to from now on
	HeadFail   int               `json:"headFail,omitempty"`   // the next n registry requests fail
	Health     string            `json:"health,omitempty"`     // revision controller sets Healthy=True|False on the current revision
	Activate   string            `json:"activate,omitempty"`   // user sets desiredState Active on the "current" or the "oldest" other revision
	Settle     int               `json:"settle,omitempty"`     // max reconciles before the next step (default 6)
	// histories with Finalizers only: the user deletes the "current" / "oldest" other revision
	// (it stays, terminating, until the revision controller releases it)
	DeleteRev string `json:"deleteRev,omitempty"`
	// the revision controller finalizes every terminating revision
	Release bool `json:"release,omitempty"`
	// Recreate: the user deletes the package object and creates it again under the same name
	// (a new uid; same spec, then this step's edits); the revisions of the old incarnation stay
	// behind until the garbage collector gets to them
	Recreate bool `json:"recreate,omitempty"`
}

type history struct {
	Name  string `json:"name"`
	Kind  string `json:"kind"`
	Steps []step `json:"steps"`
	// Finalizers: the revision controller holds its finalizer on every revision it has seen
	// (as in production), so a deleted revision lingers in Terminating state
	Finalizers bool `json:"finalizers,omitempty"`
}

const maxSettle = 6

// Image references. Each is exactly 12 characters long: under pull policy Never the revision
// name is derived from the first 12 characters of the source string, and whether two sources
// sharing such a prefix should share a revision is not something the property speaks about, so
// the generator keeps the prefixes distinct.
var sources = []string{"aa.io/x/p:v1", "aa.io/x/p:v2", "aa.io/x/p:v3", "aa.io/x/p:v4", "bb.io/x/p:v1"}

// digest returns the 64-hex digest with id i (distinct within the first 12 hex characters).
func digest(id string) string {
	h := sha256.Sum256([]byte("c14-digest-" + id))
	return hex.EncodeToString(h[:])
}

var digestIDs = []string{"d1", "d2", "d3", "d4", "d5"}

// initialRegistry: v1..v4 -> d1..d4; the second repository's v1 is the same image as aa v1.
func initialRegistry() *regState {
	return &regState{Tags: map[string]string{
		sources[0]: digest("d1"), sources[1]: digest("d2"), sources[2]: digest("d3"), sources[3]: digest("d4"),
		sources[4]: digest("d1"),
	}}
}

func lim(n int64) *int64 { return &n }

// baseHistories are the fixed shapes for which every fault position is enumerated.
// The quick tier enumerates all of them for Provider and one each for the other two kinds.
func baseHistories(thorough bool) []history {
	quickOnly := map[string]string{"Configuration": "manual-activation", "Function": "limit-zero-then-lowered"}
	v1, v2, v3, v4, b1 := sources[0], sources[1], sources[2], sources[3], sources[4]
	hs := []history{
		{Name: "upgrade-rollback-auto", Steps: []step{
			{Source: v1, Limit: lim(1), Activation: "Automatic", Pull: "IfNotPresent"},
			{Source: v2}, {Source: v3}, {Source: v2}, {Source: v1}, {Source: v3}, {Limit: lim(2)}, {Source: v4}, {Source: v1}, {Limit: lim(1)},
		}},
		// upgrades that are taken back at once (with the next-edit-first fault variant: an upgrade that
		// failed halfway and is rolled back before it was retried)
		{Name: "upgrade-taken-back", Steps: []step{
			{Source: v1, Limit: lim(2), Activation: "Automatic", Pull: "IfNotPresent"},
			{Source: v2}, {Source: v1}, {Source: v3}, {Source: v1}, {Source: v2}, {Source: v3},
		}},
		// the package is deleted and re-created under its name with another source while the old
		// incarnation's Active revision is still there (its finalizer holds it)
		{Name: "package-recreated", Finalizers: true, Steps: []step{
			{Source: v1, Limit: lim(1), Activation: "Automatic", Pull: "IfNotPresent"},
			{Recreate: true, Source: v2}, {Source: v3}, {DeleteRev: "oldest"}, {Release: true}, {Source: v2},
		}},
		{Name: "limit-zero-then-lowered", Steps: []step{
			{Source: v1, Limit: lim(0), Activation: "Automatic", Pull: "IfNotPresent"},
			{Source: v2}, {Source: v3}, {Source: v4}, {Source: v2}, {Limit: lim(2)}, {Source: v1}, {Limit: lim(1)}, {Limit: lim(0)}, {Source: v3},
		}},
		{Name: "manual-activation", Steps: []step{
			{Source: v1, Limit: lim(1), Activation: "Manual", Pull: "IfNotPresent"},
			{Activate: "current"}, {Source: v2}, {Activate: "current"}, {Source: v1}, {Activate: "oldest"}, {Activation: "Automatic"},
			{Source: v3}, {Activation: "Manual"}, {Source: v2}, {Activate: "current"}, {Limit: lim(0)},
		}},
		{Name: "pull-always-registry-moves", Steps: []step{
			{Source: v1, Limit: lim(1), Activation: "Automatic", Pull: "Always"},
			{Registry: map[string]string{v1: "d2"}}, {Registry: map[string]string{v1: "d3"}}, {Registry: map[string]string{v1: "d2"}},
			{HeadFail: 2}, {Registry: map[string]string{v1: "d1"}, Limit: lim(2)}, {Registry: map[string]string{v1: "d5"}}, {Source: v4},
		}},
		{Name: "ifnotpresent-pinned-same-image", Steps: []step{
			{Source: v1, Limit: lim(2), Activation: "Automatic", Pull: "IfNotPresent"},
			{Registry: map[string]string{v1: "d2"}}, {Source: b1}, {Source: v1}, {Source: v2}, {Pull: "Always", Registry: map[string]string{v2: "d1"}}, {Limit: lim(1)}, {Source: b1},
		}},
		{Name: "never-policy", Steps: []step{
			{Source: v1, Limit: lim(1), Activation: "Automatic", Pull: "Never"},
			{Pull: "IfNotPresent"}, {Source: v2}, {Pull: "Never"}, {Source: v1}, {Pull: "Always"}, {Source: v2, Pull: "Never"}, {Limit: lim(0)},
		}},
		{Name: "health-flaps", Steps: []step{
			{Source: v1, Limit: lim(1), Activation: "Automatic", Pull: "IfNotPresent"},
			{Health: "True"}, {Source: v2}, {Health: "False"}, {Source: v1}, {Health: "True"}, {Source: v3, Health: "False"}, {Limit: lim(3)}, {Source: v2},
		}},
		// the shape of candidate defect F6: the oldest digest becomes current again while more
		// than limit+1 revisions exist (limit lowered in the same edit; edit landing before the
		// collecting reconcile)
		{Name: "rollback-to-oldest-over-limit", Steps: []step{
			{Source: v1, Limit: lim(3), Activation: "Automatic", Pull: "IfNotPresent"},
			{Source: v2}, {Source: v3}, {Source: v1, Limit: lim(1)}, {Source: v2},
		}},
		{Name: "terminating-active-revision", Finalizers: true, Steps: []step{
			{Source: v1, Limit: lim(1), Activation: "Automatic", Pull: "IfNotPresent"},
			{DeleteRev: "current"}, {Source: v2}, {Release: true}, {Source: v3}, {DeleteRev: "oldest"}, {Source: v1}, {Release: true}, {Source: v4},
		}},
		{Name: "terminating-revisions-manual", Finalizers: true, Steps: []step{
			{Source: v1, Limit: lim(2), Activation: "Manual", Pull: "IfNotPresent"},
			{Activate: "current"}, {Source: v2}, {DeleteRev: "oldest"}, {Activation: "Automatic"}, {Source: v3}, {Release: true}, {DeleteRev: "current"}, {Source: v1}, {Release: true},
		}},
		// a limit so large that "limit+1" does not fit an int: nothing may ever be collected
		{Name: "limit-max-int64", Steps: []step{
			{Source: v1, Limit: lim(math.MaxInt64), Activation: "Automatic", Pull: "IfNotPresent"},
			{Source: v2}, {Source: v3}, {Source: v1}, {Source: v4},
		}},
		{Name: "rollback-before-collection", Steps: []step{
			{Source: v1, Limit: lim(1), Activation: "Automatic", Pull: "IfNotPresent"},
			{Source: v2}, {Source: v3, Settle: 1}, {Source: v1}, {Source: v4},
		}},
	}
	var out []history
	for _, k := range kinds {
		for _, h := range hs {
			if want, ok := quickOnly[k.Kind]; ok && !thorough && h.Name != want {
				continue
			}
			h.Kind = k.Kind
			h.Name = k.Kind + "-" + h.Name
			out = append(out, h)
		}
	}
	return out
}

// randomHistory draws a history. Every spec field is always explicit (the CRD defaults them
// in a real cluster: limit 1, Automatic, IfNotPresent).
func randomHistory(r *rand.Rand, i int) history {
	pick := func(xs []string) string { return xs[r.IntN(len(xs))] }
	pulls := []string{"IfNotPresent", "IfNotPresent", "IfNotPresent", "Always", "Always", "Never"}
	act := func() string {
		if r.IntN(5) == 0 {
			return "Manual"
		}
		return "Automatic"
	}
	h := history{Name: fmt.Sprintf("rand-%d", i), Kind: kinds[r.IntN(len(kinds))].Kind, Finalizers: r.IntN(3) == 0}
	cur := pick(sources)
	used := []string{cur}
	activation := act()
	h.Steps = append(h.Steps, step{Source: cur, Limit: lim(int64(r.IntN(4))), Activation: activation, Pull: pick(pulls)})
	n := 6 + r.IntN(7)
	newSource := func() string {
		var s string
		for {
			if len(used) > 1 && r.IntN(2) == 0 {
				s = pick(used) // rollback to something used before
			} else {
				s = pick(sources)
			}
			if s != cur {
				break
			}
		}
		cur = s
		used = append(used, s)
		return s
	}
	for len(h.Steps) < n {
		var st step
		switch x := r.IntN(100); {
		case x < 38:
			st.Source = newSource()
			if r.IntN(4) == 0 {
				st.Limit = lim(int64(r.IntN(4)))
			}
		case x < 52:
			st.Limit = lim(int64(r.IntN(4)))
		case x < 60:
			if activation == "Manual" {
				activation = "Automatic"
			} else {
				activation = "Manual"
			}
			st.Activation = activation
		case x < 68:
			st.Pull = pick(pulls)
		case x < 80:
			st.Registry = map[string]string{pick(sources): pick(digestIDs)}
			if r.IntN(3) == 0 {
				st.Source = newSource()
			}
		case x < 84:
			st.HeadFail = 1 + r.IntN(2)
			if r.IntN(2) == 0 {
				st.Source = newSource()
			}
		case x < 92:
			st.Health = pick([]string{"True", "False"})
		case x < 98:
			st.Activate = "current"
		default:
			st.Activate = "oldest"
		}
		if r.IntN(12) == 0 {
			st.Settle = 1 + r.IntN(2)
		}
		if h.Finalizers {
			switch r.IntN(6) {
			case 0:
				st.DeleteRev = pick([]string{"current", "oldest"})
			case 1:
				st.Release = true
			}
		}
		h.Steps = append(h.Steps, st)
	}
	return h
}
