// Digest stability of the REAL registry fetcher (C14): "revision names are a function of package
// name and image digest, so re-resolving the same image never creates a second revision".
//go:build verif

package main

import (
	"context"
	"fmt"
	"io"
	"log"
	"net/http"
	"net/http/httptest"
	"strings"
	"sync/atomic"

	"github.com/google/go-containerregistry/pkg/name"
	"github.com/google/go-containerregistry/pkg/registry"
	ggcrv1 "github.com/google/go-containerregistry/pkg/v1"
	"github.com/google/go-containerregistry/pkg/v1/empty"
	"github.com/google/go-containerregistry/pkg/v1/mutate"
	"github.com/google/go-containerregistry/pkg/v1/random"
	"github.com/google/go-containerregistry/pkg/v1/remote"
	"github.com/google/go-containerregistry/pkg/v1/types"
	corev1 "k8s.io/api/core/v1"
	kerrors "k8s.io/apimachinery/pkg/api/errors"
	metav1 "k8s.io/apimachinery/pkg/apis/meta/v1"
	"k8s.io/apimachinery/pkg/runtime/schema"
	"k8s.io/client-go/kubernetes"
	corev1client "k8s.io/client-go/kubernetes/typed/core/v1"

	pkgv1 "github.com/crossplane/crossplane/apis/pkg/v1"
	"github.com/crossplane/crossplane/internal/controller/pkg/manager"
	"github.com/crossplane/crossplane/internal/xpkg"
	"github.com/crossplane/crossplane/verifh/kit"
)

// headModes: how the registry answers the manifest HEAD request of a resolution ("ok" = as any
// registry does; the others are what proxies, rate limiters and older registries do). GET works.
var headModes = []string{"ok", "429", "404", "500", "405", "no-digest-header"}

// runDigestStability: a package image - a plain image, an OCI image index with two platforms, a
// Docker manifest list - sits unmoved under one tag in an in-process registry (go-containerregistry's
// own implementation behind a loopback listener). The REAL PackageRevisioner with the REAL
// K8sFetcher resolves it again and again while the registry answers the manifest HEAD request in
// every way of headModes. Every resolution that succeeds must name the same revision, and that
// name is the one derived from the digest of what the tag points at.
func runDigestStability(c *kit.Ctx) {
	var mode atomic.Value
	mode.Store("ok")
	var heads, gets atomic.Int64
	reg := registry.New(registry.Logger(log.New(io.Discard, "", 0)))
	srv := httptest.NewServer(http.HandlerFunc(func(rw http.ResponseWriter, rq *http.Request) {
		isManifest := strings.Contains(rq.URL.Path, "/manifests/")
		if isManifest && rq.Method == http.MethodGet {
			gets.Add(1)
		}
		if isManifest && rq.Method == http.MethodHead {
			heads.Add(1)
			switch m := mode.Load().(string); m {
			case "429":
				rw.WriteHeader(http.StatusTooManyRequests)
				return
			case "404":
				rw.WriteHeader(http.StatusNotFound)
				return
			case "500":
				rw.WriteHeader(http.StatusInternalServerError)
				return
			case "405":
				rw.WriteHeader(http.StatusMethodNotAllowed)
				return
			case "no-digest-header":
				rec := httptest.NewRecorder()
				reg.ServeHTTP(rec, rq)
				for k, v := range rec.Header() {
					if !strings.EqualFold(k, "Docker-Content-Digest") {
						rw.Header()[k] = v
					}
				}
				rw.WriteHeader(rec.Code)
				return
			}
		}
		reg.ServeHTTP(rw, rq)
	}))
	defer srv.Close()
	host := strings.TrimPrefix(srv.URL, "http://")

	type img struct {
		kind   string
		digest ggcrv1.Hash
	}
	var imgs []img
	push := func(kind string, i int) {
		ref, err := name.ParseReference(fmt.Sprintf("%s/acme/%s-%d:v1.0.0", host, kind, i))
		must(err)
		switch kind {
		case "image":
			im, err := random.Image(256, 2)
			must(err)
			must(remote.Write(ref, im))
			d, _ := im.Digest()
			imgs = append(imgs, img{kind, d})
		default:
			var adds []mutate.IndexAddendum
			for _, arch := range []string{"amd64", "arm64"} {
				im, err := random.Image(256, 1)
				must(err)
				adds = append(adds, mutate.IndexAddendum{Add: im, Descriptor: ggcrv1.Descriptor{Platform: &ggcrv1.Platform{OS: "linux", Architecture: arch}}})
			}
			idx := mutate.AppendManifests(empty.Index, adds...)
			if kind == "docker-manifest-list" {
				idx = mutate.IndexMediaType(idx, types.DockerManifestList)
			} else {
				idx = mutate.IndexMediaType(idx, types.OCIImageIndex)
			}
			must(remote.WriteIndex(ref, idx))
			d, _ := idx.Digest()
			imgs = append(imgs, img{kind, d})
		}
	}
	n := c.N(2, 6)
	for i := 0; i < n; i++ {
		for _, k := range []string{"image", "oci-index", "docker-manifest-list"} {
			push(k, i)
		}
	}
	f, err := xpkg.NewK8sFetcher(noSecrets{}, xpkg.WithNamespace("crossplane-system"), xpkg.WithServiceAccount("crossplane"))
	must(err)
	rev := manager.NewPackageRevisioner(f, manager.WithDefaultRegistry(xpkg.DefaultRegistry))
	idx := 0
	for _, im := range imgs {
		i := idx / 3
		idx++
		caseName := fmt.Sprintf("digest-stability/%s-%d", im.kind, i)
		if !c.Want(caseName) {
			continue
		}
		p := &pkgv1.Provider{}
		p.SetName("pkg-" + im.kind)
		p.Spec.Package = fmt.Sprintf("%s/acme/%s-%d:v1.0.0", host, im.kind, i)
		want := xpkg.FriendlyID(p.GetName(), im.digest.Hex)
		var trace []string
		resolved := 0
		// the HEAD answer changes between resolutions, back and forth
		r := c.Rng("digest-stability", idx)
		seq := append([]string{"ok"}, headModes[1:]...)
		r.Shuffle(len(seq)-1, func(a, b int) { seq[a+1], seq[b+1] = seq[b+1], seq[a+1] })
		seq = append(seq, "ok")
		for _, m := range seq {
			mode.Store(m)
			h0, g0 := heads.Load(), gets.Load()
			got, err := rev.Revision(context.Background(), p)
			trace = append(trace, fmt.Sprintf("HEAD answers %s: revision=%q err=%v (manifest HEADs %d, GETs %d)", m, got, err, heads.Load()-h0, gets.Load()-g0))
			if heads.Load() == h0 {
				c.Violate("harness:digest-stability-no-head-request", caseName, "the resolution issued no manifest HEAD request", map[string]any{"steps": trace})
				break
			}
			if err != nil {
				c.Count("digest_resolutions_failed_observed_only", 1)
				continue
			}
			resolved++
			c.Count("digest_resolutions_head_"+m, 1)
			if got != want {
				c.Violate("same-image-resolved-to-another-revision-name:"+im.kind, caseName,
					fmt.Sprintf("image %s (%s, unmoved, digest %s) resolved to revision %q while the registry answered its manifest HEAD with %s; its revision name is %q", p.Spec.Package, im.kind, im.digest, got, m, want),
					map[string]any{"steps": trace})
				break
			}
		}
		mode.Store("ok")
		c.Eval(caseName, resolved >= 2)
		c.Count("digest_stability_cases", 1)
	}
}

// noSecrets is the cluster the fetcher looks its pull secrets up in: it has no service account
// and no secret (everything else is never asked for).
type noSecrets struct{ kubernetes.Interface }

func (noSecrets) CoreV1() corev1client.CoreV1Interface { return noSecretsCore{} }

type noSecretsCore struct{ corev1client.CoreV1Interface }

func (noSecretsCore) ServiceAccounts(string) corev1client.ServiceAccountInterface { return noSAs{} }
func (noSecretsCore) Secrets(string) corev1client.SecretInterface                 { return noSecs{} }

type noSAs struct {
	corev1client.ServiceAccountInterface
}

func (noSAs) Get(_ context.Context, n string, _ metav1.GetOptions) (*corev1.ServiceAccount, error) {
	return nil, kerrors.NewNotFound(schema.GroupResource{Resource: "serviceaccounts"}, n)
}

type noSecs struct{ corev1client.SecretInterface }

func (noSecs) Get(_ context.Context, n string, _ metav1.GetOptions) (*corev1.Secret, error) {
	return nil, kerrors.NewNotFound(schema.GroupResource{Resource: "secrets"}, n)
}

func must(err error) {
	if err != nil {
		panic(err)
	}
}
