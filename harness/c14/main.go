//go:build verif

// C14: a package has at most one active revision, numbered last; history GC spares it.
// The real package reconciler (manager.NewReconciler) with the real PackageRevisioner runs over
// the simulated API server and a scripted registry. Histories of user edits are replayed; for
// the fixed base histories EVERY API-call index of every reconcile of the fault-free run is hit
// with each of the six fault outcomes, then the controller retries fault-free to quiescence
// and the rest of the history follows. A post-write hook judges every store state the package
// manager produces.
package main

import (
	"fmt"
	"os"
	"regexp"
	"runtime/debug"
	"sort"
	"strings"
	"sync"

	"k8s.io/apimachinery/pkg/apis/meta/v1/unstructured"

	"k8s.io/apimachinery/pkg/runtime"
	"k8s.io/apimachinery/pkg/runtime/schema"

	"github.com/crossplane/crossplane/verifh/kit"
	"github.com/crossplane/crossplane/verifh/sim"
	"github.com/crossplane/crossplane/verifh/xrk"
)

// execution is one run of (a suffix of) a history over one world.
type execution struct {
	h    *history
	kind *pkgKind
	w    *sim.World
	st   *regState
	m    *monitor
	env  *env

	reconciles, settleBoundHit, skippedOps int
	notes                                  []string
	panics                                 []string
}

type snapshot struct {
	world *sim.World
	st    *regState
	m     *monitor
	step  int
	iter  int
	calls int
}

func newExecution(h *history, w *sim.World, st *regState, m *monitor) *execution {
	k := kindByName(h.Kind)
	x := &execution{h: h, kind: k, w: w, st: st, m: m}
	w.AddHook(m.hook)
	x.env = newEnv(w, k, st, m)
	return x
}

func freshWorld(h *history, seed uint64) *sim.World {
	k := kindByName(h.Kind)
	w := sim.NewWorld(xrk.Scheme(), seed)
	// another package of the same kind with its own active revision: per-package scoping
	w.MustSeed("seed", map[string]any{"apiVersion": pkgGroup + "/v1", "kind": k.RevKind,
		"metadata": map[string]any{"name": "other-0123456789ab", "labels": map[string]any{labelParent: "other"}},
		"spec":     map[string]any{"desiredState": "Active", "image": "cc.io/x/o:v1", "revision": int64(7)}})
	return w
}

// applyStep performs the user-visible events of one step.
func (x *execution) applyStep(i int) {
	s := x.h.Steps[i]
	for ref, d := range s.Registry {
		x.st.Tags[ref] = digest(d)
	}
	if s.HeadFail > 0 {
		x.st.FailNext = s.HeadFail
	}
	u := x.w.Client(actorUser)
	if x.h.Finalizers {
		// the revision controller has seen every revision that exists by now
		for _, o := range x.w.ListObjs(x.kind.revGK()) {
			if !isRevOf(o) || sim.Terminating(o) {
				continue
			}
			ro := &unstructured.Unstructured{Object: o}
			if len(ro.GetFinalizers()) == 0 {
				ro.SetFinalizers([]string{"revision.pkg.crossplane.io"})
				if err := x.w.Client(actorRevctl).Update(nil, ro); err != nil { //nolint:staticcheck // ctx unused
					panic(fmt.Sprintf("revision controller finalizer: %v", err))
				}
			}
		}
	}
	if s.DeleteRev != "" {
		if rev := x.pickRevision(s.DeleteRev); rev != nil && !sim.Terminating(rev) {
			if err := u.Delete(nil, &unstructured.Unstructured{Object: rev}); err != nil { //nolint:staticcheck // ctx unused
				panic(fmt.Sprintf("user delete of a revision: %v", err))
			}
		} else {
			x.skippedOps++
		}
	}
	if s.Release {
		for _, o := range x.w.ListObjs(x.kind.revGK()) {
			if isRevOf(o) && sim.Terminating(o) {
				ro := &unstructured.Unstructured{Object: o}
				ro.SetFinalizers(nil)
				if err := x.w.Client(actorRevctl).Update(nil, ro); err != nil { //nolint:staticcheck // ctx unused
					panic(fmt.Sprintf("revision controller release: %v", err))
				}
			}
		}
	}
	if s.Recreate {
		if cur := x.w.GetObj(x.kind.pkgKey()); cur != nil {
			if err := u.Delete(nil, &unstructured.Unstructured{Object: cur}); err != nil { //nolint:staticcheck // ctx unused
				panic(fmt.Sprintf("user delete of the package: %v", err))
			}
			again := map[string]any{"apiVersion": cur["apiVersion"], "kind": cur["kind"], "metadata": map[string]any{"name": pkgName}, "spec": runtime.DeepCopyJSONValue(cur["spec"])}
			if err := u.Create(nil, &unstructured.Unstructured{Object: again}); err != nil { //nolint:staticcheck // ctx unused
				panic(fmt.Sprintf("user re-creates the package: %v", err))
			}
		} else {
			x.skippedOps++
		}
	}
	if s.Source != "" || s.Limit != nil || s.Activation != "" || s.Pull != "" {
		cur := x.w.GetObj(x.kind.pkgKey())
		create := cur == nil
		if create {
			cur = map[string]any{"apiVersion": pkgGroup + "/v1", "kind": x.kind.Kind, "metadata": map[string]any{"name": pkgName},
				// what the CRD defaults to
				"spec": map[string]any{"revisionHistoryLimit": int64(1), "revisionActivationPolicy": "Automatic", "packagePullPolicy": "IfNotPresent"}}
		}
		o := &unstructured.Unstructured{Object: cur}
		if s.Source != "" {
			_ = unstructured.SetNestedField(o.Object, s.Source, "spec", "package")
		}
		if s.Limit != nil {
			_ = unstructured.SetNestedField(o.Object, *s.Limit, "spec", "revisionHistoryLimit")
		}
		if s.Activation != "" {
			_ = unstructured.SetNestedField(o.Object, s.Activation, "spec", "revisionActivationPolicy")
		}
		if s.Pull != "" {
			_ = unstructured.SetNestedField(o.Object, s.Pull, "spec", "packagePullPolicy")
		}
		var err error
		if create {
			err = u.Create(nil, o) //nolint:staticcheck // ctx unused by sim
		} else {
			err = u.Update(nil, o) //nolint:staticcheck // ctx unused by sim
		}
		if err != nil {
			panic(fmt.Sprintf("user edit: %v", err))
		}
	}
	if s.Health != "" {
		if rev := x.pickRevision("current"); rev != nil {
			conds := []any{map[string]any{"type": "Healthy", "status": s.Health, "reason": map[string]string{"True": "HealthyPackageRevision", "False": "UnhealthyPackageRevision"}[s.Health],
				"lastTransitionTime": "2024-01-01T00:00:00Z"}}
			_ = unstructured.SetNestedSlice(rev, conds, "status", "conditions")
			if err := x.w.Client(actorRevctl).Status().Update(nil, &unstructured.Unstructured{Object: rev}); err != nil { //nolint:staticcheck // ctx unused
				panic(fmt.Sprintf("health edit: %v", err))
			}
		} else {
			x.skippedOps++
		}
	}
	if s.Activate != "" {
		if rev := x.pickRevision(s.Activate); rev != nil {
			_ = unstructured.SetNestedField(rev, "Active", "spec", "desiredState")
			if err := u.Update(nil, &unstructured.Unstructured{Object: rev}); err != nil { //nolint:staticcheck // ctx unused
				panic(fmt.Sprintf("activate edit: %v", err))
			}
		} else {
			x.skippedOps++
		}
	}
}

// pickRevision: "current" = the revision named by the package's status.currentRevision;
// "oldest" = the lowest-numbered other revision of the package.
func (x *execution) pickRevision(which string) map[string]any {
	p := x.w.GetObj(x.kind.pkgKey())
	if p == nil {
		return nil
	}
	curName := sim.Str(p, "status", "currentRevision")
	if which == "current" {
		if curName == "" {
			return nil
		}
		return x.w.GetObj(sim.Key{Group: pkgGroup, Kind: x.kind.RevKind, Name: curName})
	}
	var best map[string]any
	bestN := int64(1 << 62)
	for _, o := range x.w.ListObjs(x.kind.revGK()) {
		if !isRevOf(o) || sim.Str(o, "metadata", "name") == curName {
			continue
		}
		if n, _, _ := unstructured.NestedInt64(o, "spec", "revision"); n < bestN {
			best, bestN = o, n
		}
	}
	return best
}

// reconcile runs one reconcile framed by the monitor. fault = nil for a fault-free reconcile.
func (x *execution) reconcile(faultIdx int, out sim.Outcome) recResult {
	faulty := faultIdx >= 0
	if faulty {
		x.env.c.Fault(faultIdx, out)
	}
	x.m.beginReconcile(x.w)
	r := x.env.reconcile()
	x.env.c.ClearFaults()
	x.reconciles++
	if r.panicked != nil {
		x.panics = append(x.panics, r.panicked.Error())
	}
	ok := !faulty && !r.crashed && r.panicked == nil && r.err == nil && !r.res.Requeue
	x.m.endReconcile(x.w, ok)
	x.notes = append(x.notes, fmt.Sprintf("reconcile: calls=%d changed=%d err=%v requeue=%v crashed=%v current=%s", r.calls, r.changed, r.err, r.res.Requeue, r.crashed, short(x.m.curIdentity)))
	return r
}

func quiet(r recResult) bool {
	return r.changed == 0 && r.err == nil && !r.res.Requeue && !r.crashed && r.panicked == nil
}

// settle reconciles fault-free until one reconcile performs no effective write (bound). before
// is called ahead of every reconcile (snapshots), after with its result.
func (x *execution) settle(stepIdx, fromIter int, before func(iter int), after func(r recResult)) {
	bound := x.h.Steps[stepIdx].Settle
	if bound <= 0 || bound > maxSettle {
		bound = maxSettle
	}
	for i := fromIter; i < bound; i++ {
		if before != nil {
			before(i)
		}
		r := x.reconcile(-1, sim.OK)
		if after != nil {
			after(r)
		}
		if quiet(r) {
			return
		}
	}
	if bound == maxSettle {
		x.settleBoundHit++
	}
}

func (x *execution) runFrom(stepIdx int) {
	for i := stepIdx; i < len(x.h.Steps); i++ {
		x.notes = append(x.notes, fmt.Sprintf("step %d: %s", i, kit.JSON(x.h.Steps[i])))
		x.applyStep(i)
		x.settle(i, 0, nil, nil)
	}
}

// shape summarises the fault-free run for the non-triviality rule.
type shape struct {
	digests      int
	rollbacks    int
	limitChanges int
}

func (s shape) nontrivial() bool { return s.digests >= 2 && (s.rollbacks > 0 || s.limitChanges > 0) }

func shapeOf(h *history, m *monitor) shape {
	var s shape
	seen := map[string]int{}
	for i, id := range m.identities {
		if _, ok := seen[id]; ok {
			s.rollbacks++
		}
		seen[id] = i
	}
	s.digests = len(seen)
	var cur *int64
	for i, st := range h.Steps {
		if st.Limit != nil {
			if i > 0 && (cur == nil || *cur != *st.Limit) {
				s.limitChanges++
			}
			cur = st.Limit
		}
	}
	return s
}

type checker struct {
	c *kit.Ctx
}

// report hands the monitor's alarms of one execution to the kit.
func (ck *checker) report(caseName string, x *execution, extra map[string]any) {
	for _, v := range x.m.viol {
		wit := map[string]any{"history": x.h, "what": v.what, "revisions_at_alarm": v.state, "steps": x.notes}
		ev := x.m.lastEvents
		if len(ev) > 150 {
			ev = ev[len(ev)-150:]
		}
		wit["package_manager_writes"] = ev
		for k, e := range extra {
			wit[k] = e
		}
		ck.c.Violate(v.key, caseName, v.what, wit)
	}
	for _, p := range x.panics {
		ck.c.Violate("panic-in-package-reconciler", caseName, p, map[string]any{"history": x.h, "steps": x.notes})
	}
}

func (ck *checker) countExec(x *execution) {
	c := ck.c
	c.Count("reconciles", int64(x.reconciles))
	c.Count("hook_evaluations", int64(x.m.hookEvals))
	c.Count("post_reconcile_oracle_evaluations", int64(x.m.o2Checks))
	c.Count("deletes_observed", int64(x.m.deletes))
	c.Count("revisions_created", int64(x.m.creates))
	c.Count("activations_observed", int64(x.m.activations))
	c.Count("deactivations_observed", int64(x.m.deactivations))
	c.Count("registry_head_calls", int64(x.m.headCalls))
	c.Count("registry_head_failures", int64(x.m.headFailures))
	c.Count("settle_bound_hit", int64(x.settleBoundHit))
	c.Count("user_ops_skipped", int64(x.skippedOps))
}

// faultFree runs the whole history without faults and returns the snapshots taken before each
// reconcile together with the shape of the run.
func (ck *checker) faultFree(h *history, hIdx int) ([]snapshot, shape) {
	c := ck.c
	w := freshWorld(h, uint64(c.Seed)*100000+uint64(hIdx))
	x := newExecution(h, w, initialRegistry(), newMonitor(kindByName(h.Kind)))
	var snaps []snapshot
	for i := range h.Steps {
		x.notes = append(x.notes, fmt.Sprintf("step %d: %s", i, kit.JSON(h.Steps[i])))
		x.applyStep(i)
		x.settle(i, 0, func(iter int) {
			snaps = append(snaps, snapshot{world: w.Clone(), st: x.st.clone(), m: x.m.clone(), step: i, iter: iter})
		}, func(r recResult) {
			snaps[len(snaps)-1].calls = r.calls
		})
	}
	sh := shapeOf(h, x.m)
	caseName := "hist/" + h.Name + "/fault-free"
	c.Eval(h.Name+"|fault-free|"+kit.JSON(h.Steps), sh.nontrivial())
	c.Count("histories", 1)
	c.Count("fault_free_runs", 1)
	c.Count("rollbacks", int64(sh.rollbacks))
	c.Count("limit_changes", int64(sh.limitChanges))
	if sh.nontrivial() {
		c.Count("histories_nontrivial", 1)
	}
	c.Count("kind_"+h.Kind, 1)
	ck.countExec(x)
	ck.report(caseName, x, map[string]any{"mode": "fault-free"})
	if c.WantSample() && sh.nontrivial() && hIdx%4 == 0 {
		c.Sample(map[string]any{"case": caseName, "history": h, "digests": sh.digests, "rollbacks": sh.rollbacks, "limit_changes": sh.limitChanges, "run": x.notes})
	}
	return snaps, sh
}

// faultCase re-runs from a snapshot with one fault, then retries to quiescence and plays the
// rest of the history.
func (ck *checker) faultCase(h *history, sh shape, snaps []snapshot, si, k int, out sim.Outcome, early bool, hIdx int) {
	c := ck.c
	caseName := fmt.Sprintf("hist/%s/r%d/k%d/%s", h.Name, si, k, out)
	if early {
		// the user's next edit lands before the failed reconcile is retried
		caseName += "/next-edit-first"
	}
	if !c.Want(caseName) {
		return
	}
	sn := snaps[si]
	var x *execution
	if early {
		// ONE reconciler lives through the whole history (what it remembers from earlier reconciles is
		// part of the execution): replay the fault-free prefix instead of restoring the snapshot
		x = newExecution(h, freshWorld(h, uint64(c.Seed)*100000+uint64(hIdx)), initialRegistry(), newMonitor(kindByName(h.Kind)))
		for i := 0; i < sn.step; i++ {
			x.applyStep(i)
			x.settle(i, 0, nil, nil)
		}
		x.applyStep(sn.step)
		x.notes = append(x.notes, fmt.Sprintf("(steps 0-%d replayed fault-free by the same reconciler)", sn.step))
	} else {
		x = newExecution(h, sn.world.Clone(), sn.st.clone(), sn.m.clone())
	}
	from := x.w.LogLen()
	r := x.reconcile(k, out)
	hit := false
	for _, e := range x.w.Log(from) {
		if e.Injected != "" {
			hit = true
		}
	}
	x.notes = append(x.notes, fmt.Sprintf("^ faulty reconcile (step %d, reconcile %d of the step): call %d -> %s, hit=%v", sn.step, sn.iter, k, out, hit))
	if !early {
		x.settle(sn.step, 0, nil, nil)
	}
	x.runFrom(sn.step + 1)
	if early {
		c.Count("fault_executions_next_edit_first", 1)
		if os.Getenv("DBG") != "" && out == sim.ServerError {
			fmt.Fprintln(os.Stderr, "DBG", caseName, "\n   "+strings.Join(x.notes, "\n   "))
		}
	}

	c.Eval(fmt.Sprintf("%s|r%d|k%d|%s|%v", h.Name, si, k, out, early), sh.nontrivial() && hit)
	c.Count("fault_executions", 1)
	if hit {
		c.Count("faults_hit_"+out.String(), 1)
	} else {
		c.Count("faults_not_reached", 1)
	}
	if out == sim.CrashBefore || out == sim.CrashAfter {
		if r.crashed {
			c.Count("crash_positions_covered", 1)
			if !strings.HasPrefix(h.Name, "rand-") {
				c.Count("crash_positions_covered_base_histories", 1)
			}
		}
	}
	ck.countExec(x)
	ck.report(caseName, x, map[string]any{"mode": "fault", "snapshot": si, "step": sn.step, "reconcile_of_step": sn.iter, "call": k, "outcome": out.String()})
	if c.WantSample() && hit && out == sim.CrashAfter && sh.nontrivial() && k >= 4 {
		c.Sample(map[string]any{"case": caseName, "history": h.Name, "run": x.notes})
	}
}

var revNameRe = regexp.MustCompile(`Revision//([a-z0-9.-]+)`)

// staleListCase re-runs from the snapshot taken right after a step's user edit (before its first
// reconcile) with the reconciler's revision LIST served from the informer store as it was at an
// earlier snapshot (Gets are current: the informer catches up in between), then settles with a
// current cache and plays the rest of the history. Judged: two revisions Active at once through a
// write to a revision the stale list SHOWED - the reconciler wrote its stale copy over the current
// object (the unchanged tree pins such writes to the version it listed, so the API server refuses
// them). Counted only: every other alarm of the monitor, and two Active revisions through the
// creation or the patch of a revision the stale list did not show at all (the unchanged tree does
// that when its list misses a whole earlier reconcile) - C14 says nothing about caches, and what a reconcile
// makes of a list that lacks revisions altogether is outside what it states.
func (ck *checker) staleListCase(h *history, snaps []snapshot, si, sj int) {
	c := ck.c
	caseName := fmt.Sprintf("hist/%s/stale-list/r%d-as-of-r%d", h.Name, si, sj)
	if !c.Want(caseName) {
		return
	}
	sn := snaps[si]
	x := newExecution(h, sn.world.Clone(), sn.st.clone(), sn.m.clone())
	asOf := snaps[sj].world.RV()
	gk := x.kind.revGK()
	listed := map[string]bool{} // the revisions the stale list shows
	for _, o := range snaps[sj].world.ListObjs(gk) {
		listed[sim.Str(o, "metadata", "name")] = true
	}
	x.env.lister = x.w.LaggingClient(actorPkgmgr, func(g schema.GroupKind) (int64, bool) { return -asOf, g == gk })
	r := x.reconcile(-1, sim.OK)
	x.env.lister = nil
	x.notes = append(x.notes, fmt.Sprintf("^ reconcile whose revision list was served as of snapshot %d (step %d): err=%v", sj, snaps[sj].step, r.err))
	x.settle(sn.step, 0, nil, nil)
	x.runFrom(sn.step + 1)
	c.Eval(fmt.Sprintf("%s|stale-list|r%d|r%d", h.Name, si, sj), true)
	c.Count("stale_list_executions", 1)
	var keep []violation
	for _, v := range x.m.viol {
		written := ""
		if m := revNameRe.FindStringSubmatch(v.what); m != nil {
			written = m[1]
		}
		if strings.HasPrefix(v.key, "O1-two-active-revisions") && (strings.Contains(v.what, " create ") || !listed[written]) {
			// the revision written was not in the stale list at all: the reconciler had no copy of it
			c.Count("stale_list_two_active_by_write_to_unlisted_revision_observed_only", 1)
		} else if strings.HasPrefix(v.key, "O1-two-active-revisions") {
			v.key += ":stale-copy-written-over-existing-revision"
			keep = append(keep, v)
		} else {
			c.Count("stale_list_other_alarms_observed_only", 1)
		}
	}
	x.m.viol = keep
	ck.report(caseName, x, map[string]any{"mode": "stale-list", "snapshot": si, "list_as_of_snapshot": sj})
}

type unit struct {
	h     *history
	sh    shape
	snaps []snapshot
	si    int
	// sample > 0: only this many pseudo-randomly chosen (k, outcome) pairs
	sample int
	rngIdx int
}

func main() {
	c := kit.New("C14", "fault_enumeration")
	c.Rule = "histories of user edits to one Package (Provider, Configuration, Function): source/tag changes incl. rollbacks to earlier digests, revisionHistoryLimit changes (0, raising, lowering, also in the same edit as a source change), activation policy Automatic/Manual with manual activation by the user, pull policy IfNotPresent/Always/Never, the registry moving a tag to another (also an earlier) digest, registry failures, the revision controller flipping revision health; after each edit the real reconciler runs until a reconcile writes nothing (bound 6, sometimes 1-2: the next edit lands early). 9 fixed base histories (quick: all 9 for Provider, one each for Configuration and Function, whose reconciler is the same code; thorough: 9 x 3 kinds): for every reconcile of the fault-free run EVERY API-call index x 6 outcomes (conflict, 500, timeout, crash-before, crash-after, applied-but-504), then fault-free retries to quiescence and the rest of the history; seeded random histories of all three kinds get the same treatment on a seeded sample of fault positions per reconcile. distinct = (history, reconcile, call, outcome); non-trivial = the fault-free run of the history resolved >= 2 digests and contains a rollback or a history-limit change, and the fault was reached. Avoided inputs: unset spec fields (the CRD defaults them), image references sharing their first 12 characters under pull policy Never, digests sharing their first 12 hex characters, paused packages, revisions with finalizers."
	c.Rule += " Histories with finalizers: the revision controller holds its finalizer on every revision; the user deletes the current / oldest revision (it lingers Terminating) and the finalizer is released by a later step."
	c.Rule += " " + "A history with revisionHistoryLimit = max int64."
	c.Rule += " " + "Digest stability: the real PackageRevisioner over the real registry fetcher against an in-process registry (plain image, OCI index, Docker manifest list under an unmoved tag) whose manifest HEAD answers ok / 429 / 404 / 500 / 405 / without digest header: every successful resolution names the revision of the tag's digest."
	c.Rule += " " + "History package-recreated: the package deleted and re-created under its name while its old incarnation's Active revision lingers."
	c.Rule += " " + "Base histories: the first reconcile of a step fails at each call (500, applied-but-504, 409) and the next edit lands before any retry."
	c.Rule += " " + "Stale revision lists: the first reconcile after each edit of a base history lists revisions as of one or two edits earlier (Gets current); judged: two Active revisions through a write to an existing revision."
	c.Assumptions = []string{
		"sim implements the apiserver rules of DESIGN.md 2.2; reads are linearizable (no stale informer cache)",
		"one package-manager worker per package; user edits land between reconciles, never inside one",
		"typed objects returned by Get carry their GroupVersionKind, as with controller-runtime's cache reader",
		"the 'current digest' is what the scripted registry answered in the reconcile, the source string under pull policy Never, and under IfNotPresent with unchanged status.currentIdentifier the digest resolved when that field was written",
		"spec.revisionHistoryLimit, revisionActivationPolicy and packagePullPolicy are always set (CRD defaults 1 / Automatic / IfNotPresent)",
	}
	c.Floor = 300
	ck := &checker{c: c}

	debug.SetGCPercent(400)
	hs := baseHistories(c.Thorough())
	nBase := len(hs)
	nRand := c.N(24, 100)
	for i := 0; i < nRand; i++ {
		hs = append(hs, randomHistory(c.Rng("history", i), i))
	}
	wantHist := func(h *history) bool {
		p := "hist/" + h.Name
		return c.Only == "" || c.Only == p || strings.HasPrefix(c.Only, p+"/")
	}

	workers := 16
	// phase A: fault-free runs
	type ffRes struct {
		snaps []snapshot
		sh    shape
	}
	ff := make([]ffRes, len(hs))
	{
		var wg sync.WaitGroup
		ch := make(chan int)
		for wk := 0; wk < workers; wk++ {
			wg.Add(1)
			go func() {
				defer wg.Done()
				for i := range ch {
					h := &hs[i]
					if err := kit.Try(func() { ff[i].snaps, ff[i].sh = ck.faultFree(h, i) }); err != nil {
						c.Violate("harness-panic", "hist/"+h.Name+"/fault-free", err.Error(), map[string]any{"history": h})
					}
				}
			}()
		}
		for i := range hs {
			if wantHist(&hs[i]) {
				ch <- i
			}
		}
		close(ch)
		wg.Wait()
	}

	if err := kit.Try(func() { runDigestStability(c) }); err != nil {
		c.Violate("harness-panic:digest-stability", "digest-stability", err.Error(), nil)
	}

	// phase B: fault enumeration, one unit per (history, reconcile)
	var units []unit
	var crashTotal, crashBase int64
	randSample := c.N(3, 10) // (call, outcome) pairs drawn per reconcile of a random history
	for i := range hs {
		for si := range ff[i].snaps {
			crashTotal += int64(2 * ff[i].snaps[si].calls)
			if i < nBase {
				crashBase += int64(2 * ff[i].snaps[si].calls)
			}
			u := unit{h: &hs[i], sh: ff[i].sh, snaps: ff[i].snaps, si: si, rngIdx: i*1000 + si}
			if i >= nBase {
				u.sample = randSample
			}
			units = append(units, u)
		}
	}
	c.Count("crash_positions_total", crashTotal)
	// stale revision lists: base histories only; the first reconcile after each edit lists the
	// revisions as they were before the previous one or two edits were reconciled
	{
		ck := &checker{c: c}
		for i := 0; i < nBase && i < len(hs); i++ {
			snaps := ff[i].snaps
			firstOf := map[int]int{}
			for si := range snaps {
				if snaps[si].iter == 0 {
					firstOf[snaps[si].step] = si
				}
			}
			for si := range snaps {
				if snaps[si].iter != 0 || snaps[si].step == 0 {
					continue
				}
				for back := 1; back <= 2; back++ {
					if sj, ok := firstOf[snaps[si].step-back]; ok {
						if err := kit.Try(func() { ck.staleListCase(&hs[i], snaps, si, sj) }); err != nil {
							c.Violate("harness-panic:stale-list", hs[i].Name, err.Error(), nil)
						}
					}
				}
			}
		}
	}
	perHist := map[string][]int{}
	for i := range hs {
		for si := range ff[i].snaps {
			perHist[hs[i].Name] = append(perHist[hs[i].Name], ff[i].snaps[si].calls)
		}
	}
	c.Extra("api_calls_per_reconcile_of_fault_free_run", perHist)
	c.Count("crash_positions_total_base_histories", crashBase)
	{
		var wg sync.WaitGroup
		ch := make(chan unit)
		for wk := 0; wk < workers; wk++ {
			wg.Add(1)
			go func() {
				defer wg.Done()
				for u := range ch {
					type pos struct {
						k   int
						out sim.Outcome
					}
					var ps []pos
					for k := 0; k < u.snaps[u.si].calls; k++ {
						for _, out := range sim.EnumFaults {
							ps = append(ps, pos{k, out})
						}
					}
					if u.sample > 0 && len(ps) > u.sample {
						r := c.Rng("faultpos", u.rngIdx)
						r.Shuffle(len(ps), func(a, b int) { ps[a], ps[b] = ps[b], ps[a] })
						ps = ps[:u.sample]
					}
					for _, p := range ps {
						if err := kit.Try(func() { ck.faultCase(u.h, u.sh, u.snaps, u.si, p.k, p.out, false, u.rngIdx/1000) }); err != nil {
							c.Violate("harness-panic", fmt.Sprintf("hist/%s/r%d/k%d/%s", u.h.Name, u.si, p.k, p.out), err.Error(), map[string]any{"history": u.h})
						}
						// base histories: a failed first reconcile of a step that is followed by the next
						// edit at once (no retry in between), for the error outcomes
						if u.sample == 0 && u.snaps[u.si].iter == 0 && u.snaps[u.si].step+1 < len(u.h.Steps) && (p.out == sim.ServerError || p.out == sim.ErrorAfter || p.out == sim.Conflict) {
							if err := kit.Try(func() { ck.faultCase(u.h, u.sh, u.snaps, u.si, p.k, p.out, true, u.rngIdx/1000) }); err != nil {
								c.Violate("harness-panic", fmt.Sprintf("hist/%s/r%d/k%d/%s/next-edit-first", u.h.Name, u.si, p.k, p.out), err.Error(), map[string]any{"history": u.h})
							}
						}
					}
				}
			}()
		}
		for _, u := range units {
			ch <- u
		}
		close(ch)
		wg.Wait()
	}

	c.Exhaustive(false)
	var names []string
	for i := 0; i < nBase; i++ {
		names = append(names, hs[i].Name)
	}
	sort.Strings(names)
	c.Extra("base_histories", names)
	c.Extra("random_histories", nRand)
	c.Extra("fault_positions_per_random_reconcile", randSample)
	c.Finish()
}
