//go:build verif

// C01: composed resources are never leaked or duplicated, whatever fails mid-reconcile.
// The real XR reconciler (both composers, production wiring) runs over the simulated API
// server; for fixed scenario shapes EVERY API-call index of every reconcile is hit with each
// of the six fault outcomes, then the controller is retried fault-free to quiescence, while a
// post-write hook checks the invariants on every intermediate store state.
package main

import (
	"fmt"
	"os"
	"sort"
	"strings"
	"sync"
	"sync/atomic"

	"google.golang.org/protobuf/types/known/structpb"
	kerrors "k8s.io/apimachinery/pkg/api/errors"
	"k8s.io/apimachinery/pkg/apis/meta/v1/unstructured"
	"k8s.io/apimachinery/pkg/runtime"
	"k8s.io/apimachinery/pkg/runtime/schema"
	"k8s.io/apimachinery/pkg/util/validation/field"

	fnv1 "github.com/crossplane/crossplane/apis/apiextensions/fn/proto/v1"
	v1 "github.com/crossplane/crossplane/apis/apiextensions/v1"
	"github.com/crossplane/crossplane/verifh/kit"
	"github.com/crossplane/crossplane/verifh/sim"
	"github.com/crossplane/crossplane/verifh/xrk"
)

const (
	annResName = "crossplane.io/composition-resource-name"
	maxQuiesce = 8
	extraQuiet = 4 // reconciles after the first quiet one that must stay quiet
)

type resSpec struct {
	Name       string `json:"name"`
	Kind       string `json:"kind"`
	Namespaced bool   `json:"namespaced,omitempty"`
	Val        string `json:"val,omitempty"`
	// Version of the composed kind the function asks for ("" = v1); the kind is kept
	Version string `json:"version,omitempty"`
	// FixedName: the function asks for this metadata.name (several kinds may share it)
	FixedName string `json:"fixedName,omitempty"`
	// Unready: the function reports the resource as not ready (forever)
	Unready bool `json:"unready,omitempty"`
}

type phase struct {
	Desired []resSpec      `json:"desired,omitempty"` // pipeline mode
	XREdit  map[string]any `json:"xrEdit,omitempty"`  // P&T mode: user edit of XR spec before the phase
	// P&T mode: the user edits the Composition's templates before the phase (a new revision is
	// cut and the XR follows it); nil = unchanged
	Templates []map[string]any `json:"templates,omitempty"`
	// Unsteady is set by the generator when, in this phase, some template cannot render (a
	// Required from-XR patch has no source value yet): the composed state then cannot match the
	// desired state, so the fixed-point clause (I4) does not apply; the phase runs a fixed
	// number of reconciles instead.
	Unsteady bool `json:"unsteady,omitempty"`
	// UserDelete: composition resource names whose (still desired) composed resource the user
	// deletes when the phase begins; with a provider finalizer it lingers in Terminating state.
	// While it exists no second resource may appear for the name; once it is gone a new one -
	// under a new generated name - is legitimate.
	UserDelete []string `json:"userDelete,omitempty"`
}

// markUnsteady derives Unsteady for P&T scenarios from the scenario alone: a template with a
// Required patch from spec.param renders only once a phase has set spec.param.
func (s *scenario) markUnsteady() {
	if s.Mode != "pt" {
		return
	}
	have := false
	cur := s.Templates
	for i := range s.Phases {
		if s.Phases[i].Templates != nil {
			cur = s.Phases[i].Templates
		}
		needsParam := false
		for _, t := range cur {
			ps, _ := t["patches"].([]any)
			for _, p := range ps {
				pm := p.(map[string]any)
				if pol, ok := pm["policy"].(map[string]any); ok && pol["fromFieldPath"] == "Required" && pm["fromFieldPath"] == "spec.param" {
					needsParam = true
				}
			}
		}
		if v, ok := s.Phases[i].XREdit["param"]; ok {
			have = v != nil
		}
		s.Phases[i].Unsteady = needsParam && !have
	}
}

type scenario struct {
	Name   string  `json:"name"`
	Mode   string  `json:"mode"` // pipeline | pt
	Steps  int     `json:"steps,omitempty"`
	Phases []phase `json:"phases"`
	// P&T
	Templates []map[string]any `json:"templates,omitempty"`
	// Provider: a provider-like actor puts a finalizer on every composed resource after each
	// reconcile and releases terminating ones one step later, so garbage-collected resources
	// linger in Terminating state (as managed resources do)
	Provider bool `json:"provider,omitempty"`
	// Lag > 0: the XR controller reads composed kinds through an informer cache that is Lag
	// writes behind the store (a resource it has just created is not in the cache yet) and falls
	// back to direct reads; faults are then enumerated on the direct reads too
	Lag int64 `json:"lag,omitempty"`
}

// providerStep plays the provider: finalize what was terminating at the previous step, put a
// finalizer on everything else.
func providerStep(w *sim.World) {
	p := w.Client("provider")
	for _, gk := range []schema.GroupKind{{Group: "nop.ex.org", Kind: "NopA"}, {Group: "nop.ex.org", Kind: "NopB"}, {Group: "nop.ex.org", Kind: "NsThing"}} {
		for _, o := range w.ListObjs(gk) {
			u := &unstructured.Unstructured{Object: o}
			if sim.Terminating(o) {
				u.SetFinalizers(nil)
			} else if len(u.GetFinalizers()) == 0 {
				u.SetFinalizers([]string{"provider.ex.org/finalizer"})
			} else {
				continue
			}
			_ = p.Update(nil, u) //nolint:staticcheck // ctx unused
		}
	}
}

func (s *scenario) alwaysDesired() map[string]bool {
	out := s.alwaysDesiredRaw()
	for _, p := range s.Phases {
		for _, n := range p.UserDelete {
			delete(out, n)
		}
	}
	return out
}

func (s *scenario) alwaysDesiredRaw() map[string]bool {
	out := map[string]bool{}
	if s.Mode == "pt" {
		for _, t := range s.Templates {
			out[t["name"].(string)] = true
		}
		for _, p := range s.Phases {
			if p.Templates == nil {
				continue
			}
			in := map[string]bool{}
			for _, t := range p.Templates {
				in[t["name"].(string)] = true
			}
			for n := range out {
				if !in[n] {
					delete(out, n)
				}
			}
		}
		return out
	}
	cnt := map[string]int{}
	for _, p := range s.Phases {
		for _, d := range p.Desired {
			cnt[d.Name]++
		}
	}
	for n, c := range cnt {
		if c == len(s.Phases) {
			out[n] = true
		}
	}
	return out
}

func nopObj(kind, ns, val string) map[string]any {
	o := map[string]any{"apiVersion": "nop.ex.org/v1", "kind": kind, "spec": map[string]any{"forProvider": map[string]any{"v": val}}}
	if ns != "" {
		o["metadata"] = map[string]any{"namespace": ns}
	}
	return o
}

func ptTemplate(name, kind, val string, patches []any) map[string]any {
	t := map[string]any{"name": name, "base": nopObj(kind, "", val)}
	if len(patches) > 0 {
		t["patches"] = patches
	}
	return t
}

// baseScenarios are the fixed shapes for which all fault positions are enumerated.
func baseScenarios() []scenario {
	a, b, c := resSpec{Name: "a", Kind: "NopA", Val: "1"}, resSpec{Name: "b", Kind: "NopA", Val: "2"}, resSpec{Name: "c", Kind: "NopB", Val: "3"}
	nsd := resSpec{Name: "d", Kind: "NsThing", Namespaced: true, Val: "4"}
	reqPatch := []any{map[string]any{"type": "FromCompositeFieldPath", "fromFieldPath": "spec.param", "toFieldPath": "spec.forProvider.p", "policy": map[string]any{"fromFieldPath": "Required"}}}
	optPatch := []any{map[string]any{"type": "FromCompositeFieldPath", "fromFieldPath": "spec.size", "toFieldPath": "spec.forProvider.size"}}
	a2 := a
	a2.Version = "v2"
	ta, tb, tc := ptTemplate("a", "NopA", "1", optPatch), ptTemplate("b", "NopA", "2", nil), ptTemplate("c", "NopB", "3", nil)
	return []scenario{
		{Name: "pipe-same-name-three-kinds", Mode: "pipeline", Steps: 1, Phases: []phase{
			{Desired: []resSpec{{Name: "a", Kind: "NopA", Val: "1", FixedName: "app"}, {Name: "c", Kind: "NopB", Val: "2", FixedName: "app"}, {Name: "e", Kind: "NopC", Val: "3", FixedName: "app"}, {Name: "f", Kind: "NopD", Val: "4", FixedName: "app"}}},
			// two of the same-named resources are dropped while their namesakes stay
			{Desired: []resSpec{{Name: "a", Kind: "NopA", Val: "1", FixedName: "app"}, {Name: "e", Kind: "NopC", Val: "3", FixedName: "app"}}},
			{Desired: []resSpec{{Name: "a", Kind: "NopA", Val: "1", FixedName: "app"}, {Name: "c", Kind: "NopB", Val: "2", FixedName: "app"}, {Name: "e", Kind: "NopC", Val: "3", FixedName: "app"}}}}},
		// six resources that never become ready: the XR's conditions (which name unready
		// resources) must be a fixed point too
		{Name: "pipe-six-unready", Mode: "pipeline", Steps: 1, Phases: []phase{{Desired: []resSpec{
			{Name: "alpha", Kind: "NopA", Val: "1", Unready: true}, {Name: "bravo", Kind: "NopA", Val: "2", Unready: true}, {Name: "charlie", Kind: "NopB", Val: "3", Unready: true},
			{Name: "delta", Kind: "NopB", Val: "4", Unready: true}, {Name: "echo", Kind: "NopA", Val: "5", Unready: true}, {Name: "foxtrot", Kind: "NopB", Val: "6", Unready: true}}}}},
		{Name: "pipe-grow-lagging-cache", Mode: "pipeline", Steps: 1, Lag: 3, Phases: []phase{{Desired: []resSpec{a}}, {Desired: []resSpec{a, b, c}}}},
		{Name: "pipe-return-lagging-cache", Mode: "pipeline", Steps: 1, Lag: 2, Phases: []phase{{Desired: []resSpec{a, b}}, {Desired: []resSpec{a}}, {Desired: []resSpec{a, b}}}},
		{Name: "pt-fixed2-lagging-cache", Mode: "pt", Lag: 3, Templates: []map[string]any{ptTemplate("a", "NopA", "1", optPatch), ptTemplate("b", "NopB", "2", nil)},
			Phases: []phase{{}, {XREdit: map[string]any{"size": int64(7)}}}},
		// a P&T base that already carries a composition-resource-name annotation of another template
		// (copy-pasted from a live resource of another Composition): the template's own name counts
		{Name: "pt-base-with-foreign-name-annotation", Mode: "pt", Templates: []map[string]any{
			func() map[string]any {
				t := ptTemplate("a", "NopA", "1", optPatch)
				t["base"].(map[string]any)["metadata"] = map[string]any{"annotations": map[string]any{annResName: "some-other-template"}, "labels": map[string]any{"copied": "yes"}}
				return t
			}(), tb},
			Phases: []phase{{}, {XREdit: map[string]any{"size": int64(7)}}}},
		{Name: "pipe-version-flip", Mode: "pipeline", Steps: 1, Phases: []phase{{Desired: []resSpec{a, b}}, {Desired: []resSpec{a2, b}}, {Desired: []resSpec{a, b}}}},
		{Name: "pt-template-removed", Mode: "pt", Templates: []map[string]any{ta, tb, tc},
			Phases: []phase{{}, {Templates: []map[string]any{ta, tc}}, {Templates: []map[string]any{ta, tb, tc}}}},
		{Name: "pt-template-removed-provider", Mode: "pt", Provider: true, Templates: []map[string]any{ta, tb, tc},
			Phases: []phase{{}, {Templates: []map[string]any{tb}}}},
		// the user deletes a composed resource that is still desired; its provider's finalizer keeps
		// it around (Terminating) for one more step
		{Name: "pt-user-deletes-composed-provider", Mode: "pt", Provider: true, Templates: []map[string]any{ta, tb},
			Phases: []phase{{}, {UserDelete: []string{"a"}}}},
		{Name: "pipe-user-deletes-composed-provider", Mode: "pipeline", Steps: 1, Provider: true,
			Phases: []phase{{Desired: []resSpec{a, b}}, {Desired: []resSpec{a, b}, UserDelete: []string{"a"}}}},
		// the function asks for a value of an EXISTING composed resource that the API server rejects as
		// invalid (422), and later for a valid one again: the resource stays the XR's, referenced
		{Name: "pipe-invalid-update-then-valid", Mode: "pipeline", Steps: 1, Phases: []phase{{Desired: []resSpec{a, b, c}},
			{Desired: []resSpec{{Name: "a", Kind: "NopA", Val: "invalid"}, b, c}}, {Desired: []resSpec{{Name: "a", Kind: "NopA", Val: "5"}, b, c}}}},
		{Name: "pipe-fixed2", Mode: "pipeline", Steps: 1, Phases: []phase{{Desired: []resSpec{a, b}}}},
		{Name: "pipe-grow", Mode: "pipeline", Steps: 1, Phases: []phase{{Desired: []resSpec{a}}, {Desired: []resSpec{a, b, c}}}},
		{Name: "pipe-shrink", Mode: "pipeline", Steps: 1, Phases: []phase{{Desired: []resSpec{a, b, c}}, {Desired: []resSpec{a}}}},
		{Name: "pipe-return", Mode: "pipeline", Steps: 1, Phases: []phase{{Desired: []resSpec{a, b}}, {Desired: []resSpec{a}}, {Desired: []resSpec{a, b}}}},
		{Name: "pipe-return-provider", Mode: "pipeline", Steps: 1, Provider: true, Phases: []phase{{Desired: []resSpec{a, b}}, {Desired: []resSpec{a}}, {Desired: []resSpec{a, b}}}},
		{Name: "pipe-2step-ns", Mode: "pipeline", Steps: 2, Phases: []phase{{Desired: []resSpec{a, nsd}}, {Desired: []resSpec{a, nsd, b}}}},
		{Name: "pt-fixed2", Mode: "pt", Templates: []map[string]any{ptTemplate("a", "NopA", "1", optPatch), ptTemplate("b", "NopB", "2", nil)},
			Phases: []phase{{}, {XREdit: map[string]any{"size": int64(7)}}}},
		// the source field of a Required patch is set, removed again by the user (the template of an
		// EXISTING resource stops rendering), and set again
		{Name: "pt-required-lost-and-restored", Mode: "pt", Templates: []map[string]any{ptTemplate("a", "NopA", "1", nil), ptTemplate("b", "NopA", "2", reqPatch), ptTemplate("c", "NopB", "3", optPatch)},
			Phases: []phase{{XREdit: map[string]any{"param": "set"}}, {XREdit: map[string]any{"param": nil}}, {XREdit: map[string]any{"param": "set-again"}}}},
		{Name: "pt-required-missing", Mode: "pt", Templates: []map[string]any{ptTemplate("a", "NopA", "1", nil), ptTemplate("b", "NopA", "2", reqPatch), ptTemplate("c", "NopB", "3", optPatch)},
			Phases: []phase{{}, {XREdit: map[string]any{"param": "now-set"}}}},
	}
}

func randomScenario(c *kit.Ctx, i int) scenario {
	r := c.Rng("scenario", i)
	names := []string{"a", "b", "c", "d"}
	kinds := []string{"NopA", "NopB"}
	if r.IntN(2) == 0 {
		// pipeline with a random desired-set sequence
		np := 2 + r.IntN(2)
		kindOf := map[string]string{}
		for _, n := range names {
			kindOf[n] = kinds[r.IntN(2)]
		}
		var ps []phase
		for p := 0; p < np; p++ {
			var d []resSpec
			for _, n := range names {
				if r.IntN(3) > 0 {
					d = append(d, resSpec{Name: n, Kind: kindOf[n], Val: fmt.Sprint(r.IntN(3)), Version: []string{"", "", "v2"}[r.IntN(3)]})
				}
			}
			ps = append(ps, phase{Desired: d})
		}
		return scenario{Name: fmt.Sprintf("rand-pipe-%d", i), Mode: "pipeline", Steps: 1 + r.IntN(2), Phases: ps, Provider: r.IntN(2) == 0}
	}
	nt := 1 + r.IntN(3)
	var ts []map[string]any
	for t := 0; t < nt; t++ {
		var patches []any
		switch r.IntN(3) {
		case 1:
			patches = []any{map[string]any{"type": "FromCompositeFieldPath", "fromFieldPath": "spec.size", "toFieldPath": "spec.forProvider.size"}}
		case 2:
			patches = []any{map[string]any{"type": "FromCompositeFieldPath", "fromFieldPath": "spec.param", "toFieldPath": "spec.forProvider.p", "policy": map[string]any{"fromFieldPath": "Required"}}}
		}
		ts = append(ts, ptTemplate(names[t], kinds[r.IntN(2)], fmt.Sprint(r.IntN(3)), patches))
	}
	ps := []phase{{}}
	if r.IntN(2) == 0 {
		ps = append(ps, phase{XREdit: map[string]any{"size": int64(r.IntN(9))}})
	}
	if r.IntN(2) == 0 {
		ps = append(ps, phase{XREdit: map[string]any{"param": "p"}})
	}
	if r.IntN(2) == 0 && nt > 1 {
		// a later phase drops a random template (at least one is kept)
		drop := r.IntN(nt)
		var kept []map[string]any
		for t := range ts {
			if t != drop {
				kept = append(kept, ts[t])
			}
		}
		ps = append(ps, phase{Templates: kept})
	}
	return scenario{Name: fmt.Sprintf("rand-pt-%d", i), Mode: "pt", Templates: ts, Phases: ps, Provider: r.IntN(2) == 0}
}

var xrKey = sim.Key{Group: "ex.org", Kind: "XThing", Name: "xr1"}

// runner owns the function servers of one worker.
type runner struct {
	c     *kit.Ctx
	fns   []*xrk.FnServer
	phase atomic.Int32
	sc    *scenario
}

func newRunner(c *kit.Ctx, worker int) *runner {
	r := &runner{c: c}
	for i := 0; i < 2; i++ {
		r.fns = append(r.fns, xrk.Fn(worker*2+i))
	}
	return r
}

func (r *runner) install(sc *scenario) {
	r.sc = sc
	for i, fs := range r.fns {
		step := i
		fs.Set(func(req *fnv1.RunFunctionRequest) (*fnv1.RunFunctionResponse, error) {
			d := req.GetDesired()
			if d == nil {
				d = &fnv1.State{}
			}
			if d.Resources == nil {
				d.Resources = map[string]*fnv1.Resource{}
			}
			ph := sc.Phases[int(r.phase.Load())]
			for j, rs := range ph.Desired {
				// with two steps, even-indexed resources come from step 0, odd from step 1
				if sc.Steps == 2 && j%2 != step {
					continue
				}
				ns := ""
				if rs.Namespaced {
					ns = "team-a"
				}
				o := nopObj(rs.Kind, ns, rs.Val)
				if rs.Version != "" {
					o["apiVersion"] = "nop.ex.org/" + rs.Version
				}
				if rs.FixedName != "" {
					md, _ := o["metadata"].(map[string]any)
					if md == nil {
						md = map[string]any{}
						o["metadata"] = md
					}
					md["name"] = rs.FixedName
				}
				s, err := structpb.NewStruct(o)
				if err != nil {
					return nil, err
				}
				d.Resources[rs.Name] = &fnv1.Resource{Resource: s, Ready: fnv1.Ready_READY_TRUE}
				if rs.Unready {
					d.Resources[rs.Name].Ready = fnv1.Ready_READY_FALSE
				}
			}
			return &fnv1.RunFunctionResponse{Desired: d}, nil
		})
	}
}

// buildWorld creates the initial cluster for a scenario.
func (r *runner) buildWorld(sc *scenario, seed uint64) (*sim.World, map[string]any) {
	w := sim.NewWorld(xrk.Scheme(), seed)
	w.SetKind(schema.GroupKind{Group: "nop.ex.org", Kind: "NsThing"}, sim.KindInfo{Namespaced: true})
	w.AddAdmission(func(_ *sim.World, req *sim.AdmitRequest) error {
		if req.Key.Group == "nop.ex.org" && req.Operation != "DELETE" && sim.Str(req.New, "spec", "forProvider", "v") == "invalid" {
			return kerrors.NewInvalid(schema.GroupKind{Group: req.Key.Group, Kind: req.Key.Kind}, req.Key.Name,
				field.ErrorList{field.Invalid(field.NewPath("spec", "forProvider", "v"), "invalid", "scripted admission: invalid value")})
		}
		return nil
	})
	xrd := xrk.XRDObject(xrk.XRDOpts{Group: "ex.org", Kind: "XThing", Plural: "xthings"})
	w.MustSeed("user", xrd)
	if sc.Mode == "pipeline" {
		var fnNames []string
		for i := 0; i < sc.Steps; i++ {
			n := fmt.Sprintf("fn-%d", i)
			fnNames = append(fnNames, n)
			for _, o := range xrk.FunctionObjects(n, r.fns[i].Addr) {
				w.MustSeedFull("pkg", o)
			}
		}
		w.MustSeed("user", xrk.PipelineComposition("comp", "ex.org/v1", "XThing", fnNames, nil))
	} else {
		w.MustSeed("user", xrk.ResourcesComposition("comp", "ex.org/v1", "XThing", sc.Templates))
	}
	if err := xrk.ReconcileComposition(w, "comp"); err != nil {
		panic(err)
	}
	w.MustSeed("user", xrk.XRObject("ex.org/v1", "XThing", "xr1", "comp", map[string]any{"size": int64(3)}))
	return w, xrd
}

func (r *runner) enterPhase(w *sim.World, sc *scenario, p int) {
	r.phase.Store(int32(p))
	for _, n := range sc.Phases[p].UserDelete {
		for _, o := range w.Snapshot() {
			if sim.Str(o, "metadata", "annotations", annResName) == n && strings.HasSuffix(sim.Str(o, "apiVersion"), "nop.ex.org/v1") {
				_ = w.Client("user").Delete(nil, &unstructured.Unstructured{Object: o}) //nolint:staticcheck // ctx unused
			}
		}
	}
	if ts := sc.Phases[p].Templates; ts != nil {
		comp := &unstructured.Unstructured{Object: w.GetObj(sim.Key{Group: "apiextensions.crossplane.io", Kind: "Composition", Name: "comp"})}
		var rs []any
		for _, t := range ts {
			rs = append(rs, runtime.DeepCopyJSONValue(t))
		}
		_ = unstructured.SetNestedSlice(comp.Object, rs, "spec", "resources")
		if err := w.Client("user").Update(nil, comp); err != nil { //nolint:staticcheck // ctx unused
			panic(fmt.Sprintf("composition edit: %v", err))
		}
		if err := xrk.ReconcileComposition(w, "comp"); err != nil {
			panic(err)
		}
	}
	if ed := sc.Phases[p].XREdit; ed != nil {
		u := w.Client("user")
		xr := &unstructured.Unstructured{Object: w.GetObj(xrKey)}
		for k, v := range ed {
			if v == nil {
				unstructured.RemoveNestedField(xr.Object, "spec", k) // nil = the user removes the field
				continue
			}
			_ = unstructured.SetNestedField(xr.Object, v, "spec", k)
		}
		if err := u.Update(nil, xr); err != nil { //nolint:staticcheck // ctx unused
			panic(fmt.Sprintf("user edit: %v", err))
		}
	}
}

// monitor holds the per-execution invariant state. It is only touched from the world's hook
// (under the store lock) and, after the run, from the single goroutine that owns the execution.
type monitor struct {
	xrUID    string
	created  map[string]map[string]bool // resource name -> metadata.names ever created
	viol     []string
	violKeys []string
	checks   int
	// userDeleted: composed objects whose deletion somebody other than the XR controller asked for
	userDeleted map[sim.Key]bool
}

func composedOf(o map[string]any, xrUID string) (resName string, ok bool) {
	c := sim.ControllerOf(o)
	if c == nil || sim.Str(c, "uid") != xrUID {
		return "", false
	}
	ann, _, _ := unstructured.NestedStringMap(o, "metadata", "annotations")
	if ann[annResName] == "" {
		return "", false
	}
	return ann[annResName], true
}

func (m *monitor) hook(v *sim.View, ev *sim.Event) {
	if !ev.Changed {
		return
	}
	m.checks++
	xr := v.Get(xrKey)
	if xr == nil {
		return
	}
	if m.xrUID == "" {
		m.xrUID = sim.Str(xr, "metadata", "uid")
	}
	refs, _, _ := unstructured.NestedSlice(xr, "spec", "resourceRefs")
	inRefs := map[string]bool{}
	for _, r := range refs {
		rm, _ := r.(map[string]any)
		inRefs[sim.Str(rm, "kind")+"/"+sim.Str(rm, "namespace")+"/"+sim.Str(rm, "name")] = true
	}
	perName := map[string][]string{}
	for _, o := range v.All() {
		rn, ok := composedOf(o, m.xrUID)
		if !ok || sim.Terminating(o) {
			continue
		}
		id := sim.Str(o, "kind") + "/" + sim.Str(o, "metadata", "namespace") + "/" + sim.Str(o, "metadata", "name")
		perName[rn] = append(perName[rn], id)
		// I1: every live composed resource controlled by the XR is referenced
		if !inRefs[id] {
			m.add("I1-unreferenced-composed-resource", fmt.Sprintf("after %s: live composed resource %s (%s) is not in spec.resourceRefs %v", ev.Short(), id, rn, refs))
		}
	}
	// I2: at most one live composed resource per resource name
	for rn, ids := range perName {
		if len(ids) > 1 {
			m.add("I2-duplicate-composed-resource", fmt.Sprintf("after %s: %d live composed resources for name %q: %v", ev.Short(), len(ids), rn, ids))
		}
	}
	// I2b: a composed resource the USER deleted and that is still in the store (waiting for a
	// finalizer) is still the composed resource of its name: no replacement is created next to it
	if ev.Verb == "delete" && ev.Actor != "xr" && ev.After != nil {
		if _, ok := composedOf(ev.After, m.xrUID); ok {
			if m.userDeleted == nil {
				m.userDeleted = map[sim.Key]bool{}
			}
			m.userDeleted[ev.Key] = true
		}
	}
	if ev.Before == nil && ev.After != nil && len(m.userDeleted) > 0 {
		if rn, ok := composedOf(ev.After, m.xrUID); ok {
			for k := range m.userDeleted {
				if o := v.Get(k); o != nil && k != ev.Key {
					if orn, ok := composedOf(o, m.xrUID); ok && orn == rn {
						m.add("I2-replacement-created-next-to-terminating-resource", fmt.Sprintf("after %s: a second composed resource for name %q was created while %s (deleted by the user, waiting for its finalizer) still exists", ev.Short(), rn, k))
					}
				}
			}
		}
	}
	// I3 bookkeeping: creations
	if ev.Before == nil && ev.After != nil {
		if rn, ok := composedOf(ev.After, m.xrUID); ok {
			if m.created[rn] == nil {
				m.created[rn] = map[string]bool{}
			}
			m.created[rn][sim.Str(ev.After, "metadata", "name")] = true
		}
	}
}

func (m *monitor) add(key, what string) {
	for _, k := range m.violKeys {
		if k == key {
			return
		}
	}
	m.violKeys = append(m.violKeys, key)
	m.viol = append(m.viol, what)
}

type execResult struct {
	trace    []string
	quiesced bool
}

// reconcileToQuiescence reconciles until one reconcile performs no effective write, then once
// more to check stability (I4). Returns false if the bound was exceeded.
func reconcileToQuiescence(env *xrk.XREnv, m *monitor, label string, trace *[]string, unsteady, provider bool) bool {
	w := env.W
	if unsteady {
		for i := 0; i < 3; i++ {
			_, err, _ := env.Reconcile("xr1")
			if provider {
				providerStep(w)
			}
			*trace = append(*trace, fmt.Sprintf("%s (unsteady phase) reconcile %d: calls=%d err=%v", label, i, env.C.Calls(), err != nil))
		}
		return true
	}
	for i := 0; i < maxQuiesce; i++ {
		from := w.LogLen()
		_, err, _ := env.Reconcile("xr1")
		changed := 0
		for _, e := range w.Log(from) {
			if e.Changed {
				changed++
			}
		}
		*trace = append(*trace, fmt.Sprintf("%s reconcile %d: calls=%d changed=%d err=%v", label, i, env.C.Calls(), changed, err != nil))
		if provider {
			pf := w.LogLen()
			providerStep(w)
			for _, e := range w.Log(pf) {
				if e.Changed {
					changed++ // the provider moved something: the controller gets another turn
				}
			}
		}
		if changed == 0 && err == nil {
			// I4: one more reconcile changes no object
			from = w.LogLen()
			_, err2, _ := env.Reconcile("xr1")
			for _, e := range w.Log(from) {
				if e.Changed {
					m.add("I4-steady-state-not-fixed-point", fmt.Sprintf("%s: reconcile after a quiescent one changed the store: %s", label, e.Short()))
				}
			}
			_ = err2
			return true
		}
	}
	return false
}

type snapshot struct {
	world *sim.World
	phase int
	calls int
	// calls issued through the direct (uncached) client; only counted in lagging-cache scenarios
	ucalls int
}

// newEnv builds the XR controller for a scenario: with Lag its cached client serves composed
// kinds from a store Lag writes old and the uncached client reads the store directly.
func newEnv(w *sim.World, xrd *v1.CompositeResourceDefinition, sc *scenario) *xrk.XREnv {
	if sc.Lag == 0 {
		return xrk.NewXREnv(w, xrd)
	}
	lag := sc.Lag
	cached := w.LaggingClient("xr", func(gk schema.GroupKind) (int64, bool) { return lag, gk.Group == "nop.ex.org" })
	return xrk.NewXREnvSplit(w, xrd, cached, w.Client("xr"))
}

func (r *runner) runScenario(sc scenario, scIdx int, quickFull bool) {
	c := r.c
	sc.markUnsteady()
	r.install(&sc)
	w0, xrdObj := r.buildWorld(&sc, uint64(c.Seed)*1000+uint64(scIdx))
	xrd := xrk.XRDTyped(xrdObj)

	// fault-free run: snapshot the world before every reconcile and count its calls
	var snaps []snapshot
	{
		w := w0.Clone()
		m := &monitor{created: map[string]map[string]bool{}}
		w.AddHook(m.hook)
		env := newEnv(w, xrd, &sc)
		for p := range sc.Phases {
			r.enterPhase(w, &sc, p)
			for i := 0; i < maxQuiesce; i++ {
				if sc.Phases[p].Unsteady && i >= 2 {
					break
				}
				snaps = append(snaps, snapshot{world: w.Clone(), phase: p})
				from := w.LogLen()
				_, err, _ := env.Reconcile("xr1")
				snaps[len(snaps)-1].calls = env.C.Calls()
				if sc.Lag > 0 {
					snaps[len(snaps)-1].ucalls = env.UC.Calls()
				}
				if sc.Provider {
					providerStep(w)
				}
				changed := false
				for _, e := range w.Log(from) {
					if e.Changed {
						changed = true
					}
				}
				if !changed && err == nil {
					// quiescent: "reconciling again changes no object" - a few more times
					for j := 0; j < extraQuiet && !sc.Provider; j++ {
						from := w.LogLen()
						_, err, _ := env.Reconcile("xr1")
						for _, e := range w.Log(from) {
							if e.Changed {
								m.add("I4-change-after-quiescence", fmt.Sprintf("fault-free: phase %d was quiescent, yet reconcile +%d changed the store: %s", p, j+1, e.Short()))
							}
						}
						if err != nil {
							m.add("I4-change-after-quiescence", fmt.Sprintf("fault-free: phase %d was quiescent, yet reconcile +%d failed: %v", p, j+1, err))
						}
						r.c.Count("reconciles_after_quiescence", 1)
					}
					break
				}
				if i == maxQuiesce-1 && !sc.Phases[p].Unsteady {
					m.add("I4-no-quiescence", fmt.Sprintf("fault-free: phase %d did not quiesce in %d reconciles", p, maxQuiesce))
				}
			}
		}
		r.finishExec(&sc, "fault-free", m, nil, true)
		env.CloseConns()
		c.Count("fault_free_runs", 1)
	}

	always := sc.alwaysDesired()
	_ = always
	for si, sn := range snaps {
		// fault positions: every call of the (cached) client, and in lagging-cache scenarios every
		// direct read as well
		for pos := 0; pos < sn.calls+sn.ucalls; pos++ {
			k, direct := pos, false
			if pos >= sn.calls {
				k, direct = pos-sn.calls, true
			}
			for _, out := range sim.EnumFaults {
				caseName := fmt.Sprintf("%s/r%d/k%d/%s", sc.Name, si, k, out)
				if direct {
					caseName = fmt.Sprintf("%s/r%d/direct%d/%s", sc.Name, si, k, out)
				}
				if !c.Want(caseName) {
					continue
				}
				w := sn.world.Clone()
				m := &monitor{created: map[string]map[string]bool{}}
				w.AddHook(m.hook)
				env := newEnv(w, xrd, &sc)
				r.phase.Store(int32(sn.phase))
				var trace []string
				if direct {
					env.UC.Fault(k, out)
				} else {
					env.C.Fault(k, out)
				}
				from := w.LogLen()
				_, err, crashed := env.Reconcile("xr1")
				env.C.ClearFaults()
				env.UC.ClearFaults()
				hit, afterWrite := false, false
				nchanged := 0
				for _, e := range w.Log(from) {
					if e.Injected != "" {
						hit = true
						if nchanged > 0 || e.Changed {
							afterWrite = true
						}
					}
					if e.Changed {
						nchanged++
					}
				}
				trace = append(trace, fmt.Sprintf("faulty reconcile: err=%v crashed=%v hit=%v", err != nil, crashed, hit))
				if sc.Provider {
					providerStep(w)
				}
				if c.Thorough() {
					// fault SEQUENCES: a second fault in the reconcile that retries
					fr := c.Rng("second-fault|"+caseName, 0)
					if fr.IntN(2) == 0 {
						env.C.Fault(fr.IntN(sn.calls+2), sim.AllFaults[fr.IntN(len(sim.AllFaults))])
						_, _, _ = env.Reconcile("xr1")
						env.C.ClearFaults()
						c.Count("second_faults", 1)
						if sc.Provider {
							providerStep(w)
						}
					}
				}
				ok := reconcileToQuiescence(env, m, fmt.Sprintf("phase %d retry", sn.phase), &trace, sc.Phases[sn.phase].Unsteady, sc.Provider)
				if !ok {
					m.add("I4-no-quiescence", fmt.Sprintf("no quiescence within %d fault-free reconciles after the fault", maxQuiesce))
				}
				for p := sn.phase + 1; p < len(sc.Phases) && ok; p++ {
					r.enterPhase(w, &sc, p)
					if !reconcileToQuiescence(env, m, fmt.Sprintf("phase %d", p), &trace, sc.Phases[p].Unsteady, sc.Provider) {
						m.add("I4-no-quiescence", fmt.Sprintf("phase %d: no quiescence within %d reconciles", p, maxQuiesce))
						break
					}
				}
				nontrivial := hit && (afterWrite || crashed)
				c.Eval(fmt.Sprintf("%s|r%d|k%d|%s", sc.Name, si, k, out), nontrivial)
				c.Count("executions", 1)
				c.Count("fault_"+out.String(), 1)
				if hit {
					c.Count("faults_hit", 1)
				}
				if crashed {
					c.Count("crashes", 1)
				}
				c.Count("invariant_evaluations", int64(m.checks))
				r.finishExec(&sc, caseName, m, func() any {
					var evs []string
					for _, e := range w.Log(from) {
						evs = append(evs, e.Short())
					}
					if len(evs) > 120 {
						evs = evs[:120]
					}
					return map[string]any{"scenario": sc, "snapshot": si, "call": k, "outcome": out.String(), "steps": trace, "trace": evs}
				}, false)
				if c.WantSample() && nontrivial && out == sim.CrashAfter {
					var evs []string
					for _, e := range w.Log(from) {
						evs = append(evs, e.Short())
						if len(evs) >= 25 {
							break
						}
					}
					c.Sample(map[string]any{"case": caseName, "scenario": sc.Name, "mode": sc.Mode, "steps": trace, "trace_head": evs})
				}
				env.CloseConns()
			}
		}
	}

	// stale XR reads: the reconcile that follows snapshot si reads the XR from an informer cache
	// that still shows it as it was before the previous reconcile (everything else is current),
	// then the controller is retried with a current cache to quiescence through the later phases.
	// Judged for named patch-and-transform templates; counted only for pipelines, whose reference
	// write is a forced server-side apply without a version precondition: the unchanged tree
	// composes a second generation from a stale XR there, which C01 does not list among its faults.
	for si := 1; si < len(snaps) && sc.Lag == 0; si++ {
		// the versions of the XR the cache may still hold: as of the previous snapshot, and as of every
		// write to the XR during the previous reconcile but the last (the cache is k writes behind)
		lo, hi := snaps[si-1].world.RV(), snaps[si].world.RV()
		asOf := []int64{lo}
		for _, rv := range snaps[si].world.Versions(xrKey) {
			if rv > lo && rv < hi {
				asOf = append(asOf, rv)
			}
		}
		if len(asOf) > 1 {
			asOf = asOf[:len(asOf)-1] // the last write is the current XR
		}
		if len(asOf) > 5 {
			asOf = asOf[:5]
		}
		for _, frozen := range asOf {
			caseName := fmt.Sprintf("%s/r%d/stale-xr-read-as-of-rv%d", sc.Name, si, frozen)
			if !c.Want(caseName) {
				continue
			}
			sn := snaps[si]
			w := sn.world.Clone()
			m := &monitor{created: map[string]map[string]bool{}}
			w.AddHook(m.hook)
			// only the read that opens the reconcile is stale: the informer delivers the XR's newer
			// versions right after the reconcile has started
			stale := true
			cached := w.LaggingClient("xr", func(gk schema.GroupKind) (int64, bool) {
				if stale && gk.Kind == "XThing" {
					stale = false
					return -frozen, true
				}
				return 0, false
			})
			env := xrk.NewXREnvSplit(w, xrd, cached, w.Client("xr"))
			r.phase.Store(int32(sn.phase))
			var trace []string
			_, err, _ := env.Reconcile("xr1")
			stale = false
			trace = append(trace, fmt.Sprintf("reconcile with the XR read as of resourceVersion %d (snapshot %d is at %d): err=%v", frozen, si, hi, err != nil))
			if sc.Provider {
				providerStep(w)
			}
			ok := reconcileToQuiescence(env, m, fmt.Sprintf("phase %d retry", sn.phase), &trace, sc.Phases[sn.phase].Unsteady, sc.Provider)
			for p := sn.phase + 1; p < len(sc.Phases) && ok; p++ {
				r.enterPhase(w, &sc, p)
				ok = reconcileToQuiescence(env, m, fmt.Sprintf("phase %d", p), &trace, sc.Phases[p].Unsteady, sc.Provider)
			}
			if os.Getenv("DBG") != "" {
			fmt.Fprintln(os.Stderr, "DBG", caseName, asOf, lo, hi, trace, m.violKeys)
		}
		c.Count("stale_xr_read_executions", 1)
			if sc.Mode != "pt" {
				c.Count("stale_xr_read_pipeline_alarms_observed_only", int64(len(m.violKeys)))
				m.violKeys, m.viol = nil, nil
			} else {
				c.Eval(fmt.Sprintf("%s|r%d|stale-xr-read|%d", sc.Name, si, frozen), true)
				for i := range m.violKeys {
					m.violKeys[i] += ":stale-xr-read"
				}
			}
			r.finishExec(&sc, caseName, m, func() any { return map[string]any{"scenario": sc, "snapshot": si, "steps": trace} }, false)
			env.CloseConns()
		}
	}
}

// finishExec applies the end-of-execution oracle (I3) and reports violations.
func (r *runner) finishExec(sc *scenario, caseName string, m *monitor, witness func() any, faultFree bool) {
	always := sc.alwaysDesired()
	var names []string
	for rn := range m.created {
		names = append(names, rn)
	}
	sort.Strings(names)
	for _, rn := range names {
		if always[rn] && len(m.created[rn]) > 1 {
			var ns []string
			for n := range m.created[rn] {
				ns = append(ns, n)
			}
			sort.Strings(ns)
			m.add("I3-name-changed-or-recreated", fmt.Sprintf("resource name %q (desired in every phase) was created under %d different metadata.names: %v", rn, len(ns), ns))
		}
	}
	for i, k := range m.violKeys {
		var wit any
		if witness != nil {
			wit = witness()
		}
		key := k + ":" + sc.Mode
		if faultFree {
			key += ":fault-free"
		}
		r.c.Violate(key, caseName, m.viol[i], wit)
	}
}

func main() {
	c := kit.New("C01", "fault_enumeration")
	c.Rule = "fixed scenario shapes (pipeline: fixed/grow/shrink/return/2-step+namespaced; P&T: fixed, required-patch-missing) plus seeded random shapes; for every reconcile of the fault-free run, EVERY API-call index x 6 outcomes (conflict, 500, timeout, crash-before, crash-after, applied-but-504), then fault-free retries to quiescence through all later phases; invariants I1 (live composed resource referenced), I2 (<=1 per name) checked by a post-write hook on every store state, I3 (one metadata.name per always-desired name), I4 (quiescence within 8 reconciles and fixed point). distinct = (scenario, reconcile, call index, outcome); non-trivial = the fault was reached and fell at/after the first effective write of its reconcile or was a crash. Composed-resource apply order follows Go map iteration in the code under test, so call index -> resource is not reproducible across processes; all indices are covered regardless."
	c.Rule += " Interleave part: two XRs reconciled by ONE reconciler, the first parked before each of its API calls while the second completes; composed resources, references and conditions must equal those of the sequential run. Shapes also include desired names whose apiVersion changes between phases (kind kept) and P&T Compositions that lose and regain named templates between phases (new revision, the XR follows), with the same fault enumeration."
	c.Rule += " " + "A P&T base template may already carry the composition-resource-name annotation of another template."
	c.Rule += " " + "A pipeline scenario with six resources that never become ready; four further reconciles after the first quiet one of every phase must stay quiet; a P&T scenario whose Required patch source is set, removed and set again."
	c.Rule += " " + "Same-named kinds of which two are dropped and one returns; a still-desired composed resource deleted by the user while a provider finalizer holds it (no replacement next to it)."
	c.Rule += " " + "Stale XR reads (P&T judged, pipeline counted): every reconcile of the fault-free run is also run with the XR read as of the previous reconcile, then retried with a current cache."
	c.Assumptions = []string{"sim implements the apiserver rules listed in DESIGN.md 2.2 (SSA through k8s managedfields library)", "functions are deterministic programs of (request, phase)", "one XR; in 'provider' scenarios a provider actor finalizes composed resources one step after they start terminating"}
	c.Floor = 200

	scs := baseScenarios()
	nRand := c.N(2, 12)
	for i := 0; i < nRand; i++ {
		scs = append(scs, randomScenario(c, i))
	}
	workers := 8
	var wg sync.WaitGroup
	ch := make(chan int)
	for wk := 0; wk < workers; wk++ {
		wg.Add(1)
		go func(wk int) {
			defer wg.Done()
			r := newRunner(c, wk)
			for i := range ch {
				sc := scs[i]
				if c.Only != "" && !strings.HasPrefix(c.Only, sc.Name+"/") && c.Only != sc.Name {
					continue
				}
				if err := kit.Try(func() { r.runScenario(sc, i, true) }); err != nil {
					c.Violate("harness-panic:"+sc.Name, sc.Name, err.Error(), nil)
				}
				c.Count("scenarios", 1)
			}
		}(wk)
	}
	for i := range scs {
		ch <- i
	}
	close(ch)
	wg.Wait()
	if err := kit.Try(func() { runInterleave(c, xrk.Fn(workers*2)) }); err != nil {
		c.Violate("harness-panic:interleave", "interleave", err.Error(), nil)
	}
	c.Exhaustive(false)
	c.Extra("scenario_names", func() []string {
		var n []string
		for _, s := range scs {
			n = append(n, s.Name)
		}
		return n
	}())
	c.Finish()
}
