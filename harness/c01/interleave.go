//go:build verif

package main

import (
	"context"
	"fmt"
	"strings"

	"google.golang.org/protobuf/types/known/structpb"
	"k8s.io/apimachinery/pkg/apis/meta/v1/unstructured"
	"k8s.io/apimachinery/pkg/runtime"
	"k8s.io/apimachinery/pkg/types"
	"sigs.k8s.io/controller-runtime/pkg/reconcile"

	fnv1 "github.com/crossplane/crossplane/apis/apiextensions/fn/proto/v1"
	"github.com/crossplane/crossplane/verifh/kit"
	"github.com/crossplane/crossplane/verifh/sim"
	"github.com/crossplane/crossplane/verifh/xrk"
)

// runInterleave: the XR controller reconciles different XRs concurrently with ONE reconciler
// (composers, function runner, connection pool are shared). Two XRs of one XRD are composed,
// both are then edited by the user; the reconcile of xr-a is parked before each of its API
// calls while the reconcile of xr-b runs to completion. What each XR composes depends on that
// XR alone, so every composed resource, both XRs' references and conditions must equal those of
// the sequential run on the same cluster.
func runInterleave(c *kit.Ctx, fn *xrk.FnServer) {
	for i, mode := range []string{"pipeline", "pt", "pipeline", "pt"} {
		caseName := fmt.Sprintf("interleave/%s/%d", mode, i)
		if !c.Want(caseName) {
			continue
		}
		w := sim.NewWorld(xrk.Scheme(), uint64(c.Seed)*977+uint64(i))
		xrd := xrk.XRDObject(xrk.XRDOpts{Group: "ex.org", Kind: "XThing", Plural: "xthings"})
		w.MustSeed("user", xrd)
		nres := 2 + i/2
		if mode == "pipeline" {
			fn.Set(func(req *fnv1.RunFunctionRequest) (*fnv1.RunFunctionResponse, error) {
				xr := req.GetObserved().GetComposite().GetResource().AsMap()
				name := sim.Str(xr, "metadata", "name")
				size, _, _ := unstructured.NestedFloat64(xr, "spec", "size")
				ds := &fnv1.State{Resources: map[string]*fnv1.Resource{}}
				for k := 0; k < nres; k++ {
					o := nopObj("NopA", "", fmt.Sprintf("%s-%d-%d", name, int(size), k))
					s, _ := structpb.NewStruct(o)
					ds.Resources[fmt.Sprintf("r%d", k)] = &fnv1.Resource{Resource: s, Ready: fnv1.Ready_READY_TRUE}
				}
				return &fnv1.RunFunctionResponse{Desired: ds}, nil
			})
			for _, o := range xrk.FunctionObjects("fn-0", fn.Addr) {
				w.MustSeedFull("pkg", o)
			}
			w.MustSeed("user", xrk.PipelineComposition("comp", "ex.org/v1", "XThing", []string{"fn-0"}, nil))
		} else {
			var ts []map[string]any
			for k := 0; k < nres; k++ {
				ts = append(ts, ptTemplate(fmt.Sprintf("r%d", k), "NopA", fmt.Sprint(k), []any{
					map[string]any{"type": "FromCompositeFieldPath", "fromFieldPath": "spec.size", "toFieldPath": "spec.forProvider.size"},
					map[string]any{"type": "FromCompositeFieldPath", "fromFieldPath": "metadata.name", "toFieldPath": "spec.forProvider.owner"},
				}))
			}
			w.MustSeed("user", xrk.ResourcesComposition("comp", "ex.org/v1", "XThing", ts))
		}
		if err := xrk.ReconcileComposition(w, "comp"); err != nil {
			panic(err)
		}
		for k, n := range []string{"xr-a", "xr-b"} {
			w.MustSeed("user", xrk.XRObject("ex.org/v1", "XThing", n, "comp", map[string]any{"size": int64(3 + k)}))
		}
		env := xrk.NewXREnv(w, xrk.XRDTyped(xrd))
		rec := func(n string) func() {
			return func() {
				_, _ = env.R.Reconcile(context.Background(), reconcile.Request{NamespacedName: types.NamespacedName{Name: n}})
			}
		}
		for k := 0; k < 3; k++ {
			rec("xr-a")()
			rec("xr-b")()
		}
		u := w.Client("user")
		for k, n := range []string{"xr-a", "xr-b"} {
			o := &unstructured.Unstructured{Object: w.GetObj(sim.Key{Group: "ex.org", Kind: "XThing", Name: n})}
			_ = unstructured.SetNestedField(o.Object, int64(10+k), "spec", "size")
			if err := u.Update(nil, o); err != nil { //nolint:staticcheck // ctx unused
				panic(err)
			}
		}
		digest := func(w *sim.World) map[string]string {
			out := map[string]string{}
			for _, o := range w.ListObjs(sim.Key{Group: "nop.ex.org", Kind: "NopA"}.GK()) {
				md, _ := o["metadata"].(map[string]any)
				out["NopA/"+sim.Str(o, "metadata", "name")] = kit.JSON(map[string]any{"spec": o["spec"], "labels": md["labels"], "annotations": md["annotations"], "owners": md["ownerReferences"]})
			}
			for _, o := range w.ListObjs(sim.Key{Group: "ex.org", Kind: "XThing"}.GK()) {
				cp := runtime.DeepCopyJSON(o)
				conds, _, _ := unstructured.NestedSlice(cp, "status", "conditions")
				for _, cd := range conds {
					if m, ok := cd.(map[string]any); ok {
						delete(m, "lastTransitionTime")
					}
				}
				out["XThing/"+sim.Str(o, "metadata", "name")] = kit.JSON(map[string]any{"refs": sim.Str(cp, "spec") + kit.JSON(cp["spec"]), "conditions": conds})
			}
			return out
		}
		points, parked, diffs := xrk.InterleaveVsSequential(w, env.C, rec("xr-a"), rec("xr-b"), digest, nil)
		env.CloseConns()
		c.Eval(caseName, parked > 0)
		c.Count("interleave_preemption_points", int64(points))
		c.Count("interleave_runs_that_parked", int64(parked))
		for _, d := range diffs {
			c.Violate("interleaved-xr-reconciles-differ-from-sequential:"+mode+":"+strings.SplitN(d.Key, "/", 2)[0], caseName,
				fmt.Sprintf("reconcile of xr-a parked before %s while xr-b was reconciled by the same reconciler: %s differs from the sequential run", d.Point, d.Key), d)
			break
		}
	}
}
