//go:build verif

// C03: a failing composition pipeline is never destructive; garbage collection is exact.
// The real XR reconciler (production wiring) composes an initial set, the harness perturbs
// the observed state, then a second reconcile runs a generated pipeline whose steps succeed,
// error, return fatal results or never stabilise their requirements. The oracle is evaluated
// over the simulated API server's write log.
package main

import (
	"errors"
	"fmt"
	"sort"
	"strings"
	"sync"

	"google.golang.org/protobuf/types/known/structpb"
	"k8s.io/apimachinery/pkg/apis/meta/v1/unstructured"
	"k8s.io/apimachinery/pkg/runtime"
	"k8s.io/apimachinery/pkg/runtime/schema"
	"k8s.io/apimachinery/pkg/types"
	"sigs.k8s.io/controller-runtime/pkg/client"

	fnv1 "github.com/crossplane/crossplane/apis/apiextensions/fn/proto/v1"
	"github.com/crossplane/crossplane/verifh/kit"
	"github.com/crossplane/crossplane/verifh/sim"
	"github.com/crossplane/crossplane/verifh/xrk"
)

const annResName = "crossplane.io/composition-resource-name"

var xrKey = sim.Key{Group: "ex.org", Kind: "XThing", Name: "xr1"}

var allNames = []string{"a", "b", "c", "d", "e"}

func kindOf(name string) string {
	if name == "c" || name == "e" {
		return "NopB"
	}
	return "NopA"
}

func nopObj(kind, val string) map[string]any {
	return map[string]any{"apiVersion": "nop.ex.org/v1", "kind": kind, "spec": map[string]any{"forProvider": map[string]any{"v": val}}}
}

// stepBehaviour of one pipeline step in the reconcile under test.
type stepBehaviour struct {
	Kind string   `json:"kind"` // normal | warning | error | fatal | reqNever | reqNeverLabels | reqStable
	Add  []string `json:"add,omitempty"`
	Del  []string `json:"del,omitempty"`
	N    int      `json:"n,omitempty"` // reqStable: round at which requirements stop changing
}

type perturbation struct {
	Name string `json:"name"`
	What string `json:"what"` // missing | terminating | foreign | uncontrolled
}

type pcase struct {
	Initial    []string        `json:"initial"`
	Steps      []stepBehaviour `json:"steps"`
	Perturb    []perturbation  `json:"perturb,omitempty"`
	ObserveErr bool            `json:"observeErr,omitempty"` // inject a read error into the observer
	// BehindCache: the controller's cache does not hold the composed resources (yet), so the
	// observer falls back to uncached reads; with ObserveErr the injected error hits that fallback
	BehindCache bool `json:"behindCache,omitempty"`
	// Flip lists resource names that the reconcile under test desires at apiVersion v2 although
	// they were composed at v1 (same kind: the name keeps its kind, as the quantifier requires)
	Flip []string `json:"flipVersion,omitempty"`
	// RenameBody: from the reconcile under test on, the first step no longer emits resource "a" but
	// emits "a-renamed" with the BODY IT OBSERVED for "a" (metadata, annotations and all), as a
	// function does that patches what it observes; the renamed resource is desired from then on
	RenameBody bool `json:"renameWithObservedBody,omitempty"`
	// SameNameNS: all composed resources are namespaced objects of one kind and ONE metadata.name,
	// told apart only by their namespace
	SameNameNS bool `json:"sameNameAcrossNamespaces,omitempty"`
	// Beta lists the steps whose function serves only the v1beta1 RunFunction API
	Beta []int `json:"betaOnlySteps,omitempty"`
	// GCFault: the first plain Update of a composed resource in the reconcile under test (the
	// collector's label clean-up before a delete) fails with this outcome
	GCFault string `json:"gcFault,omitempty"`
	// GCFaultVerb: "" = that Update; "delete" = the first DELETE of a composed resource fails instead
	GCFaultVerb string `json:"gcFaultVerb,omitempty"`
	// Bodiless: the last step leaves this (still desired, previously composed) name in the desired
	// map with NO resource body - only its readiness - as function SDKs do that create an entry on
	// first access. Whatever the reconcile makes of such an entry, the name IS in the final desired
	// state: its composed resource must not be deleted.
	Bodiless string `json:"bodilessDesiredEntry,omitempty"`
}

func (p *pcase) failing() (bool, int, string) {
	if p.ObserveErr {
		return true, -1, "observe-error"
	}
	for i, s := range p.Steps {
		switch s.Kind {
		case "error", "fatal", "reqNever", "reqNeverLabels", "errorOnRerun":
			return true, i, s.Kind
		}
	}
	return false, -1, ""
}

// finalDesired folds the scripted steps (reference interpreter of the generated programs).
func (p *pcase) finalDesired() map[string]bool {
	d := map[string]bool{}
	for _, s := range p.Steps {
		for _, n := range s.Add {
			d[n] = true
		}
		for _, n := range s.Del {
			delete(d, n)
		}
	}
	if p.RenameBody {
		delete(d, "a")
		d["a-renamed"] = true
	}
	return d
}

func genCase(c *kit.Ctx, i int) pcase {
	r := c.Rng("pipe", i)
	var p pcase
	p.SameNameNS = c.Rng("samename", i).IntN(5) == 0
	for _, n := range allNames {
		if r.IntN(2) == 0 {
			p.Initial = append(p.Initial, n)
		}
	}
	if len(p.Initial) == 0 {
		p.Initial = []string{"a"}
	}
	ns := 1 + r.IntN(4)
	failAt := -1
	failKind := ""
	if r.IntN(100) < 60 {
		failAt = r.IntN(ns)
		failKind = []string{"error", "fatal", "reqNever", "reqNeverLabels"}[r.IntN(4)]
		if failKind == "error" && c.Rng("rerun", i).IntN(2) == 0 {
			// the function answers its first call (asking for an extra resource) and errors when it
			// is called again with that resource
			failKind = "errorOnRerun"
		}
	}
	for s := 0; s < ns; s++ {
		b := stepBehaviour{Kind: "normal"}
		switch {
		case s == failAt:
			b.Kind = failKind
		case r.IntN(6) == 0:
			b.Kind = "warning"
		case r.IntN(6) == 0:
			b.Kind = "reqStable"
			b.N = 1 + r.IntN(4)
		}
		for _, n := range allNames {
			switch r.IntN(5) {
			case 0, 1:
				b.Add = append(b.Add, n)
			case 2:
				if s > 0 {
					b.Del = append(b.Del, n)
				}
			}
		}
		p.Steps = append(p.Steps, b)
	}
	for _, n := range p.Initial {
		if r.IntN(4) == 0 {
			p.Perturb = append(p.Perturb, perturbation{Name: n, What: []string{"missing", "terminating", "foreign", "uncontrolled", "legacy-managers"}[r.IntN(5)]})
		}
	}
	if failAt < 0 && r.IntN(6) == 0 {
		p.ObserveErr = true
	}
	p.BehindCache = r.IntN(4) == 0
	if failAt < 0 && !p.ObserveErr && r.IntN(3) == 0 {
		p.GCFault = []string{"conflict", "unavailable", "servererror"}[r.IntN(3)]
		if c.Rng("gcverb", i).IntN(2) == 0 {
			p.GCFaultVerb = "delete"
		}
	}
	for st := 0; st < ns; st++ {
		if r.IntN(4) == 0 {
			p.Beta = append(p.Beta, st)
		}
	}

	for _, n := range p.Initial {
		if r.IntN(5) == 0 {
			p.Flip = append(p.Flip, n)
		}
	}
	if fails, _, _ := p.failing(); !fails && !p.SameNameNS && !p.ObserveErr && p.GCFault == "" && c.Rng("rename", i).IntN(4) == 0 {
		hasA, flipA := false, false
		for _, n := range p.Initial {
			hasA = hasA || n == "a"
		}
		for _, n := range p.Flip {
			flipA = flipA || n == "a"
		}
		p.RenameBody = hasA && !flipA
	}
	if fails, _, _ := p.failing(); !fails && !p.ObserveErr && !p.RenameBody && c.Rng("bodiless", i).IntN(5) == 0 {
		fd := p.finalDesired()
		for _, n := range p.Initial {
			if fd[n] {
				p.Bodiless = n
				break
			}
		}
	}
	return p
}

type worker struct {
	c    *kit.Ctx
	fns  []*xrk.FnServer
	bfns []*xrk.FnServer // the same programs behind servers that only speak v1beta1
	ptFn *xrk.FnServer   // a function that returns its input: listed, but never to be run, by P&T compositions
	mu   sync.Mutex
	cur  *pcase
	init bool // true while composing the initial set
	rnd  []int
	base *sim.World
	xrd  map[string]any
}

func newWorker(c *kit.Ctx, id int) *worker {
	w := &worker{c: c, rnd: make([]int, 4)}
	for i := 0; i < 4; i++ {
		w.fns = append(w.fns, xrk.Fn(id*4+i))
	}
	for i := range w.fns {
		step := i
		w.fns[i].Set(func(req *fnv1.RunFunctionRequest) (*fnv1.RunFunctionResponse, error) { return w.program(step, req) })
		b := xrk.NewFnServer(true)
		b.Set(func(req *fnv1.RunFunctionRequest) (*fnv1.RunFunctionResponse, error) { return w.program(step, req) })
		w.bfns = append(w.bfns, b)
	}
	w.ptFn = xrk.NewFnServer(false)
	w.ptFn.Set(func(req *fnv1.RunFunctionRequest) (*fnv1.RunFunctionResponse, error) {
		return &fnv1.RunFunctionResponse{Desired: req.GetDesired()}, nil
	})
	// base world: XRD, four functions, compositions with 1..4 steps
	bw := sim.NewWorld(xrk.Scheme(), uint64(c.Seed)*100+uint64(id))
	w.xrd = xrk.XRDObject(xrk.XRDOpts{Group: "ex.org", Kind: "XThing", Plural: "xthings"})
	bw.MustSeed("user", w.xrd)
	var names []string
	for i := 0; i < 4; i++ {
		n := fmt.Sprintf("fn-%d", i)
		names = append(names, n)
		for _, o := range xrk.FunctionObjects(n, w.fns[i].Addr) {
			bw.MustSeedFull("pkg", o)
		}
		for _, o := range xrk.FunctionObjects(fmt.Sprintf("fnb-%d", i), w.bfns[i].Addr) {
			bw.MustSeedFull("pkg", o)
		}
		cn := fmt.Sprintf("comp%d", i+1)
		bw.MustSeed("user", xrk.PipelineComposition(cn, "ex.org/v1", "XThing", names, nil))
		if err := xrk.ReconcileComposition(bw, cn); err != nil {
			panic(err)
		}
	}
	bw.SetKind(schema.GroupKind{Group: "nop.ex.org", Kind: "NsThing"}, sim.KindInfo{Namespaced: true})
	w.base = bw
	return w
}

func desiredWith(req *fnv1.RunFunctionRequest) *fnv1.State {
	d := req.GetDesired()
	if d == nil {
		d = &fnv1.State{}
	}
	if d.Resources == nil {
		d.Resources = map[string]*fnv1.Resource{}
	}
	return d
}

func addRes(d *fnv1.State, n string, v2, sameNameNS bool) error {
	o := nopObj(kindOf(n), "v-"+n)
	if sameNameNS {
		// every composed resource is an NsThing called "settings", each in its own namespace
		o = nopObj("NsThing", "v-"+n)
		o["metadata"] = map[string]any{"name": "settings", "namespace": "team-" + n}
	}
	if v2 {
		o["apiVersion"] = "nop.ex.org/v2"
	}
	s, err := structpb.NewStruct(o)
	if err != nil {
		return err
	}
	d.Resources[n] = &fnv1.Resource{Resource: s, Ready: fnv1.Ready_READY_TRUE}
	return nil
}

func (w *worker) program(step int, req *fnv1.RunFunctionRequest) (*fnv1.RunFunctionResponse, error) {
	w.mu.Lock()
	p := w.cur
	initial := w.init
	w.rnd[step]++
	round := w.rnd[step]
	w.mu.Unlock()
	d := desiredWith(req)
	if initial {
		if step == 0 {
			for _, n := range p.Initial {
				if err := addRes(d, n, false, p.SameNameNS); err != nil {
					return nil, err
				}
			}
		}
		return &fnv1.RunFunctionResponse{Desired: d}, nil
	}
	if step >= len(p.Steps) {
		return &fnv1.RunFunctionResponse{Desired: d}, nil
	}
	b := p.Steps[step]
	for _, n := range b.Add {
		flip := false
		for _, f := range p.Flip {
			if f == n {
				flip = true
			}
		}
		if err := addRes(d, n, flip, p.SameNameNS); err != nil {
			return nil, err
		}
	}
	for _, n := range b.Del {
		delete(d.Resources, n)
	}
	if p.RenameBody && step == len(p.Steps)-1 {
		delete(d.Resources, "a")
		for _, from := range []string{"a-renamed", "a"} {
			if o := req.GetObserved().GetResources()[from]; o != nil {
				d.Resources["a-renamed"] = &fnv1.Resource{Resource: o.GetResource(), Ready: fnv1.Ready_READY_TRUE}
				break
			}
		}
		if d.Resources["a-renamed"] == nil {
			_ = addRes(d, "a", false, p.SameNameNS)
			d.Resources["a-renamed"] = d.Resources["a"]
			delete(d.Resources, "a")
		}
	}
	if p.Bodiless != "" && step == len(p.Steps)-1 && d.Resources[p.Bodiless] != nil {
		d.Resources[p.Bodiless] = &fnv1.Resource{Ready: fnv1.Ready_READY_TRUE}
	}
	rsp := &fnv1.RunFunctionResponse{Desired: d}
	reqName := func(k int) *fnv1.Requirements {
		return &fnv1.Requirements{ExtraResources: map[string]*fnv1.ResourceSelector{
			"r": {ApiVersion: "v1", Kind: "ConfigMap", Match: &fnv1.ResourceSelector_MatchName{MatchName: fmt.Sprintf("cm-%d", k)}},
		}}
	}
	switch b.Kind {
	case "error":
		return nil, errors.New("scripted function error")
	case "errorOnRerun":
		if round > 1 {
			return nil, errors.New("scripted function error on the second call")
		}
		rsp.Requirements = reqName(1)
	case "fatal":
		// the fatal result repeats, word for word, a non-fatal result of this and of earlier steps
		rsp.Results = []*fnv1.Result{{Severity: fnv1.Severity_SEVERITY_NORMAL, Message: "scripted result"}, {Severity: fnv1.Severity_SEVERITY_FATAL, Message: "scripted result"}}
	case "warning":
		rsp.Results = []*fnv1.Result{{Severity: fnv1.Severity_SEVERITY_WARNING, Message: "scripted result"}}
	case "reqNever":
		rsp.Requirements = reqName(round)
	case "reqNeverLabels":
		// same requirement name, apiVersion and kind every round; only the label VALUE changes
		rsp.Requirements = &fnv1.Requirements{ExtraResources: map[string]*fnv1.ResourceSelector{
			"r": {ApiVersion: "v1", Kind: "ConfigMap", Match: &fnv1.ResourceSelector_MatchLabels{MatchLabels: &fnv1.MatchLabels{Labels: map[string]string{"round": fmt.Sprint(round)}}}},
		}}
	case "reqStable":
		k := round
		if k > b.N {
			k = b.N
		}
		rsp.Requirements = reqName(k)
	}
	return rsp, nil
}

func isComposedKind(k sim.Key) bool { return k.Group == "nop.ex.org" }

func refsOf(xr map[string]any) []string {
	refs, _, _ := unstructured.NestedSlice(xr, "spec", "resourceRefs")
	var out []string
	for _, r := range refs {
		m, _ := r.(map[string]any)
		out = append(out, sim.Str(m, "kind")+"/"+sim.Str(m, "name"))
	}
	return out
}

func (w *worker) runCase(i int, name string) {
	c := w.c
	p := genCase(c, i)
	w.mu.Lock()
	w.cur = &p
	w.init = true
	w.mu.Unlock()

	world := w.base.Clone()
	comp := fmt.Sprintf("comp%d", len(p.Steps))
	if len(p.Beta) > 0 {
		var fnNames []string
		for st := range p.Steps {
			n := fmt.Sprintf("fn-%d", st)
			for _, b := range p.Beta {
				if b == st {
					n = fmt.Sprintf("fnb-%d", st)
				}
			}
			fnNames = append(fnNames, n)
		}
		comp = "compx"
		world.MustSeed("user", xrk.PipelineComposition(comp, "ex.org/v1", "XThing", fnNames, nil))
		if err := xrk.ReconcileComposition(world, comp); err != nil {
			panic(err)
		}
	}
	world.MustSeed("user", xrk.XRObject("ex.org/v1", "XThing", "xr1", comp, map[string]any{"size": int64(1)}))
	lagging := false
	cached := world.LaggingClient("xr", func(gk schema.GroupKind) (int64, bool) {
		if lagging && gk.Group == "nop.ex.org" {
			return 1 << 40, true // the cache has seen none of the composed resources
		}
		return 0, false
	})
	uncached := world.Client("xr")
	env := xrk.NewXREnvSplit(world, xrk.XRDTyped(w.xrd), cached, uncached)
	defer env.CloseConns()
	for k := 0; k < 2; k++ {
		if _, err, _ := env.Reconcile("xr1"); err != nil {
			c.Violate("harness:initial-compose-failed", name, err.Error(), p)
			return
		}
	}
	xr0 := world.GetObj(xrKey)
	xrUID := sim.Str(xr0, "metadata", "uid")

	// perturb the observed state behind the controller's back
	user := world.Client("user")
	byName := map[string]sim.Key{}
	world.Read(func(v *sim.View) {
		for _, k := range v.Keys() {
			if isComposedKind(k) {
				ann, _, _ := unstructured.NestedStringMap(v.Get(k), "metadata", "annotations")
				byName[ann[annResName]] = k
			}
		}
	})
	for _, pt := range p.Perturb {
		k, ok := byName[pt.Name]
		if !ok {
			continue
		}
		u := &unstructured.Unstructured{Object: world.GetObj(k)}
		switch pt.What {
		case "missing":
			_ = user.Delete(nil, u) //nolint:staticcheck // ctx unused
		case "terminating":
			u.SetFinalizers([]string{"provider/finalizer"})
			_ = user.Update(nil, u) //nolint:staticcheck
			_ = user.Delete(nil, u) //nolint:staticcheck
		case "foreign":
			refs := u.GetOwnerReferences()
			for j := range refs {
				refs[j].UID = "foreign-uid"
				refs[j].Name = "someone-else"
			}
			u.SetOwnerReferences(refs)
			_ = user.Update(nil, u) //nolint:staticcheck
		case "uncontrolled":
			u.SetOwnerReferences(nil)
			_ = user.Update(nil, u) //nolint:staticcheck
		case "legacy-managers":
			// the resource looks as if composed before the XR moved to functions: its only field
			// manager is the client-side "crossplane" one (no server-side-apply manager yet), so the
			// composer has a managed-fields upgrade pending for it
			reset := []byte(fmt.Sprintf(`[{"op":"replace","path":"/metadata/managedFields","value":[{}]},{"op":"replace","path":"/metadata/resourceVersion","value":"%s"}]`, u.GetResourceVersion()))
			if err := user.Patch(nil, u, client.RawPatch(types.JSONPatchType, reset)); err == nil { //nolint:staticcheck
				u = &unstructured.Unstructured{Object: world.GetObj(k)}
				lb := u.GetLabels()
				if lb == nil {
					lb = map[string]string{}
				}
				lb["legacy"] = "yes"
				u.SetLabels(lb)
				_ = user.Update(nil, u) //nolint:staticcheck
				c.Count("perturb_legacy_managers", 1)
			}
		}
	}

	// what the XR observes before the reconcile under test: referenced, existing, controlled by
	// this XR or by nobody
	observed := map[string]bool{}
	existedBefore := 0
	xr1 := world.GetObj(xrKey)
	refsBefore := refsOf(xr1)
	world.Read(func(v *sim.View) {
		for n, k := range byName {
			o := v.Get(k)
			if o == nil {
				continue
			}
			existedBefore++
			if ctl := sim.ControllerOf(o); ctl != nil && sim.Str(ctl, "uid") != xrUID {
				continue
			}
			observed[n] = true
		}
	})

	w.mu.Lock()
	w.init = false
	for k := range w.rnd {
		w.rnd[k] = 0
	}
	w.mu.Unlock()

	lagging = p.BehindCache
	if p.ObserveErr {
		done := false
		ff := func(_ int, verb string, k sim.Key) sim.Outcome {
			if !done && verb == "get" && isComposedKind(k) {
				done = true
				return sim.ServerError
			}
			return sim.OK
		}
		if p.BehindCache {
			uncached.FaultFn = ff // the cached read misses; the uncached fallback fails
		} else {
			env.C.FaultFn = ff
		}
	}
	if p.GCFault != "" {
		done := false
		out := map[string]sim.Outcome{"conflict": sim.Conflict, "unavailable": sim.Unavailable, "servererror": sim.ServerError}[p.GCFault]
		gcVerb := "update"
		if p.GCFaultVerb != "" {
			gcVerb = p.GCFaultVerb
		}
		ff := func(_ int, verb string, k sim.Key) sim.Outcome {
			if !done && verb == gcVerb && isComposedKind(k) {
				done = true
				return out
			}
			return sim.OK
		}
		env.C.FaultFn, uncached.FaultFn = ff, ff
	}
	from := world.LogLen()
	_, rerr, _ := env.Reconcile("xr1")
	env.C.FaultFn, uncached.FaultFn = nil, nil
	lagging = false
	log := world.Log(from)

	fail, failStep, failKind := p.failing()
	// an observe error can only be injected if at least one referenced resource is read
	if p.ObserveErr {
		hit := false
		for _, e := range log {
			if e.Injected != "" {
				hit = true
			}
		}
		if !hit {
			fail = false
			failKind = ""
			c.Count("observe_error_not_reachable", 1)
		}
	}

	var writes, deletes []string
	deletedNames := map[string]bool{}
	nameOfKey := map[sim.Key]string{}
	for n, k := range byName {
		nameOfKey[k] = n
	}
	for _, e := range log {
		if !isComposedKind(e.Key) || !e.IsWrite() || e.DryRun {
			continue
		}
		writes = append(writes, e.Short())
		if e.Verb == "delete" {
			deletes = append(deletes, e.Short())
			if e.Before != nil {
				ann, _, _ := unstructured.NestedStringMap(e.Before, "metadata", "annotations")
				deletedNames[ann[annResName]] = true
			} else if n, ok := nameOfKey[e.Key]; ok {
				deletedNames[n] = true // e.g. a delete that was refused by an injected fault
			} else {
				deletedNames["?"+e.Key.Name] = true
			}
		}
	}
	refsAfter := refsOf(world.GetObj(xrKey))
	desired := p.finalDesired()

	witness := func() any {
		var evs []string
		for _, e := range log {
			evs = append(evs, e.Short())
		}
		return map[string]any{"case": p, "observed": keys(observed), "desired": keys(desired), "reconcile_error": fmt.Sprint(rerr), "refs_before": refsBefore, "refs_after": refsAfter, "trace": evs}
	}

	if fail {
		c.Count("failing_"+failKind, 1)
		if len(writes) > 0 {
			c.Violate("failing-pipeline-wrote-composed:"+failKind, name, fmt.Sprintf("pipeline failed (%s at step %d) but the reconcile issued writes on composed resources: %v", failKind, failStep, writes), witness())
		}
		if strings.Join(refsBefore, ",") != strings.Join(refsAfter, ",") {
			c.Violate("failing-pipeline-changed-refs:"+failKind, name, fmt.Sprintf("pipeline failed (%s) but spec.resourceRefs changed %v -> %v", failKind, refsBefore, refsAfter), witness())
		}
	} else {
		c.Count("succeeding", 1)
		want := map[string]bool{}
		for n := range observed {
			if !desired[n] {
				want[n] = true
			}
		}
		for n := range deletedNames {
			if desired[n] {
				c.Violate("deleted-still-desired", name, fmt.Sprintf("resource %q is in the final desired state but a delete was issued for it: %v", n, deletes), witness())
			} else if !want[n] {
				c.Violate("deleted-not-observed-by-xr", name, fmt.Sprintf("delete issued for %q which is not a resource observed by this XR (foreign-controlled or unknown): %v", n, deletes), witness())
			}
		}
		// the reconcile composed successfully iff it went on to report Synced=True in a status write
		// (a compose error ends in Synced=False, a conflict in a silent requeue without status write)
		succeeded := false
		for _, e := range log {
			if e.Key == xrKey && e.Sub == "status" && e.IsWrite() && e.Err == "" && e.After != nil {
				conds, _, _ := unstructured.NestedSlice(e.After, "status", "conditions")
				for _, cd := range conds {
					if m, ok := cd.(map[string]any); ok && m["type"] == "Synced" {
						succeeded = m["status"] == "True"
					}
				}
			}
		}
		if rerr == nil && succeeded {
			for n := range want {
				if !deletedNames[n] {
					c.Violate("undesired-not-deleted", name, fmt.Sprintf("composition succeeded, %q was observed and is absent from the desired state but no delete was issued (deletes: %v)", n, deletes), witness())
				}
			}
		}
		c.Count("gc_deletes", int64(len(deletedNames)))
		// steady state: the same pipeline output once more. Whatever is desired now was desired a
		// moment ago: nothing composed may be deleted (or created again), not even transiently.
		if rerr == nil && succeeded {
			for k := range w.rnd {
				w.mu.Lock()
				w.rnd[k] = 0
				w.mu.Unlock()
			}
			for again := 1; again <= 2; again++ {
				sf := world.LogLen()
				_, _, _ = env.Reconcile("xr1")
				for _, e := range world.Log(sf) {
					if !isComposedKind(e.Key) || !e.Changed || e.DryRun {
						continue
					}
					if e.Verb == "delete" || (e.Before == nil && e.After != nil) {
						what := "deleted"
						if e.Verb != "delete" {
							what = "created"
						}
						c.Violate("steady-state-resource-"+what, name, fmt.Sprintf("steady-state reconcile +%d (same pipeline output as the reconcile before) %s a composed resource: %s", again, what, e.Short()), witness())
					}
				}
				c.Count("steady_state_reconciles", 1)
			}
		}
		// a transient fault in the collector must not make the XR forget what it still has to
		// collect: once the fault is gone and a reconcile composes successfully with the same
		// pipeline output, everything this XR had composed that is absent from the desired state
		// is deleted (gone or terminating) - otherwise it is leaked for good.
		if p.GCFault != "" && !(rerr == nil && succeeded) {
			c.Count("gc_fault_failed_reconcile", 1)
			later := false
			for again := 1; again <= 3 && !later; again++ {
				w.mu.Lock()
				for k := range w.rnd {
					w.rnd[k] = 0
				}
				w.mu.Unlock()
				sf := world.LogLen()
				_, e2, _ := env.Reconcile("xr1")
				later = e2 == nil && syncedTrue(world.Log(sf), xrKey)
			}
			if later {
				c.Count("gc_fault_recovered", 1)
				for n := range want {
					o := world.GetObj(byName[n])
					if o == nil {
						continue
					}
					if ts, _, _ := unstructured.NestedString(o, "metadata", "deletionTimestamp"); ts != "" {
						continue
					}
					c.Violate("undesired-leaked-after-gc-fault", name, fmt.Sprintf("a %s on the collector's %s failed one reconcile; after later reconciles composed successfully %q (composed by this XR, absent from the desired state) is still alive and spec.resourceRefs is %v", p.GCFault, gcVerbOf(&p), n, refsOf(world.GetObj(xrKey))), witness())
				}
			}
		}
	}
	nontrivial := existedBefore >= 1 && (!fail || failStep != 0 || p.ObserveErr)
	c.Eval(kit.JSON(p), nontrivial)
	if c.WantSample() && nontrivial && fail {
		c.Sample(witness())
	}
}

func gcVerbOf(p *pcase) string {
	if p.GCFaultVerb != "" {
		return p.GCFaultVerb
	}
	return "update"
}

// syncedTrue reports whether the last successful status write of the XR in log says Synced=True.
func syncedTrue(log []sim.Event, xrKey sim.Key) bool {
	ok := false
	for _, e := range log {
		if e.Key == xrKey && e.Sub == "status" && e.IsWrite() && e.Err == "" && e.After != nil {
			conds, _, _ := unstructured.NestedSlice(e.After, "status", "conditions")
			for _, cd := range conds {
				if m, isMap := cd.(map[string]any); isMap && m["type"] == "Synced" {
					ok = m["status"] == "True"
				}
			}
		}
	}
	return ok
}

func keys(m map[string]bool) []string {
	var out []string
	for k := range m {
		out = append(out, k)
	}
	sort.Strings(out)
	return out
}

// ---- patch-and-transform garbage collection ----

type ptCase struct {
	Before  []string       `json:"before"`
	After   []string       `json:"after"`
	Perturb []perturbation `json:"perturb,omitempty"`
	// ModeUnset: the Composition (and so its revisions) leaves spec.mode unset, which means
	// Resources; StrayPipeline: it also lists pipeline steps, which are ignored outside Pipeline mode
	ModeUnset     bool `json:"modeUnset,omitempty"`
	StrayPipeline bool `json:"strayPipeline,omitempty"`
}

func genPT(c *kit.Ctx, i int) ptCase {
	r := c.Rng("pt", i)
	var p ptCase
	for _, n := range allNames {
		if r.IntN(3) > 0 {
			p.Before = append(p.Before, n)
		}
		if r.IntN(3) > 0 {
			p.After = append(p.After, n)
		}
	}
	if len(p.Before) == 0 {
		p.Before = []string{"a"}
	}
	if len(p.After) == 0 {
		p.After = []string{"b"}
	}
	for _, n := range p.Before {
		if r.IntN(5) == 0 {
			p.Perturb = append(p.Perturb, perturbation{Name: n, What: []string{"missing", "terminating", "uncontrolled", "duplicate-ref", "duplicate-ref"}[r.IntN(5)]})
		}
	}
	p.ModeUnset = r.IntN(3) == 0
	p.StrayPipeline = r.IntN(3) == 0
	return p
}

func templates(names []string) []map[string]any {
	var ts []map[string]any
	for _, n := range names {
		ts = append(ts, map[string]any{"name": n, "base": nopObj(kindOf(n), "v-"+n)})
	}
	return ts
}

func (w *worker) runPT(i int, name string) {
	c := w.c
	p := genPT(c, i)
	world := sim.NewWorld(xrk.Scheme(), uint64(c.Seed)*7919+uint64(i))
	world.MustSeed("user", w.xrd)
	comp0 := xrk.ResourcesComposition("comp", "ex.org/v1", "XThing", templates(p.Before))
	if p.ModeUnset {
		delete(comp0["spec"].(map[string]any), "mode")
	}
	if p.StrayPipeline {
		for _, o := range xrk.FunctionObjects("fn-stray", w.ptFn.Addr) {
			world.MustSeedFull("pkg", o)
		}
		comp0["spec"].(map[string]any)["pipeline"] = []any{map[string]any{"step": "ignored-outside-pipeline-mode", "functionRef": map[string]any{"name": "fn-stray"}}}
	}
	world.MustSeed("user", comp0)
	if err := xrk.ReconcileComposition(world, "comp"); err != nil {
		panic(err)
	}
	world.MustSeed("user", xrk.XRObject("ex.org/v1", "XThing", "xr1", "comp", map[string]any{"compositionUpdatePolicy": "Automatic"}))
	env := xrk.NewXREnv(world, xrk.XRDTyped(w.xrd))
	for k := 0; k < 3; k++ {
		_, _, _ = env.Reconcile("xr1")
	}
	xrUID := sim.Str(world.GetObj(xrKey), "metadata", "uid")
	user := world.Client("user")
	byName := map[string]sim.Key{}
	world.Read(func(v *sim.View) {
		for _, k := range v.Keys() {
			if isComposedKind(k) {
				ann, _, _ := unstructured.NestedStringMap(v.Get(k), "metadata", "annotations")
				byName[ann[annResName]] = k
			}
		}
	})
	if len(byName) != len(p.Before) {
		key := "harness:pt-initial-compose-incomplete"
		if p.ModeUnset || p.StrayPipeline {
			key = "pt-templates-not-composed:resources-mode-with-pipeline-listed"
		}
		c.Violate(key, name, fmt.Sprintf("a Resources-mode Composition (mode unset=%v, pipeline listed=%v) composed %d of its %d named templates", p.ModeUnset, p.StrayPipeline, len(byName), len(p.Before)), p)
		return
	}
	for _, pt := range p.Perturb {
		k := byName[pt.Name]
		u := &unstructured.Unstructured{Object: world.GetObj(k)}
		switch pt.What {
		case "missing":
			_ = user.Delete(nil, u) //nolint:staticcheck
		case "terminating":
			u.SetFinalizers([]string{"provider/finalizer"})
			_ = user.Update(nil, u) //nolint:staticcheck
			_ = user.Delete(nil, u) //nolint:staticcheck
		case "uncontrolled":
			u.SetOwnerReferences(nil)
			_ = user.Update(nil, u) //nolint:staticcheck
		case "duplicate-ref":
			// the XR's spec.resourceRefs lists this resource twice (a hand edit, a restore, or a
			// merge of two writers' lists)
			xr := &unstructured.Unstructured{Object: world.GetObj(xrKey)}
			refs, _, _ := unstructured.NestedSlice(xr.Object, "spec", "resourceRefs")
			for _, rf := range refs {
				if m, ok := rf.(map[string]any); ok && m["name"] == k.Name && m["kind"] == k.Kind {
					refs = append(refs, runtime.DeepCopyJSONValue(m))
					break
				}
			}
			_ = unstructured.SetNestedSlice(xr.Object, refs, "spec", "resourceRefs")
			_ = user.Update(nil, xr) //nolint:staticcheck
		}
	}
	observed := map[string]bool{}
	world.Read(func(v *sim.View) {
		for n, k := range byName {
			o := v.Get(k)
			if o == nil {
				continue
			}
			if ctl := sim.ControllerOf(o); ctl != nil && sim.Str(ctl, "uid") != xrUID {
				continue
			}
			observed[n] = true
		}
	})
	// the author edits the Composition: templates are lost / renamed / added
	comp := &unstructured.Unstructured{Object: world.GetObj(sim.Key{Group: "apiextensions.crossplane.io", Kind: "Composition", Name: "comp"})}
	var rs []any
	for _, t := range templates(p.After) {
		rs = append(rs, runtime.DeepCopyJSONValue(t))
	}
	_ = unstructured.SetNestedSlice(comp.Object, rs, "spec", "resources")
	if err := user.Update(nil, comp); err != nil { //nolint:staticcheck
		panic(err)
	}
	if err := xrk.ReconcileComposition(world, "comp"); err != nil {
		panic(err)
	}
	from := world.LogLen()
	_, rerr, _ := env.Reconcile("xr1")
	log := world.Log(from)
	extant := map[string]bool{}
	for _, n := range p.After {
		extant[n] = true
	}
	deleted := map[string]bool{}
	var deletes []string
	for _, e := range log {
		if isComposedKind(e.Key) && e.Verb == "delete" && !e.DryRun {
			deletes = append(deletes, e.Short())
			if e.Before != nil {
				ann, _, _ := unstructured.NestedStringMap(e.Before, "metadata", "annotations")
				deleted[ann[annResName]] = true
			}
		}
	}
	witness := func() any {
		var evs []string
		for _, e := range log {
			evs = append(evs, e.Short())
		}
		return map[string]any{"case": p, "observed": keys(observed), "reconcile_error": fmt.Sprint(rerr), "trace": evs}
	}
	for n := range deleted {
		if extant[n] {
			c.Violate("pt-deleted-resource-of-extant-template", name, fmt.Sprintf("template %q still exists but its composed resource was deleted: %v", n, deletes), witness())
		} else if !observed[n] {
			c.Violate("pt-deleted-not-observed-by-xr", name, fmt.Sprintf("delete issued for %q, not a resource of this XR: %v", n, deletes), witness())
		}
	}
	if rerr == nil {
		for n := range observed {
			if !extant[n] && !deleted[n] {
				c.Violate("pt-undesired-not-deleted", name, fmt.Sprintf("template %q no longer exists, its resource was observed, but no delete was issued (deletes %v)", n, deletes), witness())
			}
		}
	}
	lost := 0
	for n := range observed {
		if !extant[n] {
			lost++
		}
	}
	c.Count("pt_cases", 1)
	c.Count("pt_gc_deletes", int64(len(deleted)))
	c.Eval("pt|"+kit.JSON(p), lost > 0)
	env.CloseConns()
}

func main() {
	c := kit.New("C03", "exploration")
	c.Rule = "generated pipelines of 1-4 scripted steps (normal, warning, error, fatal result, requirements that never stabilise / stabilise at round n; each step adds and removes desired names) run by the real XR reconciler after an initial composition and a perturbation of the observed state (missing / terminating / foreign-controlled / uncontrolled referenced resources, injected observe-time read error); P&T: template lists that lose, rename and add named templates. Oracle over the sim write log: failure => no write on composed kinds and unchanged spec.resourceRefs; success => deleted == observed-by-this-XR minus final desired (reference fold of the scripted steps), never a delete on a desired name. distinct = the generated case; non-trivial = a resource existed before the reconcile and the failing step was not the first (pipeline), or a template with an observed resource was lost (P&T)."
	c.Rule += " " + "P&T revisions with the mode unset or with a stray pipeline listed under mode Resources; every write of the collection phase fails once with each outcome (success is judged by a Synced=True status write)."
	c.Rule += " " + "Observed resources whose only field manager is the client-side one (upgrade pending); namespaced resources of one kind and one name in different namespaces."
	c.Rule += " " + "Resources renamed by re-emitting the observed body; two steady-state reconciles after every success (no composed resource deleted or created)."
	c.Rule += " " + "A function that answers its first call (with a requirement) and errors when called again; a still-desired name whose final desired entry has no resource body (must not be deleted)."
	c.Rule += " " + "A collector fault (conflict, 503, 500) on the label clean-up Update or on the DELETE itself, then up to three fault-free reconciles: once one composes successfully, every resource this XR composed that is absent from the desired state is gone or terminating."
	c.Assumptions = []string{"sim implements the apiserver rules of DESIGN.md 2.2", "functions are scripted gRPC servers; the requirement-round counter is per reconcile"}
	c.Floor = 100
	n := c.N(1500, 30000)
	npt := c.N(300, 6000)
	workers := 8
	type job struct {
		pt bool
		i  int
	}
	ch := make(chan job)
	var wg sync.WaitGroup
	for wk := 0; wk < workers; wk++ {
		wg.Add(1)
		go func(wk int) {
			defer wg.Done()
			w := newWorker(c, wk)
			for j := range ch {
				name := fmt.Sprintf("pipe/%d", j.i)
				if j.pt {
					name = fmt.Sprintf("pt/%d", j.i)
				}
				if !c.Want(name) {
					continue
				}
				var err error
				if j.pt {
					err = kit.Try(func() { w.runPT(j.i, name) })
				} else {
					err = kit.Try(func() { w.runCase(j.i, name) })
				}
				if err != nil {
					c.Violate("panic", name, err.Error(), nil)
				}
			}
		}(wk)
	}
	for i := 0; i < n; i++ {
		ch <- job{false, i}
	}
	for i := 0; i < npt; i++ {
		ch <- job{true, i}
	}
	close(ch)
	wg.Wait()
	c.Finish()
}
