//go:build verif

package main

// Part 2: transform laws. The real Resolve is run step by step over generated chains and every
// step is compared with the independent reference of ref.go; plus the convert round trips the
// property names explicitly.

import (
	"fmt"
	"math"
	"math/rand/v2"

	v1 "github.com/crossplane/crossplane/apis/apiextensions/v1"
	xcomposite "github.com/crossplane/crossplane/internal/controller/apiextensions/composite"
	"github.com/crossplane/crossplane/verifh/kit"
)

func genStart(r *rand.Rand) any {
	switch x := r.IntN(100); {
	case x < 30:
		return genString(r)
	case x < 50:
		return genInt(r)
	case x < 68:
		return genFloat(r)
	case x < 76:
		return chance(r, 0.5)
	case x < 80:
		return nil
	case x < 92:
		return normalize(genList(r, 2))
	}
	return normalize(genMap(r, 2))
}

func convT(to v1.TransformIOType) v1.Transform {
	return v1.Transform{Type: v1.TransformTypeConvert, Convert: &v1.ConvertTransform{ToType: to}}
}

// roundTrip returns a start value and a convert chain A->B->A that the documentation says
// preserves the value.
func roundTrip(r *rand.Rand) (any, []v1.Transform, string) {
	i64 := pick(r, []v1.TransformIOType{v1.TransformIOTypeInt64, v1.TransformIOTypeInt})
	switch r.IntN(10) {
	case 0:
		return genInt(r), []v1.Transform{convT(v1.TransformIOTypeString), convT(i64)}, "int64-string-int64"
	case 1:
		n := int64(r.Uint64()>>11) - (1 << 52) // |n| <= 2^52: exactly representable
		if chance(r, 0.2) {
			n = pick(r, []int64{0, 1, -1, 1 << 53, -(1 << 53), 1<<53 - 1})
		}
		return n, []v1.Transform{convT(v1.TransformIOTypeFloat64), convT(i64)}, "int64-float64-int64"
	case 2:
		return chance(r, 0.5), []v1.Transform{convT(v1.TransformIOTypeString), convT(v1.TransformIOTypeBool)}, "bool-string-bool"
	case 3:
		return chance(r, 0.5), []v1.Transform{convT(i64), convT(v1.TransformIOTypeBool)}, "bool-int64-bool"
	case 4:
		return chance(r, 0.5), []v1.Transform{convT(v1.TransformIOTypeFloat64), convT(v1.TransformIOTypeBool)}, "bool-float64-bool"
	case 5:
		return genFloat(r), []v1.Transform{convT(v1.TransformIOTypeString), convT(v1.TransformIOTypeFloat64)}, "float64-string-float64"
	case 6:
		n := genInt(r)
		return fmt.Sprint(n), []v1.Transform{convT(i64), convT(v1.TransformIOTypeString)}, "string-int64-string"
	case 7:
		return pick(r, []string{"true", "false"}), []v1.Transform{convT(v1.TransformIOTypeBool), convT(v1.TransformIOTypeString)}, "string-bool-string"
	case 8:
		// three hops through every scalar type
		return chance(r, 0.5), []v1.Transform{convT(i64), convT(v1.TransformIOTypeFloat64), convT(v1.TransformIOTypeString), convT(v1.TransformIOTypeFloat64), convT(i64), convT(v1.TransformIOTypeBool)}, "bool-int64-float64-string-float64-int64-bool"
	}
	n := int64(r.IntN(2_000_001) - 1_000_000)
	return n, []v1.Transform{convT(v1.TransformIOTypeString), convT(v1.TransformIOTypeFloat64), convT(i64)}, "int64-string-float64-int64"
}

// lawDetail names the input class in violation keys where it matters.
func lawDetail(t v1.Transform, in any) string {
	if t.Type == v1.TransformTypeMath {
		return "-" + mathInputClass(in)
	}
	if t.Type == v1.TransformTypeConvert {
		return "-from-" + ioTypeOf(in)
	}
	return ""
}

func describe(v any) string {
	s := fmt.Sprintf("%#v", v)
	if len(s) > 300 {
		s = s[:300] + "..."
	}
	return s
}

// judgeStep compares one real transform application with the reference's verdict.
func judgeStep(t v1.Transform, in any, ref rres, out any, err error) (key, what string) {
	s := site(t)
	switch ref.k {
	case rErr:
		if err == nil {
			return "law:" + s + lawDetail(t, in) + "-expected-error", "documentation implies an error (" + ref.why + "), got " + describe(out)
		}
	case rOK:
		if err != nil {
			return "law:" + s + lawDetail(t, in) + "-unexpected-error", "documented result " + describe(ref.val) + ", got error: " + err.Error()
		}
		if !sameJSON(ref.val, out) {
			return "law:" + s + lawDetail(t, in) + "-wrong-value", "documented result " + describe(ref.val) + " for input " + describe(in) + ", got " + describe(out)
		}
		if t.Type == v1.TransformTypeConvert && t.Convert != nil {
			if want := goTypeWanted(*t.Convert); want != "" && ioTypeOf(out) != want {
				return "law:" + s + lawDetail(t, in) + "-wrong-type", "convert to " + want + " returned a " + ioTypeOf(out)
			}
		}
	}
	return "", ""
}

// attribute replays a chain step by step and names the first transform that deviates from the
// reference, so that a defect of one transform has one key wherever it is observed.
func attribute(chain []v1.Transform, start any) (key, what string) {
	cur := start
	for _, t := range chain {
		var out any
		var err error
		if perr := kit.Try(func() { out, err = xcomposite.Resolve(t, cur) }); perr != nil {
			return panicKey(perr), firstLines(perr.Error(), 1)
		}
		if k, w := judgeStep(t, cur, refTransform(t, cur), out, err); k != "" {
			return k, w
		}
		if err != nil {
			return "", ""
		}
		cur = out
	}
	return "", ""
}

func runLawCase(c sink, name string, r *rand.Rand, st stats) {
	var start any
	var chain []v1.Transform
	rt := ""
	switch x := r.IntN(100); {
	case x < 22:
		start, chain, rt = roundTrip(r)
	default:
		start = genStart(r)
		chain = genChain(r, start, 1+r.IntN(4))
	}
	st.inc("law_evaluations")
	if rt != "" {
		st.inc("law_roundtrip_cases")
	}

	cur := start
	steps := 0
	failed := false
	_, strStart := start.(string)
	witness := func(i int, extra map[string]any) map[string]any {
		w := map[string]any{"start": describe(start), "chain": chain, "step": i, "input": describe(cur)}
		for k, v := range extra {
			w[k] = v
		}
		return w
	}
	for i, t := range chain {
		s := site(t)
		st.inc("transform_" + s)
		before := deepCopy(cur)
		var out, out2 any
		var err, err2 error
		perr := kit.Try(func() { out, err = xcomposite.Resolve(t, cur) })
		steps++
		if perr != nil {
			st.inc("panics")
			c.Violate(panicKey(perr), name, "Resolve panicked in "+s+": "+firstLines(perr.Error(), 1),
				witness(i, map[string]any{"transform": t, "panic": firstLines(perr.Error(), 14)}))
			failed = true
			break
		}
		if err != nil {
			st.inc("transform_errors_returned")
		}
		if !strictEq(before, cur) {
			c.Violate("law:"+s+"-input-mutated", name, "the transform modified its input value", witness(i, map[string]any{"transform": t}))
		}
		if kit.Try(func() { out2, err2 = xcomposite.Resolve(t, cur) }) == nil {
			if (err == nil) != (err2 == nil) || (err == nil && !strictEq(out, out2)) {
				c.Violate("law:"+s+"-nondeterministic", name, "two resolutions of the same transform and input disagree", witness(i, map[string]any{"transform": t}))
			}
		}
		ref := refTransform(t, cur)
		switch ref.k {
		case rErr:
			st.inc("law_checked_error")
		case rOK:
			st.inc("law_checked_value")
		default:
			st.inc("law_unspecified")
		}
		if key, what := judgeStep(t, cur, ref, out, err); key != "" {
			c.Violate(key, name, what, witness(i, map[string]any{"transform": t, "want": describe(ref.val), "got": describe(out), "error": errStr(err)}))
		}
		if err != nil {
			break
		}
		if f, isF := out.(float64); isF && (math.IsNaN(f) || math.IsInf(f, 0)) {
			break // cannot travel further as JSON
		}
		cur = out
	}
	if rt != "" && !failed {
		// the property's explicit law: the round trip preserves the value
		st.inc("law_checked_roundtrip")
		if steps == len(chain) && !sameJSON(start, cur) {
			c.Violate("law:roundtrip-"+rt+"-wrong-value", name, "round trip "+rt+" of "+describe(start)+" gave "+describe(cur),
				map[string]any{"start": describe(start), "chain": chain, "got": describe(cur)})
		}
		if steps == len(chain) && ioTypeOf(start) != ioTypeOf(cur) {
			c.Violate("law:roundtrip-"+rt+"-wrong-type", name, "round trip "+rt+" changed the type to "+ioTypeOf(cur),
				map[string]any{"start": describe(start), "chain": chain, "got": describe(cur)})
		}
	}
	nontrivial := steps >= 2 && !strStart
	if nontrivial {
		st.inc("law_nontrivial")
	}
	c.Eval(kit.JSON(chain)+"|"+describe(start), nontrivial)
	if nontrivial && c.WantSample() {
		c.Sample(map[string]any{"case": name, "start": describe(start), "chain": chain, "final": describe(cur)})
	}
}
