//go:build verif

package main

import (
	"encoding/json"
	"fmt"
	"math"
	"math/rand/v2"
	"strconv"
	"strings"
	"unicode/utf8"

	extv1 "k8s.io/apiextensions-apiserver/pkg/apis/apiextensions/v1"
	kjson "k8s.io/apimachinery/pkg/util/json"

	xpv1 "github.com/crossplane/crossplane-runtime/apis/common/v1"

	v1 "github.com/crossplane/crossplane/apis/apiextensions/v1"
)

func pick[T any](r *rand.Rand, xs []T) T  { return xs[r.IntN(len(xs))] }
func chance(r *rand.Rand, p float64) bool { return r.Float64() < p }
func ptrTo[T any](v T) *T                 { return &v }

var strPool = []string{
	"", "a", "abc", "abc-123", "zone-7", "true", "false", "True", "1", "0", "42", "-7", "+5", "007", "3.14", "1e3", "-0.5",
	"9223372036854775807", "9223372036854775808", "100m", "2Gi", "1.5Ki", "250M", "Zm9v", "Zm9vYg==", "Zm9=", "!!!",
	"héllo wörld", "日本語", "emoji 😀", "UPPER", "MiXeD", "with space", "a.b", "x.y.z", "%s", "%d",
	`{"k":1}`, `{"k":[1,"two",null]}`, `[1,2]`, `["a"]`, "null", `{"k":`, "ABCdef", "abcdef", "12ab34", "line1\nline2",
	"tab\there", "<html>&", "us-east-1", "prefix-body-suffix", "NaN", "Inf", "0x1F", "1_000", "maybe", "yes",
}

var keyPool = []string{"a", "b", "c", "name", "size", "count", "enabled", "tags", "items", "region", "x-y", "under_score", "CamelCase", "dotted.key", "üni", "0", "1x", "nested", "list", "val"}

var intPool = []int64{0, 1, -1, 2, 3, 7, 10, 100, 255, 1024, 65536, math.MaxInt32, math.MinInt32, math.MaxInt64, math.MinInt64, 1 << 53, 1<<53 + 1, -(1 << 53), 9007199254740993}

var floatPool = []float64{0.5, -0.5, 1.5, 2.5, -1.5, 3.14159, 5.5, 0.1, 1e21, -1e21, 1e-7, 1e300, -1e300, 5e-324, 9.3e18, -9.3e18, 1.8446744073709552e19, 123456.789, 0.9999999999999999, 4.9}

func genString(r *rand.Rand) string {
	if chance(r, 0.06) {
		return strings.Repeat(pick(r, []string{"x", "ab", "é"}), 50+r.IntN(300))
	}
	if chance(r, 0.1) {
		return fmt.Sprintf("%s-%d", pick(r, []string{"abc", "zone", "db", "x"}), r.IntN(100000))
	}
	return pick(r, strPool)
}

func genInt(r *rand.Rand) int64 {
	switch r.IntN(4) {
	case 0:
		return pick(r, intPool)
	case 1:
		return int64(r.IntN(2001)) - 1000
	case 2:
		return int64(r.Uint64())
	}
	return int64(r.IntN(20))
}

func genFloat(r *rand.Rand) float64 {
	switch r.IntN(3) {
	case 0:
		return pick(r, floatPool)
	case 1:
		return float64(r.IntN(200001)-100000) / 8 // exactly representable fractions
	}
	return (r.Float64() - 0.5) * math.Pow(10, float64(r.IntN(40)-10))
}

func genScalar(r *rand.Rand) any {
	switch x := r.IntN(100); {
	case x < 34:
		return genString(r)
	case x < 60:
		return genInt(r)
	case x < 78:
		return genFloat(r)
	case x < 90:
		return chance(r, 0.5)
	}
	return nil
}

func genKey(r *rand.Rand) string { return pick(r, keyPool) }

func genMap(r *rand.Rand, depth int) map[string]any {
	n := 1 + r.IntN(4)
	m := map[string]any{}
	for i := 0; i < n; i++ {
		m[genKey(r)] = genValue(r, depth-1)
	}
	return m
}

func genList(r *rand.Rand, depth int) []any {
	n := r.IntN(5)
	l := make([]any, 0, n)
	switch r.IntN(4) {
	case 0: // homogeneous strings
		for i := 0; i < n; i++ {
			l = append(l, genString(r))
		}
	case 1: // list of objects sharing keys (the wildcard use case)
		k1, k2 := genKey(r), genKey(r)
		for i := 0; i < n; i++ {
			e := map[string]any{k1: genValue(r, depth-2)}
			if chance(r, 0.7) {
				e[k2] = genScalar(r)
			}
			l = append(l, e)
		}
	case 2:
		for i := 0; i < n; i++ {
			switch r.IntN(3) {
			case 0:
				l = append(l, genString(r))
			case 1:
				l = append(l, genInt(r))
			default:
				l = append(l, chance(r, 0.5))
			}
		}
	default:
		for i := 0; i < n; i++ {
			l = append(l, genValue(r, depth-1))
		}
	}
	return l
}

func genValue(r *rand.Rand, depth int) any {
	if depth <= 0 {
		return genScalar(r)
	}
	switch x := r.IntN(100); {
	case x < 50:
		return genScalar(r)
	case x < 75:
		return genList(r, depth)
	}
	return genMap(r, depth)
}

// normalize gives v the shape it has after a trip through the API server: JSON text decoded by
// the Kubernetes decoder (integers int64, everything else float64).
func normalize(v any) any {
	b, err := json.Marshal(v)
	if err != nil {
		panic(fmt.Sprintf("harness: cannot marshal generated value: %v", err))
	}
	var out any
	if err := kjson.Unmarshal(b, &out); err != nil {
		panic(fmt.Sprintf("harness: cannot unmarshal generated value: %v", err))
	}
	return out
}

func genXR(r *rand.Rand) map[string]any {
	o := map[string]any{
		"apiVersion": "example.org/v1",
		"kind":       "XThing",
		"metadata": map[string]any{
			"name":        "xr",
			"labels":      map[string]any{"crossplane.io/composite": "xr", "team": genString(r)},
			"annotations": map[string]any{"example.org/note": genString(r)},
		},
		"spec": genMap(r, 3),
	}
	spec := o["spec"].(map[string]any)
	spec["params"] = genMap(r, 3)
	if chance(r, 0.7) {
		spec["list"] = genList(r, 3)
	}
	if chance(r, 0.6) {
		o["status"] = genMap(r, 2)
	}
	return normalize(o).(map[string]any)
}

func genCD(r *rand.Rand) map[string]any {
	o := map[string]any{
		"apiVersion": "cloud.example.org/v1beta1",
		"kind":       "Bucket",
		"metadata":   map[string]any{"name": "cd", "annotations": map[string]any{"crossplane.io/external-name": genString(r)}},
		"spec":       map[string]any{"forProvider": genMap(r, 3)},
	}
	if chance(r, 0.6) {
		o["spec"].(map[string]any)["items"] = genList(r, 3)
	}
	if chance(r, 0.6) {
		o["status"] = map[string]any{"atProvider": genMap(r, 2)}
	}
	return normalize(o).(map[string]any)
}

// ---- field paths ----------------------------------------------------------------------------------

type seg struct {
	field string
	idx   int
	isIdx bool
	wild  bool
}

type pstatus int

const (
	stFound pstatus = iota
	stMissing
	stMismatch
	stNullPrefix
	stMalformed
	stWildcard
)

func (s pstatus) String() string {
	return [...]string{"found", "missing", "mismatch", "nullprefix", "malformed", "wildcard"}[s]
}

// walk is the harness's own resolver of a segment list in a JSON tree.
func walk(root any, segs []seg) (any, pstatus) {
	cur := root
	for _, s := range segs {
		if s.wild {
			return nil, stWildcard
		}
		if s.isIdx {
			l, isL := cur.([]any)
			if !isL || s.idx > math.MaxUint32 {
				return nil, stMismatch // beyond 32 bits the bracketed number is read as a field name
			}
			if s.idx >= len(l) {
				return nil, stMissing
			}
			cur = l[s.idx]
			continue
		}
		switch m := cur.(type) {
		case map[string]any:
			v, present := m[s.field]
			if !present {
				return nil, stMissing
			}
			cur = v
		case nil:
			return nil, stNullPrefix
		default:
			return nil, stMismatch
		}
	}
	return cur, stFound
}

func numericLooking(s string) bool {
	_, err := strconv.ParseUint(s, 10, 32)
	return err == nil
}

// render writes segments in field path syntax, choosing dotted or bracketed forms.
func render(r *rand.Rand, segs []seg) string {
	var b strings.Builder
	for i, s := range segs {
		switch {
		case s.wild:
			b.WriteString("[*]")
		case s.isIdx:
			fmt.Fprintf(&b, "[%d]", s.idx)
		default:
			bracket := strings.Contains(s.field, ".")
			if !bracket && !numericLooking(s.field) && chance(r, 0.2) {
				bracket = true
			}
			if bracket {
				q := pick(r, []string{"", "'", `"`})
				b.WriteString("[" + q + s.field + q + "]")
			} else {
				if i > 0 {
					b.WriteByte('.')
				}
				b.WriteString(s.field)
			}
		}
	}
	return b.String()
}

// randomWalk descends from root along existing children and returns the segments visited.
func randomWalk(r *rand.Rand, root map[string]any, tops []string, minLen int) []seg {
	var segs []seg
	var cur any = root
	for depth := 0; depth < 6; depth++ {
		switch t := cur.(type) {
		case map[string]any:
			if len(t) == 0 {
				return segs
			}
			ks := sortedKeys(t)
			k := pick(r, ks)
			if depth == 0 && len(tops) > 0 {
				var have []string
				for _, tk := range tops {
					if _, present := t[tk]; present {
						have = append(have, tk)
					}
				}
				if len(have) > 0 {
					k = pick(r, have)
				}
			}
			segs = append(segs, seg{field: k})
			cur = t[k]
		case []any:
			if len(t) == 0 {
				return segs
			}
			i := r.IntN(len(t))
			segs = append(segs, seg{idx: i, isIdx: true})
			cur = t[i]
		default:
			return segs
		}
		if len(segs) >= minLen && chance(r, 0.3) {
			return segs
		}
	}
	return segs
}

var malformedPaths = []string{"", "a..b", "spec[", "]", ".spec", "spec.", "spec.[0]", "spec[]", "spec.a[[0]]", "spec.a]b", "[", "spec['a'"}

type genPath struct {
	s      string
	segs   []seg
	status pstatus
	val    any
	class  string
}

// genFromPath produces a source path together with the harness's own verdict about it.
func genFromPath(r *rand.Rand, src map[string]any) genPath {
	tops := []string{"spec", "spec", "spec", "status", "metadata"}
	segs := randomWalk(r, src, tops, 2)
	x := r.IntN(100)
	class := "present"
	switch {
	case x < 52:
	case x < 70: // a key that does not exist
		class = "missing-key"
		if end, st := walk(src, segs); st == stFound {
			if _, isM := end.(map[string]any); isM && chance(r, 0.5) {
				segs = append(segs, seg{field: "nope"})
				break
			}
		}
		for len(segs) > 1 && segs[len(segs)-1].isIdx {
			segs = segs[:len(segs)-1]
		}
		segs = append(segs[:len(segs)-1:len(segs)-1], seg{field: pick(r, []string{"nope", "missing", "zz.top", "Name"})})
	case x < 80: // an index past the end
		class = "missing-index"
		if end, st := walk(src, segs); st == stFound {
			if l, isL := end.([]any); isL {
				segs = append(segs, seg{isIdx: true, idx: len(l) + pick(r, []int{0, 1, 5, 1000, 4294967295})})
				break
			}
		}
		found := false
		for i := len(segs) - 1; i >= 0; i-- {
			if segs[i].isIdx {
				parent, _ := walk(src, segs[:i])
				segs = append(segs[:i:i], seg{isIdx: true, idx: len(parent.([]any)) + r.IntN(3)})
				found = true
				break
			}
		}
		if !found {
			class = "missing-key"
			segs = append(segs[:len(segs)-1:len(segs)-1], seg{field: "nope"})
		}
	case x < 88: // wrong container type on the way
		class = "mismatch"
		end, _ := walk(src, segs)
		switch end.(type) {
		case map[string]any:
			segs = append(segs, seg{isIdx: true, idx: 0})
		case []any:
			segs = append(segs, seg{field: "name"})
		case nil:
			segs = append(segs, seg{isIdx: true, idx: 0})
		default:
			if chance(r, 0.5) {
				segs = append(segs, seg{field: "name"})
			} else {
				segs = append(segs, seg{isIdx: true, idx: 0})
			}
		}
	case x < 91:
		class = "wildcard"
		segs = append(segs, seg{wild: true})
		if chance(r, 0.5) {
			segs = append(segs, seg{field: genKey(r)})
		}
	case x < 95:
		class = "malformed"
		return genPath{s: pick(r, malformedPaths), status: stMalformed, class: class}
	default: // deeper below a present node: may be a null prefix, a mismatch or missing
		class = "below"
		segs = append(segs, seg{field: genKey(r)})
	}
	v, st := walk(src, segs)
	return genPath{s: render(r, segs), segs: segs, status: st, val: v, class: class}
}

type toPath struct {
	s        string
	segs     []seg
	class    string
	settable bool // the harness model says SetValue must succeed and FromUnstructured too
	wild     bool
}

// settableIn models setting a value at segs in a JSON tree (intermediate nodes are created,
// arrays are padded, indexes above 1024 are refused).
func settableIn(root map[string]any, segs []seg) bool {
	if len(segs) == 0 || segs[0].isIdx {
		return false
	}
	if segs[0].field != "spec" && segs[0].field != "status" {
		return false // keeps apiVersion/kind/metadata intact
	}
	var cur any = root
	exists := true
	for i, s := range segs {
		if s.wild {
			return false
		}
		if s.isIdx && s.idx > 1024 {
			return false
		}
		if !exists {
			continue // everything below a created node is created too
		}
		final := i == len(segs)-1
		if s.isIdx {
			l, isL := cur.([]any)
			if !isL {
				return false
			}
			if final {
				return true
			}
			if s.idx >= len(l) || l[s.idx] == nil {
				exists = false
				continue
			}
			cur = l[s.idx]
			continue
		}
		m, isM := cur.(map[string]any)
		if !isM {
			return false
		}
		if final {
			return true
		}
		child, present := m[s.field]
		if !present {
			exists = false
			continue
		}
		cur = child // a present null is kept and makes the next step fail (cur == nil)
	}
	return true
}

func genToPath(r *rand.Rand, dst map[string]any) toPath {
	x := r.IntN(100)
	tops := []string{"spec", "spec", "spec", "status"}
	switch {
	case x < 30: // an existing node
		segs := randomWalk(r, dst, tops, 2)
		return toPath{s: render(r, segs), segs: segs, class: "existing", settable: settableIn(dst, segs)}
	case x < 65: // a new node below an existing object
		segs := randomWalk(r, dst, tops, 1)
		for len(segs) > 1 {
			if end, st := walk(dst, segs); st == stFound {
				if _, isM := end.(map[string]any); isM {
					break
				}
			}
			segs = segs[:len(segs)-1]
		}
		n := 1 + r.IntN(3)
		for i := 0; i < n; i++ {
			if i > 0 && chance(r, 0.25) {
				segs = append(segs, seg{isIdx: true, idx: pick(r, []int{0, 0, 1, 2, 5, 1024})})
			} else {
				segs = append(segs, seg{field: pick(r, []string{"newField", "out", "patched", "deep.er", "target"})})
			}
		}
		return toPath{s: render(r, segs), segs: segs, class: "new", settable: settableIn(dst, segs)}
	case x < 85: // wildcard over a list or map
		segs := randomWalk(r, dst, tops, 1)
		// cut back to a container
		for len(segs) > 1 {
			end, st := walk(dst, segs)
			_, isL := end.([]any)
			_, isM := end.(map[string]any)
			if st == stFound && (isL || isM) {
				break
			}
			segs = segs[:len(segs)-1]
		}
		segs = append(segs, seg{wild: true})
		if chance(r, 0.6) {
			segs = append(segs, seg{field: genKey(r)})
		}
		return toPath{s: render(r, segs), segs: segs, class: "wildcard", wild: true}
	case x < 93: // unusual indexes
		segs := randomWalk(r, dst, tops, 1)
		segs = append(segs, seg{field: "arr"}, seg{isIdx: true, idx: pick(r, []int{0, 3, 1024, 1025, 4294967295})})
		p := toPath{s: render(r, segs), segs: segs, class: "index", settable: settableIn(dst, segs)}
		if chance(r, 0.2) {
			p.s = strings.Replace(p.s, "[4294967295]", "[99999999999]", 1)
			p.settable = false
		}
		return p
	}
	return toPath{s: pick(r, malformedPaths), class: "malformed"}
}

// ---- transforms ------------------------------------------------------------------------------------

func rawJSON(v any) extv1.JSON {
	b, _ := json.Marshal(v)
	return extv1.JSON{Raw: b}
}

func genSmallJSON(r *rand.Rand) any {
	switch r.IntN(7) {
	case 0:
		return genString(r)
	case 1:
		return int64(r.IntN(100))
	case 2:
		return chance(r, 0.5)
	case 3:
		return map[string]any{"k": genString(r), "n": int64(r.IntN(10))}
	case 4:
		return []any{genString(r), int64(r.IntN(10))}
	case 5:
		return float64(r.IntN(100)) + 0.5
	}
	return nil
}

func genRawResult(r *rand.Rand) extv1.JSON {
	switch x := r.IntN(100); {
	case x < 88:
		return rawJSON(genSmallJSON(r))
	case x < 94:
		return extv1.JSON{Raw: []byte(pick(r, []string{`{`, `[1,`, `tru`, `"open`, `{"a":1}}`}))}
	}
	return extv1.JSON{}
}

func genMathParam(r *rand.Rand) *int64 {
	if chance(r, 0.05) {
		return nil
	}
	switch r.IntN(4) {
	case 0:
		return ptrTo(pick(r, intPool))
	case 1:
		return ptrTo(int64(r.IntN(21) - 10))
	}
	return ptrTo(int64(r.IntN(2001) - 1000))
}

func genMath(r *rand.Rand) v1.Transform {
	m := &v1.MathTransform{}
	switch x := r.IntN(100); {
	case x < 15:
		m.Type = ""
		m.Multiply = genMathParam(r)
	case x < 40:
		m.Type = v1.MathTransformTypeMultiply
		m.Multiply = genMathParam(r)
	case x < 68:
		m.Type = v1.MathTransformTypeClampMin
		m.ClampMin = genMathParam(r)
	case x < 96:
		m.Type = v1.MathTransformTypeClampMax
		m.ClampMax = genMathParam(r)
	default:
		m.Type = "Divide"
		m.Multiply = genMathParam(r)
	}
	if chance(r, 0.05) { // the wrong parameter is set
		m.Multiply, m.ClampMin, m.ClampMax = m.ClampMax, m.Multiply, m.ClampMin
	}
	return v1.Transform{Type: v1.TransformTypeMath, Math: m}
}

func genMapT(r *rand.Rand, cur any) v1.Transform {
	pairs := map[string]extv1.JSON{}
	n := r.IntN(4)
	for i := 0; i < n; i++ {
		pairs[genString(r)] = genRawResult(r)
	}
	if s, isS := cur.(string); isS && chance(r, 0.7) {
		pairs[s] = genRawResult(r)
	}
	return v1.Transform{Type: v1.TransformTypeMap, Map: &v1.MapTransform{Pairs: pairs}}
}

func genRegexp(r *rand.Rand) string {
	if chance(r, 0.15) {
		return pick(r, malformedRx)
	}
	return pick(r, rxFamilies).pattern
}

func genMatch(r *rand.Rand, cur any) v1.Transform {
	m := &v1.MatchTransform{}
	n := r.IntN(4)
	for i := 0; i < n; i++ {
		p := v1.MatchTransformPattern{Result: genRawResult(r)}
		switch x := r.IntN(100); {
		case x < 45:
			p.Type = v1.MatchTransformPatternTypeLiteral
			if s, isS := cur.(string); isS && chance(r, 0.4) {
				p.Literal = ptrTo(s)
			} else if !chance(r, 0.05) {
				p.Literal = ptrTo(genString(r))
			}
		case x < 92:
			p.Type = v1.MatchTransformPatternTypeRegexp
			if !chance(r, 0.05) {
				p.Regexp = ptrTo(genRegexp(r))
			}
		case x < 96:
			p.Type = ""
			p.Literal = ptrTo(genString(r))
		default:
			p.Type = "glob"
			p.Literal = ptrTo("*")
		}
		m.Patterns = append(m.Patterns, p)
	}
	switch x := r.IntN(100); {
	case x < 40:
		m.FallbackTo = v1.MatchFallbackToTypeValue
		m.FallbackValue = genRawResult(r)
	case x < 60:
		m.FallbackValue = genRawResult(r)
	case x < 92:
		m.FallbackTo = v1.MatchFallbackToTypeInput
		if chance(r, 0.1) {
			m.FallbackValue = genRawResult(r)
		}
	default:
		m.FallbackTo = "Nothing"
	}
	return v1.Transform{Type: v1.TransformTypeMatch, Match: m}
}

var fmtPool = []string{"%s", "%d", "%v", "prefix-%s-suffix", "%5.2f", "%q", "%x", "%08d", "%t", "100%%", "%", "%!", "%s %s",
	"no verbs", "%[2]d", "%[-1]d", "%*d", "%.*f", "%-10s|", "%+d", "%e", "%U", "%c", "%T", "%6.3v", "%#v", "%b", "%o", "%0999d", "%.3s", "id-%v"}

var groupPool = []int{0, 1, 2, 3, 10, -1, -2, -100, math.MinInt, math.MaxInt, 1 << 31}

var stringConvPool = []v1.StringConversionType{v1.StringConversionTypeToUpper, v1.StringConversionTypeToLower, v1.StringConversionTypeToJSON,
	v1.StringConversionTypeToBase64, v1.StringConversionTypeFromBase64, v1.StringConversionTypeToSHA1, v1.StringConversionTypeToSHA256,
	v1.StringConversionTypeToSHA512, v1.StringConversionTypeToAdler32}

func genStringT(r *rand.Rand, cur any) v1.Transform {
	s := &v1.StringTransform{}
	drop := chance(r, 0.04) // leave the required parameter out
	x := r.IntN(100)
	if _, isL := cur.([]any); isL && chance(r, 0.5) {
		x = 95
	}
	switch {
	case x < 20:
		s.Type = v1.StringTransformTypeFormat
		if chance(r, 0.1) {
			s.Type = ""
		}
		if !drop {
			s.Format = ptrTo(pick(r, fmtPool))
		}
	case x < 48:
		s.Type = v1.StringTransformTypeConvert
		if !drop {
			c := pick(r, stringConvPool)
			if chance(r, 0.03) {
				c = "ToRot13"
			}
			s.Convert = &c
		}
	case x < 62:
		s.Type = pick(r, []v1.StringTransformType{v1.StringTransformTypeTrimPrefix, v1.StringTransformTypeTrimSuffix})
		if !drop {
			t := genString(r)
			if cs, isS := cur.(string); isS && len(cs) > 1 && chance(r, 0.6) {
				k := 1 + r.IntN(len(cs)-1)
				for k < len(cs) && !utf8.RuneStart(cs[k]) {
					k++
				}
				for s.Type == v1.StringTransformTypeTrimSuffix && k < len(cs) && !utf8.RuneStart(cs[len(cs)-k]) {
					k++
				}
				if s.Type == v1.StringTransformTypeTrimPrefix {
					t = cs[:k]
				} else {
					t = cs[len(cs)-k:]
				}
			}
			s.Trim = &t
		}
	case x < 90:
		s.Type = v1.StringTransformTypeRegexp
		if !drop {
			rx := &v1.StringTransformRegexp{Match: genRegexp(r)}
			if !chance(r, 0.25) {
				rx.Group = ptrTo(pick(r, groupPool))
			}
			s.Regexp = rx
		}
	case x < 97:
		s.Type = v1.StringTransformTypeJoin
		if !drop {
			s.Join = &v1.StringTransformJoin{Separator: pick(r, []string{"", ",", "-", ", ", "日本"})}
		}
	default:
		s.Type = "Reverse"
		s.Format = ptrTo("%s")
	}
	return v1.Transform{Type: v1.TransformTypeString, String: s}
}

var toTypePool = []v1.TransformIOType{v1.TransformIOTypeString, v1.TransformIOTypeInt, v1.TransformIOTypeInt64, v1.TransformIOTypeBool, v1.TransformIOTypeFloat64, v1.TransformIOTypeObject, v1.TransformIOTypeArray}

func genConvert(r *rand.Rand, cur any) v1.Transform {
	c := &v1.ConvertTransform{ToType: pick(r, toTypePool[:5])}
	switch x := r.IntN(100); {
	case x < 4:
		c.ToType = pick(r, []v1.TransformIOType{"", "uint8", "String", "number"})
	case x < 14:
		c.ToType = pick(r, toTypePool[5:])
		c.Format = ptrTo(v1.ConvertTransformFormatJSON)
	case x < 24:
		c.ToType = v1.TransformIOTypeFloat64
		c.Format = ptrTo(v1.ConvertTransformFormatQuantity)
	case x < 30:
		c.Format = ptrTo(pick(r, []v1.ConvertTransformFormat{v1.ConvertTransformFormatNone, v1.ConvertTransformFormatQuantity, v1.ConvertTransformFormatJSON}))
	case x < 33:
		c.Format = ptrTo(v1.ConvertTransformFormat(pick(r, []string{"", "yaml", "Quantity"})))
	}
	_ = cur
	return v1.Transform{Type: v1.TransformTypeConvert, Convert: c}
}

// genTransform picks a transform, biased towards ones that accept the current value.
func genTransform(r *rand.Rand, cur any) v1.Transform {
	if chance(r, 0.02) {
		return v1.Transform{Type: pick(r, []v1.TransformType{"", "jq", "Math"})}
	}
	if chance(r, 0.02) { // type and configuration disagree
		t := genStringT(r, cur)
		t.Type = pick(r, []v1.TransformType{v1.TransformTypeMath, v1.TransformTypeMap, v1.TransformTypeMatch, v1.TransformTypeConvert})
		return t
	}
	var w [5]int // math map match string convert
	switch cur.(type) {
	case string:
		w = [5]int{3, 18, 20, 39, 20}
	case int64, float64:
		w = [5]int{45, 3, 4, 23, 25}
	case bool:
		w = [5]int{5, 5, 10, 30, 50}
	case []any:
		w = [5]int{4, 4, 8, 80, 4}
	default:
		w = [5]int{5, 5, 15, 65, 10}
	}
	x := r.IntN(w[0] + w[1] + w[2] + w[3] + w[4])
	switch {
	case x < w[0]:
		return genMath(r)
	case x < w[0]+w[1]:
		return genMapT(r, cur)
	case x < w[0]+w[1]+w[2]:
		return genMatch(r, cur)
	case x < w[0]+w[1]+w[2]+w[3]:
		return genStringT(r, cur)
	}
	return genConvert(r, cur)
}

// genChain builds a chain whose later transforms are chosen for the value the reference predicts.
func genChain(r *rand.Rand, start any, n int) []v1.Transform {
	var ts []v1.Transform
	cur := start
	for i := 0; i < n; i++ {
		t := genTransform(r, cur)
		ts = append(ts, t)
		res := refTransform(t, cur)
		if res.k == rOK {
			cur = concretize(res.val, cur)
		} else if res.k == rErr && chance(r, 0.7) {
			break
		}
	}
	return ts
}

// concretize turns an expected-value wrapper into a plain value for biasing the generator only.
func concretize(v any, fallback any) any {
	switch t := v.(type) {
	case approx:
		return t.v
	case jsonText:
		b, _ := json.Marshal(t.v)
		return string(b)
	case floatText:
		return strconv.FormatFloat(t.f, 'g', -1, 64)
	case oneOf:
		if len(t) > 0 {
			return concretize(t[0], fallback)
		}
		return fallback
	case json.Number:
		if i, err := strconv.ParseInt(string(t), 10, 64); err == nil {
			return float64(i)
		}
		f, _ := strconv.ParseFloat(string(t), 64)
		return f
	}
	return v
}

func chainLen(r *rand.Rand) int {
	switch x := r.IntN(100); {
	case x < 15:
		return 0
	case x < 35:
		return 1
	case x < 70:
		return 2
	case x < 90:
		return 3
	}
	return 4
}

// ---- patches ---------------------------------------------------------------------------------------

func genPolicy(r *rand.Rand) *v1.PatchPolicy {
	if chance(r, 0.3) {
		return nil
	}
	p := &v1.PatchPolicy{}
	switch x := r.IntN(100); {
	case x < 25:
	case x < 55:
		p.FromFieldPath = ptrTo(v1.FromFieldPathPolicyOptional)
	case x < 98:
		p.FromFieldPath = ptrTo(v1.FromFieldPathPolicyRequired)
	default:
		p.FromFieldPath = ptrTo(v1.FromFieldPathPolicy("Sometimes"))
	}
	if chance(r, 0.4) {
		mo := &xpv1.MergeOptions{}
		if chance(r, 0.7) {
			mo.KeepMapValues = ptrTo(chance(r, 0.6))
		}
		if chance(r, 0.7) {
			mo.AppendSlice = ptrTo(chance(r, 0.6))
		}
		p.MergeOptions = mo
	}
	return p
}

var combineFmtPool = []string{"%s-%s", "%v-%v", "%s", "%d-%s", "%v/%v/%v", "plain", "%s-%s-%s", "%[2]v-%[1]v", "%5.1f|%v", "%q:%q", "%*d"}

func policyName(p *v1.PatchPolicy) string {
	if p == nil {
		return "nil"
	}
	s := "default"
	if p.FromFieldPath != nil {
		s = string(*p.FromFieldPath)
	}
	if p.MergeOptions != nil {
		s += "+mo(keep=" + boolPtrVal(p.MergeOptions.KeepMapValues) + ",append=" + boolPtrVal(p.MergeOptions.AppendSlice) + ")"
	}
	return s
}

// effectivePolicy is the documented meaning of the policy: "The default is 'Optional'".
func effectivePolicy(p *v1.PatchPolicy) string {
	if p == nil || p.FromFieldPath == nil {
		return "Optional"
	}
	switch *p.FromFieldPath {
	case v1.FromFieldPathPolicyOptional:
		return "Optional"
	case v1.FromFieldPathPolicyRequired:
		return "Required"
	}
	return "unknown"
}
