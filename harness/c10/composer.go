//go:build verif

package main

// Part 3: PTComposer.Compose against the simulated API server. A composition with k named
// templates (each of its own kind) is reconciled several times while a changing subset of the
// templates cannot be rendered (required from-XR patch without source, transform error, name
// generation failure, missing name-prefix label). The write log of each reconcile must hold no
// write for an unrendered template's resource, the other resources must be applied with the
// documented values and the XR must keep a reference per template.

import (
	"context"
	"encoding/json"
	"fmt"
	"math/rand/v2"
	"sort"

	corev1 "k8s.io/api/core/v1"
	"k8s.io/apimachinery/pkg/apis/meta/v1/unstructured"
	"k8s.io/apimachinery/pkg/runtime"
	"k8s.io/apimachinery/pkg/runtime/schema"
	"k8s.io/apimachinery/pkg/types"

	xpv1 "github.com/crossplane/crossplane-runtime/apis/common/v1"
	"github.com/crossplane/crossplane-runtime/pkg/errors"
	"github.com/crossplane/crossplane-runtime/pkg/resource"
	"github.com/crossplane/crossplane-runtime/pkg/resource/unstructured/composite"

	v1 "github.com/crossplane/crossplane/apis/apiextensions/v1"
	xcomposite "github.com/crossplane/crossplane/internal/controller/apiextensions/composite"
	"github.com/crossplane/crossplane/internal/names"
	"github.com/crossplane/crossplane/verifh/kit"
	"github.com/crossplane/crossplane/verifh/sim"
)

var composerScheme = func() *runtime.Scheme {
	s := runtime.NewScheme()
	_ = corev1.AddToScheme(s)
	return s
}()

var xrGVK = schema.GroupVersionKind{Group: "example.org", Version: "v1", Kind: "XThing"}

type tplSpec struct {
	name       string
	kind       string
	chain      []v1.Transform
	hasConvert bool // the required patch converts its source to int64
	usesSet    bool
	keepTags   bool // its tags patch carries mergeOptions.keepMapValues
}

func valueChain(r *rand.Rand, x int) []v1.Transform {
	strT := func(f string) v1.Transform {
		return v1.Transform{Type: v1.TransformTypeString, String: &v1.StringTransform{Type: v1.StringTransformTypeFormat, Format: &f}}
	}
	switch x {
	case 0:
		return nil
	case 1:
		return []v1.Transform{{Type: v1.TransformTypeMath, Math: &v1.MathTransform{Type: v1.MathTransformTypeMultiply, Multiply: ptrTo(int64(1 + r.IntN(9)))}}}
	case 2:
		return []v1.Transform{strT("id-%v")}
	case 3:
		return []v1.Transform{convT(v1.TransformIOTypeString), strT("n=%s")}
	}
	return []v1.Transform{
		{Type: v1.TransformTypeMath, Math: &v1.MathTransform{Type: v1.MathTransformTypeClampMax, ClampMax: ptrTo(int64(50))}},
		convT(v1.TransformIOTypeString),
	}
}

func runComposerCase(c sink, name string, r *rand.Rand, st stats) {
	ctx := context.Background()
	k := 2 + r.IntN(4)
	w := sim.NewWorld(composerScheme, r.Uint64())
	cl := w.Client("composer")
	hc := w.Client("harness")

	// templates
	tpls := make([]tplSpec, k)
	var cts []v1.ComposedTemplate
	optional := v1.FromFieldPathPolicyOptional
	required := v1.FromFieldPathPolicyRequired
	sets := []v1.PatchSet{{Name: "common", Patches: []v1.Patch{
		{Type: v1.PatchTypeFromCompositeFieldPath, FromFieldPath: ptrTo("spec.params.region"), ToFieldPath: ptrTo("spec.forProvider.region")},
		{Type: v1.PatchTypeFromCompositeFieldPath, FromFieldPath: ptrTo("spec.params.notThere"), ToFieldPath: ptrTo("spec.forProvider.notThere"), Policy: &v1.PatchPolicy{FromFieldPath: &optional}},
	}}}
	for j := 0; j < k; j++ {
		t := tplSpec{name: fmt.Sprintf("tpl-%d", j), kind: fmt.Sprintf("Res%d", j), hasConvert: chance(r, 0.4), usesSet: chance(r, 0.6)}
		t.chain = valueChain(r, r.IntN(5))
		base := map[string]any{"apiVersion": "cloud.example.org/v1", "kind": t.kind, "spec": map[string]any{"forProvider": map[string]any{"fixed": "f", "value": "from-base"}}}
		var ps []v1.Patch
		if t.usesSet {
			ps = append(ps, v1.Patch{Type: v1.PatchTypePatchSet, PatchSetName: ptrTo("common")})
		}
		ps = append(ps, v1.Patch{Type: v1.PatchTypeFromCompositeFieldPath, FromFieldPath: ptrTo(fmt.Sprintf("spec.params.v%d", j)), ToFieldPath: ptrTo("spec.forProvider.value"), Transforms: t.chain})
		reqP := v1.Patch{Type: v1.PatchTypeFromCompositeFieldPath, FromFieldPath: ptrTo(fmt.Sprintf("spec.params.req%d", j)), ToFieldPath: ptrTo("spec.forProvider.req"), Policy: &v1.PatchPolicy{FromFieldPath: &required}}
		if t.hasConvert {
			reqP.Transforms = []v1.Transform{convT(v1.TransformIOTypeInt64)}
		}
		if chance(r, 0.5) {
			ps = append(ps, reqP)
		} else {
			ps = append([]v1.Patch{reqP}, ps...)
		}
		// every template copies the XR's tags map; some with the keepMapValues merge option, which
		// is that template's own business only
		t.keepTags = chance(r, 0.3)
		tagsP := v1.Patch{Type: v1.PatchTypeFromCompositeFieldPath, FromFieldPath: ptrTo("spec.params.tags"), ToFieldPath: ptrTo("spec.forProvider.tags")}
		if t.keepTags {
			tagsP.Policy = &v1.PatchPolicy{MergeOptions: &xpv1.MergeOptions{KeepMapValues: ptrTo(true)}}
		}
		ps = append(ps, tagsP)
		if chance(r, 0.4) {
			ps = append(ps, v1.Patch{Type: v1.PatchTypeToCompositeFieldPath, FromFieldPath: ptrTo("status.atProvider.id"), ToFieldPath: ptrTo(fmt.Sprintf("status.ids.r%d", j))})
		}
		if chance(r, 0.3) {
			ps = append(ps, v1.Patch{Type: v1.PatchTypeCombineFromComposite, ToFieldPath: ptrTo("spec.forProvider.combined"), Combine: &v1.Combine{
				Strategy: v1.CombineStrategyString, String: &v1.StringCombine{Format: "%s-%v"},
				Variables: []v1.CombineVariable{{FromFieldPath: "spec.params.region"}, {FromFieldPath: fmt.Sprintf("spec.params.v%d", j)}}}})
		}
		tpls[j] = t
		cts = append(cts, v1.ComposedTemplate{Name: ptrTo(t.name), Base: runtime.RawExtension{Raw: []byte(kit.JSON(base))}, Patches: ps})
	}
	// pad the shared PatchSet with further optional no-op patches (1..5 patches in total) and take
	// the revision through JSON, as it arrives from the API server: decoded slices have spare
	// capacity, which is what makes slice-aliasing bugs between templates observable
	for extra := r.IntN(4); extra > 0; extra-- {
		sets[0].Patches = append(sets[0].Patches, v1.Patch{Type: v1.PatchTypeFromCompositeFieldPath, FromFieldPath: ptrTo(fmt.Sprintf("spec.params.absent%d", extra)),
			ToFieldPath: ptrTo(fmt.Sprintf("spec.forProvider.absent%d", extra)), Policy: &v1.PatchPolicy{FromFieldPath: &optional}})
	}
	rev := &v1.CompositionRevision{Spec: v1.CompositionRevisionSpec{PatchSets: sets, Resources: cts}}
	if b, err := json.Marshal(rev); err == nil {
		decoded := &v1.CompositionRevision{}
		if err := json.Unmarshal(b, decoded); err == nil {
			rev = decoded
		}
	}

	// the XR
	labelMissing := chance(r, 0.06)
	labels := map[string]any{"crossplane.io/composite": "xr"}
	if labelMissing {
		labels = map[string]any{"unrelated": "x"}
	}
	xr0 := &unstructured.Unstructured{Object: map[string]any{
		"apiVersion": "example.org/v1", "kind": "XThing",
		"metadata": map[string]any{"name": "xr", "labels": labels},
		"spec":     map[string]any{"params": map[string]any{"region": "eu-1"}},
	}}
	if err := hc.Create(ctx, xr0); err != nil {
		c.Inconclusive("harness: cannot create XR in sim: " + err.Error())
		return
	}
	xrKey := sim.Key{Group: "example.org", Kind: "XThing", Name: "xr"}

	nameFail := map[string]bool{}
	counter := 0
	useFakeNamer := chance(r, 0.6)
	var opts []xcomposite.PTComposerOption
	if useFakeNamer {
		opts = append(opts, xcomposite.WithComposedNameGenerator(names.NameGeneratorFn(func(_ context.Context, cd resource.Object) error {
			if cd.GetName() != "" || cd.GetGenerateName() == "" {
				return nil
			}
			if nameFail[cd.GetObjectKind().GroupVersionKind().Kind] {
				return errors.New("injected: no free name")
			}
			counter++
			cd.SetName(fmt.Sprintf("%sn%d", cd.GetGenerateName(), counter))
			return nil
		})))
	}
	composer := xcomposite.NewPTComposer(cl, cl, opts...)
	unserved := map[string]bool{}
	cl.FaultFn = func(_ int, _ string, k sim.Key) sim.Outcome {
		if unserved[k.Kind] {
			return sim.NotServed
		}
		return sim.OK
	}

	existing := map[string]string{} // kind -> name of the created resource
	rounds := 2 + r.IntN(2)
	fp := fmt.Sprintf("k=%d label=%v fake=%v", k, labelMissing, useFakeNamer)
	anyFailing, anyOK := false, false
	violated := false
	viol := func(key, what string, wit map[string]any) {
		violated = true
		wit["templates"] = cts
		wit["patchSets"] = sets
		c.Violate(key, name, what, wit)
	}

	for round := 0; round < rounds && !violated; round++ {
		// the harness edits the XR's parameters
		cur := &unstructured.Unstructured{}
		cur.SetGroupVersionKind(xrGVK)
		if err := hc.Get(ctx, types.NamespacedName{Name: "xr"}, cur); err != nil {
			c.Inconclusive("harness: cannot read XR: " + err.Error())
			return
		}
		params := map[string]any{"region": pick(r, []string{"eu-1", "us-2", "ap-3"}), "tags": map[string]any{"env": fmt.Sprintf("env-round-%d", round), "team": "payments"}}
		mode := make([]string, k) // why template j cannot be rendered ("" = can)
		for j, t := range tpls {
			switch x := r.IntN(100); {
			case x < 50:
				params[fmt.Sprintf("req%d", j)] = fmt.Sprint(r.IntN(1000))
			case x < 75:
				mode[j] = "required-missing"
			default:
				params[fmt.Sprintf("req%d", j)] = pick(r, []string{"abc", "12x", ""})
				if t.hasConvert {
					mode[j] = "transform-error"
				}
			}
			if chance(r, 0.85) {
				// chains 1,3,4 need a number; 0,2 take anything
				params[fmt.Sprintf("v%d", j)] = int64(r.IntN(100))
			}
			nameFail[t.kind] = false
			if useFakeNamer && mode[j] == "" && existing[t.kind] == "" && chance(r, 0.2) {
				nameFail[t.kind] = true
				mode[j] = "name-generation"
			}
			namedRef := false
			curRefs, _, _ := unstructured.NestedSlice(cur.Object, "spec", "resourceRefs")
			for _, rf := range curRefs {
				if m, ok := rf.(map[string]any); ok && m["kind"] == t.kind && m["name"] != nil && m["name"] != "" {
					namedRef = true // a reference with a name exists already (the name was generated in an earlier round): the composer has to read it
				}
			}
			if !useFakeNamer && mode[j] == "" && existing[t.kind] == "" && !namedRef && chance(r, 0.15) {
				// the composed kind is not served (its CRD / provider is not installed yet): the real name
				// generator cannot probe for a free name
				unserved[t.kind] = true
				mode[j] = "kind-unserved"
			} else {
				delete(unserved, t.kind)
			}
			if labelMissing {
				mode[j] = "metadata-label"
			}
		}
		_ = unstructured.SetNestedMap(cur.Object, params, "spec", "params")
		if err := hc.Update(ctx, cur); err != nil {
			c.Inconclusive("harness: cannot update XR: " + err.Error())
			return
		}
		xr := composite.New(composite.WithGroupVersionKind(xrGVK))
		if err := cl.Get(ctx, types.NamespacedName{Name: "xr"}, xr); err != nil {
			c.Inconclusive("harness: cannot get XR: " + err.Error())
			return
		}
		before := w.Snapshot()
		from := w.LogLen()
		var res xcomposite.CompositionResult
		var cerr error
		perr := kit.Try(func() { res, cerr = composer.Compose(ctx, xr, xcomposite.CompositionRequest{Revision: rev}) })
		log := w.Log(from)
		var trace []string
		for i := range log {
			if log[i].IsWrite() {
				trace = append(trace, log[i].Short())
			}
		}
		st.inc("composer_reconciles")
		fp += fmt.Sprintf("|%v", mode)
		wit := func() map[string]any {
			return map[string]any{"round": round, "params": params, "unrenderable": mode, "writes": trace, "error": errStr(cerr), "existing": fmt.Sprint(existing)}
		}
		if perr != nil {
			st.inc("panics")
			x := wit()
			x["panic"] = firstLines(perr.Error(), 14)
			viol(panicKey(perr), "Compose panicked: "+firstLines(perr.Error(), 1), x)
			break
		}
		if cerr != nil {
			st.inc("composer_errors_returned")
			viol("composer:unexpected-error", "Compose returned an error although no terminal condition was generated: "+cerr.Error(), wit())
			break
		}
		_ = res
		stored := w.GetObj(xrKey)
		refs, _, _ := unstructured.NestedSlice(stored, "spec", "resourceRefs")
		refName := map[string]string{}
		refSeen := map[string]bool{}
		for _, e := range refs {
			if m, isM := e.(map[string]any); isM {
				kd, _ := m["kind"].(string)
				nm, _ := m["name"].(string)
				refName[kd], refSeen[kd] = nm, true
			}
		}
		for j, t := range tpls {
			var writes []string
			created := false
			for i := range log {
				e := &log[i]
				if e.Key.Kind != t.kind || !e.IsWrite() {
					continue
				}
				writes = append(writes, e.Short())
				if e.Verb == "create" && e.Err == "" && !e.DryRun {
					created = true
				}
			}
			key := sim.Key{Group: "cloud.example.org", Kind: t.kind, Name: existing[t.kind]}
			if mode[j] != "" {
				anyFailing = true
				st.inc("composer_unrendered_" + mode[j])
				if len(writes) > 0 {
					x := wit()
					x["template"] = t.name
					x["offendingWrites"] = writes
					viol("composer:unrendered-resource-written-"+mode[j], fmt.Sprintf("template %s could not be rendered (%s) but its resource was written in this reconcile", t.name, mode[j]), x)
					break
				}
				if existing[t.kind] != "" {
					st.inc("composer_unrendered_existing")
					bk := key.String()
					if !strictEq(before[bk], w.GetObj(key)) {
						x := wit()
						x["template"] = t.name
						viol("composer:unrendered-existing-resource-changed", "the existing resource of an unrenderable template changed in the store", x)
						break
					}
					if refName[t.kind] != existing[t.kind] {
						x := wit()
						x["template"] = t.name
						x["resourceRefs"] = refs
						viol("composer:reference-dropped", "the XR lost its reference to the existing resource of an unrenderable template", x)
						break
					}
				} else if !refSeen[t.kind] {
					x := wit()
					x["template"] = t.name
					x["resourceRefs"] = refs
					viol("composer:reference-missing", "the XR has no reference entry for a template that could not be rendered", x)
					break
				}
				continue
			}
			anyOK = true
			st.inc("composer_rendered")
			if existing[t.kind] == "" {
				if !created {
					x := wit()
					x["template"] = t.name
					viol("composer:rendered-resource-not-created", "a renderable template's resource was not created although another template failed or not", x)
					break
				}
				existing[t.kind] = refName[t.kind]
				key.Name = existing[t.kind]
			}
			obj := w.GetObj(key)
			if obj == nil {
				x := wit()
				x["template"] = t.name
				x["resourceRefs"] = refs
				viol("composer:rendered-resource-not-in-store", "the XR's reference for a rendered template does not lead to a stored resource", x)
				break
			}
			// a template without merge options of its own carries the XR's current tags, whatever the
			// policies of the templates before it
			if !t.keepTags {
				gotEnv, _, _ := unstructured.NestedString(obj, "spec", "forProvider", "tags", "env")
				st.inc("composer_checked_tags")
				if wantEnv := fmt.Sprintf("env-round-%d", round); gotEnv != wantEnv {
					x := wit()
					x["template"] = t.name
					x["want"], x["got"] = wantEnv, gotEnv
					viol("composer:merge-options-of-another-template-applied", "a template without merge options did not propagate the XR's changed map value to its existing resource", x)
					break
				}
			}
			// the documented value of the value patch
			want := any("from-base")
			vIn, present := params[fmt.Sprintf("v%d", j)]
			if present {
				ref := refChain(t.chain, vIn)
				if ref.k != rOK {
					continue
				}
				want = ref.val
			} else if existingBefore := before[key.String()]; existingBefore != nil {
				continue // an optional patch without source leaves whatever was applied earlier
			}
			got, _, _ := unstructured.NestedFieldNoCopy(obj, "spec", "forProvider", "value")
			st.inc("composer_checked_value")
			if !sameJSON(want, got) {
				x := wit()
				x["template"] = t.name
				x["want"], x["got"] = describe(want), describe(got)
				viol("composer:rendered-resource-wrong-value", "the applied resource does not hold the documented patched value", x)
				break
			}
			if rq, isS := params[fmt.Sprintf("req%d", j)].(string); isS {
				gotReq, _, _ := unstructured.NestedFieldNoCopy(obj, "spec", "forProvider", "req")
				var wantReq any = rq
				if t.hasConvert {
					n, _ := parseDecimalInt(rq)
					wantReq = n
				}
				if !sameJSON(wantReq, gotReq) {
					x := wit()
					x["template"] = t.name
					x["want"], x["got"] = describe(wantReq), describe(gotReq)
					viol("composer:rendered-resource-wrong-required-value", "the applied resource does not hold the required patch's value", x)
					break
				}
			}
		}
		if len(refs) != k && !violated {
			x := wit()
			x["resourceRefs"] = refs
			viol("composer:reference-count", fmt.Sprintf("the XR holds %d resource references for %d templates", len(refs), k), x)
		}
	}
	nontrivial := anyFailing && anyOK
	if labelMissing && anyFailing {
		nontrivial = true
	}
	if nontrivial {
		st.inc("composer_nontrivial")
	}
	st.inc("composer_cases")
	c.Eval("composer|"+fp, nontrivial)
	if nontrivial && c.WantSample() {
		ks := make([]string, 0, len(existing))
		for kd := range existing {
			ks = append(ks, kd)
		}
		sort.Strings(ks)
		c.Sample(map[string]any{"case": name, "composer": fp, "createdKinds": ks})
	}
}
