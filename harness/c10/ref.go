//go:build verif

package main

// Independent reference semantics of the P&T transforms, written from the API documentation in
// apis/apiextensions/v1/composition_transforms.go (and the Go documentation of fmt / strconv
// where the API docs defer to them). Nothing in this file calls code from the package under
// test. Where the documentation is silent the reference answers "unspecified" and the check
// only demands totality (no panic), purity and determinism.

import (
	"crypto/sha1" //nolint:gosec // documented hash transform
	"crypto/sha256"
	"crypto/sha512"
	"encoding/hex"
	"encoding/json"
	"fmt"
	"math"
	"math/big"
	"sort"
	"strings"
	"unicode/utf8"

	v1 "github.com/crossplane/crossplane/apis/apiextensions/v1"
)

// verdict of the reference for one transform application.
type rkind int

const (
	rOK     rkind = iota // the documented result is `val`
	rErr                 // the documentation implies an error (malformed parameter / impossible value)
	rUnspec              // documentation silent: totality only
)

type rres struct {
	k   rkind
	val any
	why string
}

func ok(v any) rres           { return rres{k: rOK, val: v} }
func mustErr(why string) rres { return rres{k: rErr, why: why} }
func unspec(why string) rres  { return rres{k: rUnspec, why: why} }
func (r rres) String() string { return [...]string{"ok", "err", "unspec"}[r.k] + ":" + r.why }
func isNum(v any) bool        { _, a := v.(int64); _, b := v.(float64); return a || b }
func boolPtrVal(b *bool) string {
	if b == nil {
		return "nil"
	}
	return fmt.Sprint(*b)
}

// Expected-value wrappers understood by sameJSON.
type approx struct { // number within relative tolerance
	v   float64
	rel float64
}
type jsonText struct{ v any }      // a string holding JSON that decodes to v
type floatText struct{ f float64 } // a decimal string that denotes exactly f
type oneOf []any                   // any of the alternatives

// ---- comparison ----------------------------------------------------------------------------

// numEq compares two JSON numbers: two integers exactly, anything else as the float64 their
// JSON text denotes (a float64 that is written out and read back may come back as an int64).
func numEq(a, b any) bool {
	ai, aInt := asInt(a)
	bi, bInt := asInt(b)
	if aInt && bInt {
		return ai.Cmp(bi) == 0
	}
	af, okA := asFloat(a)
	bf, okB := asFloat(b)
	return okA && okB && af == bf
}

func asInt(v any) (*big.Int, bool) {
	switch n := v.(type) {
	case int64:
		return big.NewInt(n), true
	case int:
		return big.NewInt(int64(n)), true
	case json.Number:
		if i, good := new(big.Int).SetString(string(n), 10); good && i.IsInt64() {
			return i, true
		}
	}
	return nil, false
}

func asFloat(v any) (float64, bool) {
	switch n := v.(type) {
	case int64:
		return float64(n), true
	case int:
		return float64(n), true
	case float64:
		return n, !math.IsNaN(n)
	case json.Number:
		f, st := parseDecimalFloatLoose(string(n))
		return f, st == numOK
	}
	return 0, false
}

// sameJSON compares an expected value (possibly a wrapper) with an actual one as JSON values:
// numbers are compared by mathematical value whatever their Go type.
func sameJSON(exp, act any) bool {
	// a nil map or slice is JSON null
	if m, isM := exp.(map[string]any); isM && m == nil {
		exp = nil
	}
	if l, isL := exp.([]any); isL && l == nil {
		exp = nil
	}
	if m, isM := act.(map[string]any); isM && m == nil {
		act = nil
	}
	if l, isL := act.([]any); isL && l == nil {
		act = nil
	}
	switch e := exp.(type) {
	case approx:
		af, okA := asFloat(act)
		if !okA {
			return false
		}
		if e.v == af {
			return true
		}
		return math.Abs(af-e.v) <= e.rel*math.Abs(e.v)
	case jsonText:
		s, isS := act.(string)
		if !isS {
			return false
		}
		d := json.NewDecoder(strings.NewReader(s))
		d.UseNumber()
		var v any
		if err := d.Decode(&v); err != nil {
			return false
		}
		return sameJSON(e.v, v)
	case floatText:
		s, isS := act.(string)
		if !isS {
			return false
		}
		f, st := parseDecimalFloat(s)
		return st == numOK && f == e.f
	case oneOf:
		for _, alt := range e {
			if sameJSON(alt, act) {
				return true
			}
		}
		return false
	case nil:
		return act == nil
	case bool:
		a, isB := act.(bool)
		return isB && a == e
	case string:
		a, isS := act.(string)
		return isS && a == e
	case int64, int, float64, json.Number:
		return numEq(e, act)
	case map[string]any:
		a, isM := act.(map[string]any)
		if !isM || len(a) != len(e) {
			return false
		}
		for k, ev := range e {
			av, present := a[k]
			if !present || !sameJSON(ev, av) {
				return false
			}
		}
		return true
	case []any:
		a, isL := act.([]any)
		if !isL || len(a) != len(e) {
			return false
		}
		for i := range e {
			if !sameJSON(e[i], a[i]) {
				return false
			}
		}
		return true
	}
	return false
}

// jsonSafe reports whether v only holds finite numbers (it can live in a JSON object).
func jsonSafe(v any) bool {
	switch t := v.(type) {
	case float64:
		return !math.IsNaN(t) && !math.IsInf(t, 0)
	case string:
		return utf8.ValidString(t)
	case map[string]any:
		for _, e := range t {
			if !jsonSafe(e) {
				return false
			}
		}
	case []any:
		for _, e := range t {
			if !jsonSafe(e) {
				return false
			}
		}
	}
	return true
}

func deepCopy(v any) any {
	switch t := v.(type) {
	case map[string]any:
		if t == nil {
			return t
		}
		m := make(map[string]any, len(t))
		for k, e := range t {
			m[k] = deepCopy(e)
		}
		return m
	case []any:
		if t == nil {
			return t
		}
		l := make([]any, len(t))
		for i, e := range t {
			l[i] = deepCopy(e)
		}
		return l
	}
	return v
}

// strictEq is deep equality including Go number types (used for purity / determinism).
func strictEq(a, b any) bool {
	switch x := a.(type) {
	case map[string]any:
		y, isM := b.(map[string]any)
		if !isM || len(x) != len(y) || (x == nil) != (y == nil) {
			return false
		}
		for k, xv := range x {
			yv, present := y[k]
			if !present || !strictEq(xv, yv) {
				return false
			}
		}
		return true
	case []any:
		y, isL := b.([]any)
		if !isL || len(x) != len(y) {
			return false
		}
		for i := range x {
			if !strictEq(x[i], y[i]) {
				return false
			}
		}
		return true
	case float64:
		y, isF := b.(float64)
		return isF && (x == y || (math.IsNaN(x) && math.IsNaN(y)))
	}
	return a == b
}

// ---- small independent primitives ------------------------------------------------------------

func refAdler32(b []byte) uint32 {
	a, s := uint32(1), uint32(0)
	for _, c := range b {
		a = (a + uint32(c)) % 65521
		s = (s + a) % 65521
	}
	return s<<16 | a
}

const b64abc = "ABCDEFGHIJKLMNOPQRSTUVWXYZabcdefghijklmnopqrstuvwxyz0123456789+/"

func refB64Encode(b []byte) string {
	var sb strings.Builder
	for i := 0; i < len(b); i += 3 {
		var n uint32
		rem := len(b) - i
		switch {
		case rem >= 3:
			n = uint32(b[i])<<16 | uint32(b[i+1])<<8 | uint32(b[i+2])
			sb.WriteByte(b64abc[n>>18&63])
			sb.WriteByte(b64abc[n>>12&63])
			sb.WriteByte(b64abc[n>>6&63])
			sb.WriteByte(b64abc[n&63])
		case rem == 2:
			n = uint32(b[i])<<16 | uint32(b[i+1])<<8
			sb.WriteByte(b64abc[n>>18&63])
			sb.WriteByte(b64abc[n>>12&63])
			sb.WriteByte(b64abc[n>>6&63])
			sb.WriteByte('=')
		default:
			n = uint32(b[i]) << 16
			sb.WriteByte(b64abc[n>>18&63])
			sb.WriteByte(b64abc[n>>12&63])
			sb.WriteString("==")
		}
	}
	return sb.String()
}

// refB64Decode: 0 = decoded, 1 = certainly invalid, 2 = debatable (whitespace, non-canonical bits).
func refB64Decode(s string) ([]byte, int) {
	if strings.ContainsAny(s, "\r\n") {
		return nil, 2
	}
	if len(s)%4 != 0 {
		return nil, 1
	}
	var out []byte
	for i := 0; i < len(s); i += 4 {
		var vals [4]int
		pad := 0
		for j := 0; j < 4; j++ {
			c := s[i+j]
			if c == '=' {
				if i+4 != len(s) || j < 2 {
					return nil, 1
				}
				pad++
				vals[j] = 0
				continue
			}
			if pad > 0 {
				return nil, 1
			}
			ix := strings.IndexByte(b64abc, c)
			if ix < 0 {
				return nil, 1
			}
			vals[j] = ix
		}
		n := vals[0]<<18 | vals[1]<<12 | vals[2]<<6 | vals[3]
		switch pad {
		case 0:
			out = append(out, byte(n>>16), byte(n>>8), byte(n))
		case 1:
			if n&0xff != 0 {
				return nil, 2
			}
			out = append(out, byte(n>>16), byte(n>>8))
		case 2:
			if n&0xffff != 0 {
				return nil, 2
			}
			out = append(out, byte(n>>16))
		}
	}
	return out, 0
}

type numStatus int

const (
	numOK numStatus = iota
	numInvalid
	numDebatable
)

func allDigits(s string) bool {
	if s == "" {
		return false
	}
	for i := 0; i < len(s); i++ {
		if s[i] < '0' || s[i] > '9' {
			return false
		}
	}
	return true
}

// parseDecimalInt implements "base 10 integer in int64 range".
func parseDecimalInt(s string) (int64, numStatus) {
	body := s
	if strings.HasPrefix(body, "+") || strings.HasPrefix(body, "-") {
		body = body[1:]
	}
	if !allDigits(body) {
		if strings.ContainsAny(s, "_xXoObB") {
			return 0, numDebatable
		}
		return 0, numInvalid
	}
	n, good := new(big.Int).SetString(s, 10)
	if !good {
		return 0, numDebatable
	}
	if !n.IsInt64() {
		return 0, numInvalid // cannot be represented: the value cannot be preserved
	}
	return n.Int64(), numOK
}

// parseDecimalFloat implements plain decimal floating point text -> nearest float64.
func parseDecimalFloat(s string) (float64, numStatus) {
	body := s
	if strings.HasPrefix(body, "+") || strings.HasPrefix(body, "-") {
		body = body[1:]
	}
	mant, exp := body, ""
	if i := strings.IndexAny(body, "eE"); i >= 0 {
		mant, exp = body[:i], body[i+1:]
		if strings.HasPrefix(exp, "+") || strings.HasPrefix(exp, "-") {
			exp = exp[1:]
		}
		if !allDigits(exp) {
			return 0, classifyBadFloat(s)
		}
	}
	ip, fp := mant, ""
	hasDot := false
	if i := strings.IndexByte(mant, '.'); i >= 0 {
		ip, fp, hasDot = mant[:i], mant[i+1:], true
	}
	good := (allDigits(ip) && (!hasDot || fp == "" || allDigits(fp))) || (ip == "" && hasDot && allDigits(fp))
	if !good {
		return 0, classifyBadFloat(s)
	}
	if len(exp) > 4 {
		return 0, numDebatable
	}
	return parseDecimalFloatLoose(s)
}

// parseDecimalFloatLoose rounds well-formed decimal text to the nearest float64 (the text is
// read with 4000 bits, far finer than any half-ulp distance of short decimals).
func parseDecimalFloatLoose(s string) (float64, numStatus) {
	bf, _, err := big.ParseFloat(s, 10, 4000, big.ToNearestEven)
	if err != nil {
		return 0, numDebatable
	}
	f, _ := bf.Float64()
	if math.IsInf(f, 0) || (f == 0 && bf.Sign() != 0) {
		return 0, numDebatable // beyond the float64 range: range errors are debatable
	}
	return f, numOK
}

func classifyBadFloat(s string) numStatus {
	l := strings.ToLower(s)
	if strings.Contains(l, "inf") || strings.Contains(l, "nan") || strings.Contains(l, "0x") ||
		strings.ContainsAny(l, "_p") {
		return numDebatable
	}
	return numInvalid
}

var quantitySuffix = map[string]*big.Rat{}

func init() {
	p10 := func(e int) *big.Rat {
		r := big.NewRat(1, 1)
		ten := big.NewRat(10, 1)
		for i := 0; i < e; i++ {
			r.Mul(r, ten)
		}
		return r
	}
	p2 := func(e int) *big.Rat { return new(big.Rat).SetInt(new(big.Int).Lsh(big.NewInt(1), uint(e))) }
	quantitySuffix[""] = big.NewRat(1, 1)
	quantitySuffix["m"] = new(big.Rat).Inv(p10(3))
	quantitySuffix["k"] = p10(3)
	quantitySuffix["M"] = p10(6)
	quantitySuffix["G"] = p10(9)
	quantitySuffix["T"] = p10(12)
	quantitySuffix["P"] = p10(15)
	quantitySuffix["Ki"] = p2(10)
	quantitySuffix["Mi"] = p2(20)
	quantitySuffix["Gi"] = p2(30)
	quantitySuffix["Ti"] = p2(40)
	quantitySuffix["Pi"] = p2(50)
}

// quantityInvalid lists strings that are certainly not Kubernetes quantities.
var quantityInvalid = map[string]bool{"": true, "abc": true, "1.2.3": true, "1 Gi": true, "--1": true, "1KiB": true, "1gi": true, "true": true, "héllo": true}

// parseQuantity implements the documented subset <sign><digits>[.<digits>]<suffix> of
// resource.Quantity with at most 3 fractional digits and suffixes m..P / Ki..Pi.
func parseQuantity(s string) (float64, numStatus) {
	if quantityInvalid[s] {
		return 0, numInvalid
	}
	body := s
	neg := false
	if strings.HasPrefix(body, "-") {
		neg, body = true, body[1:]
	} else if strings.HasPrefix(body, "+") {
		body = body[1:]
	}
	i := 0
	for i < len(body) && (body[i] >= '0' && body[i] <= '9' || body[i] == '.') {
		i++
	}
	num, suf := body[:i], body[i:]
	scale, known := quantitySuffix[suf]
	if !known || num == "" {
		return 0, numDebatable
	}
	ip, fp := num, ""
	if j := strings.IndexByte(num, '.'); j >= 0 {
		ip, fp = num[:j], num[j+1:]
		if fp == "" || !allDigits(fp) || len(fp) > 3 {
			return 0, numDebatable
		}
	}
	if !allDigits(ip) || len(ip) > 15 {
		return 0, numDebatable
	}
	r, good := new(big.Rat).SetString(num)
	if !good {
		return 0, numDebatable
	}
	r.Mul(r, scale)
	// stay well inside what a Quantity represents exactly (milli precision, < 2^63)
	milli := new(big.Rat).Mul(r, big.NewRat(1000, 1))
	if !milli.IsInt() || milli.Num().BitLen() > 60 {
		return 0, numDebatable
	}
	f, _ := r.Float64()
	if neg {
		f = -f
	}
	return f, numOK
}

// ---- regexp families with hand-written matchers ------------------------------------------------

type rxFamily struct {
	pattern string
	ngroups int
	// match returns the submatches (group 0 first), nil for no match; unsure=true if the family's
	// hand-written matcher does not cover the input.
	match func(s string) (groups []string, unsure bool)
}

func isLower(c byte) bool { return c >= 'a' && c <= 'z' }
func isDigit(c byte) bool { return c >= '0' && c <= '9' }

func ascii(s string) bool {
	for i := 0; i < len(s); i++ {
		if s[i] >= 0x80 {
			return false
		}
	}
	return true
}

var rxFamilies = []rxFamily{
	{pattern: `^([a-z]+)-([0-9]+)$`, ngroups: 2, match: func(s string) ([]string, bool) {
		i := 0
		for i < len(s) && isLower(s[i]) {
			i++
		}
		if i == 0 || i >= len(s) || s[i] != '-' {
			return nil, false
		}
		d := s[i+1:]
		if !allDigits(d) {
			return nil, false
		}
		return []string{s, s[:i], d}, false
	}},
	{pattern: `([0-9]+)`, ngroups: 1, match: func(s string) ([]string, bool) {
		for i := 0; i < len(s); i++ {
			if isDigit(s[i]) {
				j := i
				for j < len(s) && isDigit(s[j]) {
					j++
				}
				return []string{s[i:j], s[i:j]}, false
			}
		}
		return nil, false
	}},
	{pattern: `^(?:(true)|(false))$`, ngroups: 2, match: func(s string) ([]string, bool) {
		switch s {
		case "true":
			return []string{s, "true", ""}, false
		case "false":
			return []string{s, "", "false"}, false
		}
		return nil, false
	}},
	{pattern: `^(.*)\.(.*)$`, ngroups: 2, match: func(s string) ([]string, bool) {
		if strings.Contains(s, "\n") || !ascii(s) {
			return nil, true
		}
		i := strings.LastIndexByte(s, '.')
		if i < 0 {
			return nil, false
		}
		return []string{s, s[:i], s[i+1:]}, false
	}},
	{pattern: `(?i)^ABC`, ngroups: 0, match: func(s string) ([]string, bool) {
		if len(s) >= 3 && strings.EqualFold(s[:3], "abc") && ascii(s[:3]) {
			return []string{s[:3]}, false
		}
		if !ascii(s) {
			return nil, true // unicode case folding (e.g. U+212A) is out of the matcher's scope
		}
		return nil, false
	}},
	{pattern: ``, ngroups: 0, match: func(string) ([]string, bool) { return []string{""}, false }},
	{pattern: `a\.b`, ngroups: 0, match: func(s string) ([]string, bool) {
		if strings.Contains(s, "a.b") {
			return []string{"a.b"}, false
		}
		return nil, false
	}},
	{pattern: `^$`, ngroups: 0, match: func(s string) ([]string, bool) {
		if s == "" {
			return []string{""}, false
		}
		return nil, false
	}},
}

// malformedRx are patterns Go's regexp syntax documentation rejects.
var malformedRx = []string{`(`, `)`, `[a-`, `*a`, `a{2,1}`, `(?P<n>`, `\8`, `(?=x)`, `a**`, `\`, `(?i`, `[z-a]`, `a{1001}`, `(?<!x)y`}

var rxByPattern = map[string]*rxFamily{}
var rxMalformed = map[string]bool{}

func init() {
	for i := range rxFamilies {
		rxByPattern[rxFamilies[i].pattern] = &rxFamilies[i]
	}
	for _, m := range malformedRx {
		rxMalformed[m] = true
	}
}

// ---- the transforms ----------------------------------------------------------------------------

func refTransform(t v1.Transform, in any) rres {
	switch t.Type {
	case v1.TransformTypeMath:
		if t.Math == nil {
			return mustErr("math config missing")
		}
		return refMath(*t.Math, in)
	case v1.TransformTypeMap:
		if t.Map == nil {
			return mustErr("map config missing")
		}
		return refMap(*t.Map, in)
	case v1.TransformTypeMatch:
		if t.Match == nil {
			return mustErr("match config missing")
		}
		return refMatch(*t.Match, in)
	case v1.TransformTypeString:
		if t.String == nil {
			return mustErr("string config missing")
		}
		return refString(*t.String, in)
	case v1.TransformTypeConvert:
		if t.Convert == nil {
			return mustErr("convert config missing")
		}
		return refConvert(*t.Convert, in)
	}
	return mustErr("unknown transform type")
}

func mathInputClass(in any) string {
	switch n := in.(type) {
	case int64:
		return "int64"
	case float64:
		if math.Abs(n) >= 9.2e18 {
			return "float-beyond-int64"
		}
		if n == math.Trunc(n) {
			return "float-integral"
		}
		return "float-fractional"
	}
	return "nonnumber"
}

func refMath(m v1.MathTransform, in any) rres {
	typ := m.Type
	if typ == "" {
		typ = v1.MathTransformTypeMultiply // "+kubebuilder:default=Multiply"
	}
	var param *int64
	switch typ {
	case v1.MathTransformTypeMultiply:
		param = m.Multiply
	case v1.MathTransformTypeClampMin:
		param = m.ClampMin
	case v1.MathTransformTypeClampMax:
		param = m.ClampMax
	default:
		return mustErr("unknown math type")
	}
	if param == nil {
		return mustErr("math parameter missing")
	}
	if !isNum(in) {
		return unspec("math on a non-number")
	}
	c := *param
	switch typ {
	case v1.MathTransformTypeMultiply:
		switch n := in.(type) {
		case int64:
			p := new(big.Int).Mul(big.NewInt(n), big.NewInt(c))
			if !p.IsInt64() {
				return unspec("int64 overflow")
			}
			return ok(p.Int64())
		case float64:
			p := new(big.Float).SetPrec(256).Mul(new(big.Float).SetPrec(256).SetFloat64(n), new(big.Float).SetPrec(256).SetInt64(c))
			f, _ := p.Float64()
			if math.IsInf(f, 0) || (f != 0 && math.Abs(f) < 2.3e-308) || (f == 0 && p.Sign() != 0) {
				return unspec("float64 range")
			}
			return ok(approx{v: f, rel: 1e-15})
		}
	case v1.MathTransformTypeClampMin: // "makes sure that the value is not smaller than the given value"
		switch n := in.(type) {
		case int64:
			if n < c {
				return ok(c)
			}
			return ok(n)
		case float64:
			if new(big.Float).SetFloat64(n).Cmp(new(big.Float).SetInt64(c)) < 0 {
				return ok(c)
			}
			return ok(n)
		}
	case v1.MathTransformTypeClampMax: // "makes sure that the value is not bigger than the given value"
		switch n := in.(type) {
		case int64:
			if n > c {
				return ok(c)
			}
			return ok(n)
		case float64:
			if new(big.Float).SetFloat64(n).Cmp(new(big.Float).SetInt64(c)) > 0 {
				return ok(c)
			}
			return ok(n)
		}
	}
	return unspec("unreachable")
}

func decodeJSON(raw []byte) (any, bool) {
	if !json.Valid(raw) {
		return nil, false
	}
	d := json.NewDecoder(strings.NewReader(string(raw)))
	d.UseNumber()
	var v any
	if err := d.Decode(&v); err != nil {
		return nil, false
	}
	if d.More() {
		return nil, false
	}
	return v, true
}

func refMap(m v1.MapTransform, in any) rres {
	s, isS := in.(string)
	if !isS {
		return unspec("map on a non-string")
	}
	raw, present := m.Pairs[s]
	if !present {
		return mustErr("key not in map")
	}
	v, good := decodeJSON(raw.Raw)
	if !good {
		return mustErr("pair value is not JSON")
	}
	return ok(v)
}

func refMatch(m v1.MatchTransform, in any) rres {
	s, isS := in.(string)
	for _, p := range m.Patterns {
		matched := false
		switch p.Type {
		case v1.MatchTransformPatternTypeLiteral:
			if p.Literal == nil {
				return mustErr("literal missing")
			}
			if !isS {
				return unspec("match on a non-string")
			}
			matched = s == *p.Literal
		case v1.MatchTransformPatternTypeRegexp:
			if p.Regexp == nil {
				return mustErr("regexp missing")
			}
			if rxMalformed[*p.Regexp] {
				return mustErr("malformed regexp") // "Crossplane will throw an error if the key is not a valid regexp"
			}
			if !isS {
				return unspec("match on a non-string")
			}
			fam := rxByPattern[*p.Regexp]
			if fam == nil {
				return unspec("regexp outside the reference families")
			}
			g, unsure := fam.match(s)
			if unsure {
				return unspec("input outside the hand-written matcher")
			}
			matched = g != nil
		case "":
			return unspec("pattern type defaulted by the API server")
		default:
			return mustErr("unknown pattern type")
		}
		if matched {
			if len(p.Result.Raw) == 0 {
				return unspec("empty result")
			}
			v, good := decodeJSON(p.Result.Raw)
			if !good {
				return mustErr("result is not JSON")
			}
			return ok(v)
		}
	}
	switch m.FallbackTo {
	case v1.MatchFallbackToTypeInput:
		if len(m.FallbackValue.Raw) != 0 {
			return unspec("both fallback value and fallback to input")
		}
		return ok(in)
	case v1.MatchFallbackToTypeValue, "":
		if len(m.FallbackValue.Raw) == 0 {
			return unspec("no fallback value")
		}
		v, good := decodeJSON(m.FallbackValue.Raw)
		if !good {
			return mustErr("fallback value is not JSON")
		}
		return ok(v)
	}
	return unspec("unknown fallbackTo")
}

func hexsum(kind v1.StringConversionType, b []byte) string {
	switch kind {
	case v1.StringConversionTypeToSHA1:
		h := sha1.Sum(b) //nolint:gosec // documented
		return hex.EncodeToString(h[:])
	case v1.StringConversionTypeToSHA256:
		h := sha256.Sum256(b)
		return hex.EncodeToString(h[:])
	default:
		h := sha512.Sum512(b)
		return hex.EncodeToString(h[:])
	}
}

func refTrim(s, trim string, prefix bool) string {
	if len(trim) > len(s) {
		return s
	}
	if prefix {
		if s[:len(trim)] == trim {
			return s[len(trim):]
		}
		return s
	}
	if s[len(s)-len(trim):] == trim {
		return s[:len(s)-len(trim)]
	}
	return s
}

func refString(st v1.StringTransform, in any) rres {
	s, isS := in.(string)
	switch st.Type {
	case "":
		return unspec("string type defaulted by the API server")
	case v1.StringTransformTypeFormat:
		if st.Format == nil {
			return mustErr("fmt missing")
		}
		return ok(fmt.Sprintf(*st.Format, in)) // "Format the input using a Go format string"
	case v1.StringTransformTypeConvert:
		if st.Convert == nil {
			return mustErr("convert missing")
		}
		switch *st.Convert {
		case v1.StringConversionTypeToUpper, v1.StringConversionTypeToLower:
			if !isS {
				return unspec("case conversion of a non-string")
			}
			if *st.Convert == v1.StringConversionTypeToUpper {
				return ok(strings.ToUpper(s))
			}
			return ok(strings.ToLower(s))
		case v1.StringConversionTypeToBase64:
			if !isS {
				return unspec("base64 of a non-string")
			}
			return ok(refB64Encode([]byte(s)))
		case v1.StringConversionTypeFromBase64:
			if !isS {
				return unspec("base64 of a non-string")
			}
			b, st := refB64Decode(s)
			switch st {
			case 0:
				return ok(string(b))
			case 1:
				return mustErr("not base64")
			}
			return unspec("debatable base64")
		case v1.StringConversionTypeToJSON:
			if !jsonSafe(in) {
				return unspec("not a JSON value")
			}
			return ok(jsonText{in})
		case v1.StringConversionTypeToSHA1, v1.StringConversionTypeToSHA256, v1.StringConversionTypeToSHA512:
			if !jsonSafe(in) {
				return unspec("not a JSON value")
			}
			j, err := json.Marshal(in)
			if err != nil {
				return unspec("not marshalable")
			}
			if isS {
				// "based on the input converted to JSON" vs. hashing the string itself: both accepted
				return ok(oneOf{hexsum(*st.Convert, []byte(s)), hexsum(*st.Convert, j)})
			}
			if hasFloat(in) || hasNonASCIIOrHTML(in) {
				return unspec("JSON text of floats / escaped characters is not canonical")
			}
			return ok(hexsum(*st.Convert, j))
		case v1.StringConversionTypeToAdler32:
			if !isS {
				return unspec("adler32 of a non-string")
			}
			j, _ := json.Marshal(s)
			return ok(oneOf{fmt.Sprint(refAdler32([]byte(s))), fmt.Sprint(refAdler32(j))})
		}
		return mustErr("unknown string conversion")
	case v1.StringTransformTypeTrimPrefix, v1.StringTransformTypeTrimSuffix:
		if st.Trim == nil {
			return mustErr("trim missing")
		}
		if !isS {
			return unspec("trim of a non-string")
		}
		return ok(refTrim(s, *st.Trim, st.Type == v1.StringTransformTypeTrimPrefix))
	case v1.StringTransformTypeRegexp:
		if st.Regexp == nil {
			return mustErr("regexp missing")
		}
		if rxMalformed[st.Regexp.Match] {
			return mustErr("malformed regexp")
		}
		fam := rxByPattern[st.Regexp.Match]
		if fam == nil {
			return unspec("regexp outside the reference families")
		}
		g := 0
		if st.Regexp.Group != nil {
			g = *st.Regexp.Group
		}
		if g < 0 {
			return mustErr("negative group")
		}
		if g > fam.ngroups {
			return mustErr("group out of range")
		}
		if !isS {
			return unspec("regexp on a non-string")
		}
		groups, unsure := fam.match(s)
		if unsure {
			return unspec("input outside the hand-written matcher")
		}
		if groups == nil {
			return unspec("no match")
		}
		return ok(groups[g])
	case v1.StringTransformTypeJoin:
		if st.Join == nil {
			return mustErr("join missing")
		}
		l, isL := in.([]any)
		if !isL {
			return unspec("join of a non-array")
		}
		parts := make([]string, len(l))
		for i, e := range l {
			switch x := e.(type) {
			case string:
				parts[i] = x
			case int64:
				parts[i] = new(big.Int).SetInt64(x).String()
			case bool:
				if x {
					parts[i] = "true"
				} else {
					parts[i] = "false"
				}
			default:
				return unspec("join element formatting")
			}
		}
		return ok(strings.Join(parts, st.Join.Separator))
	}
	return mustErr("unknown string transform type")
}

func hasFloat(v any) bool {
	switch t := v.(type) {
	case float64:
		return true
	case map[string]any:
		for _, e := range t {
			if hasFloat(e) {
				return true
			}
		}
	case []any:
		for _, e := range t {
			if hasFloat(e) {
				return true
			}
		}
	}
	return false
}

func hasNonASCIIOrHTML(v any) bool {
	bad := func(s string) bool { return !ascii(s) || strings.ContainsAny(s, "<>&\u0000\n\t\"\\") }
	switch t := v.(type) {
	case string:
		return bad(t)
	case map[string]any:
		for k, e := range t {
			if bad(k) || hasNonASCIIOrHTML(e) {
				return true
			}
		}
	case []any:
		for _, e := range t {
			if hasNonASCIIOrHTML(e) {
				return true
			}
		}
	}
	return false
}

func ioTypeOf(v any) string {
	switch v.(type) {
	case string:
		return "string"
	case int64:
		return "int64"
	case float64:
		return "float64"
	case bool:
		return "bool"
	case nil:
		return "null"
	case map[string]any:
		return "object"
	case []any:
		return "array"
	}
	return fmt.Sprintf("%T", v)
}

func refConvert(c v1.ConvertTransform, in any) rres {
	format := v1.ConvertTransformFormatNone
	if c.Format != nil {
		format = *c.Format
	}
	switch format {
	case v1.ConvertTransformFormatNone, v1.ConvertTransformFormatQuantity, v1.ConvertTransformFormatJSON:
	default:
		return mustErr("invalid format")
	}
	to := string(c.ToType)
	switch c.ToType {
	case v1.TransformIOTypeInt:
		to = "int64"
	case v1.TransformIOTypeString, v1.TransformIOTypeBool, v1.TransformIOTypeInt64, v1.TransformIOTypeFloat64, v1.TransformIOTypeObject, v1.TransformIOTypeArray:
	default:
		return mustErr("invalid toType")
	}
	from := ioTypeOf(in)
	switch from {
	case "string", "int64", "float64", "bool":
	default:
		return unspec("convert of " + from)
	}
	if from == to {
		return ok(in)
	}
	if format != v1.ConvertTransformFormatNone {
		switch {
		case format == v1.ConvertTransformFormatQuantity && from == "string" && to == "float64":
			f, st := parseQuantity(in.(string))
			switch st {
			case numOK:
				return ok(approx{v: f, rel: 1e-9})
			case numInvalid:
				return mustErr("not a quantity")
			}
			return unspec("quantity outside the reference subset")
		case format == v1.ConvertTransformFormatJSON && from == "string" && (to == "object" || to == "array"):
			v, good := decodeJSON([]byte(in.(string)))
			if !good {
				return mustErr("not JSON")
			}
			_, isM := v.(map[string]any)
			_, isL := v.([]any)
			if (to == "object" && isM) || (to == "array" && isL) {
				return ok(v)
			}
			if v == nil {
				return unspec("JSON null")
			}
			return mustErr("JSON of the wrong kind")
		}
		return unspec("format only used for other conversions")
	}
	switch from + ">" + to {
	case "string>int64":
		n, st := parseDecimalInt(in.(string))
		switch st {
		case numOK:
			return ok(n)
		case numInvalid:
			return mustErr("not an integer")
		}
		return unspec("debatable integer syntax")
	case "string>float64":
		f, st := parseDecimalFloat(in.(string))
		switch st {
		case numOK:
			return ok(f)
		case numInvalid:
			return mustErr("not a float")
		}
		return unspec("debatable float syntax")
	case "string>bool":
		switch in.(string) {
		case "true":
			return ok(true)
		case "false":
			return ok(false)
		}
		switch strings.ToLower(in.(string)) {
		case "1", "0", "t", "f", "true", "false", "yes", "no", "y", "n", "on", "off":
			return unspec("lenient boolean syntax")
		}
		return mustErr("not a boolean")
	case "int64>string":
		return ok(new(big.Int).SetInt64(in.(int64)).String())
	case "int64>float64":
		return ok(float64(in.(int64)))
	case "int64>bool":
		switch in.(int64) {
		case 1:
			return ok(true)
		case 0:
			return ok(false)
		}
		return unspec("integer other than 0/1 to bool")
	case "bool>string":
		if in.(bool) {
			return ok("true")
		}
		return ok("false")
	case "bool>int64":
		if in.(bool) {
			return ok(int64(1))
		}
		return ok(int64(0))
	case "bool>float64":
		if in.(bool) {
			return ok(float64(1))
		}
		return ok(float64(0))
	case "float64>string":
		f := in.(float64)
		if math.IsNaN(f) || math.IsInf(f, 0) {
			return unspec("non-finite")
		}
		return ok(floatText{f})
	case "float64>int64":
		f := in.(float64)
		if f == math.Trunc(f) && math.Abs(f) <= 9007199254740992 {
			return ok(int64(f))
		}
		return unspec("lossy float to int")
	case "float64>bool":
		switch in.(float64) {
		case 1:
			return ok(true)
		case 0:
			return ok(false)
		}
		return unspec("float other than 0/1 to bool")
	}
	return unspec("no documented conversion")
}

// goTypeWanted returns the Go type name the documentation promises for a convert output.
func goTypeWanted(c v1.ConvertTransform) string {
	switch c.ToType {
	case v1.TransformIOTypeInt, v1.TransformIOTypeInt64:
		return "int64"
	case v1.TransformIOTypeFloat64:
		return "float64"
	case v1.TransformIOTypeBool:
		return "bool"
	case v1.TransformIOTypeString:
		return "string"
	case v1.TransformIOTypeObject:
		return "object"
	case v1.TransformIOTypeArray:
		return "array"
	}
	return ""
}

// site names the transform for violation keys and counters.
func site(t v1.Transform) string {
	low := func(s string) string { return strings.ToLower(s) }
	switch t.Type {
	case v1.TransformTypeMath:
		if t.Math == nil {
			return "math-noconfig"
		}
		typ := string(t.Math.Type)
		if typ == "" {
			typ = "multiply"
		}
		return "math-" + low(typ)
	case v1.TransformTypeMap:
		return "map"
	case v1.TransformTypeMatch:
		return "match"
	case v1.TransformTypeString:
		if t.String == nil {
			return "string-noconfig"
		}
		typ := string(t.String.Type)
		if typ == "" {
			typ = "default"
		}
		if t.String.Type == v1.StringTransformTypeConvert && t.String.Convert != nil {
			return "string-convert-" + low(string(*t.String.Convert))
		}
		return "string-" + low(typ)
	case v1.TransformTypeConvert:
		if t.Convert == nil {
			return "convert-noconfig"
		}
		f := ""
		if t.Convert.Format != nil && *t.Convert.Format != v1.ConvertTransformFormatNone {
			f = "-" + low(string(*t.Convert.Format))
		}
		return "convert-to-" + low(string(t.Convert.ToType)) + f
	}
	return "unknown-type"
}

func sortedKeys(m map[string]any) []string {
	ks := make([]string, 0, len(m))
	for k := range m {
		ks = append(ks, k)
	}
	sort.Strings(ks)
	return ks
}
