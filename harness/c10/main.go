//go:build verif

// Check C10: P&T rendering is total, deterministic and never applies a half-rendered resource.
//
// Process layout: the binary started by ./check is a supervisor. It runs every batch of cases in
// a child process (the same binary, C10_CHILD=1) that executes the real code on 16 goroutines and
// writes its observations to a result file. A Go fatal error (stack overflow, concurrent map
// write, ...) cannot be recovered in-process; when a child dies the supervisor re-runs the batch
// sequentially with a per-case marker on disk, pins the exact case, records a violation whose
// key names the fatal error and the faulting function, and finishes the batch without that case.
package main

import (
	"bytes"
	"context"
	"encoding/json"
	"fmt"
	"math/rand/v2"
	"os"
	"os/exec"
	"path/filepath"
	"regexp"
	"runtime"
	"runtime/debug"
	"sort"
	"strconv"
	"strings"
	"sync"
	"sync/atomic"
	"time"

	"github.com/crossplane/crossplane/verifh/kit"
)

// sink is what a case reports to: the kit context (never used directly by cases) or a recorder.
type sink interface {
	Eval(fingerprint string, nontrivial bool)
	Violate(key, caseName, what string, witness any)
	Sample(v any)
	WantSample() bool
	Inconclusive(reason string)
}

type part struct {
	name  string
	n     int
	chunk int
	run   func(c sink, name string, r *rand.Rand, st stats)
}

func partsFor(c *kit.Ctx) []part {
	return []part{
		{name: "patch", n: c.N(100000, 1000000), chunk: 10000, run: runPatchCase},
		{name: "law", n: c.N(110000, 1300000), chunk: 10000, run: runLawCase},
		{name: "composer", n: c.N(700, 8000), chunk: 350, run: runComposerCase},
		{name: "star", n: c.N(4, 8), chunk: 8, run: runStarCase},
	}
}

// ---- child ---------------------------------------------------------------------------------------

type recViolation struct {
	Key     string `json:"key"`
	Case    string `json:"case"`
	What    string `json:"what"`
	Witness any    `json:"witness"`
	Count   int    `json:"count"`
}

type recEval struct {
	H  string `json:"h"`
	NT bool   `json:"n,omitempty"`
}

type result struct {
	Stats        stats           `json:"stats"`
	Evals        []recEval       `json:"evals"`
	Violations   []*recViolation `json:"violations"`
	Samples      []any           `json:"samples"`
	Inconclusive []string        `json:"inconclusive"`
	Described    []any           `json:"described,omitempty"`
}

type recorder struct {
	mu  sync.Mutex
	res result
	idx map[string]*recViolation
}

func (r *recorder) Eval(fp string, nt bool) {
	h := kit.Hash(fp)
	r.mu.Lock()
	r.res.Evals = append(r.res.Evals, recEval{H: h, NT: nt})
	r.mu.Unlock()
}

// sanitize makes v safe to embed in JSON output (a generated patch may hold malformed raw JSON).
func sanitize(v any) any {
	if v == nil {
		return nil
	}
	if b, err := json.Marshal(v); err == nil {
		return json.RawMessage(b)
	}
	if m, isM := v.(map[string]any); isM {
		out := make(map[string]any, len(m))
		for k, e := range m {
			out[k] = sanitize(e)
		}
		return out
	}
	return fmt.Sprintf("%+v", derefAll(v))
}

// derefAll renders through JSON-with-raw-as-string when possible, else with %+v.
func derefAll(v any) any {
	return kit.JSON(rawAsString(v))
}

func (r *recorder) Violate(key, caseName, what string, witness any) {
	witness = sanitize(witness)
	r.mu.Lock()
	defer r.mu.Unlock()
	if v, seen := r.idx[key]; seen {
		v.Count++
		// keep the witness of the smallest case name so that the report does not depend on scheduling
		if len(caseName) < len(v.Case) || (len(caseName) == len(v.Case) && caseName < v.Case) {
			v.Case, v.What, v.Witness = caseName, what, witness
		}
		return
	}
	v := &recViolation{Key: key, Case: caseName, What: what, Witness: witness, Count: 1}
	r.idx[key] = v
	r.res.Violations = append(r.res.Violations, v)
}

func (r *recorder) Sample(v any) {
	v = sanitize(v)
	r.mu.Lock()
	if len(r.res.Samples) < 48 {
		r.res.Samples = append(r.res.Samples, v)
	}
	r.mu.Unlock()
}

func (r *recorder) WantSample() bool {
	r.mu.Lock()
	defer r.mu.Unlock()
	return len(r.res.Samples) < 48
}

// finalSamples keeps the samples of the smallest case indexes so that evidence does not depend
// on goroutine scheduling.
func (r *recorder) finalSamples() {
	idx := func(v any) int {
		var m map[string]any
		switch t := v.(type) {
		case json.RawMessage:
			_ = json.Unmarshal(t, &m)
		case map[string]any:
			m = t
		}
		s, _ := m["case"].(string)
		n, _ := strconv.Atoi(s[strings.LastIndex(s, "/")+1:])
		return n
	}
	sort.SliceStable(r.res.Samples, func(i, j int) bool { return idx(r.res.Samples[i]) < idx(r.res.Samples[j]) })
	if len(r.res.Samples) > 2 {
		r.res.Samples = r.res.Samples[:2]
	}
}

func (r *recorder) Inconclusive(reason string) {
	r.mu.Lock()
	r.res.Inconclusive = append(r.res.Inconclusive, reason)
	r.mu.Unlock()
}

func wantCase(only, name string) bool {
	return only == "" || only == name || strings.HasPrefix(name, only+"/")
}

func childMain() {
	debug.SetMaxStack(64 << 20)        // a runaway recursion dies quickly instead of eating 1 GB first
	c := kit.New("C10", "exploration") // only for Rng / tier: the child never calls Finish
	partName := os.Getenv("C10_PART")
	lo, _ := strconv.Atoi(os.Getenv("C10_LO"))
	hi, _ := strconv.Atoi(os.Getenv("C10_HI"))
	batch := os.Getenv("C10_BATCH")
	only := os.Getenv("C10_ONLY")
	mark := os.Getenv("C10_MARK")
	describeOnly = os.Getenv("C10_DESCRIBE") != ""
	skip := map[int]bool{}
	for _, s := range strings.Split(os.Getenv("C10_SKIP"), ",") {
		if n, err := strconv.Atoi(s); err == nil {
			skip[n] = true
		}
	}
	var p part
	for _, q := range partsFor(c) {
		if q.name == partName {
			p = q
		}
	}
	if p.run == nil {
		fmt.Fprintln(os.Stderr, "c10 child: unknown part", partName)
		os.Exit(3)
	}
	workers := runtime.NumCPU()
	if workers > 16 {
		workers = 16
	}
	if mark != "" {
		workers = 1
	}
	rec := &recorder{idx: map[string]*recViolation{}}
	rec.res.Stats = stats{}
	var next atomic.Int64
	next.Store(int64(lo))
	var wg sync.WaitGroup
	var mu sync.Mutex
	for wk := 0; wk < workers; wk++ {
		wg.Add(1)
		go func() {
			defer wg.Done()
			st := stats{}
			for {
				i := int(next.Add(1) - 1)
				if i >= hi {
					break
				}
				name := fmt.Sprintf("%s/%d", batch, i)
				if !wantCase(only, name) && !wantCase(only, batch) {
					continue
				}
				if skip[i] {
					st.inc("cases_skipped_after_fatal_error")
					continue
				}
				if mark != "" {
					_ = os.WriteFile(mark, []byte(name), 0o644)
				}
				// a harness bug must not masquerade as a finding: it is reported as such
				if perr := kit.Try(func() { p.run(rec, name, c.Rng(p.name, i), st) }); perr != nil {
					rec.Inconclusive("harness panic in " + name + ": " + firstLines(perr.Error(), 12))
				}
			}
			mu.Lock()
			for k, v := range st {
				rec.res.Stats[k] += v
			}
			mu.Unlock()
		}()
	}
	wg.Wait()
	rec.finalSamples()
	rec.res.Described = described
	b, err := json.Marshal(rec.res)
	if err != nil {
		fmt.Fprintln(os.Stderr, "c10 child: cannot encode result:", err)
		os.Exit(3)
	}
	if err := os.WriteFile(os.Getenv("C10_RESULT"), b, 0o644); err != nil {
		fmt.Fprintln(os.Stderr, "c10 child: cannot write result:", err)
		os.Exit(3)
	}
	os.Exit(0)
}

// ---- supervisor ------------------------------------------------------------------------------------

func pendingPath() string { return filepath.Join(kit.Root(), "replays", "pending-C10.json") }

// writePending puts the batch that is about to run on disk (the contract of ./check for runs
// that die altogether; the supervisor normally turns a dead child into a violation itself).
func writePending(c *kit.Ctx, caseName string, lo, hi int) {
	_ = os.MkdirAll(filepath.Dir(pendingPath()), 0o755)
	b, _ := json.MarshalIndent(map[string]any{
		"property": "C10", "tier": c.Tier, "seed": c.Seed, "case": caseName,
		"key":  "fatal-error-in-batch",
		"what": fmt.Sprintf("the process died while running cases %d..%d of batch %s", lo, hi-1, caseName),
	}, "", " ")
	_ = os.WriteFile(pendingPath(), b, 0o644)
}

type childRun struct {
	res    *result
	died   bool
	stderr string
	note   string
}

func runChild(c *kit.Ctx, p part, batch string, lo, hi int, skip []int, markFile string, workDir string, extraEnv ...string) childRun {
	resFile := filepath.Join(workDir, "result.json")
	errFile := filepath.Join(workDir, "stderr.txt")
	_ = os.Remove(resFile)
	ctx, cancel := context.WithTimeout(context.Background(), 20*time.Minute)
	defer cancel()
	cmd := exec.CommandContext(ctx, os.Args[0])
	sk := make([]string, len(skip))
	for i, n := range skip {
		sk[i] = strconv.Itoa(n)
	}
	cmd.Env = append(os.Environ(), "C10_CHILD=1", "C10_PART="+p.name, "C10_BATCH="+batch, "C10_LO="+strconv.Itoa(lo), "C10_HI="+strconv.Itoa(hi),
		"C10_ONLY="+c.Only, "C10_SKIP="+strings.Join(sk, ","), "C10_MARK="+markFile, "C10_RESULT="+resFile,
		"VERIF_SEED="+strconv.FormatInt(c.Seed, 10), "VERIF_TIER="+c.Tier, "GOTRACEBACK=single")
	cmd.Env = append(cmd.Env, extraEnv...)
	ef, err := os.Create(errFile)
	if err != nil {
		return childRun{note: "cannot create stderr file: " + err.Error()}
	}
	cmd.Stdout = ef
	cmd.Stderr = ef
	runErr := cmd.Run()
	_ = ef.Close()
	if runErr == nil {
		b, err := os.ReadFile(resFile)
		if err != nil {
			return childRun{note: "child exited 0 without a result: " + err.Error()}
		}
		var res result
		d := json.NewDecoder(bytes.NewReader(b))
		if err := d.Decode(&res); err != nil {
			return childRun{note: "cannot decode child result: " + err.Error()}
		}
		return childRun{res: &res}
	}
	if ctx.Err() != nil {
		return childRun{note: "child timed out"}
	}
	if ee, isExit := runErr.(*exec.ExitError); isExit && ee.ExitCode() == 3 {
		eb, _ := os.ReadFile(errFile)
		return childRun{note: "harness error in child: " + firstLines(string(eb), 3)}
	}
	eb, _ := os.ReadFile(errFile)
	if len(eb) > 1<<16 {
		eb = eb[:1<<16]
	}
	return childRun{died: true, stderr: string(eb), note: runErr.Error()}
}

var rxGoroutineRunning = regexp.MustCompile(`^goroutine \d+ .*\[running\]:`)

// fatalKey derives a stable key from the stderr of a dead child: the runtime's fatal error (or
// unrecovered panic) message and the innermost non-runtime function of the running goroutine.
func fatalKey(stderr string) (key, msg string) {
	lines := strings.Split(stderr, "\n")
	kind, msg := "crash", "process died"
	for _, ln := range lines {
		if strings.HasPrefix(ln, "fatal error: ") {
			kind, msg = "fatal", strings.TrimPrefix(ln, "fatal error: ")
			break
		}
		if strings.HasPrefix(ln, "panic: ") {
			kind, msg = "crash", strings.TrimPrefix(ln, "panic: ")
			break
		}
	}
	// the function that dominates the running goroutine's stack (for a runaway recursion the
	// innermost frame is arbitrary, the dominant one is not); ties go to the innermost
	fn := "unknown"
	for i, ln := range lines {
		if !rxGoroutineRunning.MatchString(ln) {
			continue
		}
		count := map[string]int{}
		var order []string
		for _, fl := range lines[i+1:] {
			if fl == "" {
				break
			}
			if strings.HasPrefix(fl, "\t") || strings.HasPrefix(fl, "runtime.") || strings.HasPrefix(fl, "panic(") || strings.HasPrefix(fl, "...") {
				continue
			}
			if m := rxFrame.FindStringSubmatch(fl); m != nil {
				if count[m[1]] == 0 {
					order = append(order, m[1])
				}
				count[m[1]]++
			}
		}
		best := 0
		for _, f := range order {
			if count[f] > best {
				fn, best = f, count[f]
			}
		}
		break
	}
	if i := strings.LastIndex(fn, "/"); i >= 0 {
		fn = fn[i+1:]
	}
	slug := strings.Map(func(r rune) rune {
		switch {
		case r >= 'a' && r <= 'z', r >= '0' && r <= '9':
			return r
		case r >= 'A' && r <= 'Z':
			return r + 32
		}
		return '-'
	}, msg)
	if len(slug) > 40 {
		slug = slug[:40]
	}
	return kind + ":" + strings.Trim(slug, "-") + "-" + fn, msg
}

func merge(c *kit.Ctx, total stats, res *result) {
	for k, v := range res.Stats {
		total[k] += v
	}
	for _, e := range res.Evals {
		c.Eval(e.H, e.NT)
	}
	for _, v := range res.Violations {
		c.Violate(v.Key, v.Case, v.What, v.Witness)
		for i := 1; i < v.Count; i++ {
			c.Violate(v.Key, v.Case, v.What, nil)
		}
	}
	for _, s := range res.Samples {
		if c.WantSample() {
			c.Sample(s)
		}
	}
	for _, r := range res.Inconclusive {
		c.Inconclusive(r)
	}
}

func main() {
	if os.Getenv("C10_CHILD") != "" {
		childMain()
		return
	}
	c := kit.New("C10", "exploration")
	c.Rule = "three generated families, all from c.Rng(stream, index): (patch) an XR and a composed resource with random JSON trees " +
		"(all JSON types, nesting, null, int64 extremes, floats, unicode, '*' keys) in the shape the API server decodes, one patch of every type/policy/" +
		"merge option with dotted, bracketed, quoted, wildcard, out-of-range and malformed paths and a 0-4 transform chain, applied twice through " +
		"Apply / Apply+only / ApplyToObjects / the direct entry points or, as a template with PatchSets, through ComposedTemplates + Render*Patches; " +
		"(law) a start value and a transform chain (or a documented convert round trip) resolved step by step by the real Resolve and by the " +
		"reference of ref.go; (composer) a composition of 2-5 named templates reconciled 2-3 times by PTComposer.Compose on the simulated API " +
		"server while a changing subset is unrenderable. A case is distinct by its patch+input / chain+start / failure pattern and non-trivial when " +
		"the chain reached >= 2 transforms or a wildcard path was involved and the input was not a string scalar (composer: a reconcile mixed " +
		"rendered and unrendered templates). Debatable inputs (type mismatch on the path, null prefixes, lenient number syntax, int64 overflow, " +
		"non-string inputs of string-only transforms, undocumented format/pair combinations) are exercised for totality, purity and determinism only. " +
		"Cases run in child processes so that a Go fatal error becomes a violation with the exact case instead of ending the run."
	c.Rule += " " + "Composer templates copy a tags map, some with keepMapValues: merge options stay with their template."
	c.Rule += " " + "Composer templates whose kind is not served while a name is generated."
	c.Assumptions = []string{
		"objects reaching the patch code were decoded by the Kubernetes JSON decoder (integers are int64, other numbers float64, no NaN/Inf)",
		"field names contain no brackets or quotes; numeric-looking names are only addressed in dotted form",
		"fmt.Sprintf, strings.ToUpper/ToLower, encoding/json and crypto hashes of the standard library are trusted as the documented meaning of the Format, case, ToJson and hash transforms",
		"composer level: the XR is read back from the simulated server before every reconcile; no faults are injected (other checks cover them)",
	}
	workDir, err := os.MkdirTemp("", "c10-")
	if err != nil {
		c.Inconclusive("cannot create work dir: " + err.Error())
		c.Finish()
	}
	defer os.RemoveAll(workDir)
	markFile := filepath.Join(workDir, "mark")

	parts := partsFor(c)
	total := stats{}
	for _, p := range parts {
		for lo := 0; lo < p.n; lo += p.chunk {
			hi := lo + p.chunk
			if hi > p.n {
				hi = p.n
			}
			batch := fmt.Sprintf("%s/b%d", p.name, lo/p.chunk)
			if c.Only != "" && !c.Want(batch) && !onlyInside(c.Only, batch) {
				continue
			}
			writePending(c, batch, lo, hi)
			var skip []int
			for attempt := 0; ; attempt++ {
				cr := runChild(c, p, batch, lo, hi, skip, "", workDir)
				if cr.res != nil {
					merge(c, total, cr.res)
					break
				}
				if !cr.died {
					c.Inconclusive("batch " + batch + ": " + cr.note)
					break
				}
				// the child died: pin the case by a sequential run with a marker per case
				total["child_processes_died"]++
				key, msg := fatalKey(cr.stderr)
				_ = os.Remove(markFile)
				pin := runChild(c, p, batch, lo, hi, skip, markFile, workDir)
				if pin.res != nil {
					// not reproducible sequentially (e.g. a data race between cases): report the batch
					c.Violate(key+"-unpinned", batch, "a child process died ("+msg+") but the batch passes when run sequentially", map[string]any{"stderr": firstLines(cr.stderr, 40)})
					merge(c, total, pin.res)
					break
				}
				mb, _ := os.ReadFile(markFile)
				caseName := string(mb)
				if !pin.died || caseName == "" {
					c.Inconclusive("batch " + batch + ": child died and the case could not be pinned: " + pin.note)
					break
				}
				key, msg = fatalKey(pin.stderr)
				total["fatal_errors"]++
				c.Eval("fatal|"+caseName, false)
				idx, _ := strconv.Atoi(caseName[strings.LastIndex(caseName, "/")+1:])
				wit := map[string]any{"stderr": firstLines(pin.stderr, 40)}
				// write the case's input out: the generator runs again with every call recorded instead of made
				if d := runChild(c, p, batch, idx, idx+1, nil, "", workDir, "C10_DESCRIBE=1", "C10_ONLY="); d.res != nil && len(d.res.Described) > 0 {
					wit["input"] = d.res.Described[0]
				}
				c.Violate(key, caseName, "the process died with a Go fatal error / unrecovered panic ("+msg+") while running this case; replay it with ./check C10 --replay", wit)
				skip = append(skip, idx)
				if attempt >= 3 && p.name != "star" {
					c.Inconclusive("batch " + batch + ": more than 4 fatal cases, batch abandoned")
					break
				}
			}
		}
	}
	_ = os.Remove(pendingPath())

	keys := make([]string, 0, len(total))
	for k := range total {
		keys = append(keys, k)
	}
	sort.Strings(keys)
	for _, k := range keys {
		c.Count(k, total[k])
	}
	for _, k := range []string{"panics", "fatal_errors"} {
		if total[k] == 0 {
			c.Count(k, 0)
		}
	}
	if c.Only == "" {
		for _, need := range []string{"patch_checked_noop", "patch_checked_required_error", "patch_checked_value", "patch_checked_transform_error",
			"patch_checked_wildcard_expansion", "law_checked_value", "law_checked_error", "law_checked_roundtrip", "composer_rendered", "composer_unrendered_required-missing"} {
			if total[need] == 0 {
				c.Inconclusive("oracle never exercised: " + need)
			}
		}
	}
	c.Floor = c.N(20000, 200000)
	c.Extra("parts", map[string]any{"patch_cases": parts[0].n, "law_cases": parts[1].n, "composer_cases": parts[2].n})
	_ = os.RemoveAll(workDir) // Finish exits the process, deferred calls do not run
	c.Finish()
}

var rxBatch = regexp.MustCompile(`^([a-z]+/b\d+)(/\d+)?$`)

// onlyInside reports whether the VERIF_ONLY / replay filter names a case inside this batch.
func onlyInside(only, batch string) bool {
	m := rxBatch.FindStringSubmatch(only)
	return m != nil && m[1] == batch
}
