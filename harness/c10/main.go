//go:build verif

// Check C10: P&T rendering is total, deterministic and never applies a half-rendered resource.
package main

import (
	"encoding/json"
	"fmt"
	"math/rand/v2"
	"os"
	"path/filepath"
	"regexp"
	"runtime"
	"sort"
	"sync"
	"sync/atomic"

	"github.com/crossplane/crossplane/verifh/kit"
)

type part struct {
	name  string
	n     int
	chunk int
	run   func(c *kit.Ctx, name string, r *rand.Rand, st stats)
}

func pendingPath() string { return filepath.Join(kit.Root(), "replays", "pending-C10.json") }

// writePending puts the batch that is about to run on disk: if the process dies of a Go fatal
// error (which no recover can catch) ./check turns this file into the violation's replay.
func writePending(c *kit.Ctx, caseName string, lo, hi int) {
	_ = os.MkdirAll(filepath.Dir(pendingPath()), 0o755)
	b, _ := json.MarshalIndent(map[string]any{
		"property": "C10", "tier": c.Tier, "seed": c.Seed, "case": caseName,
		"key":  "fatal-error-in-batch",
		"what": fmt.Sprintf("the process died while running cases %d..%d of batch %s (fatal error or unrecovered panic in another goroutine)", lo, hi-1, caseName),
	}, "", " ")
	_ = os.WriteFile(pendingPath(), b, 0o644)
}

func main() {
	c := kit.New("C10", "exploration")
	c.Rule = "three generated families, all from c.Rng(stream, index): (patch) an XR and a composed resource with random JSON trees " +
		"(all JSON types, nesting, null, int64 extremes, floats, unicode) in the shape the API server decodes, one patch of every type/policy/" +
		"merge option with dotted, bracketed, quoted, wildcard, out-of-range and malformed paths and a 0-4 transform chain, applied twice through " +
		"Apply / Apply+only / ApplyToObjects / the direct entry points or, as a template with PatchSets, through ComposedTemplates + Render*Patches; " +
		"(law) a start value and a transform chain (or a documented convert round trip) resolved step by step by the real Resolve and by the " +
		"reference of ref.go; (composer) a composition of 2-5 named templates reconciled 2-3 times by PTComposer.Compose on the simulated API " +
		"server while a changing subset is unrenderable. A case is distinct by its patch+input / chain+start / failure pattern and non-trivial when " +
		"the chain reached >= 2 transforms or a wildcard path was involved and the input was not a string scalar (composer: a reconcile mixed " +
		"rendered and unrendered templates). Debatable inputs (type mismatch on the path, null prefixes, lenient number syntax, int64 overflow, " +
		"non-string inputs of string-only transforms, undocumented format/pair combinations) are exercised for totality, purity and determinism only."
	c.Assumptions = []string{
		"objects reaching the patch code were decoded by the Kubernetes JSON decoder (integers are int64, other numbers float64, no NaN/Inf)",
		"field names contain no brackets or quotes; numeric-looking names are only addressed in dotted form",
		"fmt.Sprintf, strings.ToUpper/ToLower, encoding/json and crypto hashes of the standard library are trusted as the documented meaning of the Format, case, ToJson and hash transforms",
		"composer level: the XR is read back from the simulated server before every reconcile; no faults are injected (other checks cover them)",
	}
	workers := runtime.NumCPU()
	if workers > 16 {
		workers = 16
	}
	parts := []part{
		{name: "patch", n: c.N(100000, 2200000), chunk: 10000, run: runPatchCase},
		{name: "law", n: c.N(110000, 2800000), chunk: 10000, run: runLawCase},
		{name: "composer", n: c.N(700, 16000), chunk: 200, run: runComposerCase},
	}
	total := stats{}
	for _, p := range parts {
		for lo := 0; lo < p.n; lo += p.chunk {
			hi := lo + p.chunk
			if hi > p.n {
				hi = p.n
			}
			batch := fmt.Sprintf("%s/b%d", p.name, lo/p.chunk)
			if c.Only != "" && !c.Want(batch) && !c.Want(batch+"/x") && !onlyInside(c.Only, batch) {
				continue
			}
			writePending(c, batch, lo, hi)
			var next atomic.Int64
			next.Store(int64(lo))
			var wg sync.WaitGroup
			var mu sync.Mutex
			for wk := 0; wk < workers; wk++ {
				wg.Add(1)
				go func() {
					defer wg.Done()
					st := stats{}
					for {
						i := int(next.Add(1) - 1)
						if i >= hi {
							break
						}
						name := fmt.Sprintf("%s/%d", batch, i)
						if !c.Want(name) {
							continue
						}
						// a harness bug must not masquerade as a finding: it is reported as such
						if perr := kit.Try(func() { p.run(c, name, c.Rng(p.name, i), st) }); perr != nil {
							c.Inconclusive("harness panic in " + name + ": " + firstLines(perr.Error(), 12))
						}
					}
					mu.Lock()
					for k, v := range st {
						total[k] += v
					}
					mu.Unlock()
				}()
			}
			wg.Wait()
		}
	}
	_ = os.Remove(pendingPath())

	keys := make([]string, 0, len(total))
	for k := range total {
		keys = append(keys, k)
	}
	sort.Strings(keys)
	for _, k := range keys {
		c.Count(k, total[k])
	}
	if total["panics"] == 0 {
		c.Count("panics", 0)
	}
	if c.Only == "" {
		for _, need := range []string{"patch_checked_noop", "patch_checked_required_error", "patch_checked_value", "patch_checked_transform_error",
			"law_checked_value", "law_checked_error", "law_checked_roundtrip", "composer_rendered", "composer_unrendered_required-missing"} {
			if total[need] == 0 {
				c.Inconclusive("oracle never exercised: " + need)
			}
		}
	}
	c.Floor = c.N(20000, 400000)
	c.Extra("parts", map[string]any{"patch_cases": parts[0].n, "law_cases": parts[1].n, "composer_cases": parts[2].n, "workers": workers})
	c.Finish()
}

var rxBatch = regexp.MustCompile(`^([a-z]+/b\d+)(/\d+)?$`)

// onlyInside reports whether the VERIF_ONLY / replay filter names a case inside this batch.
func onlyInside(only, batch string) bool {
	m := rxBatch.FindStringSubmatch(only)
	return m != nil && m[1] == batch
}
