//go:build verif

package main

// Part 1: totality, purity, determinism and the optional/required contract of patches, through
// the real Apply / ApplyToObjects / ApplyFromFieldPathPatch / ApplyCombineFromVariablesPatch /
// Render*Patches / ComposedTemplates entry points.

import (
	"fmt"
	"math/rand/v2"
	"reflect"
	"regexp"
	"sort"
	"strconv"
	"strings"
	"sync"

	"k8s.io/apimachinery/pkg/runtime"

	"github.com/crossplane/crossplane-runtime/pkg/resource/unstructured/composed"
	"github.com/crossplane/crossplane-runtime/pkg/resource/unstructured/composite"

	v1 "github.com/crossplane/crossplane/apis/apiextensions/v1"
	xcomposite "github.com/crossplane/crossplane/internal/controller/apiextensions/composite"
	"github.com/crossplane/crossplane/verifh/kit"
)

type stats map[string]int64

func (s stats) inc(k string) { s[k]++ }

type pred int

const (
	pFree     pred = iota // generic oracles only
	pNoop                 // optional + missing (or filtered): nil error, target unchanged
	pMustErr              // required + missing
	pValue                // documented value must appear at the target path
	pChainErr             // a transform parameter/value is invalid: error
	pParamErr             // malformed patch: error
)

func (p pred) String() string {
	return [...]string{"free", "noop", "musterr", "value", "chainerr", "paramerr"}[p]
}

type patchCase struct {
	p      v1.Patch
	label  string // patch type label for keys
	toXR   bool   // source is the composed resource
	froms  []genPath
	to     toPath
	pred   pred
	expect any
	why    string
	input  any // value entering the transform chain (if known)
	start  any // value entering the chain, for attribution of deviations

	wildExpect    any // documented value for every existing expansion of a wildcard target path
	hasWildExpect bool
}

func typeLabel(t v1.PatchType) string {
	switch t {
	case v1.PatchTypeFromCompositeFieldPath, "":
		return "from-composite"
	case v1.PatchTypeToCompositeFieldPath:
		return "to-composite"
	case v1.PatchTypeCombineFromComposite:
		return "combine-from-composite"
	case v1.PatchTypeCombineToComposite:
		return "combine-to-composite"
	case v1.PatchTypePatchSet:
		return "patchset"
	}
	return "unknown-type"
}

// refChain runs the reference over a chain.
func refChain(ts []v1.Transform, in any) rres {
	cur := in
	for i, t := range ts {
		res := refTransform(t, cur)
		switch res.k {
		case rErr:
			return mustErr(fmt.Sprintf("transform %d (%s): %s", i, site(t), res.why))
		case rUnspec:
			return unspec(fmt.Sprintf("transform %d (%s): %s", i, site(t), res.why))
		}
		if i < len(ts)-1 {
			// a wrapper cannot be fed to the next reference step
			switch res.val.(type) {
			case approx, jsonText, floatText, oneOf:
				return unspec("intermediate value only known up to a tolerance")
			}
			if !jsonSafe(res.val) {
				return unspec("non-finite intermediate")
			}
			cur = normalizeNumbersRef(res.val)
		} else {
			cur = res.val
		}
	}
	return ok(cur)
}

// normalizeNumbersRef turns json.Number (reference decoding) into the float64 the standard
// library decoder documents for untyped numbers.
func normalizeNumbersRef(v any) any {
	switch t := v.(type) {
	case map[string]any:
		m := make(map[string]any, len(t))
		for k, e := range t {
			m[k] = normalizeNumbersRef(e)
		}
		return m
	case []any:
		l := make([]any, len(t))
		for i, e := range t {
			l[i] = normalizeNumbersRef(e)
		}
		return l
	default:
		if n, isN := v.(interface{ Float64() (float64, error) }); isN {
			f, err := n.Float64()
			if err == nil {
				return f
			}
		}
	}
	return v
}

// genPatch builds one patch of the requested type against the given source/target trees.
func genPatch(r *rand.Rand, typ v1.PatchType, xr, cd map[string]any) patchCase {
	pc := patchCase{label: typeLabel(typ)}
	pc.p.Type = typ
	src, dst := xr, cd
	if typ == v1.PatchTypeToCompositeFieldPath || typ == v1.PatchTypeCombineToComposite {
		src, dst = cd, xr
		pc.toXR = true
	}
	pc.p.Policy = genPolicy(r)
	pol := effectivePolicy(pc.p.Policy)
	hasMO := pc.p.Policy != nil && pc.p.Policy.MergeOptions != nil

	switch typ {
	case v1.PatchTypeFromCompositeFieldPath, v1.PatchTypeToCompositeFieldPath, "":
		fp := genFromPath(r, src)
		pc.froms = []genPath{fp}
		if chance(r, 0.03) {
			// malformed: no fromFieldPath at all
			pc.to = genToPath(r, dst)
			pc.p.ToFieldPath = ptrTo(pc.to.s)
			pc.pred, pc.why = pParamErr, "fromFieldPath missing"
			pc.froms = nil
			return pc
		}
		pc.p.FromFieldPath = ptrTo(fp.s)
		if chance(r, 0.15) && fp.status != stMalformed {
			// "Leave empty if you'd like to propagate to the same path as fromFieldPath"
			pc.to = toPath{s: fp.s, segs: fp.segs, class: "same-as-from", settable: settableIn(dst, fp.segs)}
			for _, s := range fp.segs {
				if s.wild {
					pc.to.wild, pc.to.settable = true, false
				}
			}
		} else {
			pc.to = genToPath(r, dst)
			pc.p.ToFieldPath = ptrTo(pc.to.s)
		}
		var start any
		if fp.status == stFound {
			start = fp.val
		} else {
			start = genScalar(r)
		}
		pc.p.Transforms = genChain(r, start, chainLen(r))
		switch {
		case fp.status == stMissing && pol == "Optional":
			pc.pred, pc.why = pNoop, "optional patch, source path missing"
		case fp.status == stMissing && pol == "Required":
			pc.pred, pc.why = pMustErr, "required patch, source path missing"
		case fp.status == stFound:
			pc.input, pc.start = fp.val, fp.val
			res := refChain(pc.p.Transforms, fp.val)
			switch {
			case res.k == rErr:
				pc.pred, pc.why = pChainErr, res.why
			case res.k == rOK && !hasMO && pc.to.settable && jsonSafe(res.val):
				pc.pred, pc.expect = pValue, res.val
			case res.k == rOK && !hasMO && pc.to.wild && pc.to.class == "wildcard" && jsonSafe(res.val):
				pc.wildExpect, pc.hasWildExpect = res.val, true
			}
		}
	case v1.PatchTypeCombineFromComposite, v1.PatchTypeCombineToComposite:
		pc.to = genToPath(r, dst)
		pc.p.ToFieldPath = ptrTo(pc.to.s)
		nv := 1 + r.IntN(3)
		comb := &v1.Combine{Strategy: v1.CombineStrategyString, String: &v1.StringCombine{Format: pick(r, combineFmtPool)}}
		for i := 0; i < nv; i++ {
			var fp genPath
			for try := 0; try < 4; try++ { // mostly present variables, otherwise nearly every combine is a no-op
				fp = genFromPath(r, src)
				if fp.status == stFound || chance(r, 0.3) {
					break
				}
			}
			pc.froms = append(pc.froms, fp)
			comb.Variables = append(comb.Variables, v1.CombineVariable{FromFieldPath: fp.s})
		}
		pc.p.Combine = comb
		// malformed variants
		switch x := r.IntN(100); {
		case x < 3:
			pc.p.Combine = nil
			pc.pred, pc.why = pParamErr, "combine missing"
			return pc
		case x < 6:
			pc.p.ToFieldPath = nil
			pc.pred, pc.why = pParamErr, "toFieldPath missing"
			return pc
		case x < 9:
			comb.Variables = nil
			pc.froms = nil
			pc.pred, pc.why = pParamErr, "no variables"
			return pc
		case x < 12:
			comb.Strategy = "concat"
		case x < 15:
			comb.String = nil
		}
		allFound, firstBad := true, stFound
		for _, fp := range pc.froms {
			if fp.status != stFound {
				allFound = false
				firstBad = fp.status
				break
			}
		}
		anyMissing := false
		for _, fp := range pc.froms {
			if fp.status == stMissing {
				anyMissing = true
			}
		}
		var start any = "combined"
		if allFound && comb.Strategy == v1.CombineStrategyString && comb.String != nil {
			vals := make([]any, len(pc.froms))
			for i, fp := range pc.froms {
				vals[i] = fp.val
			}
			start = fmt.Sprintf(comb.String.Format, vals...) // "Format the input using a Go format string"
		}
		pc.p.Transforms = genChain(r, start, chainLen(r))
		switch {
		case !allFound && firstBad == stMissing && pol == "Optional":
			pc.pred, pc.why = pNoop, "optional combine, a variable's path is missing"
		case anyMissing && pol == "Required":
			pc.pred, pc.why = pMustErr, "required combine, a variable's path is missing"
		case allFound && (comb.Strategy != v1.CombineStrategyString || comb.String == nil):
			pc.pred, pc.why = pParamErr, "combine strategy/config invalid"
		case allFound:
			pc.input, pc.start = pc.froms[0].val, start
			res := refChain(pc.p.Transforms, start)
			switch {
			case res.k == rErr:
				pc.pred, pc.why = pChainErr, res.why
			case res.k == rOK && pc.to.settable && jsonSafe(res.val):
				pc.pred, pc.expect = pValue, res.val
			}
		}
	default:
		// PatchSet (unresolved) or an unknown type: only totality/purity
		fp := genFromPath(r, src)
		pc.froms = []genPath{fp}
		pc.p.FromFieldPath = ptrTo(fp.s)
		pc.to = genToPath(r, dst)
		pc.p.ToFieldPath = ptrTo(pc.to.s)
		pc.p.PatchSetName = ptrTo("ps")
		pc.p.Transforms = genChain(r, genScalar(r), chainLen(r))
		pc.pred, pc.why = pParamErr, "patch type cannot be applied"
	}
	return pc
}

var typePool = []v1.PatchType{
	v1.PatchTypeFromCompositeFieldPath, v1.PatchTypeFromCompositeFieldPath, v1.PatchTypeFromCompositeFieldPath, v1.PatchTypeFromCompositeFieldPath,
	v1.PatchTypeToCompositeFieldPath, v1.PatchTypeToCompositeFieldPath, v1.PatchTypeToCompositeFieldPath,
	v1.PatchTypeCombineFromComposite, v1.PatchTypeCombineFromComposite, v1.PatchTypeCombineToComposite,
}

var allRealTypes = []v1.PatchType{v1.PatchTypeFromCompositeFieldPath, v1.PatchTypeToCompositeFieldPath, v1.PatchTypeCombineFromComposite, v1.PatchTypeCombineToComposite, v1.PatchTypePatchSet}

func newXR(m map[string]any) *composite.Unstructured {
	x := composite.New()
	x.Object = deepCopy(m).(map[string]any)
	return x
}

func newCD(m map[string]any) *composed.Unstructured {
	d := composed.New()
	d.Object = deepCopy(m).(map[string]any)
	return d
}

var rxTransformIndex = regexp.MustCompile(`transform at index (\d+) returned error`)

// reached says how many transforms of the chain were entered, judged from the outcome.
func reached(chain int, err error, noop bool) int {
	if noop {
		return 0
	}
	if err == nil {
		return chain
	}
	if m := rxTransformIndex.FindStringSubmatch(err.Error()); m != nil {
		n, _ := strconv.Atoi(m[1])
		return n + 1
	}
	return 0
}

var rxFrame = regexp.MustCompile(`^([^\s(]+(?:\(\*[^)]+\))?[^\s(]*)\(`)

var siteAlias = map[string]string{
	"composite.stringRegexpTransform":  "string-regexp",
	"composite.stringJoinTransform":    "string-join",
	"composite.stringTrimTransform":    "string-trim",
	"composite.stringConvertTransform": "string-convert",
	"composite.ResolveString":          "string",
	"composite.resolveMathMultiply":    "math-multiply",
	"composite.resolveMathClamp":       "math-clamp",
	"composite.ResolveMath":            "math",
	"composite.ResolveMap":             "map",
	"composite.ResolveMatch":           "match",
	"composite.matchesLiteral":         "match-literal",
	"composite.matchesRegexp":          "match-regexp",
	"composite.ResolveConvert":         "convert",
	"composite.GetConversionFunc":      "convert",
	"composite.Combine":                "combine",
	"composite.CombineString":          "combine-string",
}

// panicKey derives a stable key from a recovered panic: the innermost non-runtime function and
// the class of the runtime error, e.g. panic:string-regexp-negative-group.
func panicKey(perr error) string {
	txt := perr.Error()
	msg := strings.TrimPrefix(strings.SplitN(txt, "\n", 2)[0], "panic: ")
	lines := strings.Split(txt, "\n")
	fn := "unknown"
	after := false
	for _, ln := range lines {
		if strings.HasPrefix(ln, "panic(") {
			after = true
			continue
		}
		if !after || strings.HasPrefix(ln, "\t") || strings.HasPrefix(ln, " ") {
			continue
		}
		if strings.HasPrefix(ln, "runtime.") {
			continue
		}
		m := rxFrame.FindStringSubmatch(ln)
		if m == nil {
			continue
		}
		fn = m[1]
		break
	}
	if i := strings.LastIndex(fn, "/"); i >= 0 {
		fn = fn[i+1:]
	}
	fn = strings.NewReplacer("(*", "", ")", "", "[...]", "").Replace(fn)
	if i := strings.Index(fn, ".func"); i > 0 { // closures: conversions.func3 -> conversions
		fn = fn[:i]
	}
	s, aliased := siteAlias[fn]
	if !aliased {
		s = fn
	}
	cause := "other"
	switch {
	case strings.Contains(msg, "index out of range [-"):
		cause = "negative-index"
		if s == "string-regexp" {
			cause = "negative-group"
		}
	case strings.Contains(msg, "index out of range"):
		cause = "index-out-of-range"
	case strings.Contains(msg, "slice bounds out of range"):
		cause = "slice-bounds"
	case strings.Contains(msg, "nil pointer dereference"):
		cause = "nil-deref"
	case strings.Contains(msg, "interface conversion"):
		cause = "type-assertion"
	case strings.Contains(msg, "assignment to entry in nil map"):
		cause = "nil-map"
	case strings.Contains(msg, "makeslice"), strings.Contains(msg, "out of memory"):
		cause = "alloc"
	case strings.Contains(msg, "reflect"):
		cause = "reflect"
	case strings.Contains(msg, "divide by zero"):
		cause = "divide-by-zero"
	}
	return "panic:" + s + "-" + cause
}

func firstLines(s string, n int) string {
	l := strings.Split(s, "\n")
	if len(l) > n {
		l = l[:n]
	}
	return strings.Join(l, "\n")
}

type applyFn func(x *composite.Unstructured, d *composed.Unstructured) error

type outcome struct {
	err  error
	perr error
	xr   map[string]any
	cd   map[string]any
}

// describeOnly (child started with C10_DESCRIBE) records the inputs of every call instead of
// making it: the supervisor uses it to write out the input of a case that kills the process.
var (
	describeOnly bool
	describedMu  sync.Mutex
	described    []any
)

func execute(f applyFn, xr, cd map[string]any, desc any) outcome {
	if describeOnly {
		describedMu.Lock()
		described = append(described, sanitize(map[string]any{"call": rawAsString(desc), "xr": xr, "cd": cd}))
		describedMu.Unlock()
		return outcome{xr: deepCopy(xr).(map[string]any), cd: deepCopy(cd).(map[string]any)}
	}
	x, d := newXR(xr), newCD(cd)
	var o outcome
	o.perr = kit.Try(func() { o.err = f(x, d) })
	o.xr, o.cd = x.Object, d.Object
	return o
}

func errStr(err error) string {
	if err == nil {
		return ""
	}
	return err.Error()
}

func runPatchCase(c sink, name string, r *rand.Rand, st stats) {
	runPatchCaseOpt(c, name, r, st, false)
}

// runStarCase is the same family biased towards one input class: the target holds a map with a
// key named "*" and the target path is a wildcard over that map.
func runStarCase(c sink, name string, r *rand.Rand, st stats) { runPatchCaseOpt(c, name, r, st, true) }

// starTarget inserts a "*" key into a map of dst and returns a wildcard path over that map.
func starTarget(r *rand.Rand, dst map[string]any) toPath {
	segs := randomWalk(r, dst, []string{"spec"}, 1)
	for len(segs) > 1 {
		if end, st := walk(dst, segs); st == stFound {
			if _, isM := end.(map[string]any); isM {
				break
			}
		}
		segs = segs[:len(segs)-1]
	}
	end, _ := walk(dst, segs)
	end.(map[string]any)["*"] = genScalar(r)
	// no trailing field: with one, whether the expansion reaches the "*" key before another key's
	// value makes it fail depends on Go's map iteration order
	segs = append(segs, seg{wild: true})
	return toPath{s: render(r, segs), segs: segs, class: "wildcard-over-star-key", wild: true}
}

func runPatchCaseOpt(c sink, name string, r *rand.Rand, st stats, star bool) {
	if !star && chance(r, 0.12) {
		runRenderCase(c, name, r, st)
		return
	}
	xr, cd := genXR(r), genCD(r)
	var typ v1.PatchType
	switch x := r.IntN(100); {
	case x < 90:
		typ = pick(r, typePool)
	case x < 94:
		typ = "" // defaulted type
	case x < 97:
		typ = v1.PatchTypePatchSet
	default:
		typ = "FromEnvironmentFieldPath" // not a patch type of this API version
	}
	pc := genPatch(r, typ, xr, cd)
	if star {
		for try := 0; try < 20; try++ {
			pc = genPatch(r, pick(r, []v1.PatchType{v1.PatchTypeFromCompositeFieldPath, v1.PatchTypeToCompositeFieldPath}), xr, cd)
			if len(pc.froms) == 1 && pc.froms[0].status == stFound && pc.pred != pChainErr {
				break
			}
		}
		dst := cd
		if pc.toXR {
			dst = xr
		}
		pc.to = starTarget(r, dst)
		pc.p.ToFieldPath = ptrTo(pc.to.s)
		pc.p.Transforms = nil // nothing may fail before the value reaches the target path
		pc.pred, pc.hasWildExpect = pFree, false
		st.inc("patch_star_key_cases")
	}

	// entry point
	entry := "Apply"
	var f applyFn
	filtered := false
	x := r.IntN(100)
	if star {
		x = 0
	}
	switch {
	case x < 55:
		f = func(x *composite.Unstructured, d *composed.Unstructured) error { return xcomposite.Apply(pc.p, x, d) }
	case x < 70:
		entry = "Apply+only"
		var only []v1.PatchType
		for _, t := range allRealTypes {
			if chance(r, 0.5) {
				only = append(only, t)
			}
		}
		if len(only) == 0 {
			only = []v1.PatchType{pick(r, allRealTypes)}
		}
		filtered = true
		for _, t := range only {
			if t == pc.p.Type {
				filtered = false
			}
		}
		f = func(x *composite.Unstructured, d *composed.Unstructured) error {
			return xcomposite.Apply(pc.p, x, d, only...)
		}
	case x < 85:
		entry = "ApplyToObjects"
		f = func(x *composite.Unstructured, d *composed.Unstructured) error {
			return xcomposite.ApplyToObjects(pc.p, runtime.Object(x), runtime.Object(d))
		}
	default:
		entry = "direct"
		f = func(x *composite.Unstructured, d *composed.Unstructured) error {
			var from, to runtime.Object = x, d
			if pc.toXR {
				from, to = d, x
			}
			switch pc.p.Type {
			case v1.PatchTypeCombineFromComposite, v1.PatchTypeCombineToComposite:
				return xcomposite.ApplyCombineFromVariablesPatch(pc.p, from, to)
			}
			return xcomposite.ApplyFromFieldPathPatch(pc.p, from, to)
		}
		if typ == v1.PatchTypePatchSet || typ == "FromEnvironmentFieldPath" {
			// the direct entry points do not look at the type: no prediction
			pc.pred = pFree
			if pc.froms != nil && pc.froms[0].status == stMissing {
				switch effectivePolicy(pc.p.Policy) {
				case "Optional":
					pc.pred = pNoop
				case "Required":
					pc.pred = pMustErr
				}
			}
		}
	}
	if filtered {
		pc.pred, pc.why, pc.expect = pNoop, "patch type excluded by the only filter", nil
	}
	if typ == "" && entry == "Apply+only" && !filtered {
		pc.pred = pFree
	}

	o1 := execute(f, xr, cd, pc.p)
	o2 := execute(f, xr, cd, pc.p)

	src0, dst0 := xr, cd
	src1, dst1, dst2 := o1.xr, o1.cd, o2.cd
	if pc.toXR {
		src0, dst0 = cd, xr
		src1, dst1, dst2 = o1.cd, o1.xr, o2.xr
	}

	wild := pc.to.wild
	for _, fp := range pc.froms {
		if fp.status == stWildcard {
			wild = true
		}
	}
	_, strIn := pc.input.(string)
	reach := reached(len(pc.p.Transforms), o1.err, filtered || (o1.err == nil && strictEq(dst0, dst1)))
	nontrivial := (reach >= 2 || wild) && !strIn && o1.perr == nil
	fpClass := ""
	for _, fp := range pc.froms {
		fpClass += fp.class + ":" + fp.status.String() + ","
	}
	c.Eval(kit.JSON(pc.p)+"|"+entry+"|"+kit.JSON(pc.input), nontrivial)

	st.inc("patch_evaluations")
	st.inc("patch_type_" + pc.label)
	st.inc("patch_entry_" + entry)
	st.inc("patch_pred_" + pc.pred.String())
	st.inc("patch_policy_" + effectivePolicy(pc.p.Policy))
	if pc.p.Policy != nil && pc.p.Policy.MergeOptions != nil {
		st.inc("patch_with_merge_options")
	}
	st.inc("patch_topath_" + pc.to.class)
	for _, fp := range pc.froms {
		st.inc("patch_frompath_" + fp.class)
	}
	for _, t := range pc.p.Transforms {
		st.inc("patch_transform_" + string(t.Type))
	}
	if o1.err != nil {
		st.inc("patch_errors_returned")
	}
	if nontrivial {
		st.inc("patch_nontrivial")
	}

	witness := func() map[string]any {
		return map[string]any{
			"entry": entry, "patch": pc.p, "xr": xr, "cd": cd, "fromPaths": fpClass, "toPath": pc.to.s, "toClass": pc.to.class,
			"prediction": pc.pred.String(), "why": pc.why, "error": errStr(o1.err), "expected": fmt.Sprintf("%#v", pc.expect),
		}
	}
	if c.WantSample() && nontrivial {
		c.Sample(map[string]any{"case": name, "entry": entry, "patch": pc.p, "fromPaths": fpClass, "toPath": pc.to.s, "prediction": pc.pred.String(), "error": errStr(o1.err)})
	}

	if o1.perr != nil {
		st.inc("panics")
		w := witness()
		w["panic"] = firstLines(o1.perr.Error(), 14)
		c.Violate(panicKey(o1.perr), name, "patch application panicked: "+firstLines(o1.perr.Error(), 1), w)
		return
	}
	// purity: the source object is only read
	if !strictEq(src0, src1) {
		c.Violate("patch:"+pc.label+"-source-mutated", name, "the source object of the patch differs after the call", witness())
	}
	// determinism
	if o2.perr == nil {
		if (o1.err == nil) != (o2.err == nil) || (o1.err == nil && !strictEq(dst1, dst2)) {
			c.Violate("patch:"+pc.label+"-nondeterministic", name, "two evaluations on equal inputs disagree", witness())
		}
	}
	switch pc.pred {
	case pNoop:
		if o1.err != nil {
			key := "-optional-missing-returns-error"
			if filtered {
				key = "-filtered-returns-error"
			}
			c.Violate("patch:"+pc.label+key, name, pc.why+": want nil error, got "+o1.err.Error(), witness())
		} else if !strictEq(dst0, dst1) {
			key := "-optional-missing-changes-target"
			if filtered {
				key = "-filtered-changes-target"
			}
			c.Violate("patch:"+pc.label+key, name, pc.why+": the target object changed", witness())
		}
		st.inc("patch_checked_noop")
	case pMustErr:
		if o1.err == nil {
			c.Violate("patch:"+pc.label+"-required-missing-no-error", name, pc.why+": want an error, got nil", witness())
		}
		st.inc("patch_checked_required_error")
	case pChainErr:
		if o1.err == nil {
			if k, wh := attribute(pc.p.Transforms, pc.start); k != "" {
				c.Violate(k, name, "observed through a "+pc.label+" patch: "+wh, witness())
			} else {
				c.Violate("patch:"+pc.label+"-invalid-transform-no-error", name, "reference expects an error ("+pc.why+"), got nil", witness())
			}
		}
		st.inc("patch_checked_transform_error")
	case pParamErr:
		if o1.err == nil {
			c.Violate("patch:"+pc.label+"-malformed-patch-no-error", name, "malformed patch ("+pc.why+") applied without error", witness())
		}
		st.inc("patch_checked_malformed_error")
	case pValue:
		st.inc("patch_checked_value")
		if o1.err != nil {
			if k, wh := attribute(pc.p.Transforms, pc.start); k != "" {
				c.Violate(k, name, "observed through a "+pc.label+" patch: "+wh, witness())
			} else {
				c.Violate("patch:"+pc.label+"-unexpected-error", name, "source present, chain and target path valid, but: "+o1.err.Error(), witness())
			}
			break
		}
		got, gst := walk(dst1, pc.to.segs)
		if gst != stFound || !sameJSON(pc.expect, got) {
			w := witness()
			w["got"] = fmt.Sprintf("%#v (%s)", got, gst)
			if k, wh := attribute(pc.p.Transforms, pc.start); k != "" {
				c.Violate(k, name, "observed through a "+pc.label+" patch: "+wh, w)
			} else {
				c.Violate("patch:"+pc.label+"-wrong-value", name, "the target path does not hold the documented value", w)
			}
		}
	}
	// wildcard target: "patches the value into each of the resulting fields" - every expansion
	// that existed before the call holds the value afterwards
	if pc.hasWildExpect && o1.err == nil && !filtered {
		wi := -1
		for i, sg := range pc.to.segs {
			if sg.wild {
				wi = i
			}
		}
		container, cst := walk(dst0, pc.to.segs[:wi])
		var children []seg
		if cst == stFound {
			switch t := container.(type) {
			case []any:
				for i := range t {
					children = append(children, seg{isIdx: true, idx: i})
				}
			case map[string]any:
				for _, k := range sortedKeys(t) {
					children = append(children, seg{field: k})
				}
			}
		}
		for _, ch := range children {
			full := append(append(append([]seg{}, pc.to.segs[:wi]...), ch), pc.to.segs[wi+1:]...)
			if _, est := walk(dst0, full); est != stFound {
				continue
			}
			st.inc("patch_checked_wildcard_expansion")
			got, gst := walk(dst1, full)
			if gst != stFound || !sameJSON(pc.wildExpect, got) {
				w := witness()
				w["expansion"] = render(rand.New(rand.NewPCG(1, 1)), full)
				w["got"] = fmt.Sprintf("%#v (%s)", got, gst)
				w["expected"] = fmt.Sprintf("%#v", pc.wildExpect)
				if k, wh := attribute(pc.p.Transforms, pc.start); k != "" {
					c.Violate(k, name, "observed through a wildcard "+pc.label+" patch: "+wh, w)
				} else {
					c.Violate("patch:"+pc.label+"-wildcard-expansion-wrong-value", name, "an existing expansion of the wildcard target path does not hold the documented value", w)
				}
				break
			}
		}
	}
}

func allFound(fps []genPath) bool {
	for _, fp := range fps {
		if fp.status != stFound {
			return false
		}
	}
	return true
}

// ---- template level: PatchSets inlined by ComposedTemplates, then Render*Patches ---------------------

func runRenderCase(c sink, name string, r *rand.Rand, st stats) {
	xr, cd := genXR(r), genCD(r)
	nSets := 1 + r.IntN(3)
	var sets []v1.PatchSet
	setCases := map[string][]patchCase{}
	nested := false
	for i := 0; i < nSets; i++ {
		ps := v1.PatchSet{Name: fmt.Sprintf("set-%d", i)}
		n := 1 + r.IntN(3)
		for j := 0; j < n; j++ {
			pc := genPatch(r, pick(r, typePool), xr, cd)
			if chance(r, 0.03) {
				pc.p = v1.Patch{Type: v1.PatchTypePatchSet, PatchSetName: ptrTo("set-0")}
				nested = true
			}
			ps.Patches = append(ps.Patches, pc.p)
			setCases[ps.Name] = append(setCases[ps.Name], pc)
		}
		sets = append(sets, ps)
	}
	var tpl v1.ComposedTemplate
	tpl.Name = ptrTo("res")
	var own []patchCase // the harness's own expansion
	undefined, noName := false, false
	n := 1 + r.IntN(4)
	for j := 0; j < n; j++ {
		switch x := r.IntN(100); {
		case x < 45:
			nm := fmt.Sprintf("set-%d", r.IntN(nSets))
			tpl.Patches = append(tpl.Patches, v1.Patch{Type: v1.PatchTypePatchSet, PatchSetName: ptrTo(nm)})
			own = append(own, setCases[nm]...)
		case x < 48:
			tpl.Patches = append(tpl.Patches, v1.Patch{Type: v1.PatchTypePatchSet, PatchSetName: ptrTo("no-such-set")})
			undefined = true
		case x < 50:
			tpl.Patches = append(tpl.Patches, v1.Patch{Type: v1.PatchTypePatchSet})
			noName = true
		default:
			pc := genPatch(r, pick(r, typePool), xr, cd)
			tpl.Patches = append(tpl.Patches, pc.p)
			own = append(own, pc)
		}
	}

	var inlined []v1.ComposedTemplate
	var ierr error
	perr := kit.Try(func() { inlined, ierr = xcomposite.ComposedTemplates(sets, []v1.ComposedTemplate{tpl}) })
	st.inc("render_evaluations")
	w := map[string]any{"patchSets": sets, "template": tpl, "xr": xr, "cd": cd}
	if perr != nil {
		st.inc("panics")
		w["panic"] = firstLines(perr.Error(), 14)
		c.Eval(kit.JSON(tpl)+kit.JSON(sets), false)
		c.Violate(panicKey(perr), name, "ComposedTemplates panicked", w)
		return
	}
	if nested || undefined || noName {
		c.Eval(kit.JSON(tpl)+kit.JSON(sets), false)
		st.inc("render_invalid_patchsets")
		// "a patch in a PatchSet cannot be of type PatchSet"; an unknown or unnamed set cannot be resolved
		if ierr == nil {
			c.Violate("patchset:unresolvable-reference-no-error", name, "nested/undefined/unnamed PatchSet reference inlined without error", w)
		}
		return
	}
	if ierr != nil {
		c.Eval(kit.JSON(tpl)+kit.JSON(sets), false)
		c.Violate("patchset:unexpected-error", name, "valid PatchSet references: "+ierr.Error(), w)
		return
	}
	want := make([]v1.Patch, len(own))
	for i := range own {
		want[i] = own[i].p
	}
	if len(inlined) != 1 || !reflect.DeepEqual(append([]v1.Patch{}, inlined[0].Patches...), want) {
		if !(len(inlined) == 1 && len(inlined[0].Patches) == 0 && len(want) == 0) {
			w["inlined"] = inlined
			c.Violate("patchset:inline-mismatch", name, "ComposedTemplates did not replace PatchSet references by the set's patches in order", w)
		}
	}
	patches := inlined[0].Patches

	toXR := chance(r, 0.35)
	var f applyFn
	if toXR {
		f = func(x *composite.Unstructured, d *composed.Unstructured) error {
			return xcomposite.RenderToCompositePatches(x, d, patches)
		}
	} else {
		f = func(x *composite.Unstructured, d *composed.Unstructured) error {
			return xcomposite.RenderFromCompositePatches(d, x, patches)
		}
	}
	o1 := execute(f, xr, cd, patches)
	o2 := execute(f, xr, cd, patches)
	src0, dst0, src1, dst1, dst2 := xr, cd, o1.xr, o1.cd, o2.cd
	if toXR {
		src0, dst0, src1, dst1, dst2 = cd, xr, o1.cd, o1.xr, o2.xr
	}
	// prediction over the sequence: no-ops followed by a must-error
	seq := "free"
	allNoop := true
	wild, strIn, maxChain := false, true, 0
	for _, pc := range own {
		applies := pc.toXR == toXR
		if applies {
			if pc.to.wild {
				wild = true
			}
			if pc.input != nil {
				if _, isS := pc.input.(string); !isS {
					strIn = false
				}
			}
			if len(pc.p.Transforms) > maxChain && (pc.pred == pValue || pc.pred == pChainErr) {
				maxChain = len(pc.p.Transforms)
			}
		}
		if !applies || pc.pred == pNoop {
			continue
		}
		if allNoop && pc.pred == pMustErr {
			seq = "musterr"
		}
		// the first patch that is not a no-op fails for another documented reason (its source is
		// there, a transform or parameter is invalid): whatever its policy, the rendering fails
		if allNoop && (pc.pred == pChainErr || pc.pred == pParamErr) {
			seq = "failing:" + effectivePolicy(pc.p.Policy)
		}
		allNoop = false
		break
	}
	if allNoop {
		seq = "noop"
	}
	nontrivial := (maxChain >= 2 || wild) && !strIn && o1.perr == nil
	c.Eval(kit.JSON(patches)+fmt.Sprint(toXR), nontrivial)
	st.inc("render_pred_" + seq)
	if toXR {
		st.inc("render_to_composite")
	} else {
		st.inc("render_from_composite")
	}
	if o1.err != nil {
		st.inc("render_errors_returned")
	}
	w["toXR"] = toXR
	w["inlined"] = patches
	w["error"] = errStr(o1.err)
	if o1.perr != nil {
		st.inc("panics")
		w["panic"] = firstLines(o1.perr.Error(), 14)
		c.Violate(panicKey(o1.perr), name, "Render*Patches panicked: "+firstLines(o1.perr.Error(), 1), w)
		return
	}
	dir := "from-composite"
	if toXR {
		dir = "to-composite"
	}
	if !strictEq(src0, src1) {
		c.Violate("render:"+dir+"-source-mutated", name, "the source object differs after rendering", w)
	}
	if o2.perr == nil && ((o1.err == nil) != (o2.err == nil) || (o1.err == nil && !strictEq(dst1, dst2))) {
		c.Violate("render:"+dir+"-nondeterministic", name, "two renderings of equal inputs disagree", w)
	}
	switch seq {
	case "noop":
		if o1.err != nil {
			c.Violate("render:"+dir+"-noop-patches-return-error", name, "only filtered / optional-missing patches, got: "+o1.err.Error(), w)
		} else if !strictEq(dst0, dst1) {
			c.Violate("render:"+dir+"-noop-patches-change-target", name, "only filtered / optional-missing patches, but the target changed", w)
		}
	case "musterr":
		if o1.err == nil {
			c.Violate("render:"+dir+"-required-missing-no-error", name, "a required patch with a missing source path rendered without error", w)
		}
	case "failing:Optional", "failing:Required", "failing:unknown":
		if o1.err == nil {
			c.Violate("render:"+dir+"-failing-patch-no-error:"+strings.TrimPrefix(seq, "failing:"), name, "the first effective patch fails (source present; invalid transform input or parameter), yet the rendering returned no error: the resource would be applied half-rendered", w)
		}
	}
}

// rawAsString renders a value holding apiextensions JSON fields whose raw bytes may be
// malformed: it goes through reflection-free formatting of the known witness types.
func rawAsString(v any) any {
	switch t := v.(type) {
	case v1.Patch:
		return patchString(t)
	case []v1.Patch:
		out := make([]string, len(t))
		for i := range t {
			out[i] = patchString(t[i])
		}
		return out
	case v1.Transform:
		return transformString(t)
	case []v1.Transform:
		out := make([]string, len(t))
		for i := range t {
			out[i] = transformString(t[i])
		}
		return out
	}
	return fmt.Sprintf("%+v", v)
}

func transformString(t v1.Transform) string {
	switch {
	case t.Map != nil:
		var sb strings.Builder
		sb.WriteString("map{")
		ks := make([]string, 0, len(t.Map.Pairs))
		for k := range t.Map.Pairs {
			ks = append(ks, k)
		}
		sort.Strings(ks)
		for _, k := range ks {
			fmt.Fprintf(&sb, "%q: raw(%s), ", k, t.Map.Pairs[k].Raw)
		}
		return sb.String() + "}"
	case t.Match != nil:
		var sb strings.Builder
		sb.WriteString("match{")
		for _, p := range t.Match.Patterns {
			lit, rx := "<nil>", "<nil>"
			if p.Literal != nil {
				lit = strconv.Quote(*p.Literal)
			}
			if p.Regexp != nil {
				rx = strconv.Quote(*p.Regexp)
			}
			fmt.Fprintf(&sb, "{type:%s literal:%s regexp:%s result:raw(%s)} ", p.Type, lit, rx, p.Result.Raw)
		}
		fmt.Fprintf(&sb, "fallbackTo:%s fallbackValue:raw(%s)}", t.Match.FallbackTo, t.Match.FallbackValue.Raw)
		return sb.String()
	}
	return kit.JSON(t)
}

func patchString(p v1.Patch) string {
	ts := make([]string, len(p.Transforms))
	for i := range p.Transforms {
		ts[i] = transformString(p.Transforms[i])
	}
	q := p
	q.Transforms = nil
	return kit.JSON(q) + " transforms=" + strings.Join(ts, " | ")
}
