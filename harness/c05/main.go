//go:build verif

// C05: Ready and Synced never overstate the truth, and functions cannot forge them.
// The full product of per-resource outcomes x explicit XR readiness x function-supplied
// conditions (for 1..3 resources) is run through the real XR reconciler (both composers) over
// the simulated API server; the stored status.conditions are checked against one-directional
// implications written from the property statement. Claims are reconciled against XRs in every
// Ready state, also through a stale cache.
package main

import (
	"strings"
	"os"
	"context"
	"fmt"
	"sync"

	"google.golang.org/protobuf/types/known/structpb"
	kerrors "k8s.io/apimachinery/pkg/api/errors"
	"k8s.io/apimachinery/pkg/api/meta"
	"k8s.io/apimachinery/pkg/apis/meta/v1/unstructured"
	"k8s.io/apimachinery/pkg/runtime/schema"
	"k8s.io/apimachinery/pkg/util/validation/field"

	fnv1 "github.com/crossplane/crossplane/apis/apiextensions/fn/proto/v1"
	"github.com/crossplane/crossplane/verifh/kit"
	"github.com/crossplane/crossplane/verifh/sim"
	"github.com/crossplane/crossplane/verifh/xrk"
)

var xrKey = sim.Key{Group: "ex.org", Kind: "XThing", Name: "xr1"}

const forged = "FnForged"

func nopObj(kind, val string) map[string]any {
	return map[string]any{"apiVersion": "nop.ex.org/v1", "kind": kind, "spec": map[string]any{"forProvider": map[string]any{"v": val}}}
}

// rejectAs is the scripted admission with a choice of error class: writes of kind NopInvalid are
// answered 422 Invalid, "no matches for kind" (the kind is not served), 403 or 503.
func rejectAs(class string) sim.AdmitFunc {
	return func(w *sim.World, req *sim.AdmitRequest) error {
		if (req.Key.Kind != "NopInvalid" && sim.Str(req.New, "spec", "forProvider", "v") != "invalid") || req.Operation == "DELETE" {
			return nil
		}
		switch class {
		case "notserved":
			return &meta.NoKindMatchError{GroupKind: schema.GroupKind{Group: req.Key.Group, Kind: req.Key.Kind}, SearchedVersions: []string{"v1"}}
		case "forbidden":
			return kerrors.NewForbidden(schema.GroupResource{Group: req.Key.Group, Resource: "nopinvalids"}, req.Key.Name, fmt.Errorf("scripted admission: forbidden"))
		case "unavailable":
			return kerrors.NewServiceUnavailable("scripted admission: unavailable")
		}
		return rejectInvalid(w, req)
	}
}

// rejectInvalid is the scripted admission: objects of kind NopInvalid are rejected with 422.
func rejectInvalid(_ *sim.World, req *sim.AdmitRequest) error {
	if (req.Key.Kind == "NopInvalid" || sim.Str(req.New, "spec", "forProvider", "v") == "invalid") && req.Operation != "DELETE" {
		return kerrors.NewInvalid(schema.GroupKind{Group: req.Key.Group, Kind: req.Key.Kind}, req.Key.Name,
			field.ErrorList{field.Invalid(field.NewPath("spec", "forProvider"), "x", "scripted admission: invalid resource")})
	}
	return nil
}

type cond struct {
	Type   string `json:"type"`
	Status string `json:"status"`
	Target string `json:"target,omitempty"`
}

func condOf(xr map[string]any, typ string) map[string]any {
	cs, _, _ := unstructured.NestedSlice(xr, "status", "conditions")
	for _, c := range cs {
		if m, ok := c.(map[string]any); ok && m["type"] == typ {
			return m
		}
	}
	return nil
}

type pipeCase struct {
	Ready   []bool `json:"ready"`   // per resource: function says READY_TRUE
	Invalid []bool `json:"invalid"` // per resource: apply is rejected as invalid
	XRReady string `json:"xrReady"` // unset | true | false (what the first step returns)
	// XRReady1: what the second step does to the composite's readiness in the desired state it
	// returns: keep (pass through) | unset (drops it) | true | false. The LAST step's output counts.
	XRReady1 string `json:"xrReadySecondStep,omitempty"`
	Conds   []cond `json:"conds"`   // conditions the function returns
	Fatal   string `json:"fatal,omitempty"` // "", "second-reconcile-step0", "second-reconcile-step1"
	// StatusForge: the function also writes Ready=True / Synced=True (with its own reason) into
	// status.conditions of the desired composite resource it returns
	StatusForge bool `json:"statusForge,omitempty"`
	// PublishFail: the XR asks for a connection secret whose name is taken by a secret another
	// owner controls, so publishing fails after the pipeline and the applies succeeded
	PublishFail bool `json:"publishFail,omitempty"`
	// RejectAs: the error class the API server answers the apply of an "invalid" resource with:
	// "" = 422 Invalid | notserved (no matches for kind) | forbidden | unavailable
	RejectAs string `json:"rejectAs,omitempty"`
	// InvalidLater: the "invalid" resources are composed fine by the first reconcile; from the
	// second on the function asks for a value of theirs that the API server rejects, reconcile
	// after reconcile (the same reconciler, the same desired state, the same answer)
	InvalidLater bool `json:"invalidFromSecondReconcile,omitempty"`
}

type worker struct {
	c   *kit.Ctx
	fns []*xrk.FnServer
	mu  sync.Mutex
	cur *pipeCase
	rec int // reconcile number
	xrd map[string]any
}

func fnConds(cs []cond, rec int) []*fnv1.Condition {
	var out []*fnv1.Condition
	for _, c := range cs {
		st := fnv1.Status_STATUS_CONDITION_TRUE
		switch c.Status {
		case "False":
			st = fnv1.Status_STATUS_CONDITION_FALSE
		case "Unknown":
			st = fnv1.Status_STATUS_CONDITION_UNKNOWN
		}
		msg := fmt.Sprintf("forged by function (reconcile %d)", rec)
		fc := &fnv1.Condition{Type: c.Type, Status: st, Reason: forged, Message: &msg}
		if c.Target == "claim" {
			t := fnv1.Target_TARGET_COMPOSITE_AND_CLAIM
			fc.Target = &t
		}
		out = append(out, fc)
	}
	return out
}

func (w *worker) program(step int, req *fnv1.RunFunctionRequest) (*fnv1.RunFunctionResponse, error) {
	w.mu.Lock()
	p := *w.cur
	rec := w.rec
	w.mu.Unlock()
	d := req.GetDesired()
	if d == nil {
		d = &fnv1.State{}
	}
	if d.Resources == nil {
		d.Resources = map[string]*fnv1.Resource{}
	}
	rsp := &fnv1.RunFunctionResponse{Desired: d}
	fatalHere := (p.Fatal == "second-reconcile-step0" && rec >= 1 && step == 0) || (p.Fatal == "second-reconcile-step1" && rec >= 1 && step == 1)
	if step == 0 {
		for i := range p.Ready {
			kind, val := "NopA", fmt.Sprint(i)
			switch {
			case p.Invalid[i] && !p.InvalidLater:
				kind = "NopInvalid"
			case p.Invalid[i] && rec >= 1:
				val = "invalid"
			}
			s, err := structpb.NewStruct(nopObj(kind, val))
			if err != nil {
				return nil, err
			}
			r := &fnv1.Resource{Resource: s}
			if p.Ready[i] {
				r.Ready = fnv1.Ready_READY_TRUE
			}
			d.Resources[fmt.Sprintf("r%d", i)] = r
		}
		switch p.XRReady {
		case "true":
			d.Composite = &fnv1.Resource{Ready: fnv1.Ready_READY_TRUE}
		case "false":
			d.Composite = &fnv1.Resource{Ready: fnv1.Ready_READY_FALSE}
		}
		if p.PublishFail {
			if d.Composite == nil {
				d.Composite = &fnv1.Resource{}
			}
			d.Composite.ConnectionDetails = map[string][]byte{"k": []byte("v")}
		}
		if p.StatusForge {
			if d.Composite == nil {
				d.Composite = &fnv1.Resource{}
			}
			fc := func(t string) any {
				return map[string]any{"type": t, "status": "True", "reason": forged, "message": "forged by function", "lastTransitionTime": "2020-01-01T00:00:00Z"}
			}
			st, err := structpb.NewStruct(map[string]any{"apiVersion": "ex.org/v1", "kind": "XThing", "status": map[string]any{"conditions": []any{fc("Ready"), fc("Synced")}, "fromFunction": "yes"}})
			if err != nil {
				return nil, err
			}
			d.Composite.Resource = st
		}
		cs := p.Conds
		if rec >= 1 && p.Fatal != "" {
			// in the fatal reconcile only the first custom condition is re-asserted, and only
			// when the fatal result comes from a later step
			cs = nil
			if p.Fatal == "second-reconcile-step1" {
				for _, c := range p.Conds {
					if c.Type == "Custom1" || c.Type == "Ready" || c.Type == "Synced" {
						cs = append(cs, c)
					}
				}
			}
		}
		rsp.Conditions = fnConds(cs, rec)
	}
	if step == 1 {
		switch p.XRReady1 {
		case "unset":
			d.Composite = nil
		case "true":
			d.Composite = &fnv1.Resource{Ready: fnv1.Ready_READY_TRUE}
		case "false":
			d.Composite = &fnv1.Resource{Ready: fnv1.Ready_READY_FALSE}
		}
	}
	if fatalHere {
		rsp.Results = []*fnv1.Result{{Severity: fnv1.Severity_SEVERITY_FATAL, Message: "scripted fatal"}}
	}
	return rsp, nil
}

func newWorker(c *kit.Ctx, id int) *worker {
	w := &worker{c: c}
	for i := 0; i < 2; i++ {
		fs := xrk.Fn(id*2 + i)
		step := i
		fs.Set(func(req *fnv1.RunFunctionRequest) (*fnv1.RunFunctionResponse, error) { return w.program(step, req) })
		w.fns = append(w.fns, fs)
	}
	w.xrd = xrk.XRDObject(xrk.XRDOpts{Group: "ex.org", Kind: "XThing", Plural: "xthings", ClaimKind: "Thing", ClaimPlural: "things"})
	return w
}

func (w *worker) pipeWorld(seed uint64, class string) *sim.World {
	world := sim.NewWorld(xrk.Scheme(), seed)
	world.RequireRV = true // an XR status update without a resourceVersion is refused, as by a real API server
	world.AddAdmission(rejectAs(class))
	world.MustSeed("user", w.xrd)
	var names []string
	for i := 0; i < 2; i++ {
		n := fmt.Sprintf("fn-%d", i)
		names = append(names, n)
		for _, o := range xrk.FunctionObjects(n, w.fns[i].Addr) {
			world.MustSeedFull("pkg", o)
		}
	}
	world.MustSeed("user", xrk.PipelineComposition("comp", "ex.org/v1", "XThing", names, nil))
	if err := xrk.ReconcileComposition(world, "comp"); err != nil {
		panic(err)
	}
	world.MustSeed("user", xrk.XRObject("ex.org/v1", "XThing", "xr1", "comp", map[string]any{"size": int64(1)}))
	return world
}

// checkSystemConditions applies the one-directional implications to the stored XR.
func checkSystemConditions(c *kit.Ctx, name, mode string, xr map[string]any, mayBeReady, mayBeSynced bool, wit func() any) {
	rc, sc := condOf(xr, "Ready"), condOf(xr, "Synced")
	if rc != nil && rc["status"] == "True" && !mayBeReady {
		c.Violate("ready-overstated:"+mode, name, fmt.Sprintf("stored Ready=True (%v) although neither explicitly ready nor all resources ready", rc), wit())
	}
	if sc != nil && sc["status"] == "True" && !mayBeSynced {
		c.Violate("synced-overstated:"+mode, name, fmt.Sprintf("stored Synced=True (%v) although not every desired resource was rendered and applied", sc), wit())
	}
	for _, m := range []map[string]any{rc, sc} {
		if m == nil {
			continue
		}
		if m["reason"] == forged || strings.HasPrefix(fmt.Sprint(m["message"]), "forged by function") {
			c.Violate("system-condition-forged:"+fmt.Sprint(m["type"])+":"+mode, name, fmt.Sprintf("system condition carries the function's reason/message: %v", m), wit())
		}
	}
}

func (w *worker) runPipe(i int, p pipeCase, name string) {
	c := w.c
	w.mu.Lock()
	w.cur = &p
	w.rec = 0
	w.mu.Unlock()
	world := w.pipeWorld(uint64(c.Seed)*131+uint64(i), p.RejectAs)
	if p.PublishFail {
		xr := &unstructured.Unstructured{Object: world.GetObj(xrKey)}
		_ = unstructured.SetNestedMap(xr.Object, map[string]any{"name": "xr-conn", "namespace": "default"}, "spec", "writeConnectionSecretToRef")
		if err := world.Client("user").Update(context.Background(), xr); err != nil {
			panic(err)
		}
		world.MustSeed("someone-else", map[string]any{"apiVersion": "v1", "kind": "Secret", "type": "connection.crossplane.io/v1alpha1",
			"metadata": map[string]any{"name": "xr-conn", "namespace": "default", "ownerReferences": []any{map[string]any{"apiVersion": "v1", "kind": "ConfigMap", "name": "other", "uid": "foreign-uid", "controller": true}}}})
	}
	env := xrk.NewXREnv(world, xrk.XRDTyped(w.xrd))
	defer env.CloseConns()
	allReady, anyInvalid := true, false
	for k := range p.Ready {
		if !p.Ready[k] {
			allReady = false
		}
		if p.Invalid[k] {
			anyInvalid = true
		}
	}
	eff := p.XRReady // the explicit readiness in the final desired state
	if p.XRReady1 != "" && p.XRReady1 != "keep" {
		eff = p.XRReady1
	}
	mayBeReady := eff == "true" || (eff != "false" && allReady)
	wit := func() any {
		return map[string]any{"case": p, "xr_status": world.GetObj(xrKey)["status"], "events": env.Rec.Events(0)}
	}
	nrec := 3
	if p.InvalidLater {
		nrec = 5
	}
	for rec := 0; rec < nrec; rec++ {
		w.mu.Lock()
		w.rec = rec
		w.mu.Unlock()
		_, _, _ = env.Reconcile("xr1")
		xr := world.GetObj(xrKey)
		fatalNow := p.Fatal != "" && rec >= 1
		invalidNow := anyInvalid && (!p.InvalidLater || rec >= 1)
		checkSystemConditions(c, name, "pipeline", xr, mayBeReady && !fatalNow || (fatalNow && mayBeReady), !invalidNow && !fatalNow, wit)
		if p.InvalidLater && rec >= 1 {
			c.Count("reconciles_repeating_a_rejected_update", 1)
			// an apply refused with something other than 422 fails the reconcile after the pipeline
			// ran: a custom condition then either shows what the functions asserted in THIS reconcile
			// or Unknown - never what an earlier reconcile left behind
			if p.RejectAs == "forbidden" || p.RejectAs == "unavailable" || p.RejectAs == "notserved" {
				for _, cd := range p.Conds {
					if cd.Type == "Ready" || cd.Type == "Synced" {
						continue
					}
					got := condOf(xr, cd.Type)
					if got == nil {
						c.Count("custom_condition_absent_after_failed_compose_observed_only", 1)
						continue
					}
					c.Count("custom_conditions_checked_after_failed_compose", 1)
					if got["status"] != "Unknown" && !strings.HasSuffix(fmt.Sprint(got["message"]), fmt.Sprintf("(reconcile %d)", rec)) {
						c.Violate("stale-custom-condition-after-failed-compose", name, fmt.Sprintf("reconcile %d failed after its pipeline ran (composed resource apply refused: %s); custom condition %s is stored as %v - neither Unknown nor what this reconcile's functions asserted", rec, p.RejectAs, cd.Type, got), wit())
					}
				}
			}
		}
		if fatalNow {
			// custom conditions asserted in reconcile 0 and not re-asserted now must be Unknown
			for _, cd := range p.Conds {
				if cd.Type == "Ready" || cd.Type == "Synced" {
					continue
				}
				reasserted := p.Fatal == "second-reconcile-step1" && cd.Type == "Custom1"
				got := condOf(xr, cd.Type)
				if got == nil {
					continue
				}
				if !reasserted && got["status"] != "Unknown" {
					c.Violate("stale-custom-condition-after-fatal", name, fmt.Sprintf("custom condition %s was not re-asserted in the fatal reconcile but is stored as %v", cd.Type, got), wit())
				}
			}
			c.Count("fatal_reconciles", 1)
		}
	}
	nontrivial := !allReady || anyInvalid
	for _, cd := range p.Conds {
		if cd.Type == "Ready" || cd.Type == "Synced" {
			nontrivial = true
		}
	}
	c.Eval("pipe|"+kit.JSON(p), nontrivial)
	c.Count("pipeline_cases", 1)
	if c.WantSample() && nontrivial && i%53 == 0 {
		c.Sample(wit())
	}
}

// ---- P&T ----

type ptCase struct {
	Outcomes []string `json:"outcomes"` // ready | unready | invalid | renderfail
}

func (w *worker) runPT(i int, p ptCase, name string) {
	c := w.c
	world := sim.NewWorld(xrk.Scheme(), uint64(c.Seed)*137+uint64(i))
	world.AddAdmission(rejectInvalid)
	world.MustSeed("user", w.xrd)
	var ts []map[string]any
	rng := c.Rng("pt-checks", i)
	// readiness checks with a known verdict on the base object below
	passing := func(k int) []map[string]any {
		return []map[string]any{
			{"type": "None"},
			{"type": "MatchString", "fieldPath": "spec.forProvider.v", "matchString": fmt.Sprint(k)},
			{"type": "NonEmpty", "fieldPath": "spec.forProvider.v"},
			{"type": "MatchTrue", "fieldPath": "spec.forProvider.on"},
			{"type": "MatchFalse", "fieldPath": "spec.forProvider.off"},
			{"type": "MatchInteger", "fieldPath": "spec.forProvider.n", "matchInteger": int64(7)},
		}
	}
	failing := []map[string]any{
		{"type": "MatchString", "fieldPath": "spec.forProvider.v", "matchString": "never-matches"},
		{"type": "NonEmpty", "fieldPath": "spec.forProvider.absent"},
		{"type": "MatchTrue", "fieldPath": "spec.forProvider.off"},
		{"type": "MatchFalse", "fieldPath": "spec.forProvider.on"},
		{"type": "MatchInteger", "fieldPath": "spec.forProvider.n", "matchInteger": int64(8)},
		{"type": "MatchCondition", "matchCondition": map[string]any{"type": "Ready", "status": "False"}},
	}
	for k, o := range p.Outcomes {
		base := nopObj("NopA", fmt.Sprint(k))
		fp := base["spec"].(map[string]any)["forProvider"].(map[string]any)
		fp["on"], fp["off"], fp["n"] = true, false, int64(7)
		// a list of 1..3 checks, every one passing
		var checks []any
		for n := 1 + rng.IntN(3); n > 0; n-- {
			ps := passing(k)
			checks = append(checks, ps[rng.IntN(len(ps))])
		}
		t := map[string]any{"name": fmt.Sprintf("r%d", k), "base": base, "readinessChecks": checks}
		switch o {
		case "unready":
			// ... except one, at a random position
			bad := failing[rng.IntN(len(failing))]
			at := rng.IntN(len(checks) + 1)
			checks = append(checks[:at:at], append([]any{bad}, checks[at:]...)...)
			if rng.IntN(4) == 0 {
				checks = []any{bad}
			}
			t["readinessChecks"] = checks
		case "invalid":
			t["base"] = nopObj("NopInvalid", fmt.Sprint(k))
		case "renderfail":
			t["patches"] = []any{map[string]any{"type": "FromCompositeFieldPath", "fromFieldPath": "spec.missing", "toFieldPath": "spec.forProvider.p", "policy": map[string]any{"fromFieldPath": "Required"}}}
			if rng.IntN(2) == 0 {
				// the same failure through a Required combine patch one of whose variables is missing
				t["patches"] = []any{map[string]any{"type": "CombineFromComposite", "toFieldPath": "spec.forProvider.p", "policy": map[string]any{"fromFieldPath": "Required"},
					"combine": map[string]any{"strategy": "string", "string": map[string]any{"fmt": "%v-%v"}, "variables": []any{map[string]any{"fromFieldPath": "spec.size"}, map[string]any{"fromFieldPath": "spec.missing"}}}}}
			}
		}
		if usesSet := rng.IntN(3) == 0; usesSet || k == 0 {
			// the template also pulls in a shared PatchSet (inlined by Crossplane before rendering)
			ps, _ := t["patches"].([]any)
			t["patches"] = append([]any{map[string]any{"type": "PatchSet", "patchSetName": "common"}}, ps...)
		}
		ts = append(ts, t)
	}
	comp := xrk.ResourcesComposition("comp", "ex.org/v1", "XThing", ts)
	_ = unstructured.SetNestedSlice(comp, []any{map[string]any{"name": "common", "patches": []any{
		map[string]any{"type": "FromCompositeFieldPath", "fromFieldPath": "spec.size", "toFieldPath": "spec.forProvider.size"}}}}, "spec", "patchSets")
	world.MustSeed("user", comp)
	if err := xrk.ReconcileComposition(world, "comp"); err != nil {
		panic(err)
	}
	world.MustSeed("user", xrk.XRObject("ex.org/v1", "XThing", "xr1", "comp", map[string]any{"size": int64(1)}))
	env := xrk.NewXREnv(world, xrk.XRDTyped(w.xrd))
	allReady, allSynced := true, true
	for _, o := range p.Outcomes {
		if o != "ready" {
			allReady = false
		}
		if o == "invalid" || o == "renderfail" {
			allSynced = false
		}
	}
	wit := func() any {
		return map[string]any{"case": p, "xr_status": world.GetObj(xrKey)["status"], "events": env.Rec.Events(0)}
	}
	for rec := 0; rec < 3; rec++ {
		_, _, _ = env.Reconcile("xr1")
		checkSystemConditions(c, name, "pt", world.GetObj(xrKey), allReady, allSynced, wit)
		// the provider reports every composed resource Ready=True (what the default readiness check
		// looks at); the templates' own checks decide all the same
		prov := world.Client("provider")
		for _, o := range world.Snapshot() {
			if !strings.HasPrefix(sim.Str(o, "apiVersion"), "nop.ex.org/") {
				continue
			}
			u := &unstructured.Unstructured{Object: o}
			_ = unstructured.SetNestedSlice(u.Object, []any{map[string]any{"type": "Ready", "status": "True", "reason": "Available", "lastTransitionTime": "2024-01-01T00:00:00Z"}}, "status", "conditions")
			_ = prov.Status().Update(context.Background(), u)
		}
	}
	// the user edits the XR (spec.size, which the shared PatchSet copies into the composed resources)
	// and the next reconcile finds the composed kinds missing from the controller's cache: if it
	// reports Synced=True, the composed resources carry the new value - they were applied
	{
		u := &unstructured.Unstructured{Object: world.GetObj(xrKey)}
		_ = unstructured.SetNestedField(u.Object, int64(2), "spec", "size")
		if err := world.Client("user").Update(context.Background(), u); err == nil {
			cached := world.LaggingClient("xr", func(gk schema.GroupKind) (int64, bool) { return 1 << 40, gk.Group == "nop.ex.org" })
			env2 := xrk.NewXREnvSplit(world, xrk.XRDTyped(w.xrd), cached, world.Client("xr"))
			_, _, _ = env2.Reconcile("xr1")
			env2.CloseConns()
			c.Count("pt_reconciles_with_composed_kinds_missing_from_cache", 1)
			if sc := condOf(world.GetObj(xrKey), "Synced"); sc != nil && sc["status"] == "True" {
				for _, o := range world.Snapshot() {
					if !strings.HasPrefix(sim.Str(o, "apiVersion"), "nop.ex.org/") {
						continue
					}
					if _, has, _ := unstructured.NestedFieldNoCopy(o, "spec", "forProvider", "size"); !has {
						continue // its template does not copy spec.size
					}
					if n, _, _ := unstructured.NestedInt64(o, "spec", "forProvider", "size"); n != 2 {
						c.Violate("synced-overstated:pt:composed-kinds-missing-from-cache", name, fmt.Sprintf("the XR's spec.size was set to 2 and the reconcile that followed (composed kinds missing from its cache) reports Synced=True, but composed resource %s still has spec.forProvider.size=%d: it was not applied", sim.Str(o, "metadata", "name"), n), wit())
						break
					}
				}
			}
		}
	}
	c.Eval("pt|"+kit.JSON(p), !allReady)
	c.Count("pt_cases", 1)
	if c.WantSample() && !allSynced && i%17 == 0 {
		c.Sample(wit())
	}
}

// ---- claim readiness ----

func (w *worker) runClaim(i int, name string) {
	c := w.c
	r := c.Rng("claim", i)
	ssa := i%2 == 1
	mode := map[bool]string{false: "csa", true: "ssa"}[ssa]
	world := sim.NewWorld(xrk.Scheme(), uint64(c.Seed)*139+uint64(i))
	world.MustSeed("user", w.xrd)
	xr := xrk.XRObject("ex.org/v1", "XThing", "static-xr", "", map[string]any{
		"claimRef": map[string]any{"apiVersion": "ex.org/v1", "kind": "Thing", "namespace": "ns1", "name": "c1"}})
	world.MustSeed("user", xr)
	cm := xrk.ClaimObject("ex.org/v1", "Thing", "ns1", "c1", map[string]any{"resourceRef": map[string]any{"apiVersion": "ex.org/v1", "kind": "XThing", "name": "static-xr"}})
	world.MustSeed("user", cm)
	xrk.EstablishCRDs(world)
	xk := sim.Key{Group: "ex.org", Kind: "XThing", Name: "static-xr"}
	ck := sim.Key{Group: "ex.org", Kind: "Thing", Namespace: "ns1", Name: "c1"}
	// the monitor: a claim status write that stores Ready=True must follow, within the same
	// reconcile, an XR read that was served Ready=True
	var lastServedReady *bool
	var violated string
	var finalReady, finalObs, finalSeen bool
	var finalEv string
	world.AddHook(func(_ *sim.View, ev *sim.Event) {
		if ev.Actor != "claim" {
			return
		}
		if ev.Call == 0 {
			lastServedReady = nil
			finalSeen = false
		}
		// the reconcile observes the XR through its read AND through the object the server returns
		// for its own apply/patch/update of the XR (the SSA syncer continues with that response)
		if ev.Key == xk && ev.After != nil && ev.Err == "" && (ev.Verb == "get" || ev.IsWrite()) {
			rc := condOf(ev.After, "Ready")
			b := rc != nil && rc["status"] == "True"
			lastServedReady = &b
		}
		if ev.Key == ck && ev.Changed && ev.After != nil {
			rc := condOf(ev.After, "Ready")
			if rc != nil && rc["status"] == "True" && (lastServedReady == nil || !*lastServedReady) && violated == "" {
				violated = fmt.Sprintf("%s stores claim Ready=True but the latest observation of the XR in this reconcile was not Ready=True", ev.Short())
			}
		}
		// the LAST status write of a reconcile is its verdict, also when it leaves Ready=True as it was
		if ev.Key == ck && ev.After != nil && ev.Err == "" && ev.IsWrite() && ev.Sub == "status" {
			rc := condOf(ev.After, "Ready")
			finalReady = rc != nil && rc["status"] == "True"
			finalObs = lastServedReady != nil && *lastServedReady
			finalEv = ev.Short()
			finalSeen = true
		}
	})
	// the claim controller reads XRs through a cache; in a "stale" step the cache still holds the
	// XR as it was before the XR controller's latest status write (frozen), otherwise it is current
	lag := int64(r.IntN(6))
	var frozen int64
	lc := world.LaggingClient("claim", func(gk schema.GroupKind) (int64, bool) {
		if gk.Kind == "XThing" && frozen > 0 {
			return -frozen, true
		}
		return 0, false
	})
	ce := xrk.NewClaimEnvWithClient(world, "xthings.ex.org", ssa, lc)
	xrc := world.Client("xrctl")
	steps := 4 + r.IntN(4)
	var states []string
	for s := 0; s < steps; s++ {
		st := []string{"True", "False", "none"}[r.IntN(3)]
		states = append(states, st)
		u := &unstructured.Unstructured{Object: world.GetObj(xk)}
		if st == "none" {
			unstructured.RemoveNestedField(u.Object, "status", "conditions")
		} else {
			_ = unstructured.SetNestedSlice(u.Object, []any{map[string]any{"type": "Ready", "status": st, "reason": "Scripted", "lastTransitionTime": "2024-01-01T00:00:00Z"}}, "status", "conditions")
		}
		frozen = 0
		if lag > 0 && s > 0 && r.IntN(2) == 0 {
			frozen = world.RV() // the cache has not seen the status write below yet
			st += "(cache stale)"
			states[len(states)-1] = st
		}
		if err := xrc.Status().Update(context.Background(), u); err != nil {
			panic(err)
		}
		lf := world.LogLen()
		_, rerr, crashed := ce.Reconcile("ns1", "c1")
		if os.Getenv("DBG") != "" {
			fmt.Println("step", s, "xr state", st, "lag", lag, "err", rerr, "lastServed", lastServedReady != nil && *lastServedReady, "claim", condOf(world.GetObj(ck), "Ready"))
			for _, e := range world.Log(lf) {
				rc := condOf(e.After, "Ready")
				fmt.Println("   ", e.Short(), e.Note, "after.ready=", rc != nil && rc["status"] == "True")
			}
		}
		_, _ = rerr, crashed
		if finalSeen && finalReady && !finalObs && violated == "" {
			violated = fmt.Sprintf("step %d: %s is the reconcile's last claim status write and leaves Ready=True although the latest observation of the XR before it was not Ready=True", s, finalEv)
		}
		// claim Ready must also never be True while no XR read ever returned True
	}
	if violated != "" {
		c.Violate("claim-ready-without-observing-xr-ready:"+mode, name, violated, map[string]any{"states": states, "lag": lag})
	}
	c.Eval(fmt.Sprintf("claim|%s|%d|%v", mode, lag, states), true)
	c.Count("claim_cases", 1)
	c.Count("claim_reconciles", int64(steps))
}

func main() {
	c := kit.New("C05", "exploration")
	c.Rule = "FULL PRODUCT for 1..3 resources of per-resource outcome (function ready flag x apply rejected as invalid by scripted admission) x explicit XR readiness {unset,true,false} x function conditions (none; system types Ready/Synced forged True with custom reason; custom types with claim target) x fatal variants, run 3 reconciles each through the real XR reconciler in Pipeline mode; P&T: full product of {ready, unready, invalid apply, render failure} for 1..3 templates; claims reconciled (both syncers) against an XR whose Ready condition is scripted through random True/False/absent sequences, read fresh or through a cache lagging 1..5 writes. Oracle: Ready=True => explicit-ready or (not explicit-unready and all ready); Synced=True => everything rendered and applied in that reconcile; system conditions never carry the function's reason/message; custom conditions not re-asserted in a fatal reconcile are Unknown; a claim Ready=True write follows an XR read served Ready=True in the same reconcile. distinct = the case; non-trivial = some resource not ready / not synced or a system-typed function condition."
	c.Rule += " P&T readiness: every template carries a list of 1-3 readiness checks drawn from all seven types with a known verdict; an unready one has exactly one failing check at a random position."
	c.Rule += " " + "A rejected apply is answered 422, no-matches-for-kind, 403 or 503."
	c.Rule += " " + "P&T templates referencing a PatchSet, provider-reported Ready=True on composed resources, Required combine patches; functions forging conditions through the desired XR status combined with a failing connection publish."
	c.Rule += " " + "P&T: an XR edit followed by a reconcile whose cache misses the composed kinds: Synced=True only with the new value applied."
	c.Rule += " " + "Resources composed fine at first whose update is rejected from the second reconcile on, four times in a row by the same reconciler."
	c.Assumptions = []string{"sim admission returns 422 Invalid for kind NopInvalid", "functions are scripted gRPC servers"}
	c.Floor = 100
	c.Exhaustive(true)

	var pipes []pipeCase
	condVariants := [][]cond{
		nil,
		{{Type: "Ready", Status: "True"}, {Type: "Synced", Status: "True"}},
		{{Type: "Custom1", Status: "True", Target: "claim"}, {Type: "Custom2", Status: "False"}},
		{{Type: "Ready", Status: "True", Target: "claim"}, {Type: "Custom1", Status: "True"}},
	}
	for n := 1; n <= 3; n++ {
		for mask := 0; mask < 1<<(2*n); mask++ {
			p := pipeCase{}
			for k := 0; k < n; k++ {
				p.Ready = append(p.Ready, mask>>(2*k)&1 == 1)
				p.Invalid = append(p.Invalid, mask>>(2*k+1)&1 == 1)
			}
			for _, xr := range []string{"unset", "true", "false"} {
				for ci, cv := range condVariants {
					q := p
					q.XRReady = xr
					q.Conds = cv
					q.XRReady1 = []string{"keep", "unset", "true", "false", "keep", "unset"}[len(pipes)%6]
					q.RejectAs = []string{"", "notserved", "", "forbidden", "notserved", "unavailable", ""}[len(pipes)%7]
					q.StatusForge = len(pipes)%5 == 2
					q.PublishFail = len(pipes)%3 == 1
					pipes = append(pipes, q)
					if ci >= 1 && n <= 2 {
						for _, f := range []string{"second-reconcile-step0", "second-reconcile-step1"} {
							qf := q
							qf.Fatal = f
							pipes = append(pipes, qf)
						}
					}
				}
			}
		}
	}
	for k, n := 0, len(pipes); k < n; k++ {
		any := false
		for _, b := range pipes[k].Invalid {
			any = any || b
		}
		if any && pipes[k].Fatal == "" && !pipes[k].PublishFail && k%3 == 0 {
			q := pipes[k]
			q.InvalidLater = true
			pipes = append(pipes, q)
		}
	}
	var pts []ptCase
	outs := []string{"ready", "unready", "invalid", "renderfail"}
	for n := 1; n <= 3; n++ {
		total := 1
		for k := 0; k < n; k++ {
			total *= 4
		}
		for m := 0; m < total; m++ {
			p := ptCase{}
			x := m
			for k := 0; k < n; k++ {
				p.Outcomes = append(p.Outcomes, outs[x%4])
				x /= 4
			}
			pts = append(pts, p)
		}
	}
	nclaims := c.N(200, 4000)

	type job struct {
		kind string
		i    int
	}
	ch := make(chan job)
	var wg sync.WaitGroup
	for wk := 0; wk < 8; wk++ {
		wg.Add(1)
		go func(wk int) {
			defer wg.Done()
			w := newWorker(c, wk)
			for j := range ch {
				name := fmt.Sprintf("%s/%d", j.kind, j.i)
				if !c.Want(name) {
					continue
				}
				err := kit.Try(func() {
					switch j.kind {
					case "pipe":
						w.runPipe(j.i, pipes[j.i], name)
					case "pt":
						w.runPT(j.i, pts[j.i], name)
					case "claim":
						w.runClaim(j.i, name)
					}
				})
				if err != nil {
					c.Violate("panic", name, err.Error(), nil)
				}
			}
		}(wk)
	}
	for i := range pipes {
		ch <- job{"pipe", i}
	}
	for i := range pts {
		ch <- job{"pt", i}
	}
	for i := 0; i < nclaims; i++ {
		ch <- job{"claim", i}
	}
	close(ch)
	wg.Wait()
	c.Finish()
}
