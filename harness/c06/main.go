//go:build verif

// C06: a claim binds exactly one XR and never hijacks another claim's XR.
// The production-wired claim reconciler (captured from the real offered reconciler, both
// syncers) runs over the simulated API server under (a) a fault at every API-call index x six
// outcomes followed by retries, (b) stale cached reads of the claim, (c) seeded interleavings
// at API-call granularity with the XR reconciler, another claim's reconciler and user deletion,
// (d) statically referenced XRs bound to another claim. A post-write hook checks the
// invariants on every store state.
package main

import (
	"context"
	"fmt"
	"os"
	"strings"
	"sync"

	"k8s.io/apimachinery/pkg/apis/meta/v1/unstructured"
	"k8s.io/apimachinery/pkg/runtime"
	"k8s.io/apimachinery/pkg/runtime/schema"

	"github.com/crossplane/crossplane/verifh/kit"
	"github.com/crossplane/crossplane/verifh/sim"
	"github.com/crossplane/crossplane/verifh/xrk"
)

var (
	xrGK    = schema.GroupKind{Group: "ex.org", Kind: "XThing"}
	claimGK = schema.GroupKind{Group: "ex.org", Kind: "Thing"}
)

const xrdName = "xthings.ex.org"

func nop(kind, val string) map[string]any {
	return map[string]any{"apiVersion": "nop.ex.org/v1", "kind": kind, "spec": map[string]any{"forProvider": map[string]any{"v": val}}}
}

func baseWorld(seed uint64) *sim.World {
	w := sim.NewWorld(xrk.Scheme(), seed)
	w.MustSeed("user", xrk.XRDObject(xrk.XRDOpts{Group: "ex.org", Kind: "XThing", Plural: "xthings", ClaimKind: "Thing", ClaimPlural: "things"}))
	w.MustSeed("user", xrk.ResourcesComposition("comp", "ex.org/v1", "XThing", []map[string]any{{"name": "a", "base": nop("NopA", "1")}}))
	if err := xrk.ReconcileComposition(w, "comp"); err != nil {
		panic(err)
	}
	return w
}

func claimObj(ns, name string) map[string]any {
	return xrk.ClaimObject("ex.org/v1", "Thing", ns, name, map[string]any{"size": int64(3), "compositionRef": map[string]any{"name": "comp"}})
}

func claimKey(ns, name string) sim.Key {
	return sim.Key{Group: "ex.org", Kind: "Thing", Namespace: ns, Name: name}
}

// monitor checks the C06 invariants on every store state. actorClaim maps a claim
// controller's actor name to the claim it reconciles.
type monitor struct {
	actorClaim map[string]sim.Key
	keys       []string
	whats      []string
	checks     int
	// names used by XR creates/applies per claim actor
	xrNames map[string]map[string]bool
}

func newMonitor() *monitor {
	return &monitor{actorClaim: map[string]sim.Key{}, xrNames: map[string]map[string]bool{}}
}

func (m *monitor) add(key, what string) {
	for _, k := range m.keys {
		if k == key {
			return
		}
	}
	m.keys = append(m.keys, key)
	m.whats = append(m.whats, what)
}

func claimRefOf(xr map[string]any) (ns, name string, ok bool) {
	ref, found, _ := unstructured.NestedMap(xr, "spec", "claimRef")
	if !found {
		return "", "", false
	}
	return sim.Str(ref, "namespace"), sim.Str(ref, "name"), true
}

func (m *monitor) hook(v *sim.View, ev *sim.Event) {
	ck, isClaimActor := m.actorClaim[ev.Actor]
	// O3: no mutating call addressed to an XR whose stored claimRef names a different claim
	// (a Create answered AlreadyExists cannot have touched the stored XR: it is how a claim whose XR
	// cache lags finds out that the name is taken; neither can a write the SERVER refused because
	// the resourceVersion it was pinned to is not the stored one - that precondition is how a claim
	// that decided on a stale XR is kept from writing)
	if isClaimActor && ev.Key.GK() == xrGK && ev.IsWrite() && !ev.DryRun && ev.Injected != sim.CrashBefore.String() && !(ev.Verb == "create" && ev.Reason == "AlreadyExists") &&
		!(ev.Injected == "" && ev.Reason == "Conflict" && !ev.Changed) {
		var before map[string]any
		if ev.Before != nil {
			before = ev.Before
		} else if ev.Err != "" {
			before = v.Get(ev.Key) // rejected request: look at what is stored
		}
		if before != nil {
			if ns, n, ok := claimRefOf(before); ok && (ns != ck.Namespace || n != ck.Name) {
				m.add("O3-write-to-foreign-bound-xr:"+ev.Verb, fmt.Sprintf("%s: the XR's stored claimRef is %s/%s but the actor reconciles %s/%s", ev.Short(), ns, n, ck.Namespace, ck.Name))
			}
		}
	}
	// O2: an XR is only ever created under the name durably recorded on the claim
	if isClaimActor && ev.Key.GK() == xrGK && ev.Changed && ev.Before == nil && ev.After != nil {
		cm := v.Get(ck)
		ref := sim.Str(cm, "spec", "resourceRef", "name")
		if cm != nil && ref != ev.Key.Name {
			m.add("O2-xr-created-before-ref-persisted", fmt.Sprintf("%s: XR created under %q but the stored claim's spec.resourceRef.name is %q", ev.Short(), ev.Key.Name, ref))
		}
		if m.xrNames[ev.Actor] == nil {
			m.xrNames[ev.Actor] = map[string]bool{}
		}
		m.xrNames[ev.Actor][ev.Key.Name] = true
	}
	// O4: a name durably recorded on the claim is reused, never replaced by another one
	if isClaimActor && ev.Key == ck && ev.Changed && ev.Before != nil && ev.After != nil {
		was, is := sim.Str(ev.Before, "spec", "resourceRef", "name"), sim.Str(ev.After, "spec", "resourceRef", "name")
		if was != "" && is != "" && was != is {
			m.add("O4-recorded-xr-name-replaced", fmt.Sprintf("%s: the claim's stored spec.resourceRef.name was %q and is now %q", ev.Short(), was, is))
		}
	}
	if !ev.Changed {
		return
	}
	m.checks++
	// O1: at most one XR exists per claim at every instant
	per := map[string][]string{}
	for _, xr := range v.List(xrGK) {
		ls, _, _ := unstructured.NestedStringMap(xr, "metadata", "labels")
		if ls["crossplane.io/claim-name"] != "" {
			id := ls["crossplane.io/claim-namespace"] + "/" + ls["crossplane.io/claim-name"]
			per[id] = append(per[id], sim.Str(xr, "metadata", "name"))
		}
	}
	for id, xs := range per {
		if len(xs) > 1 {
			m.add("O1-more-than-one-xr-for-claim", fmt.Sprintf("after %s: claim %s has %d XRs: %v", ev.Short(), id, len(xs), xs))
		}
	}
}

type result struct {
	trace []string
}

func shortLog(w *sim.World, from int, max int) []string {
	var out []string
	for _, e := range w.Log(from) {
		out = append(out, e.Short())
		if len(out) >= max {
			break
		}
	}
	return out
}

func report(c *kit.Ctx, m *monitor, mode, caseName string, witness func() any) {
	for i, k := range m.keys {
		c.Violate(k+":"+mode, caseName, m.whats[i], witness())
	}
}

// settle reconciles the claim (and its XRs) until a claim reconcile makes no effective write.
func settle(ce *xrk.ClaimEnv, xe *xrk.XREnv, ns, name string, withXR bool, max int) {
	w := ce.W
	for i := 0; i < max; i++ {
		from := w.LogLen()
		_, _, _ = ce.Reconcile(ns, name)
		if withXR {
			for _, xr := range w.ListObjs(xrGK) {
				_, _, _ = xe.Reconcile(sim.Str(xr, "metadata", "name"))
			}
		}
		changed := false
		for _, e := range w.Log(from) {
			if e.Changed {
				changed = true
			}
		}
		if !changed {
			return
		}
	}
}

// ---- (a) fault enumeration ----

func faultEnumeration(c *kit.Ctx, ssa bool) {
	mode := map[bool]string{false: "csa", true: "ssa"}[ssa]
	base := baseWorld(uint64(c.Seed)*31 + 1)
	base.MustSeed("user", claimObj("ns1", "c1"))
	// fault-free run: snapshots before each claim reconcile
	type snap struct {
		w     *sim.World
		calls int
	}
	var snaps []snap
	{
		w := base.Clone()
		ce := xrk.NewClaimEnv(w, xrdName, ssa)
		xe := xrk.NewXREnv(w, ce.XRD)
		for i := 0; i < 4; i++ {
			snaps = append(snaps, snap{w: w.Clone()})
			_, _, _ = ce.Reconcile("ns1", "c1")
			snaps[len(snaps)-1].calls = ce.C.Calls()
			for _, xr := range w.ListObjs(xrGK) {
				_, _, _ = xe.Reconcile(sim.Str(xr, "metadata", "name"))
			}
		}
	}
	var mu sync.Mutex
	var wg sync.WaitGroup
	sem := make(chan struct{}, 8)
	for si, sn := range snaps {
		for k := 0; k < sn.calls; k++ {
			for _, out := range sim.EnumFaults {
				caseName := fmt.Sprintf("fault/%s/r%d/k%d/%s", mode, si, k, out)
				if !c.Want(caseName) {
					continue
				}
				wg.Add(1)
				sem <- struct{}{}
				go func(si, k int, out sim.Outcome, sn snap) {
					defer wg.Done()
					defer func() { <-sem }()
					w := sn.w.Clone()
					m := newMonitor()
					m.actorClaim["claim"] = claimKey("ns1", "c1")
					w.AddHook(m.hook)
					ce := xrk.NewClaimEnv(w, xrdName, ssa)
					xe := xrk.NewXREnv(w, ce.XRD)
					from := w.LogLen()
					ce.C.Fault(k, out)
					_, err, crashed := ce.Reconcile("ns1", "c1")
					ce.C.ClearFaults()
					// was the fault between the claim update that records the reference and the XR apply?
					between := false
					refWritten := false
					for _, e := range w.Log(from) {
						if e.Actor != "claim" {
							continue
						}
						if e.Key.GK() == claimGK && e.Changed && e.After != nil && sim.Str(e.After, "spec", "resourceRef", "name") != "" {
							refWritten = true
						}
						if e.Injected != "" && (refWritten || (e.Key.GK() == claimGK && e.IsWrite())) {
							between = true
						}
					}
					settle(ce, xe, "ns1", "c1", true, 6)
					xrs := w.ListObjs(xrGK)
					if len(xrs) != 1 {
						m.add("O1-not-exactly-one-xr-after-retries", fmt.Sprintf("after fault %s at call %d (err=%v crashed=%v) and fault-free retries %d XRs exist", out, k, err, crashed, len(xrs)))
					}
					mu.Lock()
					c.Eval(caseName, between || crashed)
					c.Count("fault_executions", 1)
					c.Count("invariant_evaluations", int64(m.checks))
					if between {
						c.Count("faults_between_ref_update_and_xr_apply", 1)
					}
					report(c, m, mode, caseName, func() any {
						return map[string]any{"mode": mode, "snapshot": si, "call": k, "outcome": out.String(), "trace": shortLog(w, from, 80)}
					})
					if c.WantSample() && between && out == sim.CrashAfter {
						c.Sample(map[string]any{"case": caseName, "trace": shortLog(w, from, 30)})
					}
					mu.Unlock()
				}(si, k, out, sn)
			}
		}
	}
	wg.Wait()
}

// ---- (b) stale cached reads of the claim ----

func staleReads(c *kit.Ctx, ssa bool) {
	mode := map[bool]string{false: "csa", true: "ssa"}[ssa]
	for steps := 1; steps <= 3; steps++ {
		for lag := int64(1); lag <= 12; lag++ {
			caseName := fmt.Sprintf("stale/%s/after%d/lag%d", mode, steps, lag)
			if !c.Want(caseName) {
				continue
			}
			w := baseWorld(uint64(c.Seed)*37 + uint64(lag))
			w.MustSeed("user", claimObj("ns1", "c1"))
			m := newMonitor()
			m.actorClaim["claim"] = claimKey("ns1", "c1")
			w.AddHook(m.hook)
			fresh := xrk.NewClaimEnv(w, xrdName, ssa)
			xe := xrk.NewXREnv(w, fresh.XRD)
			for i := 0; i < steps; i++ {
				_, _, _ = fresh.Reconcile("ns1", "c1")
				for _, xr := range w.ListObjs(xrGK) {
					_, _, _ = xe.Reconcile(sim.Str(xr, "metadata", "name"))
				}
			}
			// now the controller's cache lags the store by `lag` writes for claims (and, in a
			// second variant, for XRs too)
			for variant := 0; variant < 4; variant++ {
				// variant 3: only the XR cache lags (the claim is current): the referenced XR cannot be read yet
				// variant 2: the cache catches up after serving ONE stale claim read (a second read
				// within the same reconcile, e.g. a re-Get after a conflict, sees the current claim)
				served := 0
				lc := w.LaggingClient("claim", func(gk schema.GroupKind) (int64, bool) {
					if variant == 2 {
						if gk == claimGK && served == 0 {
							served++
							return lag, true
						}
						return 0, false
					}
					if variant == 3 {
						return lag, gk == xrGK
					}
					if gk == claimGK || (variant == 1 && gk == xrGK) {
						return lag, true
					}
					return 0, false
				})
				stale := xrk.NewClaimEnvWithClient(w, xrdName, ssa, lc)
				from := w.LogLen()
				_, _, _ = stale.Reconcile("ns1", "c1")
				_, _, _ = stale.Reconcile("ns1", "c1")
				sawStale := false
				for _, e := range w.Log(from) {
					if strings.HasPrefix(e.Note, "lag=") {
						sawStale = true
					}
				}
				settle(fresh, xe, "ns1", "c1", true, 4)
				if n := len(w.ListObjs(xrGK)); n != 1 {
					m.add("O1-not-exactly-one-xr-after-stale-read", fmt.Sprintf("stale claim read (lag %d, variant %d) after %d reconciles: %d XRs exist", lag, variant, steps, n))
				}
				c.Eval(fmt.Sprintf("%s/v%d", caseName, variant), sawStale)
				c.Count("stale_read_executions", 1)
				report(c, m, mode, caseName, func() any {
					return map[string]any{"mode": mode, "lag": lag, "variant": variant, "trace": shortLog(w, from, 80)}
				})
			}
			c.Count("invariant_evaluations", int64(m.checks))
		}
	}
}

// ---- (b2) the claim is gone, the controller's claim cache has not noticed ----

// deletedBehindCache: a bound claim is deleted and fully finalized (its XR is gone too) while the
// claim controller's cache of claims is frozen at a state before the deletion. A reconcile served
// from that cache is still bound by O1, O2 and O4 (at most one XR, created under the recorded name only).
func deletedBehindCache(c *kit.Ctx, ssa bool) {
	mode := map[bool]string{false: "csa", true: "ssa"}[ssa]
	for steps := 1; steps <= 3; steps++ {
		caseName := fmt.Sprintf("deleted-behind-cache/%s/after%d", mode, steps)
		if !c.Want(caseName) {
			continue
		}
		w := baseWorld(uint64(c.Seed)*41 + uint64(steps))
		w.MustSeed("user", claimObj("ns1", "c1"))
		m := newMonitor()
		m.actorClaim["claim"] = claimKey("ns1", "c1")
		w.AddHook(m.hook)
		fresh := xrk.NewClaimEnv(w, xrdName, ssa)
		xe := xrk.NewXREnv(w, fresh.XRD)
		for i := 0; i < steps; i++ {
			_, _, _ = fresh.Reconcile("ns1", "c1")
			for _, xr := range w.ListObjs(xrGK) {
				_, _, _ = xe.Reconcile(sim.Str(xr, "metadata", "name"))
			}
		}
		frozen := w.RV()
		// the user deletes the claim; the controllers finalize it and its XR
		if o := w.GetObj(claimKey("ns1", "c1")); o != nil {
			_ = w.Client("user").Delete(context.Background(), &unstructured.Unstructured{Object: o})
		}
		for i := 0; i < 6 && (w.GetObj(claimKey("ns1", "c1")) != nil || len(w.ListObjs(xrGK)) > 0); i++ {
			_, _, _ = fresh.Reconcile("ns1", "c1")
			for _, xr := range w.ListObjs(xrGK) {
				_, _, _ = xe.Reconcile(sim.Str(xr, "metadata", "name"))
			}
			w.GCRun(20)
		}
		gone := w.GetObj(claimKey("ns1", "c1")) == nil && len(w.ListObjs(xrGK)) == 0
		lc := w.LaggingClient("claim", func(gk schema.GroupKind) (int64, bool) { return -frozen, gk == claimGK })
		stale := xrk.NewClaimEnvWithClient(w, xrdName, ssa, lc)
		from := w.LogLen()
		for i := 0; i < 2; i++ {
			_, _, _ = stale.Reconcile("ns1", "c1")
		}
		// Not judged: whether an XR comes back for the vanished claim. The client-side syncer of the
		// unchanged tree re-creates it (under the recorded name) in this situation; the property only
		// bounds the number of XRs per claim and fixes the name, which O1/O2/O4 keep checking here.
		if n := len(w.ListObjs(xrGK)); gone && n > 0 {
			c.Count("deleted_behind_cache_xr_recreated_under_recorded_name_observed_only", 1)
		}
		c.Eval(caseName, gone)
		c.Count("deleted_behind_cache_executions", 1)
		report(c, m, mode, caseName, func() any {
			return map[string]any{"mode": mode, "reconciles_before_deletion": steps, "claim_and_xr_were_gone": gone, "trace": shortLog(w, from, 60)}
		})
	}
}

// ---- (b3) the XRD's referenceable version changes under a bound claim ----

// versionSwitch: a claim is bound while the XRD's referenceable XR version is v1; the author then
// makes v2 the referenceable version (both stay served) and the claim controller is restarted for
// it, as the offered reconciler does. The claim must keep its XR: same name, no second XR.
func versionSwitch(c *kit.Ctx, ssa bool) {
	mode := map[bool]string{false: "csa", true: "ssa"}[ssa]
	for steps := 0; steps <= 3; steps++ {
		caseName := fmt.Sprintf("version-switch/%s/after%d", mode, steps)
		// steps == 0: one claim reconcile, then the XR disappears (it was never reconciled, so it has
		// no finalizer) - the claim still records its name, which the next sync must reuse
		xrMissing := steps == 0
		if xrMissing {
			steps, caseName = 1, fmt.Sprintf("version-switch/%s/after1-xr-missing", mode)
		}
		if !c.Want(caseName) {
			if xrMissing {
				steps = 0
			}
			continue
		}
		w := sim.NewWorld(xrk.Scheme(), uint64(c.Seed)*43+uint64(steps))
		w.MustSeed("user", xrk.XRDObject(xrk.XRDOpts{Group: "ex.org", Kind: "XThing", Plural: "xthings", ClaimKind: "Thing", ClaimPlural: "things", Versions: []string{"v1", "v2"}}))
		w.MustSeed("user", xrk.ResourcesComposition("comp", "ex.org/v1", "XThing", []map[string]any{{"name": "a", "base": nop("NopA", "1")}}))
		if err := xrk.ReconcileComposition(w, "comp"); err != nil {
			panic(err)
		}
		w.MustSeed("user", claimObj("ns1", "c1"))
		m := newMonitor()
		m.actorClaim["claim"] = claimKey("ns1", "c1")
		w.AddHook(m.hook)
		ce := xrk.NewClaimEnv(w, xrdName, ssa)
		xe := xrk.NewXREnv(w, ce.XRD)
		for i := 0; i < steps; i++ {
			_, _, _ = ce.Reconcile("ns1", "c1")
			if i > 0 {
				for _, xr := range w.ListObjs(xrGK) {
					_, _, _ = xe.Reconcile(sim.Str(xr, "metadata", "name"))
				}
			}
		}
		if xrMissing {
			for _, xr := range w.ListObjs(xrGK) {
				_ = w.Client("user").Delete(context.Background(), &unstructured.Unstructured{Object: xr})
			}
		}
		before := len(w.ListObjs(xrGK))
		refBefore := sim.Str(w.GetObj(claimKey("ns1", "c1")), "spec", "resourceRef", "name")
		// the author flips the referenceable version
		d := &unstructured.Unstructured{Object: w.GetObj(sim.Key{Group: "apiextensions.crossplane.io", Kind: "CompositeResourceDefinition", Name: xrdName})}
		vs, _, _ := unstructured.NestedSlice(d.Object, "spec", "versions")
		for _, v := range vs {
			vm := v.(map[string]any)
			vm["referenceable"] = vm["name"] == "v2"
		}
		_ = unstructured.SetNestedSlice(d.Object, vs, "spec", "versions")
		if err := w.Client("user").Update(context.Background(), d); err != nil {
			panic(err)
		}
		ce.Rebuild()
		from := w.LogLen()
		for i := 0; i < 3; i++ {
			_, _, _ = ce.Reconcile("ns1", "c1")
		}
		after := len(w.ListObjs(xrGK))
		refAfter := sim.Str(w.GetObj(claimKey("ns1", "c1")), "spec", "resourceRef", "name")
		if refBefore != "" && refAfter != refBefore {
			m.add("O4-recorded-xr-name-replaced", fmt.Sprintf("claim referenced XR %q before the referenceable version changed and %q afterwards", refBefore, refAfter))
		}
		if after > 1 {
			m.add("O1-more-than-one-xr", fmt.Sprintf("%d XRs exist for the claim after the referenceable version changed (%d before)", after, before))
		}
		c.Eval(caseName, refBefore != "")
		c.Count("version_switch_executions", 1)
		if xrMissing {
			steps = 0
		}
		if os.Getenv("DBG") != "" {
			fmt.Fprintln(os.Stderr, "DBG", caseName, fmt.Sprint(w.GetObj(claimKey("ns1", "c1"))["status"]), refBefore, refAfter, before, after, strings.Join(shortLog(w, from, 60), "\n   "))
		}
		report(c, m, mode, caseName, func() any {
			return map[string]any{"mode": mode, "claim_reconciles_before_switch": steps, "xr_name_before": refBefore, "xr_name_after": refAfter, "trace": shortLog(w, from, 60)}
		})
	}
}

// ---- (c) interleavings ----

func interleavings(c *kit.Ctx, ssa bool, n int) {
	mode := map[bool]string{false: "csa", true: "ssa"}[ssa]
	var mu sync.Mutex
	var wg sync.WaitGroup
	sem := make(chan struct{}, 8)
	schedules := map[string]bool{}
	for i := 0; i < n; i++ {
		caseName := fmt.Sprintf("sched/%s/%d", mode, i)
		if !c.Want(caseName) {
			continue
		}
		wg.Add(1)
		sem <- struct{}{}
		go func(i int) {
			defer wg.Done()
			defer func() { <-sem }()
			r := c.Rng("sched-"+mode, i)
			w := baseWorld(uint64(c.Seed)*41 + uint64(i))
			w.MustSeed("user", claimObj("ns1", "c1"))
			w.MustSeed("user", claimObj("ns2", "c1"))
			m := newMonitor()
			m.actorClaim["claimA"] = claimKey("ns1", "c1")
			m.actorClaim["claimB"] = claimKey("ns2", "c1")
			w.AddHook(m.hook)
			ceA := xrk.NewClaimEnvWithClient(w, xrdName, ssa, w.Client("claimA"))
			ceB := xrk.NewClaimEnvWithClient(w, xrdName, ssa, w.Client("claimB"))
			xe := xrk.NewXREnv(w, ceA.XRD)
			// optional warm-up so that interleavings also start from bound states
			warm := r.IntN(3)
			for k := 0; k < warm; k++ {
				_, _, _ = ceA.Reconcile("ns1", "c1")
				_, _, _ = ceB.Reconcile("ns2", "c1")
				for _, xr := range w.ListObjs(xrGK) {
					_, _, _ = xe.Reconcile(sim.Str(xr, "metadata", "name"))
				}
			}
			deleteA := r.IntN(2) == 0
			from := w.LogLen()
			s := w.NewScheduler()
			rounds := 2 + r.IntN(2)
			s.Go("claimA", func() {
				for k := 0; k < rounds; k++ {
					_, _, _ = ceA.Reconcile("ns1", "c1")
				}
			})
			s.Go("claimB", func() {
				for k := 0; k < rounds; k++ {
					_, _, _ = ceB.Reconcile("ns2", "c1")
				}
			})
			s.Go("xr", func() {
				for k := 0; k < rounds; k++ {
					for _, xr := range w.ListObjs(xrGK) {
						_, _, _ = xe.Reconcile(sim.Str(xr, "metadata", "name"))
					}
				}
			})
			if deleteA {
				u := w.Client("userdel")
				s.Go("userdel", func() {
					o := &unstructured.Unstructured{Object: claimObj("ns1", "c1")}
					_ = u.Delete(context.Background(), o)
				})
			}
			sched := s.Run(func(en, _ []string) int { return r.IntN(len(en)) }, 5000)
			w.SetScheduler(nil)
			// settle sequentially
			settle(ceA, xe, "ns1", "c1", true, 6)
			settle(ceB, xe, "ns2", "c1", true, 6)
			switches := 0
			for k := 1; k < len(sched); k++ {
				if sched[k] != sched[k-1] {
					switches++
				}
			}
			mu.Lock()
			schedules[strings.Join(sched, "")] = true
			c.Eval(caseName+"|"+strings.Join(sched, ","), switches >= 2)
			c.Count("schedule_executions", 1)
			c.Count("schedule_steps", int64(len(sched)))
			c.Count("invariant_evaluations", int64(m.checks))
			report(c, m, mode, caseName, func() any {
				return map[string]any{"mode": mode, "schedule": strings.Join(sched, " "), "deleteA": deleteA, "warm": warm, "trace": shortLog(w, from, 120)}
			})
			if c.WantSample() && switches >= 4 {
				c.Sample(map[string]any{"case": caseName, "schedule": strings.Join(sched, " "), "trace": shortLog(w, from, 20)})
			}
			mu.Unlock()
		}(i)
	}
	wg.Wait()
	c.Count("distinct_schedules_"+mode, int64(len(schedules)))
}

// ---- (c2) bounded-preemption enumeration ----

// preemptions enumerates "claim A's controller runs k1 calls, intruder 1 runs to completion, A
// runs k2 more calls, intruder 2 runs to completion, A finishes" over a grid, for every ordered
// pair of intruders among the XR controller, another claim's controller and a user deleting
// claim A - so that a given window of the binding protocol is hit by construction.
var longClaimName = "c" + strings.Repeat("x", 62)

func preemptions(c *kit.Ctx, ssa bool) {
	mode := map[bool]string{false: "csa", true: "ssa"}[ssa]
	intruders := []string{"xr", "claimB", "userdel"}
	k1max, k2max, k2step := 14, 8, 4
	if c.Thorough() {
		k1max, k2max, k2step = 22, 12, 2
	}
	var mu sync.Mutex
	var wg sync.WaitGroup
	sem := make(chan struct{}, 8)
	n := 0
	for _, warm := range []int{0, 1} {
		for _, i1 := range intruders {
			for _, i2 := range intruders {
				if i1 == i2 {
					continue
				}
				for k1 := 0; k1 <= k1max; k1++ {
					for k2 := 0; k2 <= k2max; k2 += k2step {
						cnames := []string{"c1"}
						if warm == 0 && i1 == "claimB" {
							// both claims carry the same 63-character name: their XRs' generated names
							// share the whole prefix the name generator keeps
							cnames = append(cnames, longClaimName)
						}
						for _, cname := range cnames {
							caseName := fmt.Sprintf("preempt/%s/warm%d/%s-%s/k%d-%d", mode, warm, i1, i2, k1, k2)
							if cname != "c1" {
								caseName += "/long-name"
							}
							if !c.Want(caseName) {
								continue
							}
							n++
							wg.Add(1)
							sem <- struct{}{}
							go func(idx, warm int, i1, i2 string, k1, k2 int, caseName, cname string) {
								defer wg.Done()
								defer func() { <-sem }()
								w := baseWorld(uint64(c.Seed)*47 + uint64(idx))
								w.MustSeed("user", claimObj("ns1", cname))
								w.MustSeed("user", claimObj("ns2", cname))
								m := newMonitor()
								m.actorClaim["claimA"] = claimKey("ns1", cname)
								m.actorClaim["claimB"] = claimKey("ns2", cname)
								w.AddHook(m.hook)
								ceA := xrk.NewClaimEnvWithClient(w, xrdName, ssa, w.Client("claimA"))
								ceB := xrk.NewClaimEnvWithClient(w, xrdName, ssa, w.Client("claimB"))
								xe := xrk.NewXREnv(w, ceA.XRD)
								for k := 0; k < warm; k++ {
									_, _, _ = ceA.Reconcile("ns1", cname)
									for _, xr := range w.ListObjs(xrGK) {
										_, _, _ = xe.Reconcile(sim.Str(xr, "metadata", "name"))
									}
								}
								from := w.LogLen()
								s := w.NewScheduler()
								s.Go("claimA", func() {
									for k := 0; k < 2; k++ {
										_, _, _ = ceA.Reconcile("ns1", cname)
									}
								})
								s.Go("claimB", func() { _, _, _ = ceB.Reconcile("ns2", cname) })
								s.Go("xr", func() {
									for _, xr := range w.ListObjs(xrGK) {
										_, _, _ = xe.Reconcile(sim.Str(xr, "metadata", "name"))
									}
								})
								u := w.Client("userdel")
								s.Go("userdel", func() {
									_ = u.Delete(context.Background(), &unstructured.Unstructured{Object: claimObj("ns1", cname)})
								})
								plan := []sim.Segment{{Actor: "claimA", Steps: k1}, {Actor: i1, Steps: -1}, {Actor: "claimA", Steps: k2}, {Actor: i2, Steps: -1}, {Actor: "claimA", Steps: -1}}
								sched := s.Run(sim.PlanChooser(plan), 5000)
								w.SetScheduler(nil)
								settle(ceA, xe, "ns1", cname, true, 6)
								settle(ceB, xe, "ns2", cname, true, 6)
								mu.Lock()
								c.Eval(caseName, true)
								c.Count("preemption_plans", 1)
								c.Count("invariant_evaluations", int64(m.checks))
								report(c, m, mode, caseName, func() any {
									return map[string]any{"mode": mode, "plan": caseName, "schedule": strings.Join(sched, " "), "trace": shortLog(w, from, 120)}
								})
								mu.Unlock()
							}(n, warm, i1, i2, k1, k2, caseName, cname)
						}
					}
				}
			}
		}
	}
	wg.Wait()
}

// ---- (d) statically referenced XRs ----

func staticRefs(c *kit.Ctx, ssa bool) {
	mode := map[bool]string{false: "csa", true: "ssa"}[ssa]
	// run executes one variant; a fault (k >= 0) is planted at call k of the first reconcile.
	// It returns the number of API calls of the first reconcile.
	run := func(caseName string, variant, k int, out sim.Outcome) int {
		w := baseWorld(uint64(c.Seed)*43 + uint64(variant))
		// variants 6-7 are variants 0-1 with the claim controller's XR cache still at the state before
		// the XR appeared; it catches up once the controller has issued its first XR write
		behindCache := variant >= 6 && variant < 8
		// variants 8-9 are variants 0-1 with the foreign-bound XR being deleted (a finalizer holds it)
		terminating := variant >= 8 && variant < 10
		// variants 10-11 are variants 0-1 with the XR bound to the other claim only AFTER the claim
		// controller's XR cache last saw it (unbound): the guard passes on the cached XR, the write
		// must not go through
		lateBind := variant >= 10
		frozenAt := w.RV()
		if behindCache {
			variant -= 6
		}
		if terminating {
			variant -= 8
		}
		if lateBind {
			variant -= 10
		}
		// an XR bound to claim other/owner (variants 0-2) or to nobody (3-5)
		xr := xrk.XRObject("ex.org/v1", "XThing", "static-xr", "comp", map[string]any{"size": int64(9)})
		if lateBind {
			w.MustSeed("user", runtime.DeepCopyJSON(xr))
			frozenAt = w.RV()
			xr = w.GetObj(sim.Key{Group: "ex.org", Kind: "XThing", Name: "static-xr"})
		}
		if variant < 3 {
			// the owning claim lives in another namespace; in variant 1 it has the SAME NAME as the
			// claim under test
			owner := "owner"
			if variant == 1 {
				owner = "c1"
			}
			_ = unstructured.SetNestedMap(xr, map[string]any{"apiVersion": "ex.org/v1", "kind": "Thing", "namespace": "other", "name": owner}, "spec", "claimRef")
			_ = unstructured.SetNestedStringMap(xr, map[string]string{"crossplane.io/claim-name": owner, "crossplane.io/claim-namespace": "other"}, "metadata", "labels")
		}
		if terminating {
			_ = unstructured.SetNestedStringSlice(xr, []string{"composite.apiextensions.crossplane.io", "someone.example.org/hold"}, "metadata", "finalizers")
		}
		if lateBind {
			if err := w.Client("other-claim").Update(context.Background(), &unstructured.Unstructured{Object: xr}); err != nil {
				panic(err)
			}
		} else {
			w.MustSeed("user", xr)
		}
		if terminating {
			_ = w.Client("user").Delete(context.Background(), &unstructured.Unstructured{Object: w.GetObj(sim.Key{Group: "ex.org", Kind: "XThing", Name: "static-xr"})})
		}
		before := w.GetObj(sim.Key{Group: "ex.org", Kind: "XThing", Name: "static-xr"})
		cm := claimObj("ns1", "c1")
		_ = unstructured.SetNestedMap(cm, map[string]any{"apiVersion": "ex.org/v1", "kind": "XThing", "name": "static-xr"}, "spec", "resourceRef")
		w.MustSeed("user", cm)
		m := newMonitor()
		m.actorClaim["claim"] = claimKey("ns1", "c1")
		w.AddHook(m.hook)
		ce := xrk.NewClaimEnv(w, xrdName, ssa)
		if behindCache || lateBind {
			caughtUp := false
			lc := w.LaggingClient("claim", func(gk schema.GroupKind) (int64, bool) { return -frozenAt, !caughtUp && gk == xrGK })
			lc.OnCall = func(_ int, verb string) {
				if verb == "create" || verb == "patch" || (lateBind && verb == "update") {
					caughtUp = true
				}
			}
			ce = xrk.NewClaimEnvWithClient(w, xrdName, ssa, lc)
			c.Count("static_ref_behind_cache_executions", 1)
		}
		from := w.LogLen()
		calls := 0
		for i := 0; i < 3; i++ {
			if i == 0 && k >= 0 {
				ce.C.Fault(k, out)
			}
			_, _, _ = ce.Reconcile("ns1", "c1")
			if i == 0 {
				calls = ce.C.Calls()
				ce.C.ClearFaults()
			}
		}
		if variant%3 == 1 || variant%3 == 2 {
			// the user deletes the claim: the foreign XR must survive
			u := w.Client("user")
			_ = u.Delete(context.Background(), &unstructured.Unstructured{Object: claimObj("ns1", "c1")})
			for i := 0; i < 2; i++ {
				_, _, _ = ce.Reconcile("ns1", "c1")
			}
		}
		after := w.GetObj(sim.Key{Group: "ex.org", Kind: "XThing", Name: "static-xr"})
		if variant < 3 {
			if after == nil {
				m.add("O3-foreign-bound-xr-deleted", "an XR bound to another claim was deleted by this claim's reconcile")
			} else if sim.Str(after, "metadata", "resourceVersion") != sim.Str(before, "metadata", "resourceVersion") {
				m.add("O3-foreign-bound-xr-modified", "an XR bound to another claim was modified by this claim's reconcile")
			}
		}
		c.Eval(caseName, true)
		c.Count("static_ref_executions", 1)
		report(c, m, mode, caseName, func() any {
			return map[string]any{"mode": mode, "variant": variant, "fault_call": k, "outcome": out.String(), "trace": shortLog(w, from, 60)}
		})
		return calls
	}
	for variant := 0; variant < 12; variant++ {
		if (variant >= 6 && variant < 8 || variant >= 10) && ssa {
			// Not judged for the server-side syncer: behind a stale XR cache the unchanged tree applies
			// (with forced ownership) over the XR another claim is bound to. C06 quantifies over stale
			// reads of the CLAIM; the client-side syncer holds under a stale XR cache as well (its
			// Create answers AlreadyExists) and is judged.
			c.Count("static_ref_behind_xr_cache_ssa_not_judged", 1)
			continue
		}
		caseName := fmt.Sprintf("static/%s/%d", mode, variant)
		if !c.Want(caseName) {
			continue
		}
		calls := run(caseName, variant, -1, sim.Conflict)
		if variant > 1 && variant < 8 || variant >= 10 {
			continue
		}
		// an API fault at every call of the refused reconcile must not open a way around the guard
		for k := 0; k < calls; k++ {
			for _, out := range sim.EnumFaults {
				cn := fmt.Sprintf("%s/fault-k%d-%s", caseName, k, out)
				if c.Want(cn) {
					run(cn, variant, k, out)
					c.Count("static_ref_fault_executions", 1)
				}
			}
		}
	}
}

func main() {
	c := kit.New("C06", "fault_enumeration")
	c.Rule = "both claim syncers (production wiring captured from the real offered reconciler): (a) for every claim reconcile of the fault-free run, EVERY API-call index x 6 outcomes, then retries; (b) claim reads served from a cache lagging 1..12 writes (claims only / claims and XRs), at three points of the binding; (c) seeded random schedules and an enumerated grid of bounded-preemption plans (A runs k1 calls, intruder 1 completes, A runs k2 more, intruder 2 completes) at API-call granularity of two claims with the same name in different namespaces, the XR reconciler and user deletion of a claim; (d) statically referenced XRs bound to another claim / nobody. Hook invariants on every store state: O1 <=1 XR per claim, O2 XR created only under the name already stored in the claim's spec.resourceRef, O3 no mutating call to an XR whose stored claimRef names another claim. distinct = (mode, position, outcome) / schedule string; non-trivial = fault between the reference update and the XR apply or a crash; a stale read was actually served; >=2 actor switches."
	c.Rule += " Interleave part: two claims reconciled by ONE claim reconciler, the first parked before each of its API calls while the second completes (both bound, or the second binding meanwhile); XRs and claims must equal those of the sequential run. O4: a name durably recorded in the stored claim's spec.resourceRef is never replaced by another one. Stale-read variant 3: only the XR cache lags. Static references to an XR bound to another claim are also run with every call index x 6 outcomes on the first (refused) reconcile."
	c.Rule += " " + "A claim deleted behind the cache is generated and counted (observed only)."
	c.Rule += " " + "The XRD's referenceable version changes under a bound claim (also with the XR missing while its name is recorded)."
	c.Rule += " " + "Static references with the claim controller's XR cache behind (client-side syncer judged) and with a Terminating foreign-bound XR."
	c.Rule += " " + "Static references to an XR that another claim bound after the claim controller's XR cache last saw it (client-side syncer: the write pinned to the stale resourceVersion must be refused); preemption plans with two claims of one 63-character name."
	c.Assumptions = []string{"sim implements resourceVersion conflicts and the stale-cache view (DESIGN.md 2.2)", "two reconciles of the same claim never run concurrently (work-queue guarantee)", "random 5-char name suffix collisions are out of scope"}
	c.Floor = 100
	for _, ssa := range []bool{false, true} {
		faultEnumeration(c, ssa)
		staleReads(c, ssa)
		deletedBehindCache(c, ssa)
		versionSwitch(c, ssa)
		interleavings(c, ssa, c.N(150, 3000))
		preemptions(c, ssa)
		staticRefs(c, ssa)
		interleavedClaims(c, ssa)
	}
	c.Finish()
}
