//go:build verif

package main

import (
	"context"
	"fmt"
	"strings"

	"k8s.io/apimachinery/pkg/apis/meta/v1/unstructured"
	"k8s.io/apimachinery/pkg/runtime"
	"k8s.io/apimachinery/pkg/types"
	"sigs.k8s.io/controller-runtime/pkg/reconcile"

	"github.com/crossplane/crossplane/verifh/kit"
	"github.com/crossplane/crossplane/verifh/sim"
	"github.com/crossplane/crossplane/verifh/xrk"
)

// interleavedClaims: the claim controller reconciles different claims concurrently with ONE
// reconciler. Two bound claims (same name, different namespaces) are edited by the user; the
// reconcile of the first is parked before each of its API calls while the second completes.
// What a claim writes to its XR depends on that claim alone: both XRs and both claims must
// equal those of the sequential run on the same cluster. In a third variant the second claim
// is new (its XR does not exist yet), so that a binding happens while the first is parked.
func interleavedClaims(c *kit.Ctx, ssa bool) {
	mode := map[bool]string{false: "csa", true: "ssa"}[ssa]
	for v, variant := range []string{"both-bound", "second-unbound", "both-unbound"} {
		caseName := fmt.Sprintf("interleave/%s/%s", mode, variant)
		if !c.Want(caseName) {
			continue
		}
		w := baseWorld(uint64(c.Seed)*53 + uint64(v))
		if variant != "both-unbound" {
			w.MustSeed("user", claimObj("ns1", "c1"))
		}
		if variant == "both-bound" {
			w.MustSeed("user", claimObj("ns2", "c1"))
		}
		m := newMonitor()
		m.actorClaim["claim"] = claimKey("ns1", "c1") // O1 (per-claim XR count) applies to every claim
		ce := xrk.NewClaimEnv(w, xrdName, ssa)
		xe := xrk.NewXREnv(w, ce.XRD)
		for i := 0; i < 3; i++ {
			for _, ns := range []string{"ns1", "ns2"} {
				_, _, _ = ce.Reconcile(ns, "c1")
			}
			for _, xr := range w.ListObjs(xrGK) {
				_, _, _ = xe.Reconcile(sim.Str(xr, "metadata", "name"))
			}
		}
		u := w.Client("user")
		for k, ns := range []string{"ns1", "ns2"} {
			if o := w.GetObj(claimKey(ns, "c1")); o != nil {
				uo := &unstructured.Unstructured{Object: o}
				_ = unstructured.SetNestedField(uo.Object, int64(20+k), "spec", "size")
				if err := u.Update(context.Background(), uo); err != nil {
					panic(err)
				}
			}
		}
		if variant == "second-unbound" {
			w.MustSeed("user", claimObj("ns2", "c1"))
		}
		if variant == "both-unbound" {
			// two new claims with the same name in different namespaces: both bind in this phase
			w.MustSeed("user", claimObj("ns1", "c1"))
			w.MustSeed("user", claimObj("ns2", "c1"))
		}
		rec := func(ns string) func() {
			return func() {
				_, _ = ce.R.Reconcile(context.Background(), reconcile.Request{NamespacedName: types.NamespacedName{Namespace: ns, Name: "c1"}})
			}
		}
		digest := func(w *sim.World) map[string]string {
			out := map[string]string{}
			strip := func(o map[string]any) map[string]any {
				cp := runtime.DeepCopyJSON(o)
				conds, _, _ := unstructured.NestedSlice(cp, "status", "conditions")
				for _, cd := range conds {
					if mm, ok := cd.(map[string]any); ok {
						delete(mm, "lastTransitionTime")
					}
				}
				if len(conds) > 0 {
					_ = unstructured.SetNestedSlice(cp, conds, "status", "conditions")
				}
				return cp
			}
			for _, o := range w.ListObjs(xrGK) {
				ls, _, _ := unstructured.NestedStringMap(o, "metadata", "labels")
				id := "XR-of/" + ls["crossplane.io/claim-namespace"] + "/" + ls["crossplane.io/claim-name"]
				cp := strip(o)
				// generated names differ between runs: identify the XR by its claim
				unstructured.RemoveNestedField(cp, "metadata")
				out[id] += kit.JSON(map[string]any{"spec": cp["spec"], "labels": ls})
			}
			for _, o := range w.ListObjs(claimGK) {
				cp := strip(o)
				ref, _, _ := unstructured.NestedMap(cp, "spec", "resourceRef")
				delete(ref, "name")
				spec, _ := cp["spec"].(map[string]any)
				delete(spec, "resourceRef")
				out["claim/"+sim.Str(o, "metadata", "namespace")] = kit.JSON(map[string]any{"spec": spec, "bound": ref != nil, "status": cp["status"], "finalizers": sim.Str(o, "metadata", "finalizers")})
			}
			return out
		}
		points, parked, diffs := xrk.InterleaveVsSequential(w, ce.C, rec("ns1"), rec("ns2"), digest, nil)
		c.Eval(caseName, parked > 0)
		c.Count("interleave_preemption_points", int64(points))
		c.Count("interleave_runs_that_parked", int64(parked))
		for _, d := range diffs {
			c.Violate("interleaved-claim-reconciles-differ-from-sequential:"+mode+":"+strings.SplitN(d.Key, "/", 2)[0], caseName,
				fmt.Sprintf("reconcile of claim ns1/c1 parked before %s while ns2/c1 was reconciled by the same reconciler: %s differs from the sequential run", d.Point, d.Key), d)
			break
		}
		_ = m
	}
}
