package xrk

import (
	"context"
	"fmt"
	"reflect"
	"unsafe"

	"k8s.io/apimachinery/pkg/apis/meta/v1/unstructured"
	"k8s.io/apimachinery/pkg/types"
	kcontroller "sigs.k8s.io/controller-runtime/pkg/controller"
	"sigs.k8s.io/controller-runtime/pkg/reconcile"

	"github.com/crossplane/crossplane-runtime/pkg/controller"
	"github.com/crossplane/crossplane-runtime/pkg/feature"
	"github.com/crossplane/crossplane-runtime/pkg/ratelimiter"

	v1 "github.com/crossplane/crossplane/apis/apiextensions/v1"
	apiextensionscontroller "github.com/crossplane/crossplane/internal/controller/apiextensions/controller"
	"github.com/crossplane/crossplane/internal/controller/apiextensions/definition"
	"github.com/crossplane/crossplane/internal/controller/apiextensions/offered"
	"github.com/crossplane/crossplane/internal/engine"
	"github.com/crossplane/crossplane/internal/features"
	"github.com/crossplane/crossplane/internal/xfn"
	"github.com/crossplane/crossplane/verifh/sim"
)

// CapturingEngine is a recording engine that also extracts, from the ControllerOptions the
// XRD controllers pass to Start, the reconciler they built - i.e. the production-wired XR or
// claim reconciler (wrapped in the rate limiter and the conflict-silencing wrapper exactly as
// in production).
type CapturingEngine struct {
	*Engine
	Reconcilers map[string]reconcile.Reconciler
}

// NewCapturingEngine returns a capturing engine whose cached/uncached client is c.
func NewCapturingEngine(w *sim.World, c *sim.Client) *CapturingEngine {
	return &CapturingEngine{Engine: NewEngine(w, c), Reconcilers: map[string]reconcile.Reconciler{}}
}

// Start implements ControllerEngine.
func (e *CapturingEngine) Start(name string, o ...engine.ControllerOption) error {
	co := &engine.ControllerOptions{}
	for _, fn := range o {
		fn(co)
	}
	f := reflect.ValueOf(co).Elem().FieldByName("runtime")
	if !f.IsValid() {
		panic("harness: engine.ControllerOptions has no field 'runtime' any more")
	}
	ko, ok := reflect.NewAt(f.Type(), unsafe.Pointer(f.UnsafeAddr())).Elem().Interface().(kcontroller.Options)
	if !ok {
		panic("harness: engine.ControllerOptions.runtime is not controller.Options")
	}
	if err := e.Engine.Start(name, o...); err != nil {
		return err
	}
	e.mu.Lock()
	e.Reconcilers[name] = ko.Reconciler
	e.mu.Unlock()
	return nil
}

// Reconciler returns the reconciler captured for the named controller (nil if none).
func (e *CapturingEngine) Reconciler(name string) reconcile.Reconciler {
	e.mu.Lock()
	defer e.mu.Unlock()
	return e.Reconcilers[name]
}

// Options returns apiextensions controller options with a permissive global rate limiter.
func Options(ssaClaims bool) apiextensionscontroller.Options {
	o := apiextensionscontroller.Options{Options: controller.DefaultOptions()}
	o.GlobalRateLimiter = ratelimiter.NewGlobal(1000000)
	o.Features = &feature.Flags{}
	if ssaClaims {
		o.Features.Enable(features.EnableBetaClaimSSA)
	}
	return o
}

// EstablishCRDs marks every stored CRD Established, as the API server would.
func EstablishCRDs(w *sim.World) {
	c := w.Client("apiserver")
	for _, o := range w.ListObjs(sim.Key{Group: "apiextensions.k8s.io", Kind: "CustomResourceDefinition"}.GK()) {
		conds, _, _ := unstructured.NestedSlice(o, "status", "conditions")
		done := false
		for _, cd := range conds {
			if m, ok := cd.(map[string]any); ok && m["type"] == "Established" && m["status"] == "True" {
				done = true
			}
		}
		if done {
			continue
		}
		u := &unstructured.Unstructured{Object: o}
		_ = unstructured.SetNestedSlice(u.Object, []any{
			map[string]any{"type": "Established", "status": "True", "reason": "InitialNamesAccepted", "message": "the initial names have been accepted", "lastTransitionTime": "2024-01-01T00:00:00Z"},
			map[string]any{"type": "NamesAccepted", "status": "True", "reason": "NoConflicts", "message": "no conflicts found", "lastTransitionTime": "2024-01-01T00:00:00Z"},
		}, "status", "conditions")
		if err := c.Status().Update(context.Background(), u); err != nil {
			panic(err)
		}
	}
}

// ClaimEnv holds the production-wired claim reconciler of one XRD.
type ClaimEnv struct {
	W    *sim.World
	C    *sim.Client // the claim controller's client (actor "claim")
	XRD  *v1.CompositeResourceDefinition
	Rec  *Recorder
	Eng  *CapturingEngine
	R    reconcile.Reconciler
	SSA  bool
	Name string
}

// NewClaimEnv runs the real offered (claim XRD) reconciler until it starts the claim
// controller, and captures the claim reconciler it built.
func NewClaimEnv(w *sim.World, xrdName string, ssa bool) *ClaimEnv {
	return NewClaimEnvWithClient(w, xrdName, ssa, w.Client("claim"))
}

// NewClaimEnvWithClient is NewClaimEnv with a caller-supplied client (actor name, lagging
// reads) for the claim controller.
func NewClaimEnvWithClient(w *sim.World, xrdName string, ssa bool, c *sim.Client) *ClaimEnv {
	e := &ClaimEnv{W: w, Rec: NewRecorder(), SSA: ssa, Name: xrdName}
	e.C = c
	e.Rebuild()
	return e
}

// Rebuild re-creates the claim reconciler (process restart).
func (e *ClaimEnv) Rebuild() {
	oc := e.W.Client("offered")
	e.Eng = NewCapturingEngine(e.W, e.C)
	r := offered.NewReconciler(offered.NewClientApplicator(oc),
		offered.WithControllerEngine(e.Eng),
		offered.WithRecorder(e.Rec),
		offered.WithOptions(Options(e.SSA)))
	req := reconcile.Request{NamespacedName: types.NamespacedName{Name: e.Name}}
	for i := 0; i < 4 && len(e.Eng.Reconcilers) == 0; i++ {
		if _, err := r.Reconcile(context.Background(), req); err != nil {
			panic(fmt.Sprintf("offered reconcile: %v", err))
		}
		EstablishCRDs(e.W)
	}
	for _, rc := range e.Eng.Reconcilers {
		e.R = rc
	}
	if e.R == nil {
		panic("harness: offered reconciler did not start a claim controller")
	}
	d := &v1.CompositeResourceDefinition{}
	if err := oc.Get(context.Background(), types.NamespacedName{Name: e.Name}, d); err != nil {
		panic(err)
	}
	e.XRD = d
}

// Reconcile runs one claim reconcile; an injected crash rebuilds the reconciler.
func (e *ClaimEnv) Reconcile(ns, name string) (res reconcile.Result, err error, crashed bool) {
	e.C.ResetCalls()
	crashed = sim.RunActor(func() {
		res, err = e.R.Reconcile(context.Background(), reconcile.Request{NamespacedName: types.NamespacedName{Namespace: ns, Name: name}})
	})
	if crashed {
		e.Rebuild()
	}
	return res, err, crashed
}

// DefinedXREnv builds the XR reconciler by running the real definition (XRD) reconciler until
// it starts the XR controller, capturing the reconciler it built. It complements NewXREnv
// (which calls CompositeReconcilerOptions directly) by also covering the start path.
func DefinedXRReconciler(w *sim.World, c *sim.Client, xrdName string, rec *Recorder) (reconcile.Reconciler, *CapturingEngine) {
	dc := w.Client("definition")
	eng := NewCapturingEngine(w, c)
	o := Options(false)
	o.FunctionRunner = xfn.NewPackagedFunctionRunner(c)
	r := definition.NewReconciler(definition.NewClientApplicator(dc),
		definition.WithControllerEngine(eng),
		definition.WithRecorder(rec),
		definition.WithOptions(o))
	req := reconcile.Request{NamespacedName: types.NamespacedName{Name: xrdName}}
	for i := 0; i < 4 && len(eng.Reconcilers) == 0; i++ {
		if _, err := r.Reconcile(context.Background(), req); err != nil {
			panic(fmt.Sprintf("definition reconcile: %v", err))
		}
		EstablishCRDs(w)
	}
	for _, rc := range eng.Reconcilers {
		return rc, eng
	}
	panic("harness: definition reconciler did not start an XR controller")
}

// ClaimObject returns a claim as JSON.
func ClaimObject(apiVersion, kind, ns, name string, spec map[string]any) map[string]any {
	s := map[string]any{}
	for k, v := range spec {
		s[k] = v
	}
	return map[string]any{
		"apiVersion": apiVersion, "kind": kind,
		"metadata": map[string]any{"namespace": ns, "name": name},
		"spec":     s,
	}
}
