// Package xrk wires the real composite-resource (XR) and claim reconcilers, built by the
// production constructors, to the simulated API server, with scripted composition functions
// served over real gRPC.
package xrk

import (
	"context"
	"fmt"
	"sync"

	corev1 "k8s.io/api/core/v1"
	extv1 "k8s.io/apiextensions-apiserver/pkg/apis/apiextensions/v1"
	"k8s.io/apimachinery/pkg/runtime"
	"k8s.io/apimachinery/pkg/runtime/schema"
	"k8s.io/apimachinery/pkg/types"
	clientgoscheme "k8s.io/client-go/kubernetes/scheme"
	"sigs.k8s.io/controller-runtime/pkg/client"
	"sigs.k8s.io/controller-runtime/pkg/reconcile"

	"github.com/crossplane/crossplane-runtime/pkg/event"
	"github.com/crossplane/crossplane-runtime/pkg/resource"

	"github.com/crossplane/crossplane/apis"
	v1 "github.com/crossplane/crossplane/apis/apiextensions/v1"
	apiextensionscontroller "github.com/crossplane/crossplane/internal/controller/apiextensions/controller"
	"github.com/crossplane/crossplane/internal/controller/apiextensions/composite"
	"github.com/crossplane/crossplane/internal/controller/apiextensions/definition"
	"github.com/crossplane/crossplane/internal/engine"
	"github.com/crossplane/crossplane/internal/xfn"
	"github.com/crossplane/crossplane/verifh/sim"
)

var (
	schemeOnce sync.Once
	scheme     *runtime.Scheme
)

// Scheme returns the scheme with client-go, apiextensions and all Crossplane APIs.
func Scheme() *runtime.Scheme {
	schemeOnce.Do(func() {
		s := runtime.NewScheme()
		must(clientgoscheme.AddToScheme(s))
		must(extv1.AddToScheme(s))
		must(apis.AddToScheme(s))
		scheme = s
	})
	return scheme
}

func must(err error) {
	if err != nil {
		panic(err)
	}
}

// RecordedEvent is one event handed to the event.Recorder.
type RecordedEvent struct {
	Kind, Name string
	Type       string
	Reason     string
	Message    string
}

// Recorder is a thread-safe recording event.Recorder.
type Recorder struct {
	mu     *sync.Mutex
	events *[]RecordedEvent
}

// NewRecorder returns an empty recorder.
func NewRecorder() *Recorder { return &Recorder{mu: &sync.Mutex{}, events: &[]RecordedEvent{}} }

// Event implements event.Recorder.
func (r *Recorder) Event(obj runtime.Object, e event.Event) {
	r.mu.Lock()
	defer r.mu.Unlock()
	re := RecordedEvent{Type: string(e.Type), Reason: string(e.Reason), Message: e.Message}
	if o, ok := obj.(client.Object); ok && o != nil {
		re.Kind = o.GetObjectKind().GroupVersionKind().Kind
		re.Name = o.GetName()
	}
	*r.events = append(*r.events, re)
}

// WithAnnotations implements event.Recorder.
func (r *Recorder) WithAnnotations(...string) event.Recorder { return r }

// Events returns a copy of the recorded events from index from.
func (r *Recorder) Events(from int) []RecordedEvent {
	r.mu.Lock()
	defer r.mu.Unlock()
	if from > len(*r.events) {
		from = len(*r.events)
	}
	return append([]RecordedEvent(nil), (*r.events)[from:]...)
}

// Len returns the number of events recorded.
func (r *Recorder) Len() int {
	r.mu.Lock()
	defer r.mu.Unlock()
	return len(*r.events)
}

// Engine is a recording definition.ControllerEngine: it logs Start/Stop/watch calls into the
// world's trace and tracks which controllers are running.
type Engine struct {
	W      *sim.World
	C      client.Client
	// UC, if set, is the uncached client (defaults to C)
	UC     client.Client
	mu     sync.Mutex
	run    map[string]bool
	watch  map[string][]engine.WatchID
	FailOn map[string]error // method -> error to return
}

// NewEngine returns a recording engine whose cached and uncached clients are c.
func NewEngine(w *sim.World, c client.Client) *Engine {
	return &Engine{W: w, C: c, run: map[string]bool{}, watch: map[string][]engine.WatchID{}, FailOn: map[string]error{}}
}

// Start implements ControllerEngine.
func (e *Engine) Start(name string, _ ...engine.ControllerOption) error {
	e.mu.Lock()
	defer e.mu.Unlock()
	if err := e.FailOn["Start"]; err != nil {
		e.W.Mark("engine", "Start FAILED "+name, sim.Key{Name: name})
		return err
	}
	e.run[name] = true
	e.W.Mark("engine", "Start "+name, sim.Key{Name: name})
	return nil
}

// Stop implements ControllerEngine.
func (e *Engine) Stop(_ context.Context, name string) error {
	e.mu.Lock()
	defer e.mu.Unlock()
	if err := e.FailOn["Stop"]; err != nil {
		e.W.Mark("engine", "Stop FAILED "+name, sim.Key{Name: name})
		return err
	}
	delete(e.run, name)
	delete(e.watch, name)
	e.W.Mark("engine", "Stop "+name, sim.Key{Name: name})
	return nil
}

// IsRunning implements ControllerEngine.
func (e *Engine) IsRunning(name string) bool {
	e.mu.Lock()
	defer e.mu.Unlock()
	return e.run[name]
}

// GetWatches implements ControllerEngine.
func (e *Engine) GetWatches(name string) ([]engine.WatchID, error) {
	e.mu.Lock()
	defer e.mu.Unlock()
	return append([]engine.WatchID(nil), e.watch[name]...), nil
}

// StartWatches implements ControllerEngine.
func (e *Engine) StartWatches(name string, _ ...engine.Watch) error {
	e.mu.Lock()
	defer e.mu.Unlock()
	if !e.run[name] {
		return fmt.Errorf("controller %s is not running", name)
	}
	e.W.Mark("engine", "StartWatches "+name, sim.Key{Name: name})
	return nil
}

// StopWatches implements ControllerEngine.
func (e *Engine) StopWatches(_ context.Context, name string, ws ...engine.WatchID) (int, error) {
	e.W.Mark("engine", "StopWatches "+name, sim.Key{Name: name})
	return len(ws), nil
}

// GetCached implements ControllerEngine.
func (e *Engine) GetCached() client.Client { return e.C }

// GetUncached implements ControllerEngine.
func (e *Engine) GetUncached() client.Client {
	if e.UC != nil {
		return e.UC
	}
	return e.C
}

// GetFieldIndexer implements ControllerEngine.
func (e *Engine) GetFieldIndexer() client.FieldIndexer { return Indexer{e.W} }

// Indexer is a client.FieldIndexer registering into the world.
type Indexer struct{ W *sim.World }

// IndexField implements client.FieldIndexer.
func (i Indexer) IndexField(_ context.Context, obj client.Object, field string, fn client.IndexerFunc) error {
	gvk := obj.GetObjectKind().GroupVersionKind()
	if gvk.Kind == "" {
		gvks, _, err := i.W.Scheme.ObjectKinds(obj)
		if err != nil || len(gvks) == 0 {
			return fmt.Errorf("cannot determine kind of %T", obj)
		}
		gvk = gvks[0]
	}
	i.W.IndexField(gvk.GroupKind(), field, fn)
	return nil
}

// XREnv is one XRD with its real XR reconciler over a sim world.
type XREnv struct {
	W      *sim.World
	C      *sim.Client // the XR controller's client (actor "xr")
	UC     *sim.Client // its uncached client (same as C unless built with NewXREnvSplit)
	XRD    *v1.CompositeResourceDefinition
	Rec    *Recorder
	Runner *xfn.PackagedFunctionRunner
	Eng    *Engine
	R      *composite.Reconciler
	GVK    schema.GroupVersionKind
	sw     *switchReader
}

// NewXREnv builds the XR reconciler for xrd exactly as the definition controller does
// (definition.Reconciler.CompositeReconcilerOptions + composite.NewReconciler).
func NewXREnv(w *sim.World, xrd *v1.CompositeResourceDefinition) *XREnv {
	e := &XREnv{W: w, XRD: xrd, Rec: NewRecorder()}
	e.C = w.Client("xr")
	e.UC = e.C
	e.GVK = xrd.GetCompositeGroupVersionKind()
	e.Rebuild()
	return e
}

// NewXREnvSplit is NewXREnv with distinct cached (possibly lagging) and uncached clients, as
// in production where the XR controller reads through an informer cache and falls back to a
// direct read.
func NewXREnvSplit(w *sim.World, xrd *v1.CompositeResourceDefinition, cached, uncached *sim.Client) *XREnv {
	e := &XREnv{W: w, XRD: xrd, Rec: NewRecorder(), C: cached, UC: uncached}
	e.GVK = xrd.GetCompositeGroupVersionKind()
	e.Rebuild()
	return e
}

// Rebuild creates a fresh reconciler and function runner (a process restart): all in-memory
// state of the controller is lost, the client's fault plan and counters are kept.
func (e *XREnv) Rebuild() {
	if e.Runner != nil {
		e.CloseConns()
	}
	e.sw = &switchReader{inner: e.C}
	e.Runner = xfn.NewPackagedFunctionRunner(e.sw)
	e.Eng = NewEngine(e.W, e.C)
	e.Eng.UC = e.UC
	dr := definition.NewReconciler(definition.NewClientApplicator(e.C),
		definition.WithControllerEngine(e.Eng),
		definition.WithRecorder(e.Rec),
		definition.WithOptions(apiextensionscontroller.Options{FunctionRunner: e.Runner}))
	ro := dr.CompositeReconcilerOptions(context.Background(), e.XRD)
	ro = append(ro, composite.WithRecorder(e.Rec))
	e.R = composite.NewReconciler(e.C, e.UC, resource.CompositeKind(e.GVK), ro...)
}

// CloseConns closes the function runner's gRPC connections.
func (e *XREnv) CloseConns() {
	if e.Runner == nil || e.sw == nil {
		return
	}
	e.sw.empty = true
	_, _ = e.Runner.GarbageCollectConnectionsNow(context.Background())
	e.sw.empty = false
}

// switchReader is the function runner's reader: the XR client, except that while empty is
// set it reports that no Function is installed (used only to close connections).
type switchReader struct {
	inner client.Reader
	empty bool
}

func (s *switchReader) Get(ctx context.Context, k client.ObjectKey, o client.Object, opts ...client.GetOption) error {
	return s.inner.Get(ctx, k, o, opts...)
}

func (s *switchReader) List(ctx context.Context, l client.ObjectList, opts ...client.ListOption) error {
	if s.empty {
		return nil
	}
	return s.inner.List(ctx, l, opts...)
}

// Reconcile runs one reconcile of the named XR. crashed reports an injected crash, in which
// case the reconciler is rebuilt (process restart).
func (e *XREnv) Reconcile(name string) (res reconcile.Result, err error, crashed bool) {
	e.C.ResetCalls()
	if e.UC != e.C {
		e.UC.ResetCalls()
	}
	crashed = sim.RunActor(func() {
		res, err = e.R.Reconcile(context.Background(), reconcile.Request{NamespacedName: types.NamespacedName{Name: name}})
	})
	if crashed {
		e.Rebuild()
	}
	return res, err, crashed
}

// SecretGK is the group-kind of Secrets.
var SecretGK = schema.GroupKind{Kind: "Secret"}

var _ = corev1.Secret{}
