package xrk

import (
	"fmt"
	"sort"
	"sync/atomic"

	"github.com/crossplane/crossplane/verifh/sim"
)

// InterleaveDiff is one disagreement between an interleaved and the sequential execution.
type InterleaveDiff struct {
	Point       string `json:"preemptedBefore"`
	Key         string `json:"object"`
	Interleaved string `json:"interleaved"`
	Sequential  string `json:"sequential"`
}

// InterleaveVsSequential exercises ONE long-lived component (a reconciler with its caches,
// scratch buffers, connection pools ...) with two calls a and b that concern different objects.
// c is the component's API client. Reference: a then b on w. Then the cluster is put back and,
// for every API-call index k that a issued in the reference run (and k = calls: no preemption),
// a is parked right before its k-th call, b runs to completion, a resumes. Calls on different
// objects commute, so digest(w) must equal the reference digest after every run. extraPark, if
// not nil, is given a function that parks the caller once; it is used for one more run in
// which a is parked at a point of the caller's choosing (e.g. inside a callback).
func InterleaveVsSequential(w *sim.World, c *sim.Client, a, b func(), digest func(*sim.World) map[string]string, extraPark func(park func())) (points, parkedRuns int, diffs []InterleaveDiff) {
	snap := w.Clone()
	c.ResetCalls()
	a()
	callsA := c.Calls()
	b()
	want := digest(w)
	w.Restore(snap)
	run := func(label string, arm func(park func())) {
		var armed atomic.Bool
		armed.Store(true)
		parked, resume, done := make(chan struct{}), make(chan struct{}), make(chan struct{})
		park := func() {
			if armed.CompareAndSwap(true, false) {
				parked <- struct{}{}
				<-resume
			}
		}
		arm(park)
		go func() {
			defer close(done)
			a()
		}()
		select {
		case <-parked:
			parkedRuns++
			b()
			close(resume)
			<-done
		case <-done:
			armed.Store(false)
			b()
		}
		c.OnCall = nil
		got := digest(w)
		keys := map[string]bool{}
		for k := range want {
			keys[k] = true
		}
		for k := range got {
			keys[k] = true
		}
		var ks []string
		for k := range keys {
			ks = append(ks, k)
		}
		sort.Strings(ks)
		for _, k := range ks {
			if got[k] != want[k] {
				diffs = append(diffs, InterleaveDiff{Point: label, Key: k, Interleaved: got[k], Sequential: want[k]})
				break
			}
		}
		w.Restore(snap)
		points++
	}
	for k := 0; k <= callsA; k++ {
		kk := int32(k)
		run(fmt.Sprintf("API call %d of the first call", k), func(park func()) {
			var n atomic.Int32
			c.OnCall = func(int, string) {
				if n.Add(1)-1 == kk {
					park()
				}
			}
		})
	}
	if extraPark != nil {
		run("caller-chosen point", extraPark)
	}
	return points, parkedRuns, diffs
}
