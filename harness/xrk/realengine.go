package xrk

import (
	"context"
	"errors"
	"reflect"
	"sync"
	"time"
	"unsafe"

	"k8s.io/apimachinery/pkg/runtime"
	"k8s.io/apimachinery/pkg/runtime/schema"
	toolscache "k8s.io/client-go/tools/cache"
	"k8s.io/client-go/util/workqueue"
	"sigs.k8s.io/controller-runtime/pkg/cache"
	"sigs.k8s.io/controller-runtime/pkg/client"
	"sigs.k8s.io/controller-runtime/pkg/client/apiutil"
	kcontroller "sigs.k8s.io/controller-runtime/pkg/controller"
	"sigs.k8s.io/controller-runtime/pkg/manager"
	"sigs.k8s.io/controller-runtime/pkg/reconcile"
	"sigs.k8s.io/controller-runtime/pkg/source"

	"github.com/crossplane/crossplane/internal/engine"
	"github.com/crossplane/crossplane/verifh/sim"
)

// RealEngine is a definition.ControllerEngine backed by the REAL engine.ControllerEngine. The
// engine runs over fake shared informers (which can be told to fail while handlers are being
// removed) and fake controller-runtime controllers. "Start <name>" / "Stop <name>" marks are
// written to the world's trace from GROUND TRUTH, not from what the engine reports: a
// controller counts as stopped only once its context is cancelled and none of its event
// handler registrations is left on any informer. Use one RealEngine per controller name.
type RealEngine struct {
	*Engine
	Real *engine.ControllerEngine
	Infs *FakeInformers

	rmu         sync.Mutex
	reconcilers map[string]reconcile.Reconciler
	ctrls       map[string][]*fakeController
	truth       map[string]bool // ground truth "running" per name, as last marked
	StopErrors  int
}

// NewRealEngine builds a real engine whose cached and uncached clients are c.
func NewRealEngine(w *sim.World, c *sim.Client) *RealEngine {
	infs := &FakeInformers{scheme: w.Scheme, cur: map[schema.GroupVersionKind]*fakeInformer{}, failRemove: map[schema.GroupVersionKind]int{}, failGet: map[schema.GroupVersionKind]int{}}
	itc := engine.TrackInformers(infs, w.Scheme)
	e := &RealEngine{Engine: NewEngine(w, c), Infs: infs, reconcilers: map[string]reconcile.Reconciler{}, ctrls: map[string][]*fakeController{}, truth: map[string]bool{}}
	e.Real = engine.New(NewManager(w, c), itc, c, c)
	return e
}

// Start implements ControllerEngine.
func (e *RealEngine) Start(name string, o ...engine.ControllerOption) error {
	co := &engine.ControllerOptions{}
	for _, fn := range o {
		fn(co)
	}
	f := reflect.ValueOf(co).Elem().FieldByName("runtime")
	if !f.IsValid() {
		panic("harness: engine.ControllerOptions has no field 'runtime' any more")
	}
	ko, ok := reflect.NewAt(f.Type(), unsafe.Pointer(f.UnsafeAddr())).Elem().Interface().(kcontroller.Options)
	if !ok {
		panic("harness: engine.ControllerOptions.runtime is not controller.Options")
	}
	was := e.Real.IsRunning(name)
	nc := func(n string, _ manager.Manager, _ kcontroller.Options) (kcontroller.Controller, error) {
		fc := &fakeController{started: make(chan struct{}), q: workqueue.NewTypedRateLimitingQueue(workqueue.DefaultTypedControllerRateLimiter[reconcile.Request]())}
		e.rmu.Lock()
		e.ctrls[n] = append(e.ctrls[n], fc)
		e.rmu.Unlock()
		return fc, nil
	}
	if err := e.Real.Start(name, append(append([]engine.ControllerOption{}, o...), engine.WithNewControllerFn(nc))...); err != nil {
		e.W.Mark("engine", "Start FAILED "+name, sim.Key{Name: name})
		return err
	}
	e.rmu.Lock()
	e.reconcilers[name] = ko.Reconciler
	e.rmu.Unlock()
	if !was {
		e.rmu.Lock()
		e.truth[name] = true
		e.rmu.Unlock()
		e.W.Mark("engine", "Start "+name, sim.Key{Name: name})
	}
	return nil
}

// TrulyStopped reports whether every incarnation of the named controller has had its context
// cancelled and no handler registration is live on any informer. ok is false if a controller's
// Start was never called (inconclusive).
func (e *RealEngine) TrulyStopped(name string) (stopped, ok bool) {
	e.rmu.Lock()
	incs := append([]*fakeController(nil), e.ctrls[name]...)
	e.rmu.Unlock()
	for _, fc := range incs {
		select {
		case <-fc.started:
		case <-time.After(30 * time.Second):
			return false, false
		}
		if fc.ctx().Err() == nil {
			return false, true
		}
	}
	return e.Infs.Live() == 0, true
}

// Stop implements ControllerEngine.
func (e *RealEngine) Stop(ctx context.Context, name string) error {
	err := e.Real.Stop(ctx, name)
	if err != nil {
		e.rmu.Lock()
		e.StopErrors++
		e.rmu.Unlock()
	}
	stopped, ok := e.TrulyStopped(name)
	e.rmu.Lock()
	was := e.truth[name]
	if ok && stopped {
		e.truth[name] = false
	}
	e.rmu.Unlock()
	switch {
	case ok && stopped && was:
		e.W.Mark("engine", "Stop "+name, sim.Key{Name: name})
	case err != nil:
		e.W.Mark("engine", "Stop FAILED "+name, sim.Key{Name: name})
	}
	return err
}

// IsRunning implements ControllerEngine.
func (e *RealEngine) IsRunning(name string) bool { return e.Real.IsRunning(name) }

// GetWatches implements ControllerEngine.
func (e *RealEngine) GetWatches(name string) ([]engine.WatchID, error) { return e.Real.GetWatches(name) }

// StartWatches implements ControllerEngine.
func (e *RealEngine) StartWatches(name string, ws ...engine.Watch) error {
	return e.Real.StartWatches(name, ws...)
}

// StopWatches implements ControllerEngine.
func (e *RealEngine) StopWatches(ctx context.Context, name string, ws ...engine.WatchID) (int, error) {
	return e.Real.StopWatches(ctx, name, ws...)
}

// Reconciler returns the reconciler captured for the named controller (nil if none).
func (e *RealEngine) Reconciler(name string) reconcile.Reconciler {
	e.rmu.Lock()
	defer e.rmu.Unlock()
	return e.reconcilers[name]
}

// fakeController is the controller-runtime controller the real engine runs: it starts a
// source as soon as it is handed one (as a started controller does) and runs until cancelled.
type fakeController struct {
	kcontroller.Controller
	q       workqueue.TypedRateLimitingInterface[reconcile.Request]
	mu      sync.Mutex
	c       context.Context
	started chan struct{}
}

func (f *fakeController) Start(ctx context.Context) error {
	f.mu.Lock()
	f.c = ctx
	f.mu.Unlock()
	close(f.started)
	<-ctx.Done()
	return nil
}

func (f *fakeController) Watch(src source.TypedSource[reconcile.Request]) error {
	return src.Start(context.Background(), f.q)
}

func (f *fakeController) ctx() context.Context {
	f.mu.Lock()
	defer f.mu.Unlock()
	return f.c
}

// FakeInformers is the cache.Cache under the real InformerTrackingCache: one informer per kind,
// handler registrations are recorded, and teardown calls can be made to fail.
type FakeInformers struct {
	cache.Cache
	scheme *runtime.Scheme

	mu         sync.Mutex
	cur        map[schema.GroupVersionKind]*fakeInformer
	regs       []*fakeReg
	failRemove map[schema.GroupVersionKind]int
	failGet    map[schema.GroupVersionKind]int
	// FailNextRemovals makes the next n RemoveEventHandler calls (of any kind) fail
	FailNextRemovals int
	Failed           int
}

// Live returns the number of handler registrations that are still registered.
func (f *FakeInformers) Live() int {
	f.mu.Lock()
	defer f.mu.Unlock()
	n := 0
	for _, r := range f.regs {
		if !r.removed && !r.inf.stopped {
			n++
		}
	}
	return n
}

// LiveByKind returns the number of live handler registrations per kind.
func (f *FakeInformers) LiveByKind() map[string]int {
	f.mu.Lock()
	defer f.mu.Unlock()
	out := map[string]int{}
	for _, r := range f.regs {
		if !r.removed && !r.inf.stopped {
			out[r.inf.gvk.Kind]++
		}
	}
	return out
}

// Registrations returns the number of handler registrations ever made.
func (f *FakeInformers) Registrations() int {
	f.mu.Lock()
	defer f.mu.Unlock()
	return len(f.regs)
}

// FailRemovals plans n failing RemoveEventHandler calls.
func (f *FakeInformers) FailRemovals(n int) {
	f.mu.Lock()
	defer f.mu.Unlock()
	f.FailNextRemovals += n
}

func (f *FakeInformers) GetInformer(ctx context.Context, obj client.Object, opts ...cache.InformerGetOption) (cache.Informer, error) {
	gvk, err := apiutil.GVKForObject(obj, f.scheme)
	if err != nil {
		return nil, err
	}
	return f.GetInformerForKind(ctx, gvk, opts...)
}

func (f *FakeInformers) GetInformerForKind(_ context.Context, gvk schema.GroupVersionKind, _ ...cache.InformerGetOption) (cache.Informer, error) {
	f.mu.Lock()
	defer f.mu.Unlock()
	if f.failGet[gvk] > 0 {
		f.failGet[gvk]--
		f.Failed++
		return nil, errors.New("injected: cannot get informer")
	}
	if i := f.cur[gvk]; i != nil {
		return i, nil
	}
	i := &fakeInformer{fi: f, gvk: gvk}
	f.cur[gvk] = i
	return i, nil
}

func (f *FakeInformers) RemoveInformer(_ context.Context, obj client.Object) error {
	gvk, err := apiutil.GVKForObject(obj, f.scheme)
	if err != nil {
		return err
	}
	f.mu.Lock()
	defer f.mu.Unlock()
	if i := f.cur[gvk]; i != nil {
		i.stopped = true
		delete(f.cur, gvk)
	}
	return nil
}

type fakeInformer struct {
	fi      *FakeInformers
	gvk     schema.GroupVersionKind
	stopped bool
}

type fakeReg struct {
	inf     *fakeInformer
	removed bool
}

func (r *fakeReg) HasSynced() bool { return true }

func (i *fakeInformer) AddEventHandler(toolscache.ResourceEventHandler) (toolscache.ResourceEventHandlerRegistration, error) {
	i.fi.mu.Lock()
	defer i.fi.mu.Unlock()
	if i.stopped {
		return nil, errors.New("handler was not added to shared informer because it has stopped already")
	}
	r := &fakeReg{inf: i}
	i.fi.regs = append(i.fi.regs, r)
	return r, nil
}

func (i *fakeInformer) AddEventHandlerWithResyncPeriod(h toolscache.ResourceEventHandler, _ time.Duration) (toolscache.ResourceEventHandlerRegistration, error) {
	return i.AddEventHandler(h)
}

func (i *fakeInformer) RemoveEventHandler(handle toolscache.ResourceEventHandlerRegistration) error {
	r, ok := handle.(*fakeReg)
	if !ok {
		return errors.New("invalid registration handle")
	}
	i.fi.mu.Lock()
	defer i.fi.mu.Unlock()
	if r.inf != i {
		return nil
	}
	if i.fi.FailNextRemovals > 0 && !r.removed {
		i.fi.FailNextRemovals--
		i.fi.Failed++
		return errors.New("injected: cannot remove event handler")
	}
	r.removed = true
	return nil
}

func (i *fakeInformer) AddIndexers(toolscache.Indexers) error { return nil }
func (i *fakeInformer) HasSynced() bool                       { return true }
func (i *fakeInformer) IsStopped() bool {
	i.fi.mu.Lock()
	defer i.fi.mu.Unlock()
	return i.stopped
}
