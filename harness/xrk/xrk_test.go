package xrk

import (
	"fmt"
	"testing"

	"google.golang.org/protobuf/types/known/structpb"

	fnv1 "github.com/crossplane/crossplane/apis/apiextensions/fn/proto/v1"
	"github.com/crossplane/crossplane/verifh/sim"
)

func TestSmokePipeline(t *testing.T) {
	w := sim.NewWorld(Scheme(), 1)
	xrdObj := XRDObject(XRDOpts{Group: "ex.org", Kind: "XThing", Plural: "xthings"})
	w.MustSeed("user", xrdObj)
	fs := Fn(0)
	for _, o := range FunctionObjects("fn-a", fs.Addr) {
		w.MustSeedFull("pkg", o)
	}
	w.MustSeed("user", PipelineComposition("comp", "ex.org/v1", "XThing", []string{"fn-a"}, nil))
	if err := ReconcileComposition(w, "comp"); err != nil {
		t.Fatal(err)
	}
	w.MustSeed("user", XRObject("ex.org/v1", "XThing", "xr1", "comp", map[string]any{"size": int64(3)}))
	fs.Set(func(req *fnv1.RunFunctionRequest) (*fnv1.RunFunctionResponse, error) {
		d := req.GetDesired()
		if d == nil {
			d = &fnv1.State{}
		}
		if d.Resources == nil {
			d.Resources = map[string]*fnv1.Resource{}
		}
		for _, n := range []string{"a", "b"} {
			s, _ := structpb.NewStruct(map[string]any{"apiVersion": "nop.ex.org/v1", "kind": "Nop", "spec": map[string]any{"x": n}})
			d.Resources[n] = &fnv1.Resource{Resource: s, Ready: fnv1.Ready_READY_TRUE}
		}
		return &fnv1.RunFunctionResponse{Desired: d}, nil
	})
	env := NewXREnv(w, XRDTyped(xrdObj))
	for i := 0; i < 3; i++ {
		from := w.LogLen()
		res, err, crashed := env.Reconcile("xr1")
		fmt.Printf("--- reconcile %d: res=%+v err=%v crashed=%v calls=%d\n", i, res, err, crashed, env.C.Calls())
		for _, e := range w.Log(from) {
			fmt.Println("   ", e.Short())
		}
	}
	xr := w.GetObj(sim.Key{Group: "ex.org", Kind: "XThing", Name: "xr1"})
	fmt.Printf("XR spec: %v\nXR status: %v\n", xr["spec"], xr["status"])
	for _, o := range w.ListObjs(sim.Key{Group: "nop.ex.org", Kind: "Nop"}.GK()) {
		fmt.Printf("composed: %v\n", o["metadata"])
	}
}
