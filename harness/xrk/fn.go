package xrk

import (
	"context"
	"net"
	"sync"
	"sync/atomic"

	"google.golang.org/grpc"
	"google.golang.org/grpc/codes"
	"google.golang.org/grpc/status"
	"google.golang.org/protobuf/proto"

	fnv1 "github.com/crossplane/crossplane/apis/apiextensions/fn/proto/v1"
	fnv1beta1 "github.com/crossplane/crossplane/apis/apiextensions/fn/proto/v1beta1"
)

// Program is a scripted composition function: a deterministic function of its request.
type Program func(req *fnv1.RunFunctionRequest) (*fnv1.RunFunctionResponse, error)

// FnServer is a real gRPC function server on loopback running a Program and recording every
// request it receives.
type FnServer struct {
	Addr     string
	BetaOnly bool
	// Serve switches which API versions are answered (ServeAsRegistered, ServeBetaOnly, ServeV1Only)
	Serve atomic.Int32

	mu   sync.Mutex
	prog Program
	reqs []*fnv1.RunFunctionRequest
	srv  *grpc.Server
}

type v1impl struct {
	fnv1.UnimplementedFunctionRunnerServiceServer
	s *FnServer
}

func (i *v1impl) RunFunction(_ context.Context, req *fnv1.RunFunctionRequest) (*fnv1.RunFunctionResponse, error) {
	if i.s.Serve.Load() == ServeBetaOnly {
		return nil, status.Error(codes.Unimplemented, "unknown service apiextensions.fn.proto.v1.FunctionRunnerService")
	}
	return i.s.run(req)
}

type betaimpl struct {
	fnv1beta1.UnimplementedFunctionRunnerServiceServer
	s *FnServer
}

func (i *betaimpl) RunFunction(_ context.Context, req *fnv1beta1.RunFunctionRequest) (*fnv1beta1.RunFunctionResponse, error) {
	if i.s.Serve.Load() == ServeV1Only {
		return nil, status.Error(codes.Unimplemented, "unknown service apiextensions.fn.proto.v1beta1.FunctionRunnerService")
	}
	// re-encode to v1 for the program and the record; the wire bytes are what the server got
	b, err := proto.Marshal(req)
	if err != nil {
		return nil, err
	}
	r1 := &fnv1.RunFunctionRequest{}
	if err := proto.Unmarshal(b, r1); err != nil {
		return nil, err
	}
	rsp, err := i.s.run(r1)
	if err != nil {
		return nil, err
	}
	b, err = proto.Marshal(rsp)
	if err != nil {
		return nil, err
	}
	out := &fnv1beta1.RunFunctionResponse{}
	return out, proto.Unmarshal(b, out)
}

func (s *FnServer) run(req *fnv1.RunFunctionRequest) (*fnv1.RunFunctionResponse, error) {
	s.mu.Lock()
	s.reqs = append(s.reqs, proto.Clone(req).(*fnv1.RunFunctionRequest))
	p := s.prog
	s.mu.Unlock()
	if p == nil {
		return &fnv1.RunFunctionResponse{Desired: req.GetDesired(), Context: req.GetContext()}, nil
	}
	return p(req)
}

// Which API versions a server answers can be switched at run time: a function runtime upgraded
// behind an unchanged endpoint (the endpoint is a Service named after the Function).
const (
	ServeAsRegistered int32 = iota
	ServeBetaOnly           // v1 calls are answered Unimplemented
	ServeV1Only             // v1beta1 calls are answered Unimplemented
)

// NewFnServer starts a function server on a fresh loopback port.
func NewFnServer(betaOnly bool) *FnServer {
	l, err := net.Listen("tcp", "127.0.0.1:0")
	if err != nil {
		panic(err)
	}
	s := &FnServer{Addr: l.Addr().String(), BetaOnly: betaOnly, srv: grpc.NewServer()}
	if betaOnly {
		fnv1beta1.RegisterFunctionRunnerServiceServer(s.srv, &betaimpl{s: s})
	} else {
		fnv1.RegisterFunctionRunnerServiceServer(s.srv, &v1impl{s: s})
		fnv1beta1.RegisterFunctionRunnerServiceServer(s.srv, &betaimpl{s: s})
	}
	go func() { _ = s.srv.Serve(l) }()
	return s
}

// Set installs the program.
func (s *FnServer) Set(p Program) {
	s.mu.Lock()
	defer s.mu.Unlock()
	s.prog = p
}

// Take returns and clears the recorded requests.
func (s *FnServer) Take() []*fnv1.RunFunctionRequest {
	s.mu.Lock()
	defer s.mu.Unlock()
	r := s.reqs
	s.reqs = nil
	return r
}

// Close stops the server.
func (s *FnServer) Close() { s.srv.Stop() }

var (
	poolMu sync.Mutex
	pool   []*FnServer
)

// Fn returns the i-th pooled v1 function server, creating it on first use.
func Fn(i int) *FnServer {
	poolMu.Lock()
	defer poolMu.Unlock()
	for len(pool) <= i {
		pool = append(pool, NewFnServer(false))
	}
	return pool[i]
}

// FunctionObjects returns the Function and its active FunctionRevision (JSON) that make the
// PackagedFunctionRunner dial endpoint for function name.
func FunctionObjects(name, endpoint string) []map[string]any {
	return []map[string]any{
		{
			"apiVersion": "pkg.crossplane.io/v1", "kind": "Function",
			"metadata": map[string]any{"name": name},
			"spec":     map[string]any{"package": "xpkg.example.org/fn/" + name + ":v1.0.0"},
		},
		FunctionRevision(name, name+"-rev1", endpoint, true, 1),
	}
}

// FunctionRevision returns one FunctionRevision object.
func FunctionRevision(fn, rev, endpoint string, active bool, n int64) map[string]any {
	st := "Inactive"
	if active {
		st = "Active"
	}
	return map[string]any{
		"apiVersion": "pkg.crossplane.io/v1", "kind": "FunctionRevision",
		"metadata": map[string]any{"name": rev, "labels": map[string]any{"pkg.crossplane.io/package": fn}},
		"spec": map[string]any{"package": "xpkg.example.org/fn/" + fn + ":v1.0.0", "image": "xpkg.example.org/fn/" + fn + ":v1.0.0",
			"desiredState": st, "revision": n},
		"status": map[string]any{"endpoint": endpoint},
	}
}
