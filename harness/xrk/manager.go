package xrk

import (
	"context"
	"net/http"
	"sync"

	"github.com/go-logr/logr"
	"k8s.io/apimachinery/pkg/api/meta"
	"k8s.io/apimachinery/pkg/runtime"
	"k8s.io/client-go/rest"
	"k8s.io/client-go/tools/record"
	"sigs.k8s.io/controller-runtime/pkg/cache"
	"sigs.k8s.io/controller-runtime/pkg/client"
	"sigs.k8s.io/controller-runtime/pkg/config"
	"sigs.k8s.io/controller-runtime/pkg/healthz"
	"sigs.k8s.io/controller-runtime/pkg/manager"
	"sigs.k8s.io/controller-runtime/pkg/webhook"

	"github.com/crossplane/crossplane/verifh/sim"
)

// Manager is a fake controller-runtime manager over a sim client. Only what reconciler
// constructors and webhook set-up functions use is implemented.
type Manager struct {
	W   *sim.World
	C   client.Client
	Web *WebhookServer
}

var _ manager.Manager = &Manager{}

// NewManager returns a manager whose client is c.
func NewManager(w *sim.World, c client.Client) *Manager {
	return &Manager{W: w, C: c, Web: &WebhookServer{Hooks: map[string]http.Handler{}}}
}

func (m *Manager) Add(manager.Runnable) error                              { return nil }
func (m *Manager) Elected() <-chan struct{}                                { ch := make(chan struct{}); close(ch); return ch }
func (m *Manager) AddMetricsServerExtraHandler(string, http.Handler) error { return nil }
func (m *Manager) AddHealthzCheck(string, healthz.Checker) error           { return nil }
func (m *Manager) AddReadyzCheck(string, healthz.Checker) error            { return nil }
func (m *Manager) Start(context.Context) error                             { return nil }
func (m *Manager) GetWebhookServer() webhook.Server                        { return m.Web }
func (m *Manager) GetLogger() logr.Logger                                  { return logr.Discard() }
func (m *Manager) GetControllerOptions() config.Controller                 { return config.Controller{} }
func (m *Manager) GetHTTPClient() *http.Client                             { return http.DefaultClient }
func (m *Manager) GetConfig() *rest.Config                                 { return &rest.Config{} }
func (m *Manager) GetCache() cache.Cache                                   { return nil }
func (m *Manager) GetScheme() *runtime.Scheme                              { return m.W.Scheme }
func (m *Manager) GetClient() client.Client                                { return m.C }
func (m *Manager) GetFieldIndexer() client.FieldIndexer                    { return Indexer{m.W} }
func (m *Manager) GetEventRecorderFor(string) record.EventRecorder {
	return record.NewFakeRecorder(100000)
}
func (m *Manager) GetRESTMapper() meta.RESTMapper { return nil }
func (m *Manager) GetAPIReader() client.Reader    { return m.C }

// WebhookServer captures registrations.
type WebhookServer struct {
	mu    sync.Mutex
	Hooks map[string]http.Handler
}

func (s *WebhookServer) NeedLeaderElection() bool { return false }
func (s *WebhookServer) Register(path string, hook http.Handler) {
	s.mu.Lock()
	defer s.mu.Unlock()
	s.Hooks[path] = hook
}
func (s *WebhookServer) Start(context.Context) error { return nil }
func (s *WebhookServer) StartedChecker() healthz.Checker {
	return func(*http.Request) error { return nil }
}
func (s *WebhookServer) WebhookMux() *http.ServeMux { return http.NewServeMux() }
