package xrk

import (
	"context"
	"encoding/json"

	"k8s.io/apimachinery/pkg/types"
	"sigs.k8s.io/controller-runtime/pkg/reconcile"

	v1 "github.com/crossplane/crossplane/apis/apiextensions/v1"
	"github.com/crossplane/crossplane/internal/controller/apiextensions/composition"
	"github.com/crossplane/crossplane/verifh/sim"
)

// XRDOpts describes a generated XRD.
type XRDOpts struct {
	Group, Kind, Plural    string
	ClaimKind, ClaimPlural string
	ConnectionKeys         []string
	Versions               []string // first is referenceable; default ["v1"]
}

// XRDObject returns the XRD as JSON.
func XRDObject(o XRDOpts) map[string]any {
	if len(o.Versions) == 0 {
		o.Versions = []string{"v1"}
	}
	var vs []any
	for i, v := range o.Versions {
		vs = append(vs, map[string]any{
			"name": v, "served": true, "referenceable": i == 0,
			"schema": map[string]any{"openAPIV3Schema": map[string]any{
				"type": "object",
				"properties": map[string]any{
					"spec":   map[string]any{"type": "object", "x-kubernetes-preserve-unknown-fields": true},
					"status": map[string]any{"type": "object", "x-kubernetes-preserve-unknown-fields": true},
				},
			}},
		})
	}
	spec := map[string]any{
		"group":    o.Group,
		"names":    map[string]any{"kind": o.Kind, "plural": o.Plural},
		"versions": vs,
	}
	if o.ClaimKind != "" {
		spec["claimNames"] = map[string]any{"kind": o.ClaimKind, "plural": o.ClaimPlural}
	}
	if len(o.ConnectionKeys) > 0 {
		ks := make([]any, len(o.ConnectionKeys))
		for i, k := range o.ConnectionKeys {
			ks[i] = k
		}
		spec["connectionSecretKeys"] = ks
	}
	return map[string]any{
		"apiVersion": "apiextensions.crossplane.io/v1", "kind": "CompositeResourceDefinition",
		"metadata": map[string]any{"name": o.Plural + "." + o.Group},
		"spec":     spec,
	}
}

// XRDTyped converts the stored XRD object into the typed API object.
func XRDTyped(o map[string]any) *v1.CompositeResourceDefinition {
	b, _ := json.Marshal(o)
	d := &v1.CompositeResourceDefinition{}
	if err := json.Unmarshal(b, d); err != nil {
		panic(err)
	}
	return d
}

// PipelineComposition returns a Composition in Pipeline mode whose steps call the named
// functions in order. inputs[i] (optional) is the step's input object.
func PipelineComposition(name, xrAPIVersion, xrKind string, fns []string, inputs []map[string]any) map[string]any {
	var steps []any
	for i, f := range fns {
		st := map[string]any{"step": "step-" + string(rune('a'+i)), "functionRef": map[string]any{"name": f}}
		if i < len(inputs) && inputs[i] != nil {
			st["input"] = inputs[i]
		}
		steps = append(steps, st)
	}
	return map[string]any{
		"apiVersion": "apiextensions.crossplane.io/v1", "kind": "Composition",
		"metadata": map[string]any{"name": name},
		"spec": map[string]any{
			"compositeTypeRef": map[string]any{"apiVersion": xrAPIVersion, "kind": xrKind},
			"mode":             "Pipeline",
			"pipeline":         steps,
		},
	}
}

// ResourcesComposition returns a Composition in Resources (patch-and-transform) mode.
func ResourcesComposition(name, xrAPIVersion, xrKind string, templates []map[string]any) map[string]any {
	rs := make([]any, len(templates))
	for i, t := range templates {
		rs[i] = t
	}
	return map[string]any{
		"apiVersion": "apiextensions.crossplane.io/v1", "kind": "Composition",
		"metadata": map[string]any{"name": name},
		"spec": map[string]any{
			"compositeTypeRef": map[string]any{"apiVersion": xrAPIVersion, "kind": xrKind},
			"mode":             "Resources",
			"resources":        rs,
		},
	}
}

// ReconcileComposition runs the real Composition (revision) controller once for name.
func ReconcileComposition(w *sim.World, name string) error {
	c := w.Client("composition")
	r := composition.NewReconciler(NewManager(w, c))
	_, err := r.Reconcile(context.Background(), reconcile.Request{NamespacedName: types.NamespacedName{Name: name}})
	return err
}

// XRObject returns an XR as JSON.
func XRObject(apiVersion, kind, name, compName string, spec map[string]any) map[string]any {
	s := map[string]any{}
	for k, v := range spec {
		s[k] = v
	}
	if compName != "" {
		s["compositionRef"] = map[string]any{"name": compName}
	}
	return map[string]any{
		"apiVersion": apiVersion, "kind": kind,
		"metadata": map[string]any{"name": name},
		"spec":     s,
	}
}
