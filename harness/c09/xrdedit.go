// The XRD's key filter over a history of XRD edits (C09): the XR controller is started and
// restarted by the REAL XRD (definition) reconciler.
//go:build verif

package main

import (
	"context"
	"errors"
	"fmt"
	"sort"
	"strings"

	"k8s.io/apimachinery/pkg/apis/meta/v1/unstructured"
	"k8s.io/apimachinery/pkg/types"
	"sigs.k8s.io/controller-runtime/pkg/reconcile"

	"github.com/crossplane/crossplane/internal/controller/apiextensions/definition"
	"github.com/crossplane/crossplane/internal/xfn"
	"github.com/crossplane/crossplane/verifh/kit"
	"github.com/crossplane/crossplane/verifh/sim"
	"github.com/crossplane/crossplane/verifh/xrk"
)

// runXRDFilterEdit: the XRD author edits spec.connectionSecretKeys while XRs exist. The real
// definition reconciler reconciles the XRD after every edit (it owns the XR controller's life
// cycle); XRs are reconciled by whatever reconciler the engine holds for the XR controller at
// that moment. A brand-new XR created after an edit gets a secret with only keys the XRD allows
// NOW; so does an existing XR whose secret is deleted and published afresh.
func runXRDFilterEdit(c *kit.Ctx, i int) {
	name := fmt.Sprintf("xrd-filter-edit/%d", i)
	if !c.Want(name) {
		return
	}
	r := c.Rng("xrd-filter-edit", i)
	ctx := context.Background()
	all := []string{"password", "user", "endpoint"}
	pick := func() []string {
		var ks []string
		for _, k := range all {
			if r.IntN(2) == 0 {
				ks = append(ks, k)
			}
		}
		return ks // empty = the XRD lists none = every key allowed
	}
	w := sim.NewWorld(xrk.Scheme(), uint64(c.Seed)*173+uint64(i))
	filters := [][]string{pick()}
	xrd := xrk.XRDObject(xrk.XRDOpts{Group: "ex.org", Kind: "XThing", Plural: "xthings", ConnectionKeys: filters[0]})
	w.MustSeed("user", xrd)
	xrdName := "xthings.ex.org"
	xrdKey := sim.Key{Group: "apiextensions.crossplane.io", Kind: "CompositeResourceDefinition", Name: xrdName}
	w.MustSeed("user", xrk.ResourcesComposition("comp", "ex.org/v1", "XThing", []map[string]any{{
		"name": "a", "base": map[string]any{"apiVersion": "nop.ex.org/v1", "kind": "NopA", "spec": map[string]any{"forProvider": map[string]any{"v": "1"}}},
		"readinessChecks": []any{map[string]any{"type": "None"}},
		"connectionDetails": []any{
			map[string]any{"name": "password", "type": "FromValue", "value": "pw"},
			map[string]any{"name": "user", "type": "FromValue", "value": "admin"},
			map[string]any{"name": "endpoint", "type": "FromValue", "value": "db.example.org"},
		},
	}}))
	if err := xrk.ReconcileComposition(w, "comp"); err != nil {
		panic(err)
	}
	xrC := w.Client("xr")
	eng := xrk.NewCapturingEngine(w, xrC)
	od := xrk.Options(false)
	od.FunctionRunner = xfn.NewPackagedFunctionRunner(xrC)
	defR := definition.NewReconciler(definition.NewClientApplicator(w.Client("definition")), definition.WithControllerEngine(eng), definition.WithOptions(od))
	ctl := "composite/" + xrdName
	var trace []string
	settleXRD := func() {
		for k := 0; k < 3; k++ {
			_, err := defR.Reconcile(ctx, reconcile.Request{NamespacedName: types.NamespacedName{Name: xrdName}})
			xrk.EstablishCRDs(w)
			trace = append(trace, fmt.Sprintf("XRD reconcile: err=%v controller running=%v", err, eng.IsRunning(ctl)))
		}
	}
	reconcileXR := func(n string) {
		rec := eng.Reconciler(ctl)
		if rec == nil || !eng.IsRunning(ctl) {
			trace = append(trace, "XR controller not running; "+n+" not reconciled")
			return
		}
		for k := 0; k < 3; k++ {
			_, _ = rec.Reconcile(ctx, reconcile.Request{NamespacedName: types.NamespacedName{Name: n}})
		}
	}
	newXR := func(n string) {
		w.MustSeed("user", xrk.XRObject("ex.org/v1", "XThing", n, "comp", map[string]any{"writeConnectionSecretToRef": map[string]any{"name": n + "-secret", "namespace": xrSecretNS}}))
	}
	judged := 0
	check := func(n, when string, filter []string) bool {
		got := secretData(w.GetObj(sim.Key{Kind: "Secret", Namespace: xrSecretNS, Name: n + "-secret"}))
		trace = append(trace, fmt.Sprintf("%s: secret of %s has keys %v; the XRD allows %v", when, n, keysOf(got), filter))
		if got == nil {
			return true
		}
		judged++
		allowed := map[string]bool{}
		for _, k := range filter {
			allowed[k] = true
		}
		var bad []string
		for k := range got {
			if len(filter) > 0 && !allowed[k] {
				bad = append(bad, k)
			}
		}
		if len(bad) > 0 {
			sort.Strings(bad)
			c.Violate("xr-secret-key-outside-filter:after-xrd-edit", name,
				fmt.Sprintf("%s: the secret of %s, published after the XRD's connectionSecretKeys became %v, holds %v", when, n, filter, bad),
				map[string]any{"filters": filters, "steps": trace})
			return false
		}
		return true
	}
	settleXRD()
	newXR("xr-0")
	reconcileXR("xr-0")
	ok := check("xr-0", "initial filter", filters[0])
	edits := 1 + r.IntN(3)
	for e := 1; e <= edits && ok; e++ {
		f := pick()
		if strings.Join(f, ",") == strings.Join(filters[len(filters)-1], ",") {
			f = append(f[:0:0], all[e%3]) // make it an actual edit
			if strings.Join(f, ",") == strings.Join(filters[len(filters)-1], ",") {
				f = []string{all[(e+1)%3]}
			}
		}
		filters = append(filters, f)
		u := &unstructured.Unstructured{Object: w.GetObj(xrdKey)}
		if len(f) == 0 {
			unstructured.RemoveNestedField(u.Object, "spec", "connectionSecretKeys")
		} else {
			_ = unstructured.SetNestedStringSlice(u.Object, f, "spec", "connectionSecretKeys")
		}
		if err := w.Client("user").Update(ctx, u); err != nil {
			panic(err)
		}
		trace = append(trace, fmt.Sprintf("-- the XRD author sets connectionSecretKeys to %v", f))
		if r.IntN(3) == 0 {
			// the engine cannot stop the running XR controller at the first attempt (an informer of one
			// of its watches cannot be had); the XRD reconciler's retries must get there all the same
			eng.FailOn["Stop"] = errors.New("injected: cannot stop watches")
			_, err := defR.Reconcile(ctx, reconcile.Request{NamespacedName: types.NamespacedName{Name: xrdName}})
			delete(eng.FailOn, "Stop")
			trace = append(trace, fmt.Sprintf("XRD reconcile while the engine's Stop fails: err=%v controller running=%v", err, eng.IsRunning(ctl)))
			c.Count("xrd_filter_edit_failed_stops", 1)
		}
		settleXRD()
		// a brand-new XR
		n := fmt.Sprintf("xr-%d", e)
		newXR(n)
		reconcileXR(n)
		ok = check(n, fmt.Sprintf("new XR after edit %d", e), f)
		// an existing XR whose secret is deleted and published afresh
		if ok {
			if s := w.GetObj(sim.Key{Kind: "Secret", Namespace: xrSecretNS, Name: "xr-0-secret"}); s != nil {
				_ = w.Client("user").Delete(ctx, &unstructured.Unstructured{Object: s})
				reconcileXR("xr-0")
				ok = check("xr-0", fmt.Sprintf("existing XR, secret re-published after edit %d", e), f)
			}
		}
	}
	c.Eval(fmt.Sprintf("xrd-filter-edit|%v", filters), judged >= 2)
	c.Count("xrd_filter_edit_cases", 1)
	c.Count("xrd_filter_edit_secrets_judged", int64(judged))
}
