//go:build verif

// C09: connection details reach only their owner's secret, filtered, from the right XR.
// Generated detail maps, XRD key filters, extraction configs and pre-existing secrets are run
// through the real XR reconciler (both composers) and the production-wired claim reconciler
// over the simulated API server; the oracle inspects the stored Secrets and every write
// addressed to a Secret.
package main

import (
	"strings"
	"context"
	"encoding/base64"
	"fmt"
	"math/rand/v2"
	"reflect"
	"sort"
	"sync"
	"sync/atomic"

	corev1 "k8s.io/api/core/v1"
	metav1 "k8s.io/apimachinery/pkg/apis/meta/v1"
	"k8s.io/apimachinery/pkg/apis/meta/v1/unstructured"
	"k8s.io/apimachinery/pkg/runtime/schema"
	"k8s.io/apimachinery/pkg/types"
	"k8s.io/utils/ptr"

	fnv1 "github.com/crossplane/crossplane/apis/apiextensions/fn/proto/v1"
	"github.com/crossplane/crossplane/verifh/kit"
	"github.com/crossplane/crossplane/verifh/sim"
	"github.com/crossplane/crossplane/verifh/xrk"
	"google.golang.org/protobuf/types/known/structpb"
)

const (
	connType   = "connection.crossplane.io/v1alpha1"
	xrSecretNS = "crossplane-system"
)

var (
	xrKey       = sim.Key{Group: "ex.org", Kind: "XThing", Name: "static-xr"}
	claimKey    = sim.Key{Group: "ex.org", Kind: "Thing", Namespace: "ns1", Name: "c1"}
	xrSecretKey = sim.Key{Kind: "Secret", Namespace: xrSecretNS, Name: "xr-secret"}
	clSecretKey = sim.Key{Kind: "Secret", Namespace: "ns1", Name: "claim-secret"}
	keyPool     = []string{"user", "pass", "host", "port", "extra"}
)

type extract struct {
	Name string `json:"name"`
	Type string `json:"type"` // key | keymissing | path | pathint | pathmissing | value
}

type tcase struct {
	Mode      string              `json:"mode"`
	Filter    []string            `json:"filter,omitempty"`
	Details   map[string]string   `json:"details,omitempty"`  // pipeline: composite connection details of the last step
	FirstStep map[string]string   `json:"firstStep,omitempty"` // pipeline: details returned by the first step (overwritten/dropped by the last)
	Extracts  map[string][]extract `json:"extracts,omitempty"` // P&T: per template
	Wants     bool                `json:"xrWantsSecret"`
	PreXR     string              `json:"preXRSecret"`  // absent | typed | untyped | own | foreign
	ClaimWant bool                `json:"claimWantsSecret"`
	PreClaim  string              `json:"preClaimSecret"` // absent | typed | own | foreign
	Tamper    string              `json:"tamperXRSecretController"` // "" | foreign | same-name-other-uid
}

func genCase(c *kit.Ctx, i int) tcase {
	r := c.Rng("case", i)
	t := tcase{Mode: []string{"pipeline", "pt"}[i%2], Wants: r.IntN(6) > 0, ClaimWant: r.IntN(5) > 0}
	switch r.IntN(3) {
	case 1:
		for _, k := range keyPool {
			if r.IntN(2) == 0 {
				t.Filter = append(t.Filter, k)
			}
		}
	case 2:
		t.Filter = []string{"unrelated"}
	}
	t.PreXR = []string{"absent", "absent", "typed", "untyped", "own", "foreign"}[r.IntN(6)]
	t.PreClaim = []string{"absent", "absent", "typed", "own", "foreign"}[r.IntN(5)]
	t.Tamper = []string{"", "", "", "", "foreign", "same-name-other-uid"}[r.IntN(6)]
	if t.Tamper == "" && r.IntN(5) == 0 {
		t.Tamper = "orphaned" // the XR secret loses its owner references: nobody controls it
	}
	if t.Mode == "pipeline" {
		t.Details, t.FirstStep = map[string]string{}, map[string]string{}
		for _, k := range keyPool {
			if r.IntN(3) > 0 {
				t.Details[k] = fmt.Sprintf("last-%s-%d", k, r.IntN(99))
			}
			if r.IntN(3) == 0 {
				t.FirstStep[k] = "first-step-" + k
			}
		}
	} else {
		t.Extracts = map[string][]extract{}
		for _, tn := range []string{"a", "b"} {
			for _, k := range keyPool {
				if r.IntN(3) == 0 {
					t.Extracts[tn] = append(t.Extracts[tn], extract{Name: k + "-" + tn, Type: []string{"key", "keymissing", "path", "pathint", "pathmissing", "value"}[r.IntN(6)]})
				}
			}
		}
	}
	return t
}

func nopObj(name string) map[string]any {
	return map[string]any{"apiVersion": "nop.ex.org/v1", "kind": "NopA", "spec": map[string]any{
		"forProvider":                map[string]any{"v": "val-" + name, "n": int64(5)},
		"writeConnectionSecretToRef": map[string]any{"name": "cd-" + name + "-conn", "namespace": xrSecretNS},
	}}
}

// expectedPT is the reference extraction, written from the ConnectionDetail API documentation.
func expectedPT(t *tcase) map[string]string {
	out := map[string]string{}
	for _, tn := range []string{"a", "b"} {
		for _, e := range t.Extracts[tn] {
			switch e.Type {
			case "key":
				out[e.Name] = "secret-of-" + tn
			case "path":
				out[e.Name] = "val-" + tn
			case "pathint":
				out[e.Name] = "5"
			case "value":
				out[e.Name] = "fixed-" + e.Name
			}
		}
	}
	return out
}

func ptTemplates(t *tcase) []map[string]any {
	var ts []map[string]any
	for _, tn := range []string{"a", "b"} {
		var cds []any
		for _, e := range t.Extracts[tn] {
			cd := map[string]any{"name": e.Name}
			switch e.Type {
			case "key":
				cd["type"], cd["fromConnectionSecretKey"] = "FromConnectionSecretKey", "k"
			case "keymissing":
				cd["type"], cd["fromConnectionSecretKey"] = "FromConnectionSecretKey", "not-there"
			case "path":
				cd["type"], cd["fromFieldPath"] = "FromFieldPath", "spec.forProvider.v"
			case "pathint":
				cd["type"], cd["fromFieldPath"] = "FromFieldPath", "spec.forProvider.n"
			case "pathmissing":
				cd["type"], cd["fromFieldPath"] = "FromFieldPath", "spec.forProvider.nope"
			case "value":
				cd["type"], cd["value"] = "FromValue", "fixed-"+e.Name
			}
			cds = append(cds, cd)
		}
		tm := map[string]any{"name": tn, "base": nopObj(tn), "readinessChecks": []any{map[string]any{"type": "None"}}}
		if len(cds) > 0 {
			tm["connectionDetails"] = cds
		}
		ts = append(ts, tm)
	}
	return ts
}

func secretData(o map[string]any) map[string]string {
	out := map[string]string{}
	d, _, _ := unstructured.NestedMap(o, "data")
	for k, v := range d {
		s, _ := v.(string)
		b, err := base64.StdEncoding.DecodeString(s)
		if err != nil {
			out[k] = "!" + s
			continue
		}
		out[k] = string(b)
	}
	return out
}

type worker struct {
	c   *kit.Ctx
	fns []*xrk.FnServer
	mu  sync.Mutex
	cur *tcase
	// copyObserved makes the last step also publish, as XR connection details, the connection
	// details of every observed composed resource (what function-patch-and-transform's
	// FromConnectionSecretKey does)
	copyObserved atomic.Bool
}

func newWorker(c *kit.Ctx, id int) *worker {
	w := &worker{c: c}
	for i := 0; i < 2; i++ {
		fs := xrk.Fn(id*2 + i)
		step := i
		fs.Set(func(req *fnv1.RunFunctionRequest) (*fnv1.RunFunctionResponse, error) {
			w.mu.Lock()
			t := *w.cur
			w.mu.Unlock()
			d := req.GetDesired()
			if d == nil {
				d = &fnv1.State{}
			}
			if d.Resources == nil {
				d.Resources = map[string]*fnv1.Resource{}
			}
			src := t.FirstStep
			if step == 1 {
				src = t.Details
			}
			cd := map[string][]byte{}
			for k, v := range src {
				cd[k] = []byte(v)
			}
			if step == 1 && w.copyObserved.Load() {
				for rn, or := range req.GetObserved().GetResources() {
					for k, v := range or.GetConnectionDetails() {
						cd["from-"+rn+"-"+k] = v
					}
				}
			}
			d.Composite = &fnv1.Resource{ConnectionDetails: cd, Ready: fnv1.Ready_READY_TRUE}
			if step == 0 {
				s, _ := structpb.NewStruct(nopObj("a"))
				d.Resources["a"] = &fnv1.Resource{Resource: s, Ready: fnv1.Ready_READY_TRUE}
			}
			return &fnv1.RunFunctionResponse{Desired: d}, nil
		})
		w.fns = append(w.fns, fs)
	}
	return w
}

func mkSecret(ns, name, typ string, data map[string]string, ctrl *metav1.OwnerReference) *corev1.Secret {
	s := &corev1.Secret{ObjectMeta: metav1.ObjectMeta{Namespace: ns, Name: name}, Type: corev1.SecretType(typ), Data: map[string][]byte{}}
	for k, v := range data {
		s.Data[k] = []byte(v)
	}
	if ctrl != nil {
		s.OwnerReferences = []metav1.OwnerReference{*ctrl}
	}
	return s
}

func (w *worker) run(i int, name string) {
	c := w.c
	t := genCase(c, i)
	w.mu.Lock()
	w.cur = &t
	w.mu.Unlock()
	ctx := context.Background()
	world := sim.NewWorld(xrk.Scheme(), uint64(c.Seed)*151+uint64(i))
	xrd := xrk.XRDObject(xrk.XRDOpts{Group: "ex.org", Kind: "XThing", Plural: "xthings", ClaimKind: "Thing", ClaimPlural: "things", ConnectionKeys: t.Filter})
	world.MustSeed("user", xrd)
	if t.Mode == "pipeline" {
		var names []string
		for k := 0; k < 2; k++ {
			n := fmt.Sprintf("fn-%d", k)
			names = append(names, n)
			for _, o := range xrk.FunctionObjects(n, w.fns[k].Addr) {
				world.MustSeedFull("pkg", o)
			}
		}
		world.MustSeed("user", xrk.PipelineComposition("comp", "ex.org/v1", "XThing", names, nil))
	} else {
		world.MustSeed("user", xrk.ResourcesComposition("comp", "ex.org/v1", "XThing", ptTemplates(&t)))
	}
	if err := xrk.ReconcileComposition(world, "comp"); err != nil {
		panic(err)
	}
	user := world.Client("user")
	// provider-side connection secrets of the composed resources
	for _, tn := range []string{"a", "b"} {
		if err := user.Create(ctx, mkSecret(xrSecretNS, "cd-"+tn+"-conn", connType, map[string]string{"k": "secret-of-" + tn}, nil)); err != nil {
			panic(err)
		}
	}
	xrSpec := map[string]any{"claimRef": map[string]any{"apiVersion": "ex.org/v1", "kind": "Thing", "namespace": "ns1", "name": "c1"}}
	if t.Wants {
		xrSpec["writeConnectionSecretToRef"] = map[string]any{"name": "xr-secret", "namespace": xrSecretNS}
	}
	xr := xrk.XRObject("ex.org/v1", "XThing", "static-xr", "comp", xrSpec)
	world.MustSeed("user", xr)
	xrUID := sim.Str(world.GetObj(xrKey), "metadata", "uid")
	cmSpec := map[string]any{"resourceRef": map[string]any{"apiVersion": "ex.org/v1", "kind": "XThing", "name": "static-xr"}, "compositionRef": map[string]any{"name": "comp"}}
	if t.ClaimWant {
		cmSpec["writeConnectionSecretToRef"] = map[string]any{"name": "claim-secret"}
	}
	world.MustSeed("user", xrk.ClaimObject("ex.org/v1", "Thing", "ns1", "c1", cmSpec))
	clUID := sim.Str(world.GetObj(claimKey), "metadata", "uid")

	own := func(kind, nm, uid string) *metav1.OwnerReference {
		return &metav1.OwnerReference{APIVersion: "ex.org/v1", Kind: kind, Name: nm, UID: types.UID(uid), Controller: ptr.To(true), BlockOwnerDeletion: ptr.To(true)}
	}
	foreign := &metav1.OwnerReference{APIVersion: "v1", Kind: "ConfigMap", Name: "someone", UID: "foreign-uid", Controller: ptr.To(true)}
	pre := map[string]string{"old": "pre-existing", "user": "pre-user"}
	if t.PreXR == "foreign" && i%3 == 0 {
		// the foreign owner's secret appears behind the controllers' Secret cache: their reads say
		// NotFound, their Create answers AlreadyExists
		frozen := world.RV()
		for _, a := range []string{"xr", "claim"} {
			world.SetActorLag(a, func(gk schema.GroupKind) (int64, bool) { return -frozen, gk.Group == "" && gk.Kind == "Secret" })
		}
		c.Count("xr_secret_foreign_behind_cache", 1)
	}
	switch t.PreXR {
	case "typed":
		_ = user.Create(ctx, mkSecret(xrSecretNS, "xr-secret", connType, pre, nil))
	case "untyped":
		_ = user.Create(ctx, mkSecret(xrSecretNS, "xr-secret", "Opaque", pre, nil))
	case "own":
		_ = user.Create(ctx, mkSecret(xrSecretNS, "xr-secret", connType, pre, own("XThing", "static-xr", xrUID)))
	case "foreign":
		_ = user.Create(ctx, mkSecret(xrSecretNS, "xr-secret", connType, pre, foreign))
	}
	switch t.PreClaim {
	case "typed":
		_ = user.Create(ctx, mkSecret("ns1", "claim-secret", connType, pre, nil))
	case "own":
		_ = user.Create(ctx, mkSecret("ns1", "claim-secret", connType, pre, own("Thing", "c1", clUID)))
	case "foreign":
		_ = user.Create(ctx, mkSecret("ns1", "claim-secret", connType, pre, foreign))
	}
	xrSecretBefore := world.GetObj(xrSecretKey)
	clSecretBefore := world.GetObj(clSecretKey)

	ce := xrk.NewClaimEnv(world, "xthings.ex.org", i%4 >= 2)
	xe := xrk.NewXREnv(world, ce.XRD)
	defer xe.CloseConns()
	from := world.LogLen()
	wit := func() any {
		var evs []string
		for _, e := range world.Log(from) {
			if e.Key.Kind == "Secret" && e.IsWrite() {
				evs = append(evs, e.Short())
			}
		}
		x, cl := world.GetObj(xrSecretKey), world.GetObj(clSecretKey)
		return map[string]any{"case": t, "secret_writes": evs, "xr_secret": secretData(x), "claim_secret": secretData(cl)}
	}
	fail := func(key, what string) { c.Violate(key+":"+t.Mode, name, what, wit()) }

	_, _, _ = ce.Reconcile("ns1", "c1")
	for k := 0; k < 3; k++ {
		_, _, _ = xe.Reconcile("static-xr")
	}
	xrSecretMid := world.GetObj(xrSecretKey) // after the XR reconciles, before any tampering
	if t.Tamper != "" {
		if s := world.GetObj(xrSecretKey); s != nil {
			u := &unstructured.Unstructured{Object: s}
			ref := *foreign
			if t.Tamper == "same-name-other-uid" {
				// e.g. the secret left behind by a deleted and re-created XR of the same name
				ref = *own("XThing", "static-xr", "uid-of-an-earlier-incarnation")
			}
			u.SetOwnerReferences([]metav1.OwnerReference{ref})
			if t.Tamper == "orphaned" {
				u.SetOwnerReferences(nil)
			}
			_ = user.Update(ctx, u)
		}
	}
	midLog := world.LogLen()
	midRV := world.RV()
	for k := 0; k < 2; k++ {
		_, _, _ = ce.Reconcile("ns1", "c1")
	}

	// ---- oracle: XR secret ----
	var expected map[string]string
	if t.Mode == "pipeline" {
		expected = t.Details
	} else {
		expected = expectedPT(&t)
	}
	allowed := func(k string) bool {
		if len(t.Filter) == 0 {
			return true
		}
		for _, f := range t.Filter {
			if f == k {
				return true
			}
		}
		return false
	}
	xrWrites, claimWrites := 0, 0
	for _, e := range world.Log(from) {
		if e.Key.Kind != "Secret" || !e.IsWrite() || e.DryRun {
			continue
		}
		if e.Actor == "xr" {
			xrWrites++
			if e.Key != xrSecretKey {
				fail("xr-wrote-other-secret", "XR controller wrote a secret that is not its own connection secret: "+e.Short())
			}
		}
		if e.Actor == "claim" {
			claimWrites++
			if e.Key != clSecretKey {
				fail("claim-wrote-other-secret", "claim controller wrote a secret that is not its own connection secret: "+e.Short())
			}
		}
	}
	if !t.Wants && xrWrites > 0 {
		fail("xr-secret-written-though-not-requested", fmt.Sprintf("XR has no writeConnectionSecretToRef but %d secret writes were issued", xrWrites))
	}
	if t.PreXR == "foreign" || t.PreXR == "untyped" {
		if !reflect.DeepEqual(xrSecretBefore, xrSecretMid) {
			fail("xr-secret-not-controllable-was-modified:"+t.PreXR, "pre-existing XR secret (foreign-controlled / uncontrolled non-connection type) changed")
		}
	} else if t.Wants {
		before := secretData(xrSecretBefore)
		after := secretData(xrSecretMid)
		for k, v := range after {
			if bv, had := before[k]; had && bv == v {
				continue // not written by this XR
			}
			if !allowed(k) {
				fail("xr-secret-key-outside-filter", fmt.Sprintf("key %q written to the XR secret is not in the XRD's connectionSecretKeys %v", k, t.Filter))
			}
			if ev, ok := expected[k]; !ok {
				fail("xr-secret-key-not-produced-by-composition", fmt.Sprintf("key %q=%q written to the XR secret was not produced by the composition for this XR (expected keys %v)", k, v, keysOf(expected)))
			} else if ev != v {
				fail("xr-secret-value-differs", fmt.Sprintf("key %q: secret has %q, composition produced %q", k, v, ev))
			}
		}
	}

	// ---- oracle: claim secret ----
	xrSecretNow := world.GetObj(xrSecretKey)
	xrCtl := sim.ControllerOf(xrSecretNow)
	xrOwnsSecret := xrCtl != nil && sim.Str(xrCtl, "uid") == xrUID
	clChanged := false
	for _, e := range world.Log(from) {
		if e.Actor == "claim" && e.Key == clSecretKey && e.Changed {
			clChanged = true
		}
	}
	if clChanged && !xrOwnsSecret {
		fail("claim-copied-secret-not-controlled-by-xr", "claim secret was written although the source secret is not controlled by the bound XR")
	}
	if clChanged && !t.ClaimWant {
		fail("claim-secret-written-though-not-requested", "claim has no writeConnectionSecretToRef but its secret was written")
	}
	if t.PreClaim == "foreign" && !reflect.DeepEqual(clSecretBefore, world.GetObj(clSecretKey)) {
		fail("claim-secret-foreign-controlled-was-modified", "pre-existing foreign-controlled claim secret changed")
	}
	if clChanged && xrOwnsSecret {
		if got, want := secretData(world.GetObj(clSecretKey)), secretData(xrSecretNow); !reflect.DeepEqual(got, want) {
			fail("claim-secret-not-exact-copy", fmt.Sprintf("claim secret %v != XR secret %v", got, want))
		}
	}
	_ = midLog

	// ---- identical data is never rewritten ----
	// Judged on requests, and only when the stored data is exactly what the controller wants to
	// publish (a secret that also holds pre-existing foreign keys is not "identical data": the
	// publisher then sends a merge patch that the server treats as a no-op).
	want := map[string]string{}
	for k, v := range expected {
		if allowed(k) {
			want[k] = v
		}
	}
	if t.Tamper == "orphaned" {
		// the XR controller adopts its orphaned secret again; only then is the state steady
		_, _, _ = xe.Reconcile("static-xr")
		_, _, _ = ce.Reconcile("ns1", "c1")
	}
	xrIdentical := reflect.DeepEqual(secretData(world.GetObj(xrSecretKey)), want) && world.GetObj(xrSecretKey) != nil
	clIdentical := world.GetObj(clSecretKey) != nil && reflect.DeepEqual(secretData(world.GetObj(clSecretKey)), secretData(world.GetObj(xrSecretKey)))
	from2 := world.LogLen()
	_, _, _ = xe.Reconcile("static-xr")
	_, _, _ = ce.Reconcile("ns1", "c1")
	for _, e := range world.Log(from2) {
		if e.Key.Kind != "Secret" || !e.IsWrite() || e.DryRun || e.Err != "" {
			continue
		}
		if (e.Actor == "xr" && xrIdentical) || (e.Actor == "claim" && clIdentical) {
			fail("identical-secret-rewritten", "second round issued a secret write although the stored data is identical: "+e.Short())
		}
		if e.Changed && (e.Actor == "xr" || e.Actor == "claim") {
			fail("secret-changed-in-steady-state", "second round changed a secret although nothing changed: "+e.Short())
		}
	}
	// ... also when the claim controller's Secret cache still shows the claim secret as it was
	// BEFORE the controller itself brought it up to date: the stale copy differs, the write it
	// provokes is refused by the API server (409), and that is the end of it - the stored secret
	// already holds exactly the XR's data
	if clIdentical {
		lc := world.LaggingClient("claim", func(gk schema.GroupKind) (int64, bool) { return -midRV, gk.Group == "" && gk.Kind == "Secret" })
		stale := xrk.NewClaimEnvWithClient(world, "xthings.ex.org", i%4 >= 2, lc)
		from3 := world.LogLen()
		_, _, _ = stale.Reconcile("ns1", "c1")
		for _, e := range world.Log(from3) {
			if e.Actor != "claim" || e.Key.Kind != "Secret" || !e.IsWrite() || e.DryRun {
				continue
			}
			if e.Reason == "Conflict" {
				c.Count("stale_secret_cache_conflicts", 1)
			}
			if e.Err == "" {
				fail("identical-secret-rewritten:stale-secret-cache", "a claim reconcile reading its secret from a stale cache got a write through although the stored secret already equals the XR's: "+e.Short())
			}
		}
		c.Count("stale_secret_cache_reconciles", 1)
	}
	// the composition's details rotate and the XR republishes - within the same wall-clock second
	// as the claim's last copy, as it happens when the harness (or a fast controller) runs: the
	// claim's secret follows
	if clIdentical && t.Mode == "pipeline" && t.ClaimWant {
		t2 := t
		t2.Details = map[string]string{}
		for k, v := range t.Details {
			t2.Details[k] = v + "-rotated"
		}
		w.mu.Lock()
		w.cur = &t2
		w.mu.Unlock()
		xrBefore := secretData(world.GetObj(xrSecretKey))
		for k := 0; k < 2; k++ {
			_, _, _ = xe.Reconcile("static-xr")
		}
		for k := 0; k < 2; k++ {
			_, _, _ = ce.Reconcile("ns1", "c1")
		}
		xrNow, clNow := secretData(world.GetObj(xrSecretKey)), secretData(world.GetObj(clSecretKey))
		if !reflect.DeepEqual(xrBefore, xrNow) {
			c.Count("republished_xr_secrets", 1)
			if !reflect.DeepEqual(xrNow, clNow) {
				fail("claim-secret-stale-after-republish", fmt.Sprintf("the XR republished %v, two claim reconciles later the claim secret still holds %v", xrNow, clNow))
			}
		}
		w.mu.Lock()
		w.cur = &t
		w.mu.Unlock()
	}
	if xrIdentical {
		c.Count("steady_state_identical_xr_secret", 1)
	}
	if clIdentical {
		c.Count("steady_state_identical_claim_secret", 1)
	}

	// a claim with the SAME NAME in another namespace points its resourceRef at this (bound) XR: it
	// is not the XR's claim, so Crossplane must not hand it the XR's secret
	if i%3 == 0 {
		world.MustSeed("user", xrk.ClaimObject("ex.org/v1", "Thing", "ns2", "c1", map[string]any{"resourceRef": map[string]any{"apiVersion": "ex.org/v1", "kind": "XThing", "name": "static-xr"},
			"compositionRef": map[string]any{"name": "comp"}, "writeConnectionSecretToRef": map[string]any{"name": "claim-secret"}}))
		refBefore, _, _ := unstructured.NestedMap(world.GetObj(xrKey), "spec", "claimRef")
		for k := 0; k < 3; k++ {
			_, _, _ = ce.Reconcile("ns2", "c1")
		}
		if s := world.GetObj(sim.Key{Kind: "Secret", Namespace: "ns2", Name: "claim-secret"}); s != nil {
			fail("secret-copied-to-claim-that-is-not-bound", fmt.Sprintf("claim ns2/c1 (same name as the bound claim ns1/c1, other namespace) received a connection secret with keys %v", keysOf(secretData(s))))
		}
		if refAfter, _, _ := unstructured.NestedMap(world.GetObj(xrKey), "spec", "claimRef"); !reflect.DeepEqual(refBefore, refAfter) {
			fail("xr-rebound-to-same-named-claim-in-other-namespace", fmt.Sprintf("XR claimRef changed from %v to %v", refBefore, refAfter))
		}
		c.Count("same_name_other_namespace_claims", 1)
	}

	// the XR stops asking for a secret: the user removes spec.writeConnectionSecretToRef and deletes
	// the secret. The next XR reconcile opens with a read served by an XR cache that has not seen
	// the edit yet (everything after it is current). "Written only if the XR asks for one": the
	// secret must not come back.
	if s := world.GetObj(xrSecretKey); t.Wants && s != nil && i%2 == 0 {
		if ctl := sim.ControllerOf(s); ctl != nil && sim.Str(ctl, "uid") == xrUID {
			asOf := world.RV()
			u := &unstructured.Unstructured{Object: world.GetObj(xrKey)}
			unstructured.RemoveNestedField(u.Object, "spec", "writeConnectionSecretToRef")
			if err := user.Update(ctx, u); err == nil {
				_ = user.Delete(ctx, &unstructured.Unstructured{Object: s})
				staleRead := true
				lc := world.LaggingClient("xr", func(gk schema.GroupKind) (int64, bool) {
					if staleRead && gk.Kind == "XThing" {
						staleRead = false
						return -asOf, true
					}
					return 0, false
				})
				xs := xrk.NewXREnvSplit(world, ce.XRD, lc, world.Client("xr"))
				from3 := world.LogLen()
				for k := 0; k < 3; k++ {
					_, _, _ = xs.Reconcile("static-xr")
				}
				xs.CloseConns()
				c.Count("xr_secret_ref_removed_behind_cache_cases", 1)
				for _, e := range world.Log(from3) {
					if e.Actor == "xr" && e.Key.Kind == "Secret" && e.IsWrite() && !e.DryRun && e.Changed {
						fail("xr-secret-written-though-no-longer-requested", "the XR no longer has a writeConnectionSecretToRef (removed by the user, secret deleted), yet the XR controller wrote a secret: "+e.Short())
						break
					}
				}
			}
		}
	}

	filtered := false
	for k := range expected {
		if !allowed(k) {
			filtered = true
		}
	}
	c.Eval(kit.JSON(t), filtered || t.PreXR != "absent" || t.PreClaim != "absent")
	c.Count("cases_"+t.Mode, 1)
	if clChanged {
		c.Count("claim_secret_propagated", 1)
	}
	if xrWrites > 0 {
		c.Count("xr_secret_written", 1)
	}
	if c.WantSample() && filtered && clChanged {
		c.Sample(wit())
	}
}

// runProvenance: "only values produced by the composition for this XR". The composition derives
// XR connection details from the connection secrets of its composed resources. A composed
// resource the XR references is then taken over by another owner (re-parented in place, or
// deleted and re-created under the same name behind the XR controller's lagging cache) and
// points at that owner's connection secret. Whatever the XR controller does next, the other
// owner's secret values never show up in the XR's (or the claim's) connection secret.
func (w *worker) runProvenance(i int, name string) {
	c := w.c
	mode := []string{"pipeline", "pt"}[i%2]
	variant := []string{"reparented-in-place", "recreated-by-foreign-behind-cache"}[(i/2)%2]
	const theirs = "their-secret-value"
	t := tcase{Mode: mode, Wants: true, ClaimWant: true, Details: map[string]string{"own": "produced-by-composition"}, FirstStep: map[string]string{},
		Extracts: map[string][]extract{"a": {{Name: "ka", Type: "key"}}, "b": {{Name: "kb", Type: "value"}}}}
	w.mu.Lock()
	w.cur = &t
	w.mu.Unlock()
	w.copyObserved.Store(true)
	defer w.copyObserved.Store(false)
	ctx := context.Background()
	world := sim.NewWorld(xrk.Scheme(), uint64(c.Seed)*157+uint64(i))
	xrd := xrk.XRDObject(xrk.XRDOpts{Group: "ex.org", Kind: "XThing", Plural: "xthings", ClaimKind: "Thing", ClaimPlural: "things"})
	world.MustSeed("user", xrd)
	if mode == "pipeline" {
		var names []string
		for k := 0; k < 2; k++ {
			n := fmt.Sprintf("fn-%d", k)
			names = append(names, n)
			for _, o := range xrk.FunctionObjects(n, w.fns[k].Addr) {
				world.MustSeedFull("pkg", o)
			}
		}
		world.MustSeed("user", xrk.PipelineComposition("comp", "ex.org/v1", "XThing", names, nil))
	} else {
		world.MustSeed("user", xrk.ResourcesComposition("comp", "ex.org/v1", "XThing", ptTemplates(&t)))
	}
	if err := xrk.ReconcileComposition(world, "comp"); err != nil {
		panic(err)
	}
	user, other := world.Client("user"), world.Client("someone-else")
	for _, tn := range []string{"a", "b"} {
		_ = user.Create(ctx, mkSecret(xrSecretNS, "cd-"+tn+"-conn", connType, map[string]string{"k": "secret-of-" + tn}, nil))
	}
	_ = other.Create(ctx, mkSecret(xrSecretNS, "their-conn", connType, map[string]string{"k": theirs, "password": theirs}, nil))
	world.MustSeed("user", xrk.XRObject("ex.org/v1", "XThing", "static-xr", "comp", map[string]any{
		"claimRef":                   map[string]any{"apiVersion": "ex.org/v1", "kind": "Thing", "namespace": "ns1", "name": "c1"},
		"writeConnectionSecretToRef": map[string]any{"name": "xr-secret", "namespace": xrSecretNS}}))
	world.MustSeed("user", xrk.ClaimObject("ex.org/v1", "Thing", "ns1", "c1", map[string]any{"resourceRef": map[string]any{"apiVersion": "ex.org/v1", "kind": "XThing", "name": "static-xr"},
		"compositionRef": map[string]any{"name": "comp"}, "writeConnectionSecretToRef": map[string]any{"name": "claim-secret"}}))
	lag := int64(0)
	cached := world.LaggingClient("xr", func(gk schema.GroupKind) (int64, bool) {
		if lag > 0 && gk.Group == "nop.ex.org" {
			return lag, true
		}
		return 0, false
	})
	ce := xrk.NewClaimEnv(world, "xthings.ex.org", i%8 >= 4)
	xe := xrk.NewXREnvSplit(world, ce.XRD, cached, world.Client("xr"))
	defer xe.CloseConns()
	_, _, _ = ce.Reconcile("ns1", "c1")
	for k := 0; k < 3; k++ {
		_, _, _ = xe.Reconcile("static-xr")
	}
	published := len(secretData(world.GetObj(xrSecretKey))) > 0
	// someone else takes over composed resource "a"
	foreign := []any{map[string]any{"apiVersion": "v1", "kind": "ConfigMap", "name": "someone", "uid": "foreign-uid", "controller": true}}
	took := false
	for _, o := range world.ListObjs(schema.GroupKind{Group: "nop.ex.org", Kind: "NopA"}) {
		if sim.Str(o, "spec", "forProvider", "v") != "val-a" {
			continue
		}
		u := &unstructured.Unstructured{Object: o}
		took = true
		if variant == "recreated-by-foreign-behind-cache" {
			_ = user.Delete(ctx, u)
			n := &unstructured.Unstructured{Object: map[string]any{"apiVersion": "nop.ex.org/v1", "kind": "NopA",
				"metadata": map[string]any{"name": u.GetName(), "annotations": map[string]any{"crossplane.io/composition-resource-name": "a"}, "ownerReferences": foreign},
				"spec": map[string]any{"forProvider": map[string]any{"v": "theirs"}, "writeConnectionSecretToRef": map[string]any{"name": "their-conn", "namespace": xrSecretNS}}}}
			if err := other.Create(ctx, n); err != nil {
				panic(err)
			}
			lag = 1
			continue
		}
		_ = unstructured.SetNestedSlice(u.Object, foreign, "metadata", "ownerReferences")
		_ = unstructured.SetNestedMap(u.Object, map[string]any{"name": "their-conn", "namespace": xrSecretNS}, "spec", "writeConnectionSecretToRef")
		if err := other.Update(ctx, u); err != nil {
			panic(err)
		}
	}
	from := world.LogLen()
	for k := 0; k < 3; k++ {
		_, _, _ = xe.Reconcile("static-xr")
		_, _, _ = ce.Reconcile("ns1", "c1")
		for _, sk := range []sim.Key{xrSecretKey, clSecretKey} {
			for key, v := range secretData(world.GetObj(sk)) {
				if v == theirs {
					var evs []string
					for _, e := range world.Log(from) {
						if (e.Key.Kind == "Secret" && e.IsWrite()) || e.Key.Group == "nop.ex.org" {
							evs = append(evs, e.Short())
						}
					}
					c.Violate("secret-holds-details-of-resource-controlled-by-another-owner:"+mode+":"+variant, name,
						fmt.Sprintf("after reconcile %d secret %s holds key %q with a value that comes from the connection secret of a resource another owner controls", k+1, sk, key),
						map[string]any{"mode": mode, "variant": variant, "xr_secret": secretData(world.GetObj(xrSecretKey)), "claim_secret": secretData(world.GetObj(clSecretKey)), "trace": evs})
					break
				}
			}
		}
	}
	c.Eval(fmt.Sprintf("provenance|%s|%s|%d", mode, variant, i), took && published)
	c.Count("provenance_cases", 1)
	if took && published {
		c.Count("provenance_takeovers_after_publication", 1)
	}
}

// runSharedController: one XR controller (one reconciler, one connection-details fetcher, one
// publisher) serves several XRs of the kind in turn. XR xr-a's composed resource has published a
// connection secret, XR xr-b's has not (yet). Whatever the controller keeps between reconciles,
// xr-b's secret holds only what the composition produced for xr-b.
func (w *worker) runSharedController(i int, name string) {
	c := w.c
	ctx := context.Background()
	world := sim.NewWorld(xrk.Scheme(), uint64(c.Seed)*163+uint64(i))
	xrd := xrk.XRDObject(xrk.XRDOpts{Group: "ex.org", Kind: "XThing", Plural: "xthings"})
	world.MustSeed("user", xrd)
	base := nopObj("a")
	// sameName: every XR's composed resource writes its secret under ONE name, each in the namespace
	// of its own team (secrets are told apart by namespace only)
	sameName := i%4 >= 2
	cdSecret := func(n string) (string, string) {
		if sameName {
			return "team-" + n, "db-conn"
		}
		return xrSecretNS, "cd-" + n + "-conn"
	}
	refPatch := map[string]any{"type": "FromCompositeFieldPath", "fromFieldPath": "metadata.name", "toFieldPath": "spec.writeConnectionSecretToRef.name",
		"transforms": []any{map[string]any{"type": "string", "string": map[string]any{"type": "Format", "fmt": "cd-%s-conn"}}}}
	if sameName {
		_ = unstructured.SetNestedField(base, "db-conn", "spec", "writeConnectionSecretToRef", "name")
		refPatch = map[string]any{"type": "FromCompositeFieldPath", "fromFieldPath": "metadata.name", "toFieldPath": "spec.writeConnectionSecretToRef.namespace",
			"transforms": []any{map[string]any{"type": "string", "string": map[string]any{"type": "Format", "fmt": "team-%s"}}}}
		c.Count("shared_controller_same_secret_name_cases", 1)
	}
	world.MustSeed("user", xrk.ResourcesComposition("comp", "ex.org/v1", "XThing", []map[string]any{{
		"name": "a", "base": base, "readinessChecks": []any{map[string]any{"type": "None"}},
		"patches":           []any{refPatch},
		"connectionDetails": []any{map[string]any{"name": "password", "type": "FromConnectionSecretKey", "fromConnectionSecretKey": "k"}},
	}}))
	if err := xrk.ReconcileComposition(world, "comp"); err != nil {
		panic(err)
	}
	names := []string{"xr-a", "xr-b", "xr-c"}
	have := map[string]bool{"xr-a": true, "xr-c": i%2 == 0}
	for _, n := range names {
		world.MustSeed("user", xrk.XRObject("ex.org/v1", "XThing", n, "comp", map[string]any{"writeConnectionSecretToRef": map[string]any{"name": n + "-secret", "namespace": xrSecretNS}}))
		if have[n] {
			sns, sn := cdSecret(n)
			_ = world.Client("provider").Create(ctx, mkSecret(sns, sn, connType, map[string]string{"k": "secret-of-" + n}, nil))
		}
	}
	xe := xrk.NewXREnv(world, xrk.XRDTyped(xrd))
	defer xe.CloseConns()
	for round := 0; round < 4; round++ {
		for _, n := range names {
			_, _, _ = xe.Reconcile(n)
		}
		for _, n := range names {
			got := secretData(world.GetObj(sim.Key{Kind: "Secret", Namespace: xrSecretNS, Name: n + "-secret"}))
			for k, v := range got {
				if v != "secret-of-"+n {
					c.Violate("xr-secret-holds-another-xrs-details:pt", name, fmt.Sprintf("round %d: the secret of %s holds %s=%q, which the composition did not produce for this XR (its composed resource's own secret: present=%v)", round, n, k, v, have[n]),
						map[string]any{"xr": n, "secret": got, "composed_resource_secret_present": have})
				}
			}
			if !have[n] && len(got) > 0 {
				c.Count("shared_controller_unexpected_keys", 1)
			}
		}
	}
	// the Composition is edited: the template of the same name now exposes the key under another
	// name. A brand-new XR (on the new revision) gets exactly what the new revision declares.
	comp := &unstructured.Unstructured{Object: world.GetObj(sim.Key{Group: "apiextensions.crossplane.io", Kind: "Composition", Name: "comp"})}
	rs, _, _ := unstructured.NestedSlice(comp.Object, "spec", "resources")
	rs[0].(map[string]any)["connectionDetails"] = []any{map[string]any{"name": "pw2", "type": "FromConnectionSecretKey", "fromConnectionSecretKey": "k"}}
	_ = unstructured.SetNestedSlice(comp.Object, rs, "spec", "resources")
	if err := world.Client("user").Update(ctx, comp); err != nil {
		panic(err)
	}
	if err := xrk.ReconcileComposition(world, "comp"); err != nil {
		panic(err)
	}
	world.MustSeed("user", xrk.XRObject("ex.org/v1", "XThing", "xr-d", "comp", map[string]any{"writeConnectionSecretToRef": map[string]any{"name": "xr-d-secret", "namespace": xrSecretNS}}))
	dns, dn := cdSecret("xr-d")
	_ = world.Client("provider").Create(ctx, mkSecret(dns, dn, connType, map[string]string{"k": "secret-of-xr-d"}, nil))
	for k := 0; k < 3; k++ {
		_, _, _ = xe.Reconcile("xr-d")
	}
	gotD := secretData(world.GetObj(sim.Key{Kind: "Secret", Namespace: xrSecretNS, Name: "xr-d-secret"}))
	if ks := keysOf(gotD); strings.Join(ks, ",") != "pw2" {
		c.Violate("xr-secret-keys-not-those-of-its-revision:pt", name, fmt.Sprintf("a new XR on the edited Composition (connection detail renamed password -> pw2) has secret keys %v, its revision declares [pw2]", ks),
			map[string]any{"secret": gotD})
	}
	c.Eval(fmt.Sprintf("shared-controller|%d", i), true)
	c.Count("shared_controller_cases", 1)
}

func keysOf(m map[string]string) []string {
	var out []string
	for k := range m {
		out = append(out, k)
	}
	sort.Strings(out)
	return out
}

var _ = rand.Int
var _ = schema.GroupKind{}

func main() {
	c := kit.New("C09", "exploration")
	c.Rule = "generated cases: composer mode x XRD connectionSecretKeys filter (none / subset / disjoint) x connection details (pipeline: details of the first and of the last step; P&T: per-template extraction configs from secret key present/missing, field path string/int/missing, fixed value) x XR with/without writeConnectionSecretToRef x pre-existing XR secret (absent, uncontrolled connection-typed, uncontrolled Opaque, controlled by the XR, controlled by a foreign UID) x claim with/without writeConnectionSecretToRef x pre-existing claim secret x tampering with the XR secret's controller before the claim copies; XR reconciler (both composers) then claim reconciler (both syncers), then a second round. Oracle over stored Secrets and the write log: keys the XR wrote are within the filter and equal the reference extraction; nothing is written when not requested; not-controllable secrets stay byte-identical; the claim secret is an exact copy made only from a secret controlled by the bound XR; the second round writes no secret. distinct = the case; non-trivial = a key was filtered out or a secret pre-existed."
	c.Rule += " Shared controller: three XRs of the kind served in turn by ONE reconciler (one fetcher, one publisher); only some composed resources have published a connection secret; each XR secret holds only its own resource's values. A claim with the bound claim's name in another namespace referencing the XR gets no secret and does not rebind it. Provenance cases (both composers): XR details derived from the composed resources' connection secrets; a referenced resource is re-parented in place or recreated by another owner behind the XR controller's lagging cache and points at that owner's secret; neither the XR's nor the claim's secret may hold that owner's values."
	c.Rule += " " + "The shared reconciler also serves an XR of an edited composition (secret keys of its own revision only)."
	c.Rule += " " + "A foreign-controlled XR secret may appear behind the controllers' Secret cache."
	c.Rule += " " + "Half of the cases end with the user removing the XR's writeConnectionSecretToRef and deleting the secret, the next XR reconcile opening with a stale XR read: no secret may be written."
	c.Rule += " " + "XRD edit histories: the XRD author edits connectionSecretKeys 1-3 times while the real definition reconciler manages the XR controller; secrets published afterwards (a new XR; an existing XR whose secret was deleted) hold only keys the XRD allows now."
	c.Rule += " " + "The XR secret may lose its owner references (uncontrolled, connection-typed) before the claim copies; composed resources of several XRs whose secrets share one name in different namespaces."
	c.Rule += " " + "A claim reconcile over a stale Secret cache (no rewrite gets through); rotating details republished right after the claim's copy."
	c.Assumptions = []string{"sim stores typed Secrets as their JSON (base64 data)", "reference extraction follows the ConnectionDetail API documentation"}
	c.Floor = 100
	n := c.N(1200, 20000)
	ch := make(chan int)
	var wg sync.WaitGroup
	for wk := 0; wk < 8; wk++ {
		wg.Add(1)
		go func(wk int) {
			defer wg.Done()
			w := newWorker(c, wk)
			for i := range ch {
				name := fmt.Sprintf("conn/%d", i)
				if !c.Want(name) {
					continue
				}
				if err := kit.Try(func() { w.run(i, name) }); err != nil {
					c.Violate("panic", name, err.Error(), nil)
				}
			}
		}(wk)
	}
	for i := 0; i < n; i++ {
		ch <- i
	}
	close(ch)
	wg.Wait()
	pw := newWorker(c, 8)
	for i := 0; i < c.N(4, 40); i++ {
		name := fmt.Sprintf("shared-controller/%d", i)
		if !c.Want(name) {
			continue
		}
		if err := kit.Try(func() { pw.runSharedController(i, name) }); err != nil {
			c.Violate("panic", name, err.Error(), nil)
		}
	}
	for i := 0; i < c.N(12, 120); i++ {
		if err := kit.Try(func() { runXRDFilterEdit(c, i) }); err != nil {
			c.Violate("panic", fmt.Sprintf("xrd-filter-edit/%d", i), err.Error(), nil)
		}
	}
	for i := 0; i < c.N(16, 160); i++ {
		name := fmt.Sprintf("provenance/%d", i)
		if !c.Want(name) {
			continue
		}
		if err := kit.Try(func() { pw.runProvenance(i, name) }); err != nil {
			c.Violate("panic", name, err.Error(), nil)
		}
	}
	c.Finish()
}
