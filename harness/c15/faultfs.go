//go:build verif

package main

import (
	"fmt"
	"path/filepath"
	"sync"
	"syscall"

	"github.com/spf13/afero"
)

// fsFault is one planned failure of the cache filesystem for a cache file (by base name).
type fsFault struct {
	Mode   string `json:"mode"`   // create | write | close
	At     int64  `json:"at"`     // write: number of bytes accepted before ENOSPC
	Keep   bool   `json:"keep"`   // close: the data written so far stays on disk (else it is cut in half)
	Sticky bool   `json:"sticky"` // stays armed until cleared (else fires for one Create only)
}

// faultFs wraps an afero filesystem: it injects failures into Create/Write/Close and tracks
// "tainted" entries - files whose writer saw a failure (or has not finished) and that were
// neither removed nor completely rewritten since. Opening a tainted entry for reading is what
// the property forbids ("a failed store must not leave a partial entry that is later served").
type faultFs struct {
	afero.Fs
	mu      sync.Mutex
	plan    map[string]*fsFault // base name -> fault
	tainted map[string]string   // path -> reason
	served  []string            // tainted paths opened for reading
	fired   []string            // faults that actually fired
	writes  map[string]int64    // bytes accepted per path in the last Create
	creates int
	removes int
	opens   int
}

func newFaultFs(inner afero.Fs) *faultFs {
	return &faultFs{Fs: inner, plan: map[string]*fsFault{}, tainted: map[string]string{}, writes: map[string]int64{}}
}

func (f *faultFs) arm(base string, ft *fsFault) {
	f.mu.Lock()
	defer f.mu.Unlock()
	f.plan[base] = ft
}

func (f *faultFs) clear() {
	f.mu.Lock()
	defer f.mu.Unlock()
	f.plan = map[string]*fsFault{}
}

func (f *faultFs) takeServed() []string {
	f.mu.Lock()
	defer f.mu.Unlock()
	s := f.served
	f.served = nil
	return s
}

func (f *faultFs) takeFired() []string {
	f.mu.Lock()
	defer f.mu.Unlock()
	s := f.fired
	f.fired = nil
	return s
}

func (f *faultFs) isTainted(path string) (string, bool) {
	f.mu.Lock()
	defer f.mu.Unlock()
	r, ok := f.tainted[path]
	return r, ok
}

func (f *faultFs) Create(name string) (afero.File, error) {
	base := filepath.Base(name)
	f.mu.Lock()
	f.creates++
	ft := f.plan[base]
	if ft != nil && !ft.Sticky {
		delete(f.plan, base)
	}
	if ft != nil && ft.Mode == "create" {
		f.fired = append(f.fired, "create")
		f.mu.Unlock()
		return nil, &fsErr{"open", name, syscall.EROFS}
	}
	f.mu.Unlock()
	inner, err := f.Fs.Create(name)
	if err != nil {
		return nil, err
	}
	f.mu.Lock()
	f.tainted[name] = "write in progress"
	f.writes[name] = 0
	f.mu.Unlock()
	return &faultFile{File: inner, fs: f, name: name, ft: ft}, nil
}

func (f *faultFs) Open(name string) (afero.File, error) {
	f.mu.Lock()
	f.opens++
	if r, ok := f.tainted[name]; ok {
		f.served = append(f.served, fmt.Sprintf("%s (%s)", filepath.Base(name), r))
	}
	f.mu.Unlock()
	return f.Fs.Open(name)
}

func (f *faultFs) Remove(name string) error {
	err := f.Fs.Remove(name)
	f.mu.Lock()
	f.removes++
	if err == nil {
		delete(f.tainted, name)
	}
	f.mu.Unlock()
	return err
}

type fsErr struct {
	op, path string
	err      error
}

func (e *fsErr) Error() string { return e.op + " " + e.path + ": " + e.err.Error() + " (scripted)" }
func (e *fsErr) Unwrap() error { return e.err }

type faultFile struct {
	afero.File
	fs      *faultFs
	name    string
	ft      *fsFault
	written int64
	failed  bool
	closed  bool
}

func (w *faultFile) Write(p []byte) (int, error) {
	if w.ft != nil && w.ft.Mode == "write" {
		if w.failed {
			return 0, &fsErr{"write", w.name, syscall.ENOSPC}
		}
		if w.written+int64(len(p)) > w.ft.At {
			k := w.ft.At - w.written
			if k < 0 {
				k = 0
			}
			n, _ := w.File.Write(p[:k])
			w.written += int64(n)
			w.failed = true
			w.fs.mu.Lock()
			w.fs.tainted[w.name] = fmt.Sprintf("store failed: ENOSPC after %d bytes", w.written)
			w.fs.fired = append(w.fs.fired, "write")
			w.fs.writes[w.name] = w.written
			w.fs.mu.Unlock()
			return n, &fsErr{"write", w.name, syscall.ENOSPC}
		}
	}
	n, err := w.File.Write(p)
	w.written += int64(n)
	w.fs.mu.Lock()
	w.fs.writes[w.name] = w.written
	w.fs.mu.Unlock()
	return n, err
}

func (w *faultFile) Close() error {
	if w.closed {
		return w.File.Close()
	}
	w.closed = true
	if w.ft != nil && w.ft.Mode == "close" {
		if !w.ft.Keep {
			_ = w.File.Truncate(w.written / 2)
		}
		_ = w.File.Close()
		w.fs.mu.Lock()
		w.fs.tainted[w.name] = fmt.Sprintf("store failed: EIO at close after %d bytes (kept=%v)", w.written, w.ft.Keep)
		w.fs.fired = append(w.fs.fired, "close")
		w.fs.mu.Unlock()
		return &fsErr{"close", w.name, syscall.EIO}
	}
	err := w.File.Close()
	w.fs.mu.Lock()
	if !w.failed && err == nil {
		// a Create -> Write* -> Close sequence without any error: the entry is whole
		if r := w.fs.tainted[w.name]; r == "write in progress" {
			delete(w.fs.tainted, w.name)
		}
	}
	w.fs.mu.Unlock()
	return err
}
