//go:build verif

package main

import (
	"bytes"
	"encoding/json"
	"fmt"
	"math/rand/v2"
	"os"
	"path/filepath"
	"sort"
	"strings"

	admv1 "k8s.io/api/admissionregistration/v1"
	extv1 "k8s.io/apiextensions-apiserver/pkg/apis/apiextensions/v1"
	extv1beta1 "k8s.io/apiextensions-apiserver/pkg/apis/apiextensions/v1beta1"
	"k8s.io/apimachinery/pkg/runtime"
	"sigs.k8s.io/yaml"

	apiextv1 "github.com/crossplane/crossplane/apis/apiextensions/v1"
	"github.com/crossplane/crossplane/verifh/kit"
)

// ---- golden data (written from the xpkg specification) ----

type goldenPkg struct {
	RevisionKind string   `json:"revision_kind"`
	MetaKind     string   `json:"meta_kind"`
	MetaCount    int      `json:"meta_count"`
	Allowed      []string `json:"allowed"`
}

type golden struct {
	MetaGroup string               `json:"meta_group"`
	Packages  map[string]goldenPkg `json:"packages"`
}

func loadGolden() (*golden, error) {
	b, err := os.ReadFile(filepath.Join(kit.Root(), "golden", "allowed_kinds.json"))
	if err != nil {
		return nil, err
	}
	g := &golden{}
	if err := json.Unmarshal(b, g); err != nil {
		return nil, err
	}
	for _, t := range pkgTypeNames {
		p, ok := g.Packages[t]
		if !ok || p.MetaKind == "" || p.MetaCount != 1 || len(p.Allowed) == 0 {
			return nil, fmt.Errorf("golden/allowed_kinds.json has no usable entry for %q", t)
		}
	}
	return g, nil
}

func (g *golden) allowed(pkgType, gk string) bool {
	for _, a := range g.Packages[pkgType].Allowed {
		if a == gk {
			return true
		}
	}
	return false
}

var pkgTypeNames = []string{"provider", "configuration", "function"}

// ---- object kinds that may appear in a package stream ----

// kindSpec describes one kind the generator can put into a stream.
type kindSpec struct {
	ID        string // short id used in case descriptions
	GK        string // Kind.group as the specification writes it
	Decodable bool   // registered in the object scheme the production parser is built with
	newTyped  func() runtime.Object
	gen       func(r *rand.Rand, n int, pad string) map[string]any
}

func padOf(r *rand.Rand, n int) string {
	const hexd = "0123456789abcdef"
	b := make([]byte, n)
	for i := range b {
		b[i] = hexd[r.IntN(16)]
	}
	return string(b)
}

func objMeta(name, pad string, n int) map[string]any {
	m := map[string]any{"name": name, "labels": map[string]any{"c15.verif/idx": fmt.Sprintf("i%d", n)}}
	if pad != "" {
		m["annotations"] = map[string]any{"c15.verif/pad": pad}
	}
	return m
}

func schemaProps(pad string) map[string]any {
	s := map[string]any{
		"type": "object",
		"properties": map[string]any{
			"spec": map[string]any{
				"type": "object",
				"properties": map[string]any{
					"size":   map[string]any{"type": "integer"},
					"region": map[string]any{"type": "string", "description": "where"},
				},
			},
		},
	}
	if pad != "" {
		s["description"] = "schema " + pad
	}
	return s
}

func genCRDv1(r *rand.Rand, n int, pad string) map[string]any {
	group := fmt.Sprintf("g%d.example.org", r.IntN(4))
	kind := fmt.Sprintf("Widget%c", 'A'+rune(r.IntN(20)))
	plural := strings.ToLower(kind) + "s"
	scope := "Cluster"
	if r.IntN(2) == 0 {
		scope = "Namespaced"
	}
	return map[string]any{
		"apiVersion": "apiextensions.k8s.io/v1", "kind": "CustomResourceDefinition",
		"metadata": objMeta(plural+"."+group, pad, n),
		"spec": map[string]any{
			"group": group,
			"names": map[string]any{"kind": kind, "listKind": kind + "List", "plural": plural, "singular": strings.ToLower(kind)},
			"scope": scope,
			"versions": []any{map[string]any{
				"name": "v1alpha1", "served": true, "storage": true,
				"schema": map[string]any{"openAPIV3Schema": schemaProps(pad)},
			}},
		},
	}
}

func genCRDv1beta1(r *rand.Rand, n int, pad string) map[string]any {
	group := fmt.Sprintf("old%d.example.org", r.IntN(4))
	kind := fmt.Sprintf("Legacy%c", 'A'+rune(r.IntN(20)))
	plural := strings.ToLower(kind) + "s"
	return map[string]any{
		"apiVersion": "apiextensions.k8s.io/v1beta1", "kind": "CustomResourceDefinition",
		"metadata": objMeta(plural+"."+group, pad, n),
		"spec": map[string]any{
			"group":    group,
			"names":    map[string]any{"kind": kind, "listKind": kind + "List", "plural": plural, "singular": strings.ToLower(kind)},
			"scope":    "Cluster",
			"versions": []any{map[string]any{"name": "v1beta1", "served": true, "storage": true}},
		},
	}
}

func webhooks(r *rand.Rand, path string) []any {
	return []any{map[string]any{
		"name":                    fmt.Sprintf("h%d.example.org", r.IntN(50)),
		"admissionReviewVersions": []any{"v1"},
		"sideEffects":             "None",
		"clientConfig":            map[string]any{"service": map[string]any{"namespace": "crossplane-system", "name": "webhook", "path": path, "port": 9443}},
		"rules": []any{map[string]any{
			"apiGroups": []any{"g0.example.org"}, "apiVersions": []any{"v1alpha1"},
			"operations": []any{"CREATE", "UPDATE"}, "resources": []any{"widgetas"},
		}},
	}}
}

func genMWC(r *rand.Rand, n int, pad string) map[string]any {
	return map[string]any{
		"apiVersion": "admissionregistration.k8s.io/v1", "kind": "MutatingWebhookConfiguration",
		"metadata": objMeta(fmt.Sprintf("mutate-%d", r.IntN(30)), pad, n),
		"webhooks": webhooks(r, "/mutate"),
	}
}

func genVWC(r *rand.Rand, n int, pad string) map[string]any {
	return map[string]any{
		"apiVersion": "admissionregistration.k8s.io/v1", "kind": "ValidatingWebhookConfiguration",
		"metadata": objMeta(fmt.Sprintf("validate-%d", r.IntN(30)), pad, n),
		"webhooks": webhooks(r, "/validate"),
	}
}

func genXRD(r *rand.Rand, n int, pad string) map[string]any {
	group := fmt.Sprintf("x%d.example.org", r.IntN(4))
	kind := fmt.Sprintf("XThing%c", 'A'+rune(r.IntN(20)))
	plural := strings.ToLower(kind) + "s"
	return map[string]any{
		"apiVersion": "apiextensions.crossplane.io/v1", "kind": "CompositeResourceDefinition",
		"metadata": objMeta(plural+"."+group, pad, n),
		"spec": map[string]any{
			"group": group,
			"names": map[string]any{"kind": kind, "plural": plural},
			"versions": []any{map[string]any{
				"name": "v1", "served": true, "referenceable": true,
				"schema": map[string]any{"openAPIV3Schema": schemaProps(pad)},
			}},
		},
	}
}

func compositionSpec(r *rand.Rand, pad string) map[string]any {
	return map[string]any{
		"compositeTypeRef": map[string]any{"apiVersion": fmt.Sprintf("x%d.example.org/v1", r.IntN(4)), "kind": "XThingA"},
		"mode":             "Pipeline",
		"pipeline": []any{map[string]any{
			"step": "render", "functionRef": map[string]any{"name": "function-render"},
			"input": map[string]any{"apiVersion": "render.fn.example.org/v1beta1", "kind": "Input", "text": "t" + pad, "count": 3},
		}},
	}
}

func genComposition(r *rand.Rand, n int, pad string) map[string]any {
	return map[string]any{
		"apiVersion": "apiextensions.crossplane.io/v1", "kind": "Composition",
		"metadata": objMeta(fmt.Sprintf("comp-%d", r.IntN(30)), pad, n),
		"spec":     compositionSpec(r, pad),
	}
}

func genCompositionRevision(r *rand.Rand, n int, pad string) map[string]any {
	s := compositionSpec(r, pad)
	s["revision"] = 3
	return map[string]any{
		"apiVersion": "apiextensions.crossplane.io/v1", "kind": "CompositionRevision",
		"metadata": objMeta(fmt.Sprintf("comp-%d-abc1234", r.IntN(30)), pad, n),
		"spec":     s,
	}
}

func genVAP(r *rand.Rand, n int, pad string) map[string]any {
	return map[string]any{
		"apiVersion": "admissionregistration.k8s.io/v1", "kind": "ValidatingAdmissionPolicy",
		"metadata": objMeta(fmt.Sprintf("policy-%d", r.IntN(30)), pad, n),
		"spec": map[string]any{
			"failurePolicy": "Fail",
			"matchConstraints": map[string]any{"resourceRules": []any{map[string]any{
				"apiGroups": []any{"apps"}, "apiVersions": []any{"v1"}, "operations": []any{"CREATE"}, "resources": []any{"deployments"},
			}}},
			"validations": []any{map[string]any{"expression": "object.spec.replicas <= 5"}},
		},
	}
}

func genConfigMap(r *rand.Rand, n int, pad string) map[string]any {
	return map[string]any{
		"apiVersion": "v1", "kind": "ConfigMap",
		"metadata": objMeta(fmt.Sprintf("cm-%d", r.IntN(30)), pad, n),
		"data":     map[string]any{"k": "v"},
	}
}

var kindSpecs = []kindSpec{
	{"crd", "CustomResourceDefinition.apiextensions.k8s.io", true, func() runtime.Object { return &extv1.CustomResourceDefinition{} }, genCRDv1},
	{"crdv1beta1", "CustomResourceDefinition.apiextensions.k8s.io", true, func() runtime.Object { return &extv1beta1.CustomResourceDefinition{} }, genCRDv1beta1},
	{"mwc", "MutatingWebhookConfiguration.admissionregistration.k8s.io", true, func() runtime.Object { return &admv1.MutatingWebhookConfiguration{} }, genMWC},
	{"vwc", "ValidatingWebhookConfiguration.admissionregistration.k8s.io", true, func() runtime.Object { return &admv1.ValidatingWebhookConfiguration{} }, genVWC},
	{"xrd", "CompositeResourceDefinition.apiextensions.crossplane.io", true, func() runtime.Object { return &apiextv1.CompositeResourceDefinition{} }, genXRD},
	{"comp", "Composition.apiextensions.crossplane.io", true, func() runtime.Object { return &apiextv1.Composition{} }, genComposition},
	{"comprev", "CompositionRevision.apiextensions.crossplane.io", true, func() runtime.Object { return &apiextv1.CompositionRevision{} }, genCompositionRevision},
	{"vap", "ValidatingAdmissionPolicy.admissionregistration.k8s.io", true, func() runtime.Object { return &admv1.ValidatingAdmissionPolicy{} }, genVAP},
	{"configmap", "ConfigMap.", false, nil, genConfigMap},
}

func kindByID(id string) *kindSpec {
	for i := range kindSpecs {
		if kindSpecs[i].ID == id {
			return &kindSpecs[i]
		}
	}
	panic("unknown kind id " + id)
}

// ---- canonical comparison form ----

// canon is the comparison form of one object: group-version-kind, name and a digest of the
// canonical JSON (typed marshalling, then key-sorted re-marshalling).
type canon struct {
	GVK  string `json:"gvk"`
	Name string `json:"name"`
	Sum  string `json:"sum"`
	Len  int    `json:"len"`
}

func (c canon) String() string { return fmt.Sprintf("%s/%s#%s(%dB)", c.GVK, c.Name, c.Sum, c.Len) }

func canonJSON(b []byte) (canon, error) {
	var v map[string]any
	if err := json.Unmarshal(b, &v); err != nil {
		return canon{}, err
	}
	cb, err := json.Marshal(v)
	if err != nil {
		return canon{}, err
	}
	av, _ := v["apiVersion"].(string)
	kd, _ := v["kind"].(string)
	name := ""
	if md, ok := v["metadata"].(map[string]any); ok {
		name, _ = md["name"].(string)
	}
	return canon{GVK: av + "/" + kd, Name: name, Sum: kit.Hash(string(cb)), Len: len(cb)}, nil
}

// canonTyped canonicalises a typed object as handed to the establisher.
func canonTyped(o runtime.Object) (canon, error) {
	b, err := json.Marshal(o)
	if err != nil {
		return canon{}, err
	}
	return canonJSON(b)
}

// canonDeclared canonicalises an object the harness wrote into a stream: the generated map is
// loaded into the public Go type of its kind with the standard library decoder (never the
// parser under test) and marshalled the same way as an established object.
func canonDeclared(k *kindSpec, m map[string]any) (canon, error) {
	b, err := json.Marshal(m)
	if err != nil {
		return canon{}, err
	}
	t := k.newTyped()
	dec := json.NewDecoder(bytes.NewReader(b))
	dec.DisallowUnknownFields()
	if err := dec.Decode(t); err != nil {
		return canon{}, fmt.Errorf("generated %s does not fit its Go type: %w", k.ID, err)
	}
	return canonTyped(t)
}

func sortedCanon(cs []canon) []string {
	out := make([]string, 0, len(cs))
	for _, c := range cs {
		out = append(out, c.String())
	}
	sort.Strings(out)
	return out
}

func sameMultiset(a, b []canon) bool {
	x, y := sortedCanon(a), sortedCanon(b)
	if len(x) != len(y) {
		return false
	}
	for i := range x {
		if x[i] != y[i] {
			return false
		}
	}
	return true
}

// ---- meta objects and Crossplane version constraints ----

// runningVersion is the Crossplane version injected into the reconciler.
const runningVersion = "v1.18.3"

// constraint truth table, written by hand for runningVersion (plain comparison operators and
// the documented ~ ^ x-range forms only).
type constraintSpec struct {
	Expr  string
	Class string // none | met | unmet | malformed
}

var constraints = []constraintSpec{
	{"", "none"},
	{">=v1.0.0", "met"}, {">=v1.18.3", "met"}, {"<v2.0.0", "met"}, {">=v1.14.0-0", "met"}, {"~1.18.0", "met"}, {"^1.2.0", "met"}, {">=1.17.0, <1.19.0", "met"},
	{">=v1.19.0", "unmet"}, {"<v1.18.3", "unmet"}, {">=v2.0.0", "unmet"}, {"1.17.x", "unmet"}, {">=1.0.0, <1.18.0", "unmet"}, {"~1.17.0", "unmet"},
	{"banana", "malformed"}, {">= one.two", "malformed"}, {"1.0.0.0.0", "malformed"},
}

// preRunning is a pre-release build of Crossplane; constraintsPre is its truth table (entries on
// which semantic-version precedence and the Masterminds constraint rules agree).
const preRunning = "v1.20.0-rc.1"

var constraintsPre = []constraintSpec{
	{"", "none"},
	{">=v1.20.0-rc.1", "met"}, {">=v1.20.0-0", "met"}, {">=v1.19.0-0", "met"},
	{">=v1.20.0", "unmet"}, {">=v1.20.0-rc.2", "unmet"}, {"<v1.20.0-rc.1", "unmet"}, {">=v1.21.0", "unmet"},
	{"banana", "malformed"}, {">= one.two", "malformed"},
}

// rebase replaces the constraint of every meta by one of the same class from the pre-release
// table (the package is then reconciled by a Crossplane running preRunning).
func (c *content) rebase(r interface{ IntN(int) int }) {
	for i := range c.Metas {
		var same []constraintSpec
		for _, cs := range constraintsPre {
			if cs.Class == c.Metas[i].CClass {
				same = append(same, cs)
			}
		}
		if len(same) > 0 {
			c.Metas[i].Constraint = same[r.IntN(len(same))].Expr
		}
	}
}

func constraintsOf(class string) []constraintSpec {
	var out []constraintSpec
	for _, c := range constraints {
		if c.Class == class {
			out = append(out, c)
		}
	}
	return out
}

type metaSpec struct {
	Kind       string `json:"kind"`       // Provider | Configuration | Function
	APIVersion string `json:"apiVersion"` // meta.pkg.crossplane.io/<v>
	Constraint string `json:"constraint,omitempty"`
	CClass     string `json:"cclass"`
}

var metaVersions = map[string][]string{
	"Provider":      {"v1", "v1", "v1alpha1"},
	"Configuration": {"v1", "v1", "v1alpha1"},
	"Function":      {"v1", "v1", "v1beta1"},
}

func (m metaSpec) object(i int) map[string]any {
	spec := map[string]any{}
	if m.CClass != "none" {
		spec["crossplane"] = map[string]any{"version": m.Constraint}
	}
	switch m.Kind {
	case "Provider":
		spec["controller"] = map[string]any{"image": "reg.example/org/provider-controller:v1"}
	case "Function":
		spec["image"] = "reg.example/org/function-runtime:v1"
	}
	return map[string]any{
		"apiVersion": m.APIVersion, "kind": m.Kind,
		"metadata": map[string]any{
			"name":        fmt.Sprintf("pk-meta-%d", i),
			"annotations": map[string]any{"meta.crossplane.io/maintainer": "c15", "meta.crossplane.io/description": "generated"},
			"labels":      map[string]any{"c15.verif/from-meta": "yes"},
		},
		"spec": spec,
	}
}

// ---- a generated package stream ----

type objSpec struct {
	Kind string `json:"kind"`
	Pad  int    `json:"pad"`
	Dup  bool   `json:"dup,omitempty"` // byte-identical repetition of the previous object
	// SameName: takes the metadata.name of the previous object, which is of another kind (an XRD
	// and its Composition, a validating and a mutating webhook configuration ... named alike)
	SameName bool `json:"sameName,omitempty"`
}

// content is the logical content of one package.yaml.
type content struct {
	Metas   []metaSpec `json:"metas"`
	Objs    []objSpec  `json:"objs"`
	MetaPos []int      `json:"metaPos"` // position of each meta among the objects (0 = first)
	Style   int        `json:"style"`   // cosmetic YAML variations: separators, comments, empty documents

	stream   []byte
	declared []canon // decodable objects written into the stream, in canonical form
	objMaps  []map[string]any
	metaMaps []map[string]any
}

func kindName(pkgType string) string {
	return strings.ToUpper(pkgType[:1]) + pkgType[1:]
}

// materialise renders the stream and the canonical declared set. r drives names and padding.
func (c *content) materialise(r *rand.Rand) error {
	c.objMaps, c.metaMaps, c.declared = nil, nil, nil
	var prev map[string]any
	var prevK *kindSpec
	for i, o := range c.Objs {
		k := kindByID(o.Kind)
		var m map[string]any
		if o.Dup && prev != nil {
			m, k = prev, prevK
		} else {
			m = k.gen(r, i, padOf(r, o.Pad))
			// names are made unique per position so that a swapped or lost object is visible
			md := m["metadata"].(map[string]any)
			md["name"] = fmt.Sprintf("n%d-%s", i, md["name"])
			if o.SameName && prev != nil && prevK != nil && prevK.ID != k.ID {
				md["name"] = prev["metadata"].(map[string]any)["name"]
			}
		}
		prev, prevK = m, k
		c.objMaps = append(c.objMaps, m)
		if k.Decodable {
			cn, err := canonDeclared(k, m)
			if err != nil {
				return err
			}
			c.declared = append(c.declared, cn)
		}
	}
	for i, ms := range c.Metas {
		c.metaMaps = append(c.metaMaps, ms.object(i))
	}
	// interleave metas at their positions
	type doc struct{ m map[string]any }
	var docs []doc
	placed := make([]bool, len(c.metaMaps))
	for i := 0; i <= len(c.objMaps); i++ {
		for j, p := range c.MetaPos {
			if !placed[j] && (p == i || (i == len(c.objMaps) && p >= i)) {
				docs = append(docs, doc{c.metaMaps[j]})
				placed[j] = true
			}
		}
		if i < len(c.objMaps) {
			docs = append(docs, doc{c.objMaps[i]})
		}
	}
	var buf bytes.Buffer
	if c.Style&1 != 0 {
		buf.WriteString("---\n")
	}
	for i, d := range docs {
		if i > 0 {
			buf.WriteString("---\n")
			if c.Style&2 != 0 && i%2 == 1 {
				buf.WriteString("# generated by the C15 harness\n")
			}
			if c.Style&4 != 0 && i%3 == 2 {
				buf.WriteString("---\n") // an empty document
			}
		}
		var b []byte
		var err error
		if c.Style&8 != 0 && i%2 == 0 {
			b, err = json.Marshal(d.m) // JSON is YAML
			b = append(b, '\n')
		} else {
			b, err = yaml.Marshal(d.m)
		}
		if err != nil {
			return err
		}
		buf.Write(b)
	}
	if c.Style&16 != 0 {
		buf.WriteString("---\n")
	}
	c.stream = buf.Bytes()
	return nil
}

// reasons lists why the package is invalid for a revision of pkgType (empty = valid), from the
// golden file and the property text only. dontCare is set when the property leaves the outcome
// open (malformed constraints that the revision was told to ignore).
func (c *content) reasons(g *golden, pkgType string, ignoreConstraints bool) (rs []string, dontCare bool) {
	gp := g.Packages[pkgType]
	if len(c.Metas) != gp.MetaCount {
		rs = append(rs, "meta-count")
	}
	for _, m := range c.Metas {
		if m.Kind != gp.MetaKind {
			rs = append(rs, "meta-kind")
			break
		}
	}
	for _, m := range c.Metas {
		switch m.CClass {
		case "unmet":
			if !ignoreConstraints {
				rs = append(rs, "constraint-unmet")
			}
		case "malformed":
			if !ignoreConstraints {
				rs = append(rs, "constraint-malformed")
			} else {
				dontCare = true
			}
		}
	}
	und, dis := false, false
	for _, o := range c.Objs {
		k := kindByID(o.Kind)
		if !k.Decodable {
			und = true
		} else if !g.allowed(pkgType, k.GK) {
			dis = true
		}
	}
	if und {
		rs = append(rs, "undecodable-kind")
	}
	if dis {
		rs = append(rs, "disallowed-kind")
	}
	return dedupe(rs), dontCare
}

func dedupe(in []string) []string {
	seen := map[string]bool{}
	var out []string
	for _, s := range in {
		if !seen[s] {
			seen[s] = true
			out = append(out, s)
		}
	}
	return out
}

// reasonPriority orders reasons for the violation key: the reason the implementation is
// least expected to miss first; the F7 candidate (disallowed kind) last so that it never
// masks another reason of the same case.
var reasonPriority = []string{"unverified", "multi-annotated", "no-stream-file", "meta-count", "meta-kind", "constraint-unmet", "constraint-malformed", "undecodable-kind", "disallowed-kind"}

func keyReason(rs []string) string {
	for _, p := range reasonPriority {
		for _, r := range rs {
			if r == p {
				return r
			}
		}
	}
	if len(rs) > 0 {
		return rs[0]
	}
	return "none"
}

func allowedIDs(g *golden, pkgType string) (allowed, disallowed []string) {
	for _, k := range kindSpecs {
		if !k.Decodable {
			continue
		}
		if g.allowed(pkgType, k.GK) {
			allowed = append(allowed, k.ID)
		} else {
			disallowed = append(disallowed, k.ID)
		}
	}
	return
}

func pick[T any](r *rand.Rand, xs []T) T { return xs[r.IntN(len(xs))] }

// genValidContent generates a package that is valid for pkgType with nObjs objects.
func genValidContent(r *rand.Rand, g *golden, pkgType string, nObjs int, padMax int) *content {
	c := &content{Style: r.IntN(32)}
	al, _ := allowedIDs(g, pkgType)
	for i := 0; i < nObjs; i++ {
		pad := 0
		if padMax > 0 {
			pad = r.IntN(padMax)
		}
		c.Objs = append(c.Objs, objSpec{Kind: pick(r, al), Pad: pad})
		if i > 0 && c.Objs[i].Kind != c.Objs[i-1].Kind && r.IntN(4) == 0 {
			c.Objs[i].SameName = true
		}
	}
	mk := g.Packages[pkgType].MetaKind
	cs := pick(r, append(constraintsOf("met"), constraintsOf("none")...))
	c.Metas = []metaSpec{{Kind: mk, APIVersion: g.MetaGroup + "/" + pick(r, metaVersions[mk]), Constraint: cs.Expr, CClass: cs.Class}}
	c.MetaPos = []int{[]int{0, 0, r.IntN(nObjs + 1), nObjs}[r.IntN(4)]}
	return c
}

func (c *content) brief() map[string]any {
	return map[string]any{"metas": c.Metas, "metaPos": c.MetaPos, "objs": c.Objs, "style": c.Style, "stream_bytes": len(c.stream)}
}
