//go:build verif

package main

import (
	"fmt"
	"os"
	"path/filepath"
	"regexp"
	"sort"
	"strings"

	"github.com/crossplane/crossplane/verifh/kit"
)

var raceFrame = regexp.MustCompile(`(?m)^  (github\.com/crossplane/crossplane/\S+)\(\)\s*$`)

// raceReports reads the race detector's logs (GORACE log_path=$VERIF_RACE_LOG, set by
// /verif/check under VERIF_RACE=1): a report with a frame of the code under test is a
// violation (the share family runs one reconciler from two goroutines over one cache), a
// harness-only report makes the run inconclusive.
func raceReports(c *kit.Ctx) {
	prefix := os.Getenv("VERIF_RACE_LOG")
	if prefix == "" {
		return
	}
	paths, _ := filepath.Glob(prefix + ".*")
	sort.Strings(paths)
	total := 0
	for _, p := range paths {
		b, err := os.ReadFile(p)
		if err != nil {
			continue
		}
		for _, ch := range strings.Split(string(b), "WARNING: DATA RACE")[1:] {
			total++
			if k := strings.Index(ch, "=================="); k >= 0 {
				ch = ch[:k]
			}
			first := ""
			for _, m := range raceFrame.FindAllStringSubmatch(ch, -1) {
				if !strings.HasPrefix(m[1], "github.com/crossplane/crossplane/verifh/") {
					first = strings.TrimPrefix(m[1], "github.com/crossplane/crossplane/")
					break
				}
			}
			if len(ch) > 5000 {
				ch = ch[:5000] + "\n...[truncated]"
			}
			if first != "" {
				c.Violate("data-race:"+first, "share", "the race detector reported a data race with frames of the code under test", map[string]any{"report": "WARNING: DATA RACE" + ch})
			} else {
				fmt.Printf("harness-only race report:\n%s\n", ch)
				c.Inconclusive("race report without crossplane frames (harness bug)")
			}
		}
	}
	c.Count("race_detector_reports", int64(total))
	c.Count("race_detector_enabled", 1)
}
