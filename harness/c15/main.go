//go:build verif

// C15: a revision installs exactly what its image declares, and only permitted kinds.
//
// The production package-revision reconciler (revision.NewReconciler wired as the three
// Setup*Revision functions do: real parser over the real meta/object schemes, real per-type
// linter, real ImageBackend, real FsPackageCache, real ImageConfigStore) runs against the
// simulated API server, an in-memory registry of images the harness builds, and a cache
// filesystem that can be made to fail. The establisher is a recorder: the oracle compares
// what the reconciler asks to establish with what the harness wrote into the image.
package main

import (
	"bytes"
	"compress/gzip"
	"context"
	"fmt"
	"io"
	"math/rand/v2"
	"sort"
	"strings"
	"sync"

	ggcr "github.com/google/go-containerregistry/pkg/v1"
	"github.com/google/go-containerregistry/pkg/v1/tarball"
	"github.com/spf13/afero"
	corev1 "k8s.io/api/core/v1"
	metav1 "k8s.io/apimachinery/pkg/apis/meta/v1"
	"sigs.k8s.io/yaml"

	xpv1 "github.com/crossplane/crossplane-runtime/apis/common/v1"
	"github.com/crossplane/crossplane-runtime/pkg/parser"

	"github.com/crossplane/crossplane/apis/pkg/v1beta1"
	"github.com/crossplane/crossplane/internal/controller/pkg/revision"
	"github.com/crossplane/crossplane/internal/xpkg"
	"github.com/crossplane/crossplane/internal/xpkg/parser/examples"
	xpkgyaml "github.com/crossplane/crossplane/internal/xpkg/parser/yaml"
	"github.com/crossplane/crossplane/verifh/kit"
	"github.com/crossplane/crossplane/verifh/sim"
)

func coreStatus(s string) corev1.ConditionStatus { return corev1.ConditionStatus(s) }

type run struct {
	c *kit.Ctx
	g *golden
}

func hex(r *rand.Rand, n int) string { return padOf(r, n) }

func revName(r *rand.Rand) (name, image string) {
	d := hex(r, 64)
	return parentName + "-" + d[:12], "reg.example/org/" + parentName + "@sha256:" + d
}

// stepCtx says in which situation a reconcile ran (for counters and violation keys).
type stepCtx struct {
	Family    string
	Situation string // cold | warm | after-cache-<perturbation> | during-<fault> | after-<fault> | shared-cache | signature | built-<variant>
	Typ       string
	Layout    string
	FaultFree bool // nothing was injected and no cache entry is damaged: a valid package must be established
}

// check applies O1/O2 to one reconcile. reasons non-empty = the package must not be installed.
func (rn *run) check(name string, sc stepCtx, sr stepResult, declared []canon, reasons []string, dontCare bool, wit func() any) {
	c := rn.c
	if sr.Hung {
		c.Violate("reconcile-hangs:"+sc.Family, name, "Reconcile did not return within 60 s ("+sc.Situation+")", wit())
		return
	}
	if sr.Panic != "" {
		c.Violate("reconcile-panics:"+sc.Family, name, "Reconcile panicked: "+sr.Panic, wit())
		return
	}
	if len(reasons) > 0 {
		for _, r := range reasons {
			c.Count("rejections_expected_"+r, 1)
		}
		kr := keyReason(reasons)
		switch {
		case len(sr.Calls) > 0:
			n := 0
			for _, cl := range sr.Calls {
				n += len(cl.Objs)
			}
			c.Violate(fmt.Sprintf("O2-%s-established:%s", kr, sc.Typ), name,
				fmt.Sprintf("package is invalid for a %s revision (%s) but the establisher was called with %d object(s) [%s, layout %s]", sc.Typ, strings.Join(reasons, ","), n, sc.Situation, sc.Layout), wit())
		case sr.Pre > 0:
			c.Violate(fmt.Sprintf("O2-%s-runtime-installed:%s", kr, sc.Typ), name,
				fmt.Sprintf("package is invalid for a %s revision (%s) but the pre-establish runtime hook ran [%s]", sc.Typ, strings.Join(reasons, ","), sc.Situation), wit())
		default:
			c.Count("rejected_as_required", 1)
			c.Count("rejected_ok_"+kr, 1)
		}
		return
	}
	from := "cache"
	if sr.Fetches > 0 {
		from = "registry"
	}
	for _, cl := range sr.Calls {
		c.Count("established_sets_compared", 1)
		c.Count("established_from_"+from, 1)
		if cl.Err != "" || !sameMultiset(cl.Objs, declared) {
			c.Violate(fmt.Sprintf("O1-established-differs:%s:%s", from, sc.Situation), name,
				fmt.Sprintf("the establisher was handed %d object(s) but the image's package stream declares %d; sets differ (content from %s, %s, layout %s)", len(cl.Objs), len(declared), from, sc.Situation, sc.Layout),
				map[string]any{"established": sortedCanon(cl.Objs), "declared": sortedCanon(declared), "case": wit()})
		}
	}
	if len(sr.Calls) == 0 {
		c.Count("not_established_"+sc.Situation, 1)
		if sc.FaultFree && !dontCare {
			c.Violate(fmt.Sprintf("valid-package-not-established:%s:%s", sc.Family, sc.Typ), name,
				fmt.Sprintf("a valid %s package (layout %s) was not established in a fault-free reconcile (%s): %s | %s", sc.Typ, sc.Layout, sc.Situation, sr.Err, sr.Healthy), wit())
		}
	}
}

// cacheState classifies the revision's cache entry against the stream it should hold.
func cacheState(e *env, rev string, stream []byte) string {
	b, err := afero.ReadFile(e.mem, cachePath(rev))
	if err != nil {
		return "cold"
	}
	zr, err := gzip.NewReader(bytes.NewReader(b))
	if err != nil {
		return "damaged"
	}
	got, err := io.ReadAll(zr)
	if err != nil {
		return "damaged"
	}
	if bytes.Equal(got, stream) {
		return "warm"
	}
	return "valid-gzip-other-content"
}

func gzipLen(b []byte) int64 {
	var buf bytes.Buffer
	w, _ := gzip.NewWriterLevel(&buf, gzip.BestSpeed)
	_, _ = w.Write(b)
	_ = w.Close()
	return int64(buf.Len())
}

// ---------------------------------------------------------------- family pkg

type pkgCase struct {
	Typ     string   `json:"type"`
	Defects []string `json:"defects,omitempty"`
	Ignore  string   `json:"ignoreCrossplaneConstraints"` // unset | false | true
	Running string   `json:"runningCrossplaneVersion,omitempty"` // "" = runningVersion
	Layout  string   `json:"layout"`
	Perturb string   `json:"cache_perturbation"`
	PullCfg bool     `json:"pull_secret_image_config,omitempty"`
	Content *content `json:"content"`
	Decoy   *content `json:"-"`
}

var defectKinds = []string{"meta0", "meta2", "metakind", "unmet", "malformed", "diskind", "undecodable", "layout"}

func otherKinds(k string) []string {
	var out []string
	for _, t := range pkgTypeNames {
		if kindName(t) != k {
			out = append(out, kindName(t))
		}
	}
	return out
}

func (rn *run) genPkg(r *rand.Rand) *pkgCase {
	g := rn.g
	p := &pkgCase{Typ: pick(r, pkgTypeNames), Ignore: "unset", Layout: pick(r, validLayouts)}
	nObjs := r.IntN(7)
	padMax := []int{0, 40, 400, 4000}[r.IntN(4)]
	p.Content = genValidContent(r, g, p.Typ, nObjs, padMax)
	switch x := r.IntN(100); {
	case x < 40:
	case x < 85:
		p.Defects = []string{pick(r, defectKinds)}
	default:
		p.Defects = []string{pick(r, defectKinds), pick(r, defectKinds)}
		if p.Defects[0] == p.Defects[1] {
			p.Defects = p.Defects[:1]
		}
	}
	c := p.Content
	for _, d := range p.Defects {
		switch d {
		case "meta0":
			c.Metas, c.MetaPos = nil, nil
		case "meta2":
			if len(c.Metas) == 1 {
				m2 := c.Metas[0]
				if r.IntN(2) == 0 {
					m2.Kind = pick(r, otherKinds(m2.Kind))
					m2.APIVersion = g.MetaGroup + "/v1"
				}
				c.Metas = append(c.Metas, m2)
				c.MetaPos = append(c.MetaPos, r.IntN(len(c.Objs)+1))
			}
		case "metakind":
			for i := range c.Metas {
				c.Metas[i].Kind = pick(r, otherKinds(g.Packages[p.Typ].MetaKind))
				c.Metas[i].APIVersion = g.MetaGroup + "/" + pick(r, metaVersions[c.Metas[i].Kind])
			}
		case "unmet", "malformed":
			cl := map[string]string{"unmet": "unmet", "malformed": "malformed"}[d]
			for i := range c.Metas {
				cs := pick(r, constraintsOf(cl))
				c.Metas[i].Constraint, c.Metas[i].CClass = cs.Expr, cs.Class
			}
			p.Ignore = []string{"unset", "false", "true", "true"}[r.IntN(4)]
		case "diskind":
			_, dis := allowedIDs(g, p.Typ)
			o := objSpec{Kind: pick(r, dis), Pad: r.IntN(padMax + 1)}
			if len(c.Objs) == 0 || r.IntN(2) == 0 {
				c.Objs = append(c.Objs, o)
			} else {
				c.Objs[r.IntN(len(c.Objs))] = o
			}
		case "undecodable":
			at := r.IntN(len(c.Objs) + 1)
			c.Objs = append(c.Objs[:at:at], append([]objSpec{{Kind: "configmap"}}, c.Objs[at:]...)...)
		case "layout":
			p.Layout = pick(r, invalidLayouts)
		}
	}
	if len(p.Defects) == 0 {
		if r.IntN(8) == 0 && len(c.Objs) > 0 {
			c.Objs = append(c.Objs, objSpec{Dup: true, Kind: c.Objs[len(c.Objs)-1].Kind})
		}
		if r.IntN(5) == 0 {
			p.Ignore = pick(r, []string{"false", "true"})
		}
	}
	p.Perturb = pick(r, []string{"none", "truncate", "truncate", "flip", "flip", "garbage", "empty", "remove"})
	p.PullCfg = r.IntN(5) == 0
	p.Decoy = genValidContent(r, g, p.Typ, 1+r.IntN(3), 40)
	return p
}

func boolPtr(s string) *bool {
	switch s {
	case "true":
		t := true
		return &t
	case "false":
		f := false
		return &f
	}
	return nil
}

func pullSecretConfig() *v1beta1.ImageConfig {
	return &v1beta1.ImageConfig{
		ObjectMeta: metav1.ObjectMeta{Name: "pull"},
		Spec: v1beta1.ImageConfigSpec{
			MatchImages: []v1beta1.ImageMatch{{Type: "Prefix", Prefix: "reg.example/org/"}},
			Registry:    &v1beta1.RegistryConfig{Authentication: &v1beta1.RegistryAuthentication{PullSecretRef: corev1.LocalObjectReference{Name: "regcred"}}},
		},
	}
}

func (rn *run) runPkg(i int, name string) {
	c := rn.c
	r := c.Rng("pkg", i)
	p := rn.genPkg(r)
	if i%4 == 3 {
		// this package meets a pre-release build of Crossplane
		p.Running = preRunning
		p.Content.rebase(r)
	}
	if err := p.Content.materialise(r); err != nil {
		c.Violate("harness:generator", name, err.Error(), p)
		return
	}
	if err := p.Decoy.materialise(r); err != nil {
		c.Violate("harness:generator", name, err.Error(), p)
		return
	}
	typ := pkgTypes[p.Typ]
	e := newEnv(typ, uint64(c.Seed)*1000003+uint64(i), false, p.Running)
	if p.Running != "" {
		c.Count("pkg_cases_on_prerelease_crossplane", 1)
	}
	if !e.realV {
		c.Count("versioner_fallback_used", 1)
	}
	rev, image := revName(r)
	bi := buildImage(r, p.Layout, p.Content.stream, p.Decoy.stream)
	e.fetch.put(refString(image), bi.img)
	if p.PullCfg {
		if err := e.user.Create(context.Background(), pullSecretConfig()); err != nil {
			panic(err)
		}
	}
	e.createRevision(revOpts{Name: rev, Image: image, Ignore: boolPtr(p.Ignore), SkipDep: boolPtr("false")})

	reasons, dontCare := p.Content.reasons(rn.g, p.Typ, p.Ignore == "true")
	if lr := layoutReason(p.Layout); lr != "" {
		reasons = append(reasons, lr)
	}
	c.Count("images_layout_"+p.Layout, 1)
	c.Count("pkg_type_"+p.Typ, 1)
	if len(reasons) == 0 {
		c.Count("pkg_valid", 1)
	} else {
		c.Count("pkg_invalid", 1)
	}
	var steps []map[string]any
	wit := func() any {
		return map[string]any{"case": p, "content": p.Content.brief(), "revision": rev, "image": image, "invalid_because": reasons, "steps": steps}
	}
	sawNonCold := false
	doStep := func(sit string, faultFree bool) stepResult {
		st := cacheState(e, rev, p.Content.stream)
		c.Count("cache_state_"+st, 1)
		if st != "cold" {
			sawNonCold = true
		}
		sr := e.reconcile(rev, image)
		sr.TaintHit = e.ffs.takeServed()
		steps = append(steps, map[string]any{"situation": sit, "cache_before": st, "result": sr})
		rn.check(name, stepCtx{Family: "pkg", Situation: sit, Typ: p.Typ, Layout: layoutClass(p.Layout), FaultFree: faultFree}, sr, p.Content.declared, reasons, dontCare, wit)
		if len(sr.TaintHit) > 0 {
			c.Violate("O1-partial-entry-served:pkg", name, fmt.Sprintf("an incomplete cache entry was opened for reading: %v", sr.TaintHit), wit())
		}
		return sr
	}
	doStep("cold", true)
	doStep("warm", true)
	// damage the entry behind the reconciler's back
	path := cachePath(rev)
	if b, err := afero.ReadFile(e.mem, path); err == nil && p.Perturb != "none" {
		var nb []byte
		switch p.Perturb {
		case "truncate":
			nb = b[:r.IntN(len(b))]
		case "flip":
			nb = append([]byte(nil), b...)
			nb[r.IntN(len(nb))] ^= byte(1 << r.IntN(8))
		case "garbage":
			nb = []byte(padOf(r, 1+r.IntN(300)))
		case "empty":
			nb = []byte{}
		}
		if p.Perturb == "remove" {
			_ = e.mem.Remove(path)
		} else {
			_ = afero.WriteFile(e.mem, path, nb, 0o644)
		}
		c.Count("cache_perturbed_"+p.Perturb, 1)
		ff := p.Perturb == "remove"
		doStep("after-cache-"+p.Perturb, ff)
		doStep("after-cache-"+p.Perturb, ff)
	}
	nontrivial := len(p.Content.Objs) >= 2 && (sawNonCold || len(reasons) > 0)
	c.Eval("pkg|"+kit.JSON(p), nontrivial)
	if c.WantSample() && nontrivial && len(reasons) == 0 && i%7 == 0 {
		c.Sample(wit())
	}
}

// ---------------------------------------------------------------- family fault

type faultCase struct {
	Typ     string   `json:"type"`
	Layout  string   `json:"layout"`
	Kind    string   `json:"fault"`    // fs-create | fs-write | fs-close-keep | fs-close-cut | src-read
	PosCls  string   `json:"position"` // first | second | header | early | mid | late | last
	At      int64    `json:"at"`
	Sticky  bool     `json:"sticky"`
	Content *content `json:"content"`
}

func posIn(r *rand.Rand, cls string, size int64) int64 {
	if size <= 0 {
		return 0
	}
	var v int64
	switch cls {
	case "first":
		v = 0
	case "second":
		v = 1
	case "header":
		v = 2 + r.Int64N(8)
	case "early":
		v = 10 + r.Int64N(size/20+1)
	case "mid":
		v = r.Int64N(size)
	case "late":
		v = size - 1 - r.Int64N(size/20+1)
	case "last":
		v = size - 1
	}
	if v >= size {
		v = size - 1
	}
	if v < 0 {
		v = 0
	}
	return v
}

// dryRunCalls runs the real ImageBackend once over the image (nothing armed) and returns how
// often the stream layer's Uncompressed() is called: the last call is the one the package
// stream is read from.
func dryRunCalls(e *env, bi *builtImage, rev, image string) int {
	pr := e.typ.nr()
	pr.SetName(rev)
	pr.SetSource(image)
	bi.flaky.reset()
	rc, err := revision.NewImageBackend(e.fetch, revision.WithDefaultRegistry("xpkg.crossplane.io")).Init(context.Background(), revision.PackageRevision(pr))
	if err != nil {
		return 0
	}
	_, _ = io.Copy(io.Discard, rc)
	_ = rc.Close()
	calls, _ := bi.flaky.reset()
	return calls
}

// nearChunk sets the padding so that the stream is roughly 4.3-8 KB long.
func nearChunk(r *rand.Rand, c *content) {
	target := 4300 + r.IntN(3700)
	n := len(c.Objs)
	per := (target - 700*n - 400) / n
	if per < 0 {
		per = 0
	}
	for i := range c.Objs {
		c.Objs[i].Pad = per/2 + r.IntN(per/2+1)
	}
}

func (rn *run) runFault(i int, name string) {
	c := rn.c
	r := c.Rng("fault", i)
	f := &faultCase{Typ: pick(r, pkgTypeNames), Layout: pick(r, validLayouts)}
	f.Kind = pick(r, []string{"fs-create", "fs-write", "fs-write", "fs-write", "fs-close-keep", "fs-close-cut", "src-read", "src-read", "src-read"})
	f.PosCls = pick(r, []string{"first", "second", "header", "early", "mid", "mid", "mid", "late", "last"})
	f.Sticky = r.IntN(10) < 3
	padMax := []int{200, 3000, 20000}[r.IntN(3)]
	f.Content = genValidContent(r, rn.g, f.Typ, 2+r.IntN(5), padMax)
	if r.IntN(10) < 3 {
		// streams of one to two read-buffer lengths (the parser reads through a 4 KiB buffer)
		nearChunk(r, f.Content)
	}
	if err := f.Content.materialise(r); err != nil {
		c.Violate("harness:generator", name, err.Error(), f)
		return
	}
	decoy := genValidContent(r, rn.g, f.Typ, 1+r.IntN(2), 40)
	_ = decoy.materialise(r)
	e := newEnv(pkgTypes[f.Typ], uint64(c.Seed)*2000003+uint64(i), false)
	rev, image := revName(r)
	bi := buildImage(r, f.Layout, f.Content.stream, decoy.stream)
	e.fetch.put(refString(image), bi.img)
	e.createRevision(revOpts{Name: rev, Image: image, SkipDep: boolPtr("false")})
	base := rev + ".gz"
	streamCall := 0
	switch f.Kind {
	case "fs-write":
		f.At = posIn(r, f.PosCls, gzipLen(f.Content.stream))
	case "src-read":
		f.At = posIn(r, f.PosCls, int64(len(f.Content.stream)))
		streamCall = dryRunCalls(e, bi, rev, image)
		if streamCall == 0 {
			c.Violate("harness:dry-run-failed", name, "the image backend cannot read a valid image", f)
			return
		}
	default:
		f.PosCls = "n/a"
	}
	armNow := func() {
		switch f.Kind {
		case "fs-create":
			e.ffs.arm(base, &fsFault{Mode: "create", Sticky: true})
		case "fs-write":
			e.ffs.arm(base, &fsFault{Mode: "write", At: f.At, Sticky: true})
		case "fs-close-keep":
			e.ffs.arm(base, &fsFault{Mode: "close", Keep: true, Sticky: true})
		case "fs-close-cut":
			e.ffs.arm(base, &fsFault{Mode: "close", Sticky: true})
		case "src-read":
			bi.flaky.arm(streamCall, bi.streamOff+f.At)
		}
	}
	disarm := func() {
		e.ffs.clear()
		bi.flaky.reset()
	}
	var steps []map[string]any
	wit := func() any {
		return map[string]any{"case": f, "content": f.Content.brief(), "revision": rev, "image": image, "stream_layer_read_call": streamCall, "steps": steps}
	}
	fired := false
	plan := []bool{true, f.Sticky, false, false} // is the fault armed in step k
	for k, armed := range plan {
		disarm()
		if armed {
			armNow()
		}
		st := cacheState(e, rev, f.Content.stream)
		c.Count("cache_state_"+st, 1)
		sr := e.reconcile(rev, image)
		sr.TaintHit = e.ffs.takeServed()
		fsFired := e.ffs.takeFired()
		_, srcFired := bi.flaky.reset()
		// "during" = the fault fired inside this reconcile, "after" = any later reconcile
		sit := "after-" + f.Kind
		if len(fsFired) > 0 || srcFired > 0 {
			sit = "during-" + f.Kind
			fired = true
			for _, m := range fsFired {
				c.Count("fsfault_fired_"+m+"_"+f.PosCls, 1)
			}
			if srcFired > 0 {
				c.Count("srcfault_fired_"+f.PosCls, 1)
			}
		}
		steps = append(steps, map[string]any{"step": k, "armed": armed, "situation": sit, "cache_before": st, "fs_faults_fired": fsFired, "source_faults_fired": srcFired, "result": sr})
		rn.check(name, stepCtx{Family: "fault", Situation: sit, Typ: f.Typ, Layout: layoutClass(f.Layout)}, sr, f.Content.declared, nil, false, wit)
		if len(sr.TaintHit) > 0 {
			c.Violate("O1-partial-entry-served-after-failed-store:"+f.Kind, name,
				fmt.Sprintf("a cache entry left behind by a failed Store was opened for reading in a later reconcile: %v", sr.TaintHit), wit())
		}
		if !armed && k >= 2 {
			if len(sr.Calls) == 0 {
				c.Count("stuck_unhealthy_after_"+f.Kind, 1)
			} else {
				c.Count("recovered_after_"+f.Kind, 1)
			}
		}
	}
	if after := cacheState(e, rev, f.Content.stream); after != "warm" {
		c.Count("final_cache_"+after+"_after_"+f.Kind, 1)
	}
	c.Count("fault_cases_"+f.Kind, 1)
	c.Eval("fault|"+kit.JSON(f), fired)
	if c.WantSample() && fired && i%5 == 0 {
		c.Sample(wit())
	}
}

// ---------------------------------------------------------------- family share

type shareCase struct {
	Typ     string      `json:"type"`
	Layouts [2]string   `json:"layouts"`
	Fault   string      `json:"fault_on_first,omitempty"`
	At      int64       `json:"at,omitempty"`
	Content [2]*content `json:"content"`
}

func (rn *run) runShare(i int, name string) {
	c := rn.c
	r := c.Rng("share", i)
	s := &shareCase{Typ: pick(r, pkgTypeNames)}
	e := newEnv(pkgTypes[s.Typ], uint64(c.Seed)*3000003+uint64(i), false)
	var revs, images [2]string
	for k := 0; k < 2; k++ {
		s.Layouts[k] = pick(r, validLayouts)
		s.Content[k] = genValidContent(r, rn.g, s.Typ, 2+r.IntN(5), []int{100, 3000, 12000}[r.IntN(3)])
		if r.IntN(4) == 0 {
			nearChunk(r, s.Content[k])
		}
		if err := s.Content[k].materialise(r); err != nil {
			c.Violate("harness:generator", name, err.Error(), s)
			return
		}
	}
	for k := 0; k < 2; k++ {
		revs[k], images[k] = revName(r)
		bi := buildImage(r, s.Layouts[k], s.Content[k].stream, s.Content[1-k].stream)
		e.fetch.put(refString(images[k]), bi.img)
		e.createRevision(revOpts{Name: revs[k], Image: images[k], SkipDep: boolPtr("false")})
		c.Count("images_layout_"+s.Layouts[k], 1)
	}
	if r.IntN(10) < 3 {
		s.Fault = pick(r, []string{"create", "write", "close"})
		s.At = r.Int64N(gzipLen(s.Content[0].stream))
		e.ffs.arm(revs[0]+".gz", &fsFault{Mode: s.Fault, At: s.At, Keep: r.IntN(2) == 0})
	}
	var steps []map[string]any
	wit := func() any {
		return map[string]any{"case": s, "revisions": revs, "images": images, "content": []any{s.Content[0].brief(), s.Content[1].brief()}, "steps": steps}
	}
	for round := 1; round <= 3; round++ {
		var srs [2]stepResult
		before := [2]string{cacheState(e, revs[0], s.Content[0].stream), cacheState(e, revs[1], s.Content[1].stream)}
		if round < 3 {
			start := make(chan struct{})
			var wg sync.WaitGroup
			for k := 0; k < 2; k++ {
				wg.Add(1)
				go func(k int) {
					defer wg.Done()
					<-start
					srs[k] = e.reconcile(revs[k], images[k])
				}(k)
			}
			close(start)
			wg.Wait()
			c.Count("concurrent_reconcile_pairs", 1)
		} else {
			order := r.Perm(2)
			for _, k := range order {
				srs[k] = e.reconcile(revs[k], images[k])
			}
		}
		taint := e.ffs.takeServed()
		fsFired := e.ffs.takeFired()
		for _, m := range fsFired {
			c.Count("fsfault_fired_"+m+"_shared", 1)
		}
		for k := 0; k < 2; k++ {
			c.Count("cache_state_"+before[k], 1)
			steps = append(steps, map[string]any{"round": round, "revision": revs[k], "cache_before": before[k], "result": srs[k]})
		}
		for k := 0; k < 2; k++ {
			ff := round == 3 && s.Fault == ""
			sit := "shared-cache"
			if k == 0 && len(fsFired) > 0 {
				// same situation (and key) as the single-revision fault family
				sit = map[string]string{"create": "during-fs-create", "write": "during-fs-write", "close": "during-fs-close-keep"}[s.Fault]
			}
			rn.check(name, stepCtx{Family: "share", Situation: sit, Typ: s.Typ, Layout: layoutClass(s.Layouts[k]), FaultFree: ff}, srs[k], s.Content[k].declared, nil, false, wit)
		}
		if len(taint) > 0 {
			c.Violate("O1-partial-entry-served:shared-cache", name, fmt.Sprintf("an incomplete cache entry was opened for reading: %v", taint), wit())
		}
	}
	for k := 0; k < 2; k++ {
		if st := cacheState(e, revs[k], s.Content[k].stream); st == "valid-gzip-other-content" {
			c.Violate("cache-entry-holds-other-content:shared-cache", name, fmt.Sprintf("the cache entry of revision %s is a well-formed archive that is not the stream of its image", revs[k]), wit())
		}
	}
	c.Eval("share|"+kit.JSON(s), true)
	if c.WantSample() && i%9 == 0 {
		c.Sample(wit())
	}
}

// ---------------------------------------------------------------- family sig

type sigCase struct {
	Typ       string   `json:"type"`
	Layout    string   `json:"layout"`
	Gate      bool     `json:"gate"`
	Mode      string   `json:"mode"`             // controller | manual
	Config    string   `json:"config,omitempty"` // none | nomatch | match-cosign | match-nocosign
	Validator string   `json:"validator,omitempty"`
	Manual    string   `json:"manual,omitempty"` // absent | Unknown | False | True
	Schedule  []string `json:"schedule"`
	Content   *content `json:"content"`
}

func verificationConfig(kind string) *v1beta1.ImageConfig {
	ic := &v1beta1.ImageConfig{ObjectMeta: metav1.ObjectMeta{Name: "verify"}}
	ic.Spec.MatchImages = []v1beta1.ImageMatch{{Type: "Prefix", Prefix: "reg.example/org/"}}
	switch kind {
	case "nomatch":
		ic.Spec.MatchImages[0].Prefix = "elsewhere.example/"
		fallthrough
	case "match-cosign":
		ic.Spec.Verification = &v1beta1.ImageVerification{Provider: "Cosign", Cosign: &v1beta1.CosignVerificationConfig{
			Authorities: []v1beta1.CosignAuthority{{Name: "release", Key: &v1beta1.KeyRef{HashAlgorithm: "sha256", SecretRef: v1beta1.LocalSecretKeySelector{LocalSecretReference: xpv1.LocalSecretReference{Name: "cosign-pub"}, Key: "cosign.pub"}}}},
		}}
	case "match-nocosign":
		ic.Spec.Verification = &v1beta1.ImageVerification{Provider: "Cosign"}
	}
	return ic
}

func (rn *run) runSig(i int, name string) {
	c := rn.c
	r := c.Rng("sig", i)
	s := &sigCase{Typ: pick(r, pkgTypeNames), Layout: pick(r, validLayouts), Gate: r.IntN(10) != 0}
	s.Content = genValidContent(r, rn.g, s.Typ, 2+r.IntN(4), 300)
	if err := s.Content.materialise(r); err != nil {
		c.Violate("harness:generator", name, err.Error(), s)
		return
	}
	decoy := genValidContent(r, rn.g, s.Typ, 1, 40)
	_ = decoy.materialise(r)
	if !s.Gate {
		s.Mode, s.Manual, s.Schedule = "manual", "absent", []string{"rev", "rev"}
	} else if r.IntN(10) < 7 {
		s.Mode = "controller"
		s.Config = pick(r, []string{"none", "nomatch", "match-cosign", "match-cosign", "match-cosign", "match-nocosign"})
		s.Validator = pick(r, []string{"success", "failure"})
		n := 3 + r.IntN(4)
		for k := 0; k < n; k++ {
			s.Schedule = append(s.Schedule, pick(r, []string{"rev", "rev", "sig"}))
		}
		s.Schedule = append(s.Schedule, "sig", "rev", "rev")
	} else {
		s.Mode = "manual"
		s.Manual = pick(r, []string{"absent", "Unknown", "False", "True"})
		s.Schedule = []string{"rev", "rev"}
	}
	e := newEnv(pkgTypes[s.Typ], uint64(c.Seed)*4000003+uint64(i), s.Gate)
	rev, image := revName(r)
	// a third of the sources leave out the registry host: the default registry applies, for the
	// image that is pulled as well as for the image whose signature is verified
	noHost := r.IntN(3) == 0
	if noHost {
		image = strings.TrimPrefix(image, "reg.example/")
	}
	bi := buildImage(r, s.Layout, s.Content.stream, decoy.stream)
	e.fetch.put(refString(image), bi.img)
	e.createRevision(revOpts{Name: rev, Image: image, SkipDep: boolPtr("false")})
	if s.Mode == "controller" {
		if s.Config != "none" {
			ic := verificationConfig(s.Config)
			if noHost && s.Config != "nomatch" {
				ic.Spec.MatchImages[0].Prefix = "org/"
			}
			if err := e.user.Create(context.Background(), ic); err != nil {
				panic(err)
			}
		}
		e.val.fail = s.Validator == "failure"
	} else if s.Manual != "absent" {
		e.setCondition(rev, "Verified", s.Manual)
	}
	// may the package be verified at all, according to the script?
	passable := !s.Gate || (s.Mode == "controller" && (s.Config == "none" || s.Config == "nomatch" || (s.Config == "match-cosign" && s.Validator == "success"))) || (s.Mode == "manual" && s.Manual == "True")
	var steps []map[string]any
	wit := func() any {
		return map[string]any{"case": s, "content": s.Content.brief(), "revision": rev, "image": image, "verification_can_pass": passable, "steps": steps}
	}
	established := false
	for k, what := range s.Schedule {
		if what == "sig" {
			// one API call of this signature reconcile may fail: plain API errors and the errors of
			// a discovery / aggregation layer that hiccups (kind not served, 503, 404)
			faulted := ""
			if r.IntN(3) == 0 {
				outs := append([]sim.Outcome{sim.Conflict, sim.ServerError, sim.Timeout, sim.ErrorAfter}, sim.DiscoveryFaults...)
				idx, out := r.IntN(5), outs[r.IntN(len(outs))]
				e.sigC.ResetCalls()
				e.sigC.Fault(idx, out)
				faulted = fmt.Sprintf("%s@%d", out, idx)
				c.Count("signature_reconciles_with_api_fault", 1)
			}
			err := e.reconcileSignature(rev)
			e.sigC.ClearFaults()
			if faulted != "" {
				steps = append(steps, map[string]any{"step": k, "injected": faulted})
			}
			v := e.condition(rev, "Verified")
			steps = append(steps, map[string]any{"step": k, "controller": "signature", "err": fmt.Sprint(err), "verified_after": v, "validator_calls": e.val.calls})
			c.Count("signature_reconciles", 1)
			c.Count("verified_after_sig_"+orAbsent(v), 1)
			e.val.mu.Lock()
			vrefs := append([]string(nil), e.val.refs...)
			e.val.mu.Unlock()
			for _, vr := range vrefs {
				if vr != refName(image) {
					c.Violate("sig-verified-another-image-than-the-one-installed", name, fmt.Sprintf("the signature of %s was checked, the revision is installed from %s (source %q)", vr, refName(image), image), wit())
				}
			}
			if v == "True" && !passable {
				c.Violate("sig-verified-true-without-passing:"+s.Config+":"+s.Validator, name, "the signature controller marked the revision Verified=True although verification cannot have passed", wit())
			}
			continue
		}
		v := e.condition(rev, "Verified")
		var reasons []string
		if s.Gate && v != "True" {
			reasons = []string{"unverified"}
		}
		if !passable {
			reasons = []string{"unverified"}
		}
		sr := e.reconcile(rev, image)
		steps = append(steps, map[string]any{"step": k, "controller": "revision", "verified_before": orAbsent(v), "result": sr})
		c.Count("gate_"+fmt.Sprint(s.Gate)+"_verified_"+orAbsent(v), 1)
		rn.check(name, stepCtx{Family: "sig", Situation: "signature", Typ: s.Typ, Layout: layoutClass(s.Layout), FaultFree: true}, sr, s.Content.declared, reasons, false, wit)
		if len(sr.Calls) > 0 {
			established = true
		}
	}
	if established {
		c.Count("sig_cases_established", 1)
	} else {
		c.Count("sig_cases_never_established", 1)
	}
	c.Eval("sig|"+kit.JSON(s), s.Gate)
	if c.WantSample() && s.Gate && s.Mode == "controller" && i%5 == 0 {
		c.Sample(wit())
	}
}

func orAbsent(s string) string {
	if s == "" {
		return "absent"
	}
	return s
}

// ---------------------------------------------------------------- family build

type buildCase struct {
	Typ      string   `json:"type"`
	Variant  string   `json:"variant"` // built-raw | built-annotated | built-tarball
	Files    []int    `json:"docs_per_file"`
	Examples bool     `json:"examples"`
	Base     bool     `json:"runtime_base_image"`
	Content  *content `json:"content"`
}

func (rn *run) runBuild(i int, name string) {
	c := rn.c
	r := c.Rng("build", i)
	b := &buildCase{Typ: pick(r, pkgTypeNames), Variant: pick(r, []string{"built-raw", "built-annotated", "built-annotated", "built-tarball"}), Examples: r.IntN(5) < 2, Base: r.IntN(10) < 3}
	b.Content = genValidContent(r, rn.g, b.Typ, r.IntN(7), []int{0, 200, 3000}[r.IntN(3)])
	b.Content.Style = 0
	if err := b.Content.materialise(r); err != nil {
		c.Violate("harness:generator", name, err.Error(), b)
		return
	}
	fs := afero.NewMemMapFs()
	root := "/work/pkg"
	mb, _ := yaml.Marshal(b.Content.metaMaps[0])
	_ = afero.WriteFile(fs, root+"/crossplane.yaml", mb, 0o644)
	objs := b.Content.objMaps
	for fi := 0; len(objs) > 0; fi++ {
		n := 1 + r.IntN(3)
		if n > len(objs) {
			n = len(objs)
		}
		var buf bytes.Buffer
		for k := 0; k < n; k++ {
			if k > 0 {
				buf.WriteString("---\n")
			}
			ob, _ := yaml.Marshal(objs[k])
			buf.Write(ob)
		}
		dir := []string{"apis", "apis/v1", "package"}[r.IntN(3)]
		_ = afero.WriteFile(fs, fmt.Sprintf("%s/%s/f%02d.yaml", root, dir, fi), buf.Bytes(), 0o644)
		b.Files = append(b.Files, n)
		objs = objs[n:]
	}
	_ = afero.WriteFile(fs, root+"/README.md", []byte("# not yaml\n"), 0o644)
	if b.Examples {
		_ = afero.WriteFile(fs, root+"/examples/widget.yaml", []byte("apiVersion: g0.example.org/v1alpha1\nkind: WidgetA\nmetadata:\n  name: example\nspec:\n  size: 1\n"), 0o644)
	}
	filters := []parser.FilterFn{parser.SkipDirs(), parser.SkipNotYAML(), parser.SkipEmpty()}
	pp, err := xpkgyaml.New()
	if err != nil {
		panic(err)
	}
	builder := xpkg.New(
		parser.NewFsBackend(fs, parser.FsDir(root), parser.FsFilters(append(filters, xpkg.SkipContains("/examples/"))...)),
		parser.NewFsBackend(fs, parser.FsDir(root+"/examples"), parser.FsFilters(filters...)),
		pp, examples.New())
	var opts []xpkg.BuildOpt
	if b.Base {
		base := add(add(ggcrEmpty(), junkLayer(r), nil), junkLayer(r), nil)
		opts = append(opts, xpkg.WithBase(base))
	}
	var img ggcr.Image
	var berr error
	if perr := kit.Try(func() { img, _, berr = builder.Build(context.Background(), opts...) }); perr != nil {
		c.Violate("O3-build-panics", name, perr.Error(), b)
		return
	}
	wit := func(steps []map[string]any) any {
		return map[string]any{"case": b, "content": b.Content.brief(), "steps": steps}
	}
	if berr != nil {
		c.Violate("O3-build-failed-on-valid-directory:"+b.Typ, name, "xpkg build failed for a valid package directory: "+berr.Error(), wit(nil))
		return
	}
	c.Count("builds_ok", 1)
	switch b.Variant {
	case "built-annotated":
		if img, err = xpkg.AnnotateLayers(img); err != nil {
			c.Violate("O3-annotate-failed", name, err.Error(), wit(nil))
			return
		}
	case "built-tarball":
		// what `xpkg build` writes to disk and `xpkg push` loads again
		var tb bytes.Buffer
		if err := tarball.Write(nil, img, &tb); err != nil {
			c.Violate("O3-tarball-write-failed", name, err.Error(), wit(nil))
			return
		}
		raw := tb.Bytes()
		img, err = tarball.Image(func() (io.ReadCloser, error) { return io.NopCloser(bytes.NewReader(raw)), nil }, nil)
		if err == nil {
			img, err = xpkg.AnnotateLayers(img)
		}
		if err != nil {
			c.Violate("O3-tarball-load-failed", name, err.Error(), wit(nil))
			return
		}
	}
	if img, err = asPulled(img); err != nil {
		c.Violate("harness:as-pulled", name, err.Error(), wit(nil))
		return
	}
	c.Count("images_layout_"+b.Variant, 1)
	e := newEnv(pkgTypes[b.Typ], uint64(c.Seed)*5000003+uint64(i), false)
	rev, image := revName(r)
	e.fetch.put(refString(image), img)
	e.createRevision(revOpts{Name: rev, Image: image, SkipDep: boolPtr("false")})
	var steps []map[string]any
	for _, sit := range []string{"cold", "warm"} {
		st := cacheState(e, rev, nil)
		sr := e.reconcile(rev, image)
		steps = append(steps, map[string]any{"situation": sit, "cache_before": st, "result": sr})
		c.Count("build_roundtrips_compared", int64(len(sr.Calls)))
		for _, cl := range sr.Calls {
			if cl.Err != "" || !sameMultiset(cl.Objs, b.Content.declared) {
				c.Violate("O3-build-parse-differs:"+b.Variant, name,
					fmt.Sprintf("the image xpkg build produced from a directory with %d object(s) was parsed back to %d object(s); sets differ (%s)", len(b.Content.declared), len(cl.Objs), sit),
					map[string]any{"established": sortedCanon(cl.Objs), "declared": sortedCanon(b.Content.declared), "case": wit(steps)})
			}
		}
		rn.check(name, stepCtx{Family: "build", Situation: sit, Typ: b.Typ, Layout: b.Variant, FaultFree: true}, sr, b.Content.declared, nil, false, func() any { return wit(steps) })
	}
	c.Eval("build|"+kit.JSON(b), len(b.Content.Objs) >= 2)
	if c.WantSample() && len(b.Content.Objs) >= 2 && i%11 == 0 {
		c.Sample(wit(steps))
	}
}

// ---------------------------------------------------------------- main

func main() {
	c := kit.New("C15", "exploration")
	c.Rule = "five generated families run through the production revision reconciler (real parser, per-type linter, ImageBackend, FsPackageCache, ImageConfigStore; recording establisher). pkg: a package.yaml stream of 0-6 objects of every kind the object scheme decodes (CRD v1/v1beta1, Mutating/ValidatingWebhookConfiguration, XRD, Composition, CompositionRevision, ValidatingAdmissionPolicy) plus an undecodable ConfigMap, 0/1/2 meta objects of right/wrong kind and API version, Crossplane constraints met/unmet/malformed with ignoreCrossplaneConstraints unset/false/true, placed into an image as annotated base layer (plain, with decoy package.yaml in another layer, with extra annotated layer), flattened filesystem (plain, overridden lower layer, non-base annotation), several base-annotated layers, no package.yaml, empty image; reconciled cold, warm, then after the cache entry is truncated / bit-flipped / replaced by garbage / emptied / removed. fault: valid packages of 2-6 padded objects with the cache filesystem failing at Create, at byte N of the compressed entry or at Close (data kept or cut), or the registry stream failing at byte N of package.yaml; one armed reconcile (two when sticky), then fault-free reconciles. share: two revisions of one package with different images reconciled concurrently by one reconciler over one cache (optionally with a store fault), then again concurrently, then sequentially. sig: signature gate on; the real signature reconciler with a scripted validator and ImageConfigs (none / not matching / cosign / verification without cosign) interleaved with revision reconciles, or the Verified condition set by hand. build: a generated package directory built by the real xpkg.Builder (optionally on a runtime base image, with examples), fed raw / after AnnotateLayers / after a tarball round trip through the same path. Oracles: O1 every Establish call is handed exactly the multiset of objects written into the stream (GVK+name+canonical JSON via the public Go types), and no entry left by a failed Store is opened for reading; O2 a package invalid per golden/allowed_kinds.json, meta count/kind, constraints (unless ignored; malformed+ignored is left open) or verification never reaches the establisher or the runtime pre-hook; O3 built image parses back to the directory's objects. Revision names have the form the package manager generates (DNS label, no dots); packagePullPolicy Never is not generated. distinct = the generated case; non-trivial = at least 2 objects and a non-cold cache state or a linter-relevant defect (pkg), a fault that fired (fault), two revisions (share), gate on (sig), at least 2 objects (build)."
	c.Rule += " sig: a third of the signature reconciles run with one failing API call (conflict, 500, timeout, applied-but-504, kind not served, 503, 404)."
	c.Rule += " " + "Sources without a registry host: the image reference handed to the signature validator must be the one the revision controller installs."
	c.Rule += " " + "A quarter of the package cases meet a pre-release build of Crossplane (own constraint truth table)."
	c.Rule += " " + "Images whose annotated base layer blob is served with bytes that do not hash to the digest the manifest names (nothing may be established)."
	c.Rule += " " + "validator: the real CosignValidator (built through the verif-tagged constructor, base options without the Sigstore TUF root) as one long-lived object shared by 2-4 concurrent workers, each verifying 2-3 images under 1-3 keyless (1-3 identities) or static-key authorities against a loopback registry that holds no signature: no call may succeed, and the race detector watches the validator's shared state."
	c.Assumptions = []string{
		"sim implements the apiserver rules of DESIGN.md 2.2",
		"the running Crossplane version is " + runningVersion + ", injected into the production Versioner (normally set with -ldflags); constraint truth table written by hand for plain comparison, ~, ^ and x-range forms",
		"golden/allowed_kinds.json is transcribed from contributing/specifications/xpkg.md; AdmissionWebhookConfiguration is read as ValidatingWebhookConfiguration",
		"establisher, runtime hooks and dependency manager are recorders (C16 covers establishing)",
	}
	c.Floor = 150
	g, err := loadGolden()
	if err != nil {
		c.Inconclusive("golden file: " + err.Error())
		c.Finish()
	}
	rn := &run{c: c, g: g}
	type job struct {
		fam string
		i   int
	}
	fams := []struct {
		name string
		n    int
		f    func(int, string)
	}{
		{"pkg", c.N(900, 9000), rn.runPkg},
		{"fault", c.N(500, 5000), rn.runFault},
		{"share", c.N(120, 1200), rn.runShare},
		{"sig", c.N(200, 2000), rn.runSig},
		{"build", c.N(150, 1500), rn.runBuild},
		{"validator", c.N(16, 100), rn.runValidator},
	}
	byName := map[string]func(int, string){}
	var jobs []job
	for _, f := range fams {
		byName[f.name] = f.f
		for i := 0; i < f.n; i++ {
			jobs = append(jobs, job{f.name, i})
		}
	}
	// interleave families so that workers stay evenly loaded
	sort.SliceStable(jobs, func(a, b int) bool { return jobs[a].i < jobs[b].i })
	ch := make(chan job)
	var wg sync.WaitGroup
	for wk := 0; wk < 12; wk++ {
		wg.Add(1)
		go func() {
			defer wg.Done()
			for j := range ch {
				name := fmt.Sprintf("%s/%d", j.fam, j.i)
				if !c.Want(name) {
					continue
				}
				if err := kit.Try(func() { byName[j.fam](j.i, name) }); err != nil {
					c.Violate("harness-or-code-panic:"+j.fam, name, err.Error(), nil)
				}
			}
		}()
	}
	for _, j := range jobs {
		ch <- j
	}
	close(ch)
	wg.Wait()
	c.Extra("golden_allowed_kinds", g.Packages)
	if c.Only == "" {
		for _, need := range []string{"established_sets_compared", "established_from_cache", "established_from_registry", "rejected_as_required", "concurrent_reconcile_pairs", "signature_reconciles", "builds_ok", "cache_state_warm", "cache_state_damaged"} {
			if c.Counter(need) == 0 {
				c.Inconclusive("nothing observed for " + need)
			}
		}
		fs, src := int64(0), int64(0)
		for _, p := range []string{"first", "second", "header", "early", "mid", "late", "last"} {
			fs += c.Counter("fsfault_fired_write_" + p)
			src += c.Counter("srcfault_fired_" + p)
		}
		if fs == 0 || src == 0 || c.Counter("fsfault_fired_create_n/a") == 0 || c.Counter("fsfault_fired_close_n/a") == 0 {
			c.Inconclusive("a class of injected faults never fired")
		}
	}
	raceReports(c)
	c.Finish()
}

func ggcrEmpty() ggcr.Image { return emptyImage }
