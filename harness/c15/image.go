//go:build verif

package main

import (
	"archive/tar"
	"bytes"
	"context"
	"errors"
	"fmt"
	"io"
	"math/rand/v2"
	"sync"

	"github.com/google/go-containerregistry/pkg/name"
	ggcr "github.com/google/go-containerregistry/pkg/v1"
	"github.com/google/go-containerregistry/pkg/v1/empty"
	"github.com/google/go-containerregistry/pkg/v1/mutate"
	"github.com/google/go-containerregistry/pkg/v1/tarball"

	"github.com/crossplane/crossplane/internal/xpkg"
)

var emptyImage ggcr.Image = empty.Image

const (
	annKey     = "io.crossplane.xpkg" // from the specification, not from the code
	annBase    = "base"
	streamFile = "package.yaml"
)

type tarFile struct {
	Name string
	Data []byte
}

// tarOf builds an uncompressed tar and returns the offset of the data of the stream file.
func tarOf(files []tarFile) (b []byte, streamOff int64) {
	var buf bytes.Buffer
	tw := tar.NewWriter(&buf)
	streamOff = -1
	for _, f := range files {
		if err := tw.WriteHeader(&tar.Header{Name: f.Name, Mode: 0o644, Size: int64(len(f.Data)), Typeflag: tar.TypeReg}); err != nil {
			panic(err)
		}
		if f.Name == streamFile && streamOff < 0 {
			streamOff = int64(buf.Len())
		}
		if _, err := tw.Write(f.Data); err != nil {
			panic(err)
		}
	}
	if err := tw.Close(); err != nil {
		panic(err)
	}
	return buf.Bytes(), streamOff
}

// plainLayer hides the optional Descriptor() method of in-memory tarball layers: an image
// pulled from a registry derives its layer descriptors from the raw manifest, and
// validate.Image insists that both views agree.
type plainLayer struct{ ggcr.Layer }

func layerOf(tarBytes []byte) ggcr.Layer {
	l, err := tarball.LayerFromOpener(func() (io.ReadCloser, error) {
		return io.NopCloser(bytes.NewReader(tarBytes)), nil
	})
	if err != nil {
		panic(err)
	}
	return plainLayer{l}
}

// asPulled rebuilds an in-memory image the way it looks after a registry round trip: same
// layers, layer annotations and config file; descriptors derived from the manifest only.
func asPulled(img ggcr.Image) (ggcr.Image, error) {
	m, err := img.Manifest()
	if err != nil {
		return nil, err
	}
	layers, err := img.Layers()
	if err != nil {
		return nil, err
	}
	cf, err := img.ConfigFile()
	if err != nil {
		return nil, err
	}
	out := emptyImage
	for i, l := range layers {
		var ann map[string]string
		if i < len(m.Layers) && len(m.Layers[i].Annotations) > 0 {
			ann = m.Layers[i].Annotations
		}
		if out, err = mutate.Append(out, mutate.Addendum{Layer: plainLayer{l}, Annotations: ann}); err != nil {
			return nil, err
		}
	}
	return mutate.ConfigFile(out, cf)
}

// flakyLayer fails the failCall-th Uncompressed() read at byte failAt of the uncompressed tar
// (a registry connection that drops while the layer is streamed).
type flakyLayer struct {
	ggcr.Layer
	mu       sync.Mutex
	calls    int
	failCall int
	failAt   int64
	fired    int
}

var errConnReset = errors.New("read tcp 10.0.0.1:443: connection reset by peer (scripted)")

func (l *flakyLayer) Uncompressed() (io.ReadCloser, error) {
	l.mu.Lock()
	l.calls++
	n := l.calls
	fc, at := l.failCall, l.failAt
	l.mu.Unlock()
	rc, err := l.Layer.Uncompressed()
	if err != nil || fc == 0 || n != fc {
		return rc, err
	}
	return &cutReader{rc: rc, left: at, oddCut: at%2 == 1, onFire: func() { l.mu.Lock(); l.fired++; l.mu.Unlock() }}, nil
}

func (l *flakyLayer) arm(call int, at int64) {
	l.mu.Lock()
	defer l.mu.Unlock()
	l.calls, l.failCall, l.failAt = 0, call, at
}

func (l *flakyLayer) reset() (calls, fired int) {
	l.mu.Lock()
	defer l.mu.Unlock()
	calls, fired = l.calls, l.fired
	l.calls, l.failCall, l.fired = 0, 0, 0
	return
}

type cutReader struct {
	rc     io.ReadCloser
	left   int64
	onFire func()
	fired  bool
	oddCut bool
}

func (c *cutReader) Read(p []byte) (int, error) {
	if c.left <= 0 {
		if !c.fired {
			c.fired = true
			c.onFire()
		}
		return 0, errConnReset
	}
	if int64(len(p)) > c.left {
		p = p[:c.left]
	}
	n, err := c.rc.Read(p)
	c.left -= int64(n)
	return n, err
}

// Close: a connection that was reset while being read reports the reset again when closed (for
// cut positions at odd offsets; the others close quietly).
func (c *cutReader) Close() error {
	err := c.rc.Close()
	if c.fired && c.left%2 == 0 && c.oddCut {
		return errConnReset
	}
	return err
}

// layout names the way the stream is placed into an image.
//
//	annotated          one layer annotated io.crossplane.xpkg=base holds package.yaml
//	annotated-decoy    as above, plus a later plain layer with ANOTHER package.yaml (must be ignored)
//	annotated-extra    as above, plus a layer annotated io.crossplane.xpkg=upbound (examples)
//	flat               no annotation; package.yaml in the image filesystem
//	flat-override      no annotation; a lower layer holds another package.yaml that an upper layer replaces
//	flat-otheranno     the layer with package.yaml is annotated io.crossplane.xpkg=upbound (not base)
//	multi-same         two base-annotated layers with the same stream         (invalid)
//	multi-diff         two base-annotated layers, different streams           (invalid)
//	nostream-annotated base-annotated layer without package.yaml, a plain layer has one (invalid)
//	nostream-flat      no package.yaml anywhere                                (invalid)
//	empty              image without layers                                    (invalid)
var validLayouts = []string{"annotated", "annotated", "annotated-decoy", "annotated-extra", "flat", "flat", "flat-override", "flat-otheranno"}
//	annotated-substituted  the manifest names the base layer of the package; the registry serves
//	                   other bytes for that blob (another package.yaml)        (invalid)
var invalidLayouts = []string{"multi-same", "multi-diff", "multi-diff", "nostream-annotated", "nostream-flat", "empty", "annotated-substituted"}

func layoutClass(l string) string {
	switch l {
	case "annotated", "annotated-decoy", "annotated-extra":
		return "annotated"
	case "flat", "flat-override", "flat-otheranno":
		return "flat"
	case "multi-same", "multi-diff":
		return "multi-annotated"
	case "built-raw", "built-annotated", "built-tarball":
		return l
	case "annotated-substituted":
		return "substituted-layer"
	}
	return "no-stream-file"
}

func layoutReason(l string) string {
	switch layoutClass(l) {
	case "multi-annotated":
		return "multi-annotated"
	case "no-stream-file":
		return "no-stream-file"
	case "substituted-layer":
		return "layer-bytes-do-not-match-the-manifest-digest"
	}
	return ""
}

// substitutedLayer is a blob whose descriptor (digest, diff id, size - what the image manifest
// says, and what a signature covers) belongs to one layer while the bytes the registry serves
// for it are another's: a broken mirror, a corrupted blob store, somebody in the path.
type substitutedLayer struct {
	ggcr.Layer // the layer the manifest describes
	served     ggcr.Layer
}

func (l substitutedLayer) Compressed() (io.ReadCloser, error)   { return l.served.Compressed() }
func (l substitutedLayer) Uncompressed() (io.ReadCloser, error) { return l.served.Uncompressed() }

type builtImage struct {
	img       ggcr.Image
	layout    string
	flaky     *flakyLayer // the layer the production code reads the stream from
	streamOff int64       // offset of the stream's data in that layer's tar
	streamLen int64
}

func junkLayer(r *rand.Rand) ggcr.Layer {
	b, _ := tarOf([]tarFile{{Name: "usr/local/bin/runtime", Data: []byte(padOf(r, 200+r.IntN(1500)))}, {Name: "etc/notes.txt", Data: []byte("not a package\n")}})
	return layerOf(b)
}

func add(img ggcr.Image, l ggcr.Layer, ann map[string]string) ggcr.Image {
	out, err := mutate.Append(img, mutate.Addendum{Layer: l, Annotations: ann})
	if err != nil {
		panic(err)
	}
	return out
}

// buildImage places stream (and, for decoy layouts, decoy) into an image of the given layout.
func buildImage(r *rand.Rand, layout string, stream, decoy []byte) *builtImage {
	bi := &builtImage{layout: layout, streamLen: int64(len(stream))}
	base := map[string]string{annKey: annBase}
	other := map[string]string{annKey: "upbound"}
	withExtras := func(data []byte) []tarFile {
		fs := []tarFile{}
		if r.IntN(2) == 0 {
			fs = append(fs, tarFile{Name: "README.md", Data: []byte("ignored content " + padOf(r, r.IntN(600)))})
		}
		fs = append(fs, tarFile{Name: streamFile, Data: data})
		if r.IntN(2) == 0 {
			fs = append(fs, tarFile{Name: "zz/trailer.yaml", Data: []byte("kind: Ignored\n")})
		}
		return fs
	}
	streamLayer := func() ggcr.Layer {
		b, off := tarOf(withExtras(stream))
		bi.streamOff = off
		bi.flaky = &flakyLayer{Layer: layerOf(b)}
		return bi.flaky
	}
	decoyLayer := func() ggcr.Layer {
		b, _ := tarOf([]tarFile{{Name: streamFile, Data: decoy}})
		return layerOf(b)
	}
	img := empty.Image
	if layout != "empty" && r.IntN(3) == 0 {
		img = add(img, junkLayer(r), nil)
	}
	switch layout {
	case "annotated":
		img = add(img, streamLayer(), base)
		if r.IntN(3) == 0 {
			img = add(img, junkLayer(r), nil)
		}
	case "annotated-decoy":
		if r.IntN(2) == 0 {
			img = add(img, streamLayer(), base)
			img = add(img, decoyLayer(), nil)
		} else {
			img = add(img, decoyLayer(), nil)
			img = add(img, streamLayer(), base)
		}
	case "annotated-extra":
		img = add(img, streamLayer(), base)
		b, _ := tarOf([]tarFile{{Name: ".up/examples.yaml", Data: []byte("apiVersion: g0.example.org/v1alpha1\nkind: WidgetA\nmetadata:\n  name: example\n")}})
		img = add(img, layerOf(b), other)
	case "flat":
		img = add(img, streamLayer(), nil)
		if r.IntN(3) == 0 {
			img = add(img, junkLayer(r), nil)
		}
	case "flat-override":
		img = add(img, decoyLayer(), nil)
		img = add(img, streamLayer(), nil)
	case "flat-otheranno":
		img = add(img, streamLayer(), other)
	case "multi-same":
		img = add(img, streamLayer(), base)
		b, _ := tarOf([]tarFile{{Name: streamFile, Data: stream}, {Name: "other", Data: []byte("x")}})
		img = add(img, layerOf(b), base)
	case "multi-diff":
		if r.IntN(2) == 0 {
			img = add(img, streamLayer(), base)
			img = add(img, decoyLayer(), base)
		} else {
			img = add(img, decoyLayer(), base)
			img = add(img, streamLayer(), base)
		}
	case "annotated-substituted":
		genuine, _ := tarOf(withExtras(stream))
		other, _ := tarOf([]tarFile{{Name: streamFile, Data: decoy}})
		img = add(img, substitutedLayer{Layer: layerOf(genuine), served: layerOf(other)}, base)
	case "nostream-annotated":
		b, _ := tarOf([]tarFile{{Name: "crossplane.yaml", Data: stream}})
		img = add(img, layerOf(b), base)
		img = add(img, streamLayer(), nil)
	case "nostream-flat":
		b, _ := tarOf([]tarFile{{Name: "crossplane.yaml", Data: stream}, {Name: "sub/package.yaml", Data: stream}})
		img = add(img, layerOf(b), nil)
	case "empty":
	default:
		panic("unknown layout " + layout)
	}
	bi.img = img
	return bi
}

// fakeFetcher is the registry: image reference -> in-memory image.
type fakeFetcher struct {
	mu      sync.Mutex
	images  map[string]ggcr.Image
	fetches map[string]int
}

var _ xpkg.Fetcher = &fakeFetcher{}

func newFetcher() *fakeFetcher {
	return &fakeFetcher{images: map[string]ggcr.Image{}, fetches: map[string]int{}}
}

func (f *fakeFetcher) put(ref string, img ggcr.Image) {
	f.mu.Lock()
	defer f.mu.Unlock()
	f.images[ref] = img
}

func (f *fakeFetcher) count(ref string) int {
	f.mu.Lock()
	defer f.mu.Unlock()
	return f.fetches[ref]
}

func (f *fakeFetcher) Fetch(_ context.Context, ref name.Reference, _ ...string) (ggcr.Image, error) {
	f.mu.Lock()
	defer f.mu.Unlock()
	f.fetches[ref.String()]++
	img, ok := f.images[ref.String()]
	if !ok {
		return nil, fmt.Errorf("MANIFEST_UNKNOWN: %s", ref.String())
	}
	return img, nil
}

func (f *fakeFetcher) Head(context.Context, name.Reference, ...string) (*ggcr.Descriptor, error) {
	return nil, errors.New("c15: Head is not scripted")
}

func (f *fakeFetcher) Tags(context.Context, name.Reference, ...string) ([]string, error) {
	return nil, errors.New("c15: Tags is not scripted")
}
