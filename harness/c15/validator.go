//go:build verif

// The real cosign validator as a long-lived, shared component (C15).
//
// Production builds ONE CosignValidator per package-revision controller, and the controller calls
// Validate from several reconcile workers at once, for ImageConfigs with different authorities. The
// validator is built through the verif-tagged constructor signature.NewCosignValidatorWithBase (the
// production constructor fetches the Sigstore TUF root over the network). Registry and Kubernetes
// API are one loopback server that answers 404 to everything: no image has a signature.
//
// Oracles: (a) an image without any signature never verifies, whatever was verified (or attempted)
// before on the same validator and whatever runs concurrently; (b) the race detector: calls for
// different authorities share no mutable state (a report whose stack is in crossplane code is a
// violation, see /verif/check).
package main

import (
	"context"
	"crypto/ecdsa"
	"crypto/elliptic"
	crand "crypto/rand"
	"crypto/x509"
	"encoding/pem"
	"fmt"
	"net/http"
	"net/http/httptest"
	"strings"
	"sync"

	"github.com/google/go-containerregistry/pkg/name"
	"github.com/sigstore/cosign/v2/pkg/cosign"
	corev1 "k8s.io/api/core/v1"
	"k8s.io/client-go/kubernetes"
	"k8s.io/client-go/rest"
	"sigs.k8s.io/controller-runtime/pkg/client"

	xpv1 "github.com/crossplane/crossplane-runtime/apis/common/v1"

	"github.com/crossplane/crossplane/apis/pkg/v1beta1"
	"github.com/crossplane/crossplane/internal/controller/pkg/signature"
	"github.com/crossplane/crossplane/verifh/kit"
)

type loopback struct {
	host string // host:port
	kube kubernetes.Interface
	pub  []byte // a PEM public key nobody signed anything with
	pool *x509.CertPool
}

var (
	loopOnce sync.Once
	loop     *loopback
	loopErr  error
)

func getLoopback() (*loopback, error) {
	loopOnce.Do(func() {
		srv := httptest.NewServer(http.HandlerFunc(func(w http.ResponseWriter, r *http.Request) {
			if r.URL.Path == "/v2/" {
				w.WriteHeader(http.StatusOK)
				return
			}
			w.Header().Set("Content-Type", "application/json")
			w.WriteHeader(http.StatusNotFound)
			_, _ = w.Write([]byte(`{"kind":"Status","apiVersion":"v1","status":"Failure","reason":"NotFound","code":404,"errors":[{"code":"MANIFEST_UNKNOWN","message":"not found"}]}`))
		}))
		k, err := kubernetes.NewForConfig(&rest.Config{Host: srv.URL})
		if err != nil {
			loopErr = err
			return
		}
		key, err := ecdsa.GenerateKey(elliptic.P256(), crand.Reader)
		if err != nil {
			loopErr = err
			return
		}
		der, err := x509.MarshalPKIXPublicKey(&key.PublicKey)
		if err != nil {
			loopErr = err
			return
		}
		loop = &loopback{host: strings.TrimPrefix(srv.URL, "http://"), kube: k, pub: pem.EncodeToMemory(&pem.Block{Type: "PUBLIC KEY", Bytes: der}), pool: x509.NewCertPool()}
	})
	return loop, loopErr
}

// secretReader serves every Secret with the one public key.
type secretReader struct{ pub []byte }

func (s secretReader) Get(_ context.Context, _ client.ObjectKey, obj client.Object, _ ...client.GetOption) error {
	if sec, ok := obj.(*corev1.Secret); ok {
		sec.Data = map[string][]byte{"cosign.pub": s.pub}
	}
	return nil
}
func (s secretReader) List(context.Context, client.ObjectList, ...client.ListOption) error { return nil }

type valCall struct {
	Authorities []string `json:"authorities"` // keyless:<n identities> | key
}

func genVerification(r interface{ IntN(int) int }, tag string) (*v1beta1.ImageVerification, valCall) {
	var vc valCall
	cfg := &v1beta1.ImageVerification{Provider: v1beta1.ImageVerificationProviderCosign, Cosign: &v1beta1.CosignVerificationConfig{}}
	na := 1 + r.IntN(3)
	for a := 0; a < na; a++ {
		au := v1beta1.CosignAuthority{Name: fmt.Sprintf("%s-a%d", tag, a)}
		if r.IntN(3) == 0 {
			au.Key = &v1beta1.KeyRef{SecretRef: v1beta1.LocalSecretKeySelector{LocalSecretReference: xpv1.LocalSecretReference{Name: "cosign-key"}, Key: "cosign.pub"}, HashAlgorithm: "sha256"}
			vc.Authorities = append(vc.Authorities, "key")
		} else {
			kl := &v1beta1.KeylessRef{}
			ni := 1 + r.IntN(3)
			for j := 0; j < ni; j++ {
				kl.Identities = append(kl.Identities, v1beta1.Identity{Issuer: "https://issuer.example.org", Subject: fmt.Sprintf("%s-team-%d@example.org", tag, j)})
			}
			if r.IntN(2) == 0 {
				t := true
				kl.InsecureIgnoreSCT = &t
			}
			au.Keyless = kl
			vc.Authorities = append(vc.Authorities, fmt.Sprintf("keyless:%d", ni))
		}
		cfg.Cosign.Authorities = append(cfg.Cosign.Authorities, au)
	}
	return cfg, vc
}

func (rn *run) runValidator(i int, name_ string) {
	c := rn.c
	lb, err := getLoopback()
	if err != nil {
		c.Inconclusive("loopback server: " + err.Error())
		return
	}
	r := c.Rng("validator", i)
	v := signature.NewCosignValidatorWithBase(secretReader{pub: lb.pub}, lb.kube, "crossplane-system", "crossplane", cosign.CheckOpts{RootCerts: lb.pool, IgnoreTlog: r.IntN(2) == 0})
	workers := 2 + r.IntN(3)
	per := 2 + r.IntN(2)
	type plan struct {
		cfg *v1beta1.ImageVerification
		vc  valCall
		ref name.Reference
	}
	plans := make([][]plan, workers)
	var all []valCall
	for w := 0; w < workers; w++ {
		for k := 0; k < per; k++ {
			cfg, vc := genVerification(r, fmt.Sprintf("w%dk%d", w, k))
			ref, err := name.ParseReference(fmt.Sprintf("%s/org/pkg-%d@sha256:%s", lb.host, r.IntN(3), hex(r, 64)))
			if err != nil {
				panic(err)
			}
			plans[w] = append(plans[w], plan{cfg, vc, ref})
			all = append(all, vc)
		}
	}
	var wg sync.WaitGroup
	var mu sync.Mutex
	verified := []string{}
	calls := 0
	for w := 0; w < workers; w++ {
		wg.Add(1)
		go func(w int) {
			defer wg.Done()
			for _, p := range plans[w] {
				var verr error
				if perr := kit.Try(func() { verr = v.Validate(context.Background(), p.ref, p.cfg) }); perr != nil {
					verr = perr
				}
				mu.Lock()
				calls++
				if verr == nil {
					verified = append(verified, fmt.Sprintf("%s with %v", p.ref, p.vc.Authorities))
				}
				mu.Unlock()
			}
		}(w)
	}
	wg.Wait()
	c.Count("validator_calls", int64(calls))
	c.Count("validator_concurrent_workers", int64(workers))
	if len(verified) > 0 {
		c.Violate("unsigned-image-verified", name_, fmt.Sprintf("the registry holds no signature for any image, yet Validate returned success for %v", verified), map[string]any{"calls": all})
	}
	c.Eval(kit.JSON(map[string]any{"workers": workers, "calls": all}), workers >= 2 && calls >= 4)
}
