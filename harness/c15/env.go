//go:build verif

package main

import (
	"context"
	"errors"
	"fmt"
	"reflect"
	"sync"
	"time"
	"unsafe"

	"github.com/Masterminds/semver"
	"github.com/google/go-containerregistry/pkg/name"
	"github.com/spf13/afero"
	"k8s.io/apimachinery/pkg/api/meta"
	metav1 "k8s.io/apimachinery/pkg/apis/meta/v1"
	"k8s.io/apimachinery/pkg/runtime"
	"k8s.io/apimachinery/pkg/runtime/schema"
	"k8s.io/apimachinery/pkg/types"
	"sigs.k8s.io/controller-runtime/pkg/client"
	"sigs.k8s.io/controller-runtime/pkg/reconcile"

	xpv1 "github.com/crossplane/crossplane-runtime/apis/common/v1"
	"github.com/crossplane/crossplane-runtime/pkg/feature"
	"github.com/crossplane/crossplane-runtime/pkg/parser"

	pkgmetav1 "github.com/crossplane/crossplane/apis/pkg/meta/v1"
	v1 "github.com/crossplane/crossplane/apis/pkg/v1"
	"github.com/crossplane/crossplane/apis/pkg/v1beta1"
	"github.com/crossplane/crossplane/internal/controller/pkg/revision"
	"github.com/crossplane/crossplane/internal/controller/pkg/signature"
	"github.com/crossplane/crossplane/internal/features"
	"github.com/crossplane/crossplane/internal/version"
	"github.com/crossplane/crossplane/internal/xpkg"
	"github.com/crossplane/crossplane/verifh/sim"
	"github.com/crossplane/crossplane/verifh/xrk"
)

const (
	xpNamespace = "crossplane-system"
	xpSA        = "crossplane"
	cacheDir    = "/cache"
	pkgGroup    = "pkg.crossplane.io"
	parentName  = "pk"
)

// pkgType carries what differs between the three production Setup* functions.
type pkgType struct {
	Name       string
	RevKind    string
	nr         func() v1.PackageRevision
	linter     func() parser.Linter
	hasRuntime bool
}

var pkgTypes = map[string]*pkgType{
	"provider":      {"provider", "ProviderRevision", func() v1.PackageRevision { return &v1.ProviderRevision{} }, xpkg.NewProviderLinter, true},
	"configuration": {"configuration", "ConfigurationRevision", func() v1.PackageRevision { return &v1.ConfigurationRevision{} }, xpkg.NewConfigurationLinter, false},
	"function":      {"function", "FunctionRevision", func() v1.PackageRevision { return &v1.FunctionRevision{} }, xpkg.NewFunctionLinter, true},
}

var (
	schemesOnce sync.Once
	metaScheme  *runtime.Scheme
	objScheme   *runtime.Scheme
)

func schemes() (*runtime.Scheme, *runtime.Scheme) {
	schemesOnce.Do(func() {
		var err error
		if metaScheme, err = xpkg.BuildMetaScheme(); err != nil {
			panic(err)
		}
		if objScheme, err = xpkg.BuildObjectScheme(); err != nil {
			panic(err)
		}
	})
	return metaScheme, objScheme
}

// realVersioner is the production version.Versioner with the build-time version variable
// replaced by v (it is normally injected with -ldflags -X).
func realVersioner(v string) (version.Operations, bool) {
	vr := version.New()
	f := reflect.ValueOf(vr).Elem().FieldByName("version")
	if f.IsValid() && f.Kind() == reflect.String && f.CanAddr() {
		reflect.NewAt(f.Type(), unsafe.Pointer(f.UnsafeAddr())).Elem().SetString(v)
		if vr.GetVersionString() == v {
			return vr, true
		}
	}
	return plainVersioner{v}, false
}

// plainVersioner is the fallback when the production Versioner cannot be primed.
type plainVersioner struct{ v string }

func (p plainVersioner) GetVersionString() string            { return p.v }
func (p plainVersioner) GetSemVer() (*semver.Version, error) { return semver.NewVersion(p.v) }
func (p plainVersioner) InConstraints(c string) (bool, error) {
	ver, err := p.GetSemVer()
	if err != nil {
		return false, err
	}
	cs, err := semver.NewConstraint(c)
	if err != nil {
		return false, err
	}
	return cs.Check(ver), nil
}

// ---- recording fakes ----

type estCall struct {
	Parent  string
	Control bool
	Objs    []canon
	Err     string
}

// recEstablisher records exactly what the reconciler asks to be established.
type recEstablisher struct {
	mu       sync.Mutex
	calls    []estCall
	released int
}

var _ revision.Establisher = &recEstablisher{}

func (e *recEstablisher) Establish(_ context.Context, objs []runtime.Object, parent v1.PackageRevision, control bool) ([]xpv1.TypedReference, error) {
	call := estCall{Parent: parent.GetName(), Control: control}
	refs := make([]xpv1.TypedReference, 0, len(objs))
	for _, o := range objs {
		cn, err := canonTyped(o)
		if err != nil {
			call.Err = err.Error()
			continue
		}
		call.Objs = append(call.Objs, cn)
		gvk := o.GetObjectKind().GroupVersionKind()
		nm := ""
		if acc, err := meta.Accessor(o); err == nil {
			nm = acc.GetName()
		}
		refs = append(refs, xpv1.TypedReference{APIVersion: gvk.GroupVersion().String(), Kind: gvk.Kind, Name: nm})
	}
	e.mu.Lock()
	e.calls = append(e.calls, call)
	e.mu.Unlock()
	return refs, nil
}

func (e *recEstablisher) ReleaseObjects(context.Context, v1.PackageRevision) error {
	e.mu.Lock()
	e.released++
	e.mu.Unlock()
	return nil
}

// take removes and returns the calls made for parent.
func (e *recEstablisher) take(parent string) []estCall {
	e.mu.Lock()
	defer e.mu.Unlock()
	var out, rest []estCall
	for _, c := range e.calls {
		if c.Parent == parent {
			out = append(out, c)
		} else {
			rest = append(rest, c)
		}
	}
	e.calls = rest
	return out
}

type recHooks struct {
	mu   sync.Mutex
	pre  map[string]int
	post map[string]int
}

var _ revision.RuntimeHooks = &recHooks{}

func (h *recHooks) Pre(_ context.Context, _ runtime.Object, pr v1.PackageRevisionWithRuntime, _ revision.ManifestBuilder) error {
	h.mu.Lock()
	h.pre[pr.GetName()]++
	h.mu.Unlock()
	return nil
}

func (h *recHooks) Post(_ context.Context, _ runtime.Object, pr v1.PackageRevisionWithRuntime, _ revision.ManifestBuilder) error {
	h.mu.Lock()
	h.post[pr.GetName()]++
	h.mu.Unlock()
	return nil
}

func (h *recHooks) Deactivate(context.Context, v1.PackageRevisionWithRuntime, revision.ManifestBuilder) error {
	return nil
}

func (h *recHooks) takePre(n string) int {
	h.mu.Lock()
	defer h.mu.Unlock()
	k := h.pre[n]
	h.pre[n] = 0
	return k
}

// satisfiedDeps reports every dependency as satisfied.
type satisfiedDeps struct {
	mu       sync.Mutex
	resolves int
}

var _ revision.DependencyManager = &satisfiedDeps{}

func (d *satisfiedDeps) Resolve(context.Context, pkgmetav1.Pkg, v1.PackageRevision) (int, int, int, error) {
	d.mu.Lock()
	d.resolves++
	d.mu.Unlock()
	return 0, 0, 0, nil
}
func (d *satisfiedDeps) RemoveSelf(context.Context, v1.PackageRevision) error { return nil }

// scriptedValidator is the signature.Validator of the sig cases.
type scriptedValidator struct {
	mu    sync.Mutex
	fail  bool
	calls int
	refs  []string // the image references whose signatures were asked to be verified
}

var _ signature.Validator = &scriptedValidator{}

func (s *scriptedValidator) Validate(_ context.Context, ref name.Reference, _ *v1beta1.ImageVerification, _ ...string) error {
	s.mu.Lock()
	defer s.mu.Unlock()
	s.calls++
	s.refs = append(s.refs, ref.Name()) // fully qualified (String() keeps a digest reference as written)
	if s.fail {
		return errors.New("no matching signatures (scripted)")
	}
	return nil
}

// lockedClient serialises calls on one sim client: a production reconciler is called from
// several workers, the sim client's call counter is not goroutine-safe.
type lockedClient struct {
	mu sync.Mutex
	c  *sim.Client
}

var _ client.Client = &lockedClient{}

func (l *lockedClient) Get(ctx context.Context, k client.ObjectKey, o client.Object, opts ...client.GetOption) error {
	l.mu.Lock()
	defer l.mu.Unlock()
	return l.c.Get(ctx, k, o, opts...)
}
func (l *lockedClient) List(ctx context.Context, o client.ObjectList, opts ...client.ListOption) error {
	l.mu.Lock()
	defer l.mu.Unlock()
	return l.c.List(ctx, o, opts...)
}
func (l *lockedClient) Create(ctx context.Context, o client.Object, opts ...client.CreateOption) error {
	l.mu.Lock()
	defer l.mu.Unlock()
	return l.c.Create(ctx, o, opts...)
}
func (l *lockedClient) Delete(ctx context.Context, o client.Object, opts ...client.DeleteOption) error {
	l.mu.Lock()
	defer l.mu.Unlock()
	return l.c.Delete(ctx, o, opts...)
}
func (l *lockedClient) Update(ctx context.Context, o client.Object, opts ...client.UpdateOption) error {
	l.mu.Lock()
	defer l.mu.Unlock()
	return l.c.Update(ctx, o, opts...)
}
func (l *lockedClient) Patch(ctx context.Context, o client.Object, p client.Patch, opts ...client.PatchOption) error {
	l.mu.Lock()
	defer l.mu.Unlock()
	return l.c.Patch(ctx, o, p, opts...)
}
func (l *lockedClient) DeleteAllOf(ctx context.Context, o client.Object, opts ...client.DeleteAllOfOption) error {
	l.mu.Lock()
	defer l.mu.Unlock()
	return l.c.DeleteAllOf(ctx, o, opts...)
}
func (l *lockedClient) Status() client.SubResourceWriter { return l.SubResource("status") }
func (l *lockedClient) SubResource(sub string) client.SubResourceClient {
	return &lockedSub{l: l, sub: sub}
}
func (l *lockedClient) Scheme() *runtime.Scheme     { return l.c.Scheme() }
func (l *lockedClient) RESTMapper() meta.RESTMapper { return l.c.RESTMapper() }
func (l *lockedClient) GroupVersionKindFor(o runtime.Object) (schema.GroupVersionKind, error) {
	return l.c.GroupVersionKindFor(o)
}
func (l *lockedClient) IsObjectNamespaced(o runtime.Object) (bool, error) {
	return l.c.IsObjectNamespaced(o)
}

type lockedSub struct {
	l   *lockedClient
	sub string
}

func (s *lockedSub) Get(ctx context.Context, o, sub client.Object, opts ...client.SubResourceGetOption) error {
	s.l.mu.Lock()
	defer s.l.mu.Unlock()
	return s.l.c.SubResource(s.sub).Get(ctx, o, sub, opts...)
}
func (s *lockedSub) Create(ctx context.Context, o, sub client.Object, opts ...client.SubResourceCreateOption) error {
	s.l.mu.Lock()
	defer s.l.mu.Unlock()
	return s.l.c.SubResource(s.sub).Create(ctx, o, sub, opts...)
}
func (s *lockedSub) Update(ctx context.Context, o client.Object, opts ...client.SubResourceUpdateOption) error {
	s.l.mu.Lock()
	defer s.l.mu.Unlock()
	return s.l.c.SubResource(s.sub).Update(ctx, o, opts...)
}
func (s *lockedSub) Patch(ctx context.Context, o client.Object, p client.Patch, opts ...client.SubResourcePatchOption) error {
	s.l.mu.Lock()
	defer s.l.mu.Unlock()
	return s.l.c.SubResource(s.sub).Patch(ctx, o, p, opts...)
}

// ---- the environment of one case ----

type env struct {
	typ    *pkgType
	w      *sim.World
	cl     *lockedClient
	user   *sim.Client
	mem    afero.Fs
	ffs    *faultFs
	cache  *xpkg.FsPackageCache
	fetch  *fakeFetcher
	est    *recEstablisher
	hooks  *recHooks
	deps   *satisfiedDeps
	events *xrk.Recorder
	rec    *revision.Reconciler
	sigRec *signature.Reconciler
	sigC   *sim.Client // the signature controller's API client (for fault injection)
	val    *scriptedValidator
	realV  bool
}

// newEnv wires the revision reconciler as Setup<Type>Revision does: real parser over the real
// meta/object schemes, the real per-type linter, the real ImageBackend over the fake registry,
// the real FsPackageCache over the fault-injecting filesystem, the real ImageConfigStore over
// the sim client; recording establisher, runtime hooks and dependency manager.
func newEnv(typ *pkgType, seed uint64, sigGate bool, running ...string) *env {
	e := &env{typ: typ}
	e.w = sim.NewWorld(xrk.Scheme(), seed)
	e.w.KeepBodies = false
	e.cl = &lockedClient{c: e.w.Client("revision")}
	e.user = e.w.Client("user")
	e.w.MustSeed("user", map[string]any{"apiVersion": "v1", "kind": "ServiceAccount", "metadata": map[string]any{"name": xpSA, "namespace": xpNamespace}})
	e.mem = afero.NewMemMapFs()
	_ = e.mem.MkdirAll(cacheDir, 0o755)
	e.ffs = newFaultFs(e.mem)
	e.cache = xpkg.NewFsPackageCache(cacheDir, e.ffs)
	e.fetch = newFetcher()
	e.est = &recEstablisher{}
	e.hooks = &recHooks{pre: map[string]int{}, post: map[string]int{}}
	e.deps = &satisfiedDeps{}
	e.events = xrk.NewRecorder()
	flags := &feature.Flags{}
	if sigGate {
		flags.Enable(features.EnableAlphaSignatureVerification)
	}
	ms, os := schemes()
	rv := runningVersion
	if len(running) > 0 && running[0] != "" {
		rv = running[0]
	}
	vr, real := realVersioner(rv)
	e.realV = real
	mgr := xrk.NewManager(e.w, e.cl)
	ro := []revision.ReconcilerOption{
		revision.WithCache(e.cache),
		revision.WithDependencyManager(e.deps),
		revision.WithEstablisher(e.est),
		revision.WithNewPackageRevisionFn(typ.nr),
		revision.WithParser(parser.New(ms, os)),
		revision.WithParserBackend(revision.NewImageBackend(e.fetch, revision.WithDefaultRegistry("xpkg.crossplane.io"))),
		revision.WithConfigStore(xpkg.NewImageConfigStore(e.cl, xpNamespace)),
		revision.WithLinter(typ.linter()),
		revision.WithRecorder(e.events),
		revision.WithNamespace(xpNamespace),
		revision.WithServiceAccount(xpSA),
		revision.WithFeatureFlags(flags),
		revision.WithVersioner(vr),
	}
	if typ.hasRuntime {
		ro = append(ro, revision.WithRuntimeHooks(e.hooks))
	}
	e.rec = revision.NewReconciler(mgr, ro...)
	if sigGate {
		e.val = &scriptedValidator{}
		e.sigC = e.w.Client("signature")
		sc := &lockedClient{c: e.sigC}
		e.sigRec = signature.NewReconciler(sc,
			signature.WithNewPackageRevisionFn(typ.nr),
			signature.WithNamespace(xpNamespace),
			signature.WithServiceAccount(xpSA),
			signature.WithDefaultRegistry("xpkg.crossplane.io"),
			signature.WithConfigStore(xpkg.NewImageConfigStore(sc, xpNamespace)),
			signature.WithValidator(e.val),
		)
	}
	return e
}

type revOpts struct {
	Name    string
	Image   string
	Ignore  *bool
	SkipDep *bool
}

func (e *env) createRevision(o revOpts) {
	spec := v1.PackageRevisionSpec{
		DesiredState:                v1.PackageRevisionActive,
		Package:                     o.Image,
		Revision:                    1,
		IgnoreCrossplaneConstraints: o.Ignore,
		SkipDependencyResolution:    o.SkipDep,
	}
	om := metav1.ObjectMeta{Name: o.Name, Labels: map[string]string{v1.LabelParentPackage: parentName}}
	var obj client.Object
	switch e.typ.Name {
	case "provider":
		obj = &v1.ProviderRevision{ObjectMeta: om, Spec: v1.ProviderRevisionSpec{PackageRevisionSpec: spec}}
	case "configuration":
		obj = &v1.ConfigurationRevision{ObjectMeta: om, Spec: v1.PackageRevisionSpec(spec)}
	case "function":
		obj = &v1.FunctionRevision{ObjectMeta: om, Spec: v1.FunctionRevisionSpec{PackageRevisionSpec: spec}}
	}
	if err := e.user.Create(context.Background(), obj); err != nil {
		panic(fmt.Sprintf("create revision: %v", err))
	}
}

func (e *env) revKey(n string) sim.Key { return sim.Key{Group: pkgGroup, Kind: e.typ.RevKind, Name: n} }

// condition reads a status condition of the stored revision ("" when absent).
func (e *env) condition(n, typ string) string {
	o := e.w.GetObj(e.revKey(n))
	if o == nil {
		return ""
	}
	st, _ := o["status"].(map[string]any)
	cs, _ := st["conditions"].([]any)
	for _, c := range cs {
		m, _ := c.(map[string]any)
		if m["type"] == typ {
			s, _ := m["status"].(string)
			return s
		}
	}
	return ""
}

func (e *env) conditionMsg(n, typ string) string {
	o := e.w.GetObj(e.revKey(n))
	st, _ := o["status"].(map[string]any)
	cs, _ := st["conditions"].([]any)
	for _, c := range cs {
		m, _ := c.(map[string]any)
		if m["type"] == typ {
			return fmt.Sprintf("%v/%v: %v", m["status"], m["reason"], m["message"])
		}
	}
	return ""
}

// setCondition writes a condition by hand (the stand-in for a controller that is not wired).
func (e *env) setCondition(n, typ, status string) {
	o := e.w.GetObj(e.revKey(n))
	pr := e.typ.nr()
	if err := runtime.DefaultUnstructuredConverter.FromUnstructured(o, pr); err != nil {
		panic(err)
	}
	pr.SetConditions(xpv1.Condition{Type: xpv1.ConditionType(typ), Status: "Unknown", Reason: "Scripted", LastTransitionTime: metav1.Unix(1700000000, 0)})
	cs := pr.GetCondition(xpv1.ConditionType(typ))
	cs.Status = coreStatus(status)
	pr.SetConditions(cs)
	if err := e.user.Status().Update(context.Background(), pr); err != nil {
		panic(fmt.Sprintf("set condition: %v", err))
	}
}

// stepResult is what one reconcile of one revision did.
type stepResult struct {
	Err      string    `json:"err,omitempty"`
	Requeue  bool      `json:"requeue,omitempty"`
	Calls    []estCall `json:"establish_calls,omitempty"`
	Pre      int       `json:"prehook_calls,omitempty"`
	Fetches  int       `json:"fetches"`
	Hung     bool      `json:"hung,omitempty"`
	Panic    string    `json:"panic,omitempty"`
	Healthy  string    `json:"healthy_condition,omitempty"`
	TaintHit []string  `json:"tainted_entries_opened,omitempty"`
}

// reconcile runs one reconcile of revision n with the production reconciler.
func (e *env) reconcile(n, image string) stepResult {
	before := e.fetch.count(refString(image))
	type out struct {
		res reconcile.Result
		err error
		pan any
	}
	ch := make(chan out, 1)
	go func() {
		var o out
		defer func() {
			if r := recover(); r != nil {
				o.pan = r
			}
			ch <- o
		}()
		o.res, o.err = e.rec.Reconcile(context.Background(), reconcile.Request{NamespacedName: types.NamespacedName{Name: n}})
	}()
	var sr stepResult
	select {
	case o := <-ch:
		if o.pan != nil {
			sr.Panic = fmt.Sprint(o.pan)
		}
		if o.err != nil {
			sr.Err = o.err.Error()
		}
		sr.Requeue = o.res.Requeue
	case <-time.After(60 * time.Second):
		sr.Hung = true
	}
	sr.Calls = e.est.take(n)
	sr.Pre = e.hooks.takePre(n)
	sr.Fetches = e.fetch.count(refString(image)) - before
	sr.Healthy = e.conditionMsg(n, "Healthy")
	return sr
}

func (e *env) reconcileSignature(n string) error {
	_, err := e.sigRec.Reconcile(context.Background(), reconcile.Request{NamespacedName: types.NamespacedName{Name: n}})
	return err
}

func refString(image string) string {
	ref, err := name.ParseReference(image, name.WithDefaultRegistry("xpkg.crossplane.io"))
	if err != nil {
		return image
	}
	return ref.String()
}

// refName is the fully qualified reference the image backend pulls for a source.
func refName(image string) string {
	ref, err := name.ParseReference(image, name.WithDefaultRegistry("xpkg.crossplane.io"))
	if err != nil {
		return image
	}
	return ref.Name()
}

func cachePath(rev string) string { return cacheDir + "/" + rev + ".gz" }
