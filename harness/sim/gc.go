package sim

import (
	"context"
	"sort"

	metav1 "k8s.io/apimachinery/pkg/apis/meta/v1"
	"k8s.io/apimachinery/pkg/apis/meta/v1/unstructured"
	"k8s.io/apimachinery/pkg/runtime"
	"k8s.io/apimachinery/pkg/runtime/schema"
	"sigs.k8s.io/controller-runtime/pkg/client"
)

// GCAction is one step the Kubernetes garbage collector could take now.
type GCAction struct {
	What string // delete-orphaned | prune-dangling | delete-blocking-dependent | finish-foreground
	Key  Key
}

// CRDCleanupFinalizer is the API server's finalizer that keeps a deleted CRD until all of its
// instances are gone.
const CRDCleanupFinalizer = "customresourcecleanup.apiextensions.k8s.io"

// instancesOf lists the keys of the stored instances of the kind a CRD defines.
func (w *World) instancesOf(crd map[string]any) []Key {
	g := str(crd, "spec", "group")
	kd := str(crd, "spec", "names", "kind")
	var out []Key
	for k := range w.objs {
		if k.Group == g && k.Kind == kd {
			out = append(out, k)
		}
	}
	return out
}

func (w *World) byUID() map[string]map[string]any {
	m := map[string]map[string]any{}
	for _, o := range w.objs {
		m[str(o, "metadata", "uid")] = o
	}
	return m
}

// GCPending lists the garbage collector's enabled actions, sorted.
func (w *World) GCPending() []GCAction {
	w.mu.Lock()
	defer w.mu.Unlock()
	uids := w.byUID()
	var out []GCAction
	for k, o := range w.objs {
		refs := OwnerRefs(o)
		if len(refs) > 0 && !Terminating(o) {
			solid, dangling := 0, 0
			for _, r := range refs {
				if _, ok := uids[str(r, "uid")]; ok {
					solid++
				} else {
					dangling++
				}
			}
			switch {
			case solid == 0:
				out = append(out, GCAction{"delete-orphaned", k})
			case dangling > 0:
				out = append(out, GCAction{"prune-dangling", k})
			}
		}
		if Terminating(o) && k.Kind == "CustomResourceDefinition" && hasFinalizer(o, CRDCleanupFinalizer) {
			inst := w.instancesOf(o)
			if len(inst) == 0 {
				out = append(out, GCAction{"crd-cleanup-finish", k})
			}
			for _, ik := range inst {
				if !Terminating(w.objs[ik]) {
					out = append(out, GCAction{"crd-cleanup-delete-instance", ik})
				}
			}
		}
		if Terminating(o) && hasFinalizer(o, metav1.FinalizerDeleteDependents) {
			blocking := w.blockingDependents(str(o, "metadata", "uid"))
			if len(blocking) == 0 {
				out = append(out, GCAction{"finish-foreground", k})
			}
			for _, bk := range blocking {
				if !Terminating(w.objs[bk]) {
					out = append(out, GCAction{"delete-blocking-dependent", bk})
				}
			}
		}
	}
	sort.Slice(out, func(i, j int) bool {
		if out[i].Key.String() != out[j].Key.String() {
			return out[i].Key.String() < out[j].Key.String()
		}
		return out[i].What < out[j].What
	})
	return out
}

func hasFinalizer(o map[string]any, f string) bool {
	fs, _, _ := unstructured.NestedStringSlice(o, "metadata", "finalizers")
	for _, x := range fs {
		if x == f {
			return true
		}
	}
	return false
}

func (w *World) blockingDependents(uid string) []Key {
	var out []Key
	for k, o := range w.objs {
		for _, r := range OwnerRefs(o) {
			if str(r, "uid") == uid {
				if b, _ := r["blockOwnerDeletion"].(bool); b {
					out = append(out, k)
				}
			}
		}
	}
	return out
}

// GCDo performs one garbage-collector action through the "gc" actor's client.
func (w *World) GCDo(a GCAction) error {
	c := w.Client("gc")
	c.Manager = "kube-controller-manager"
	o := w.GetObj(a.Key)
	if o == nil {
		return nil
	}
	u := &unstructured.Unstructured{Object: runtime.DeepCopyJSON(o)}
	ctx := context.Background()
	switch a.What {
	case "delete-orphaned", "delete-blocking-dependent":
		uid := u.GetUID()
		pol := metav1.DeletePropagationBackground
		w.mu.Lock()
		if len(w.blockingDependents(string(uid))) > 0 && a.What == "delete-blocking-dependent" {
			pol = metav1.DeletePropagationForeground
		}
		w.mu.Unlock()
		return client.IgnoreNotFound(c.Delete(ctx, u, client.Preconditions{UID: &uid}, client.PropagationPolicy(pol)))
	case "prune-dangling":
		w.mu.Lock()
		uids := w.byUID()
		w.mu.Unlock()
		var keep []any
		for _, r := range OwnerRefs(o) {
			if _, ok := uids[str(r, "uid")]; ok {
				keep = append(keep, r)
			}
		}
		unstructured.SetNestedSlice(u.Object, keep, "metadata", "ownerReferences") //nolint:errcheck
		return client.IgnoreNotFound(c.Update(ctx, u))
	case "crd-cleanup-delete-instance":
		return client.IgnoreNotFound(c.Delete(ctx, u))
	case "crd-cleanup-finish":
		fs, _, _ := unstructured.NestedStringSlice(u.Object, "metadata", "finalizers")
		var keep []string
		for _, f := range fs {
			if f != CRDCleanupFinalizer {
				keep = append(keep, f)
			}
		}
		u.SetFinalizers(keep)
		return client.IgnoreNotFound(c.Update(ctx, u))
	case "finish-foreground":
		fs, _, _ := unstructured.NestedStringSlice(u.Object, "metadata", "finalizers")
		var keep []string
		for _, f := range fs {
			if f != metav1.FinalizerDeleteDependents {
				keep = append(keep, f)
			}
		}
		u.SetFinalizers(keep)
		return client.IgnoreNotFound(c.Update(ctx, u))
	}
	return nil
}

// GCRun runs the garbage collector until nothing is pending (bounded); returns actions done.
func (w *World) GCRun(max int) int {
	n := 0
	for n < max {
		p := w.GCPending()
		if len(p) == 0 {
			break
		}
		_ = w.GCDo(p[0])
		n++
	}
	return n
}

// FindByUID returns the key of the object with the given uid.
func (v *View) FindByUID(uid string) (Key, bool) {
	for k, o := range v.w.objs {
		if str(o, "metadata", "uid") == uid {
			return k, true
		}
	}
	return Key{}, false
}

// ControlledBy lists objects whose controller reference names uid.
func (v *View) ControlledBy(uid string) []Key {
	var out []Key
	for _, k := range v.Keys() {
		if c := ControllerOf(v.w.objs[k]); c != nil && str(c, "uid") == uid {
			out = append(out, k)
		}
	}
	return out
}

// GKs lists the group-kinds present in the store.
func (v *View) GKs() []schema.GroupKind {
	seen := map[schema.GroupKind]bool{}
	var out []schema.GroupKind
	for _, k := range v.Keys() {
		if !seen[k.GK()] {
			seen[k.GK()] = true
			out = append(out, k.GK())
		}
	}
	return out
}
